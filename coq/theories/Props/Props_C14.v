(** C14 -- the dev database is never damaged: refused if not empty (and then
    untouched), always handed back empty; replaying never writes the directory.

    Subject: the Gallina transcription (Dev/DevSession.v) of sqlite
    Driver.Snapshot (after fix C14-hidden-table), Executor.Replay,
    DevDriver.NormalizeSchema/NormalizeRealm, DevLoader.LoadChanges and of the
    session sequences of `migrate validate`, `migrate lint`, `migrate diff`,
    `schema diff`, `schema apply`, `schema inspect` and Planner.Checkpoint.
    Only statements, [exact] and [Print Assumptions] live here.

    Round 3: a session does not only execute statements, it also *reads* the
    state afterwards (Replay: r.ReadState; Normalize*: InspectRealm/
    InspectSchema; DevLoader: d.inspect after the base files and after every
    statement).  That read is an op of every body ([OInspect]) and can fail
    although every statement succeeded (an object the inspector cannot parse, a
    malformed --exclude pattern).  All theorems below quantify over bodies with
    such ops, so "handed back empty" covers the exit "inspection failed"
    ([OInspectFail]); C14_inspect_failure_restores names it.  Snapshot's own
    inspection can fail as well ([OSnapshotFail]): then, as with a refusal,
    nothing at all is issued.

    "Contains anything" is read as: sqlite_master holds a row that does not
    belong to a bookkeeping table of the engine ([prop_clean d = false]).
    sqlite_sequence cannot be dropped by any statement and `atlas schema clean`
    leaves it (and sqlite_stat1) behind, so a reading that counts them would
    make Atlas refuse databases it emptied itself; SQLite reserves the prefix
    "sqlite_" (no user object can carry it).  "Empty" at the end is read
    strictly: no sqlite_master row at all. *)
From Coq Require Import List NArith Bool Arith.
From Atlas Require Import Base.Bytes Dev.DevSession Dev.DevProofs.
Import ListNotations.

(** 0. Snapshot's verdict against the property's notion.  Whatever Snapshot
    accepts holds nothing but engine bookkeeping (no premise); on a
    sqlite_master-shaped database (tbl_name of a table row is its name) the two
    notions coincide, i.e. Atlas does not refuse what `schema clean` or SQLite
    itself leaves behind either. *)
Theorem C14_clean_sound :
  forall d : db, code_clean d = true -> forall o, In o d -> bookkeeping o = true.
Proof.
  intros d H. apply forallb_forall. exact (code_clean_sound d H).
Qed.

Theorem C14_clean_coincide :
  forall d : db, wf_db d -> code_clean d = prop_clean d.
Proof. exact clean_coincide. Qed.

(** ... and Snapshot as a whole (its InspectRealm may fail) accepts exactly
    those: nothing of a bookkeeping table is ever parsed by the inspection. *)
Theorem C14_snapshot_coincide :
  forall d : db, wf_db d -> (snapshot d = VClean <-> prop_clean d = true).
Proof. exact snapshot_coincide. Qed.

(** 0'. What "engine bookkeeping" is, as a predicate on names -- the only
    objects a dev database may hold and still be accepted: the table name
    starts with the seven characters "sqlite_" in any letter case (SQLite
    itself reserves exactly these names: CREATE TABLE SQLITE_FOO is rejected
    with "object name reserved for internal use"), or is exactly
    "libsql_wasm_func_table".  Nothing else -- not a leading underscore
    (_prisma_migrations), a leading digit, a quoted name, "sqlite_"/"libsql_"
    in the middle of a name, "SQLITE"/"LIBSQL_x", Atlas' own
    atlas_schema_revisions -- and one such object is enough, whatever else the
    database holds and whatever the inspection can or cannot see: Snapshot
    does not accept (the sessions then leave it untouched: 1. below). *)
Theorem C14_bookkeeping_names :
  forall o : obj,
  bookkeeping o = true <->
  (exists pre rest, o_tbl o = pre ++ rest /\ length pre = 7 /\ map lower pre = b_sqlite_) \/ o_tbl o = b_wasm.
Proof. exact bookkeeping_names. Qed.

Theorem C14_nonbookkeeping_never_accepted :
  forall (d : db) (o : obj), In o d -> bookkeeping o = false -> snapshot d <> VClean.
Proof. exact nonbookkeeping_never_accepted. Qed.

(** 1. Non-empty => refused and completely untouched.  Full statement, for
    every command (any session list [ss]), every body and all fault streams:
    if the database holds any object that is not engine bookkeeping, the first
    session refuses, nothing at all is issued (the event trace is empty: no
    write, no restore), the database and both fault streams are returned as
    they were.  (Before fix C14-hidden-table this needed the premise "no table
    named LIKE 'sqlite_%'/'libsql_%'" and was refuted without it.)
    The way it declines is [decline_of d]: "not clean" ([ORefused]), or -- when
    Snapshot's own InspectRealm cannot read the database -- the inspector's
    error ([OSnapshotFail]); in both cases before any write. *)
Theorem C14_refuse_untouched :
  forall (d : db) (ss : list sess) (fs : faults) (rs : list bool),
  (exists o, In o d /\ bookkeeping o = false) ->
  run_sessions ss fs rs d = (match ss with [] => OOk | _ => decline_of d end, d, fs, rs, []) /\
  declined (decline_of d) = true.
Proof.
  intros d ss fs rs H. split; [|apply decline_of_declined].
  apply run_sessions_refused, not_prop_clean_declined.
  apply prop_clean_false_iff. exact H.
Qed.

Theorem C14_refuse_untouched_cmd :
  forall (norm : normalizer) (c : command) (excl : bool) (dir : mdir) (from to : source) (changes : bool)
         (fs : faults) (rs : list bool) (d : db),
  prop_clean d = false ->
  sessions_of norm c excl dir from to <> [] ->
  run_cmd norm c excl dir from to changes fs rs d = (decline_of d, d, []) /\
  (decline_of d = ORefused \/ decline_of d = OSnapshotFail).
Proof.
  intros norm c excl dir from to changes fs rs d H Hne. split.
  - exact (run_cmd_refused norm c excl dir from to changes fs rs d (not_prop_clean_declined d H) Hne).
  - unfold decline_of. destruct (unreadable d); [right|left]; reflexivity.
Qed.

(** the same for whatever Snapshot does not accept, including a database its
    inspection cannot read although the property would call it empty *)
Theorem C14_declined_untouched :
  forall (d : db) (ss : list sess) (fs : faults) (rs : list bool),
  snapshot d <> VClean ->
  run_sessions ss fs rs d = (match ss with [] => OOk | _ => decline_of d end, d, fs, rs, []).
Proof. intros d ss fs rs H. exact (run_sessions_refused ss fs rs d H). Qed.

(** which commands open at least one session: all of them, except schema
    diff/apply/inspect none of whose sources needs the dev database (database
    URLs; HCL files on a driver that is not a schema.Normalizer -- SQLite).
    Those never touch the dev database (C14_untouched_without_events). *)
Theorem C14_sessions_nonempty :
  forall norm c excl dir from to,
  match c with
  | CValidate | CLint _ | CDiff | CCheckpoint => True
  | CSchemaDiff => replays from \/ replays to \/ normalizes norm from \/ normalizes norm to
  | CSchemaApply => replays to \/ normalizes norm to
  | CSchemaInspect => replays from \/ normalizes norm from
  end -> sessions_of norm c excl dir from to <> [].
Proof. exact sessions_of_nonempty. Qed.

(** trace level: whatever the command, the sources and the fault streams, the
    database is exactly what it was unless a write succeeded or a restore
    reached its DELETE (so a refused or read-only run changes nothing). *)
Theorem C14_untouched_without_events :
  forall norm c excl dir from to changes fs rs d o d' es,
  run_cmd norm c excl dir from to changes fs rs d = (o, d', es) ->
  existsb touching es = false -> d' = d.
Proof. exact run_cmd_untouched. Qed.

(** 2. Otherwise the database is handed back empty.  For every sequence of
    sessions (each with restores nested in its body wherever LoadChanges puts
    them), every accepted start (empty, or engine bookkeeping only), every
    body and every fault stream [fs] over the replay/normalisation statements
    and over the reads of the state (each of which fails in any case when the
    database holds something the inspector cannot parse) -- i.e. whichever
    statement or read fails, in whichever session -- the final state
    is strictly empty, the run ends with a complete restore and is never
    reported as refused.  [rs = []]: no statement of a RestoreFunc fails.
    The bodies range over reads ([OInspect]) too: the exit "all statements
    succeeded, the inspection afterwards failed" is one of the exits covered. *)
Theorem C14_handed_back_empty :
  forall (ss : list sess) (fs : faults) (d : db),
  snapshot d = VClean -> ss <> [] ->
  exists o fs' es, run_sessions ss fs [] d = (o, [], fs', [], es ++ [ERestore 4]) /\
                   o <> ORefused /\ o <> OSnapshotFail /\ o <> ORestoreFail.
Proof.
  intros ss fs d Hc Hne. destruct (run_sessions_nofault ss fs d Hc Hne) as [o [fs' [es [E [Hd Hr]]]]].
  exists o, fs', es. split; [exact E|]. repeat split; try exact Hr; intros ->; discriminate.
Qed.

(** 2a. The exit itself.  Whenever a session ends with "inspection failed":
    it had been accepted, none of its statements (and no mid-session restore)
    failed -- every event before the last is a success --, the outcome names a
    read op of its body, and the last thing that happened is the RestoreFunc;
    the database is empty if that reached its DELETE, and with no restore
    fault it ran to its end (k = 4).  Same for any session list / command. *)
Theorem C14_inspect_failure_restores :
  forall (s : sess) (fs : faults) (rs : list bool) (d : db) m d' fs' rs' es,
  run_session s fs rs d = (OInspectFail m, d', fs', rs', es) ->
  snapshot d = VClean /\
  exists es0 k, es = es0 ++ [ERestore k] /\ forallb ok_event es0 = true /\
                (exists bad, In (OInspect m bad) (s_body s)) /\
                (2 <= k -> d' = []) /\ (rs = [] -> k = 4 /\ d' = []).
Proof. exact run_session_inspect_fail. Qed.

Theorem C14_inspect_failure_restores_cmd :
  forall norm c excl dir from to changes fs rs d m d' es,
  run_cmd norm c excl dir from to changes fs rs d = (OInspectFail m, d', es) ->
  exists es0 k, es = es0 ++ [ERestore k] /\ (2 <= k -> d' = []) /\ (rs = [] -> k = 4 /\ d' = []).
Proof. exact run_cmd_inspect_fail. Qed.

Theorem C14_handed_back_empty_cmd :
  forall norm c excl dir from to changes fs o d' es,
  run_cmd norm c excl dir from to changes fs [] [] = (o, d', es) -> d' = [].
Proof. exact run_cmd_from_empty. Qed.

Theorem C14_handed_back_empty_cmd_bookkeeping :
  forall norm c excl dir from to changes fs d o d' es,
  wf_db d -> prop_clean d = true ->
  sessions_of norm c excl dir from to <> [] ->
  run_cmd norm c excl dir from to changes fs [] d = (o, d', es) -> d' = [].
Proof.
  intros norm c excl dir from to changes fs d o d' es Hwf Hp Hne.
  exact (run_cmd_handed_back norm c excl dir from to changes fs d o d' es
           (snapshot_complete d Hwf Hp) Hne).
Qed.

(** 2'. Decision recorded for a failing restore (outside the property's
    quantifier, which ranges over the statements of the replay): for all
    fault streams, also over the four statements of every RestoreFunc, the
    last thing that happens to the dev database of an accepted run is a
    restore; the database is empty iff that restore reached its DELETE
    (k >= 2: a failing `PRAGMA writable_schema = 0` or VACUUM leaves it
    logically empty), otherwise it is left as the replay left it -- and then
    the command reports the restore error, except through NormalizeSchema
    (unnamed results: the error is dropped), where a following session refuses
    the dirty database. *)
Theorem C14_restore_always_runs :
  forall norm c excl dir from to changes (fs : faults) (rs : list bool) (d : db),
  snapshot d = VClean -> sessions_of norm c excl dir from to <> [] ->
  exists o d' es k tail,
    run_cmd norm c excl dir from to changes fs rs d = (o, d', es ++ [ERestore k] ++ tail) /\
    (2 <= k -> d' = []) /\ (declined o = true -> k < 2) /\ (tail = [] \/ tail = [EDirWrite]).
Proof. exact run_cmd_restore_last. Qed.

(** 3. Replaying never writes the directory: no session of any command emits
    a directory write, whatever happens; a command that is not `migrate diff`
    / Planner.Checkpoint never writes it; those two write it once, after the
    last session was closed, only on success and only with a non-empty plan. *)
Theorem C14_dir_readonly :
  forall (ss : list sess) (fs : faults) (rs : list bool) (d : db) o d' fs' rs' es,
  run_sessions ss fs rs d = (o, d', fs', rs', es) -> ~ In EDirWrite es.
Proof. exact run_sessions_no_dirwrite. Qed.

Theorem C14_dir_readonly_cmd :
  forall norm c excl dir from to changes fs rs d o d' es,
  run_cmd norm c excl dir from to changes fs rs d = (o, d', es) ->
  (writes_dir c = false \/ o <> OOk \/ changes = false) -> ~ In EDirWrite es.
Proof. exact run_cmd_dir_readonly. Qed.

Theorem C14_dir_written_only_by_plan :
  forall norm c excl dir from to changes fs rs d o d' es,
  run_cmd norm c excl dir from to changes fs rs d = (o, d', es) ->
  exists es0, ~ In EDirWrite es0 /\
    ((es = es0 /\ (writes_dir c = false \/ o <> OOk \/ changes = false)) \/
     (es = es0 ++ [EDirWrite] /\ writes_dir c = true /\ o = OOk /\ changes = true)).
Proof. exact run_cmd_dirwrite. Qed.

Print Assumptions C14_clean_sound.
Print Assumptions C14_clean_coincide.
Print Assumptions C14_snapshot_coincide.
Print Assumptions C14_bookkeeping_names.
Print Assumptions C14_nonbookkeeping_never_accepted.
Print Assumptions C14_refuse_untouched.
Print Assumptions C14_declined_untouched.
Print Assumptions C14_inspect_failure_restores.
Print Assumptions C14_inspect_failure_restores_cmd.
Print Assumptions C14_refuse_untouched_cmd.
Print Assumptions C14_sessions_nonempty.
Print Assumptions C14_untouched_without_events.
Print Assumptions C14_handed_back_empty.
Print Assumptions C14_handed_back_empty_cmd.
Print Assumptions C14_handed_back_empty_cmd_bookkeeping.
Print Assumptions C14_restore_always_runs.
Print Assumptions C14_dir_readonly.
Print Assumptions C14_dir_readonly_cmd.
Print Assumptions C14_dir_written_only_by_plan.

(** Non-vacuity. *)
Definition ex_t0 : bytes := [116; 48]%N.
Definition ex_i0 : bytes := [105; 48]%N.
Definition ex_v0 : bytes := [118; 48]%N.
Definition ex_g0 : bytes := [103; 48]%N.
Definition ex_libsql : bytes := [108; 105; 98; 115; 113; 108; 95; 117]%N.  (* "libsql_u" *)
Definition ex_sqlitedb : bytes := [115; 113; 108; 105; 116; 101; 100; 98]%N.  (* "sqlitedb" *)
Definition ex_seq : bytes :=   (* "sqlite_sequence" *)
  [115; 113; 108; 105; 116; 101; 95; 115; 101; 113; 117; 101; 110; 99; 101]%N.
Definition ex_user_db : db :=
  [mkObj KTable ex_t0 ex_t0 3 true; mkObj KIndex ex_i0 ex_t0 0 true; mkObj KTrigger ex_g0 ex_t0 0 true].
Definition ex_dir : mdir := [mkMFile false [(1, SCreateTable ex_t0); (2, SInsert ex_t0)]].
Definition ex_dir2 : mdir :=
  [mkMFile false [(1, SCreateTable ex_t0); (2, SCreateIndex ex_i0 ex_t0); (3, SCreateView ex_v0)];
   mkMFile false [(4, SCreateTrigger ex_g0 ex_t0); (5, SInsert ex_t0); (6, SInsert ex_t0); (7, SDropTable ex_t0)]].

(* the verdicts: the former witnesses of the hole are refused, the residue of
   AUTOINCREMENT tables is accepted *)
Example C14_clean_nonvacuous :
  code_clean [mkObj KTable ex_libsql ex_libsql 2 true] = false /\
  code_clean [mkObj KTable ex_sqlitedb ex_sqlitedb 1 true; mkObj KIndex ex_i0 ex_sqlitedb 0 true] = false /\
  code_clean [mkObj KView ex_v0 ex_v0 0 true] = false /\
  code_clean [mkObj KTable ex_seq ex_seq 0 true] = true /\ code_clean [mkObj KTable b_wasm b_wasm 0 true] = true /\
  hidden_name ex_libsql = true /\ hidden_name ex_sqlitedb = true.
Proof. vm_compute. repeat split. Qed.

(* Snapshot as a whole: its inspection fails on a visible table it cannot parse (also next to
   bookkeeping), not on a hidden one; bookkeeping only is accepted; a view is "not clean" *)
Example C14_snapshot_nonvacuous :
  snapshot [mkObj KTable ex_seq ex_seq 0 true; mkObj KTable ex_t0 ex_t0 0 false] = VInspectErr /\
  snapshot [mkObj KTable ex_t0 ex_t0 0 true; mkObj KIndex ex_i0 ex_t0 0 false] = VInspectErr /\
  snapshot [mkObj KTable ex_sqlitedb ex_sqlitedb 0 false] = VNotClean /\
  snapshot [mkObj KView ex_v0 ex_v0 0 false] = VNotClean /\
  snapshot [mkObj KTable ex_seq ex_seq 0 true] = VClean /\ snapshot [] = VClean /\
  prop_clean [mkObj KTable ex_seq ex_seq 0 true] = true.
Proof. vm_compute. repeat split. Qed.

(* a user database -- also one the inspection cannot see -- is refused, untouched *)
Example C14_refuse_nonvacuous :
  run_cmd NoNorm (CLint 1) false ex_dir2 SrcNone SrcNone false ([], []) [] ex_user_db = (ORefused, ex_user_db, []) /\
  run_cmd NoNorm CValidate false ex_dir SrcNone SrcNone false ([], []) [] [mkObj KTable ex_libsql ex_libsql 2 true]
    = (ORefused, [mkObj KTable ex_libsql ex_libsql 2 true], []) /\
  (* a table Snapshot's inspection cannot read: declined with the inspector's error, untouched *)
  run_cmd NoNorm CValidate false ex_dir SrcNone SrcNone false ([], []) [] [mkObj KTable ex_t0 ex_t0 1 false]
    = (OSnapshotFail, [mkObj KTable ex_t0 ex_t0 1 false], []) /\
  (* ... unless the inspection never looks at it (hidden name): plain refusal *)
  run_cmd NoNorm CValidate false ex_dir SrcNone SrcNone false ([], []) [] [mkObj KTable ex_sqlitedb ex_sqlitedb 1 false]
    = (ORefused, [mkObj KTable ex_sqlitedb ex_sqlitedb 1 false], []).
Proof. vm_compute. repeat split. Qed.

(* statement 6 (second insert: UNIQUE violation) fails with a table, an index,
   a view, a trigger and a row in place; everything is gone afterwards; the
   same from a database holding the sqlite_sequence residue *)
Example C14_handed_back_nonvacuous :
  run_cmd NoNorm CValidate false ex_dir2 SrcNone SrcNone false ([], []) [] [] =
    (OFail 6, [], [EWrite 1 true; EWrite 2 true; EWrite 3 true; EWrite 4 true; EWrite 5 true;
                   EWrite 6 false; ERestore 4]) /\
  run_cmd NoNorm CValidate false ex_dir SrcNone SrcNone false ([], []) [] [mkObj KTable ex_seq ex_seq 0 true] =
    (OOk, [], [EWrite 1 true; EWrite 2 true; ERestore 4]).
Proof. vm_compute. split; reflexivity. Qed.

(* a failing restore: DELETE fails -> the table stays and the error is reported;
   VACUUM fails -> empty, error reported; through NormalizeSchema the error is
   dropped and the next session refuses the dirty database *)
Example C14_restore_fault_nonvacuous :
  run_cmd NoNorm CValidate false ex_dir SrcNone SrcNone false ([], []) [false; true] [] =
    (ORestoreFail, [mkObj KTable ex_t0 ex_t0 1 true], [EWrite 1 true; EWrite 2 true; ERestore 1]) /\
  run_cmd NoNorm CValidate false ex_dir SrcNone SrcNone false ([], []) [false; false; false; true] [] =
    (ORestoreFail, [], [EWrite 1 true; EWrite 2 true; ERestore 3]) /\
  run_cmd NormSchema CSchemaDiff false [] (SrcHCL [mkHTable 1 ex_t0 [] false]) (SrcHCL [mkHTable 2 ex_t0 [] false])
          false ([], []) [true] [] =
    (ORefused, [mkObj KTable ex_t0 ex_t0 0 true], [EWrite 1 true; ERestore 0]).
Proof. vm_compute. repeat split. Qed.

(* nothing succeeded (read-only connection): nothing changed *)
Example C14_untouched_nonvacuous :
  run_cmd NoNorm CValidate false ex_dir SrcNone SrcNone false ([true], []) [true] [] =
    (OFail 1, [], [EWrite 1 false; ERestore 0]).
Proof. vm_compute. reflexivity. Qed.

(* migrate diff against an SQL schema: two sessions, then the plan is written;
   against an HCL schema on a normalising driver: replay, then normalise *)
Example C14_dir_nonvacuous :
  run_cmd NoNorm CDiff false [mkMFile false [(1, SCreateTable ex_t0)]] SrcNone
          (SrcSQL [(2, SCreateTable ex_t0); (3, SCreateView ex_v0)]) true ([], []) [] [] =
    (OOk, [], [EWrite 2 true; EWrite 3 true; ERestore 4; EWrite 1 true; ERestore 4; EDirWrite]) /\
  run_cmd NormRealm CDiff false [mkMFile false [(1, SCreateTable ex_t0)]] SrcNone
          (SrcHCL [mkHTable 2 ex_t0 [(3, ex_i0)] false]) true ([], []) [] [] =
    (OOk, [], [EWrite 1 true; ERestore 4; EWrite 2 true; EWrite 3 true; ERestore 4; EDirWrite]) /\
  run_cmd NoNorm CCheckpoint false [mkMFile false [(1, SCreateTable ex_t0)]] SrcNone SrcNone true ([], []) [] [] =
    (OOk, [], [EWrite 1 true; ERestore 4; EDirWrite]) /\
  run_cmd NoNorm CSchemaInspect false [] (SrcSQL [(1, SCreateTable ex_t0)]) SrcNone true ([], []) [] [] =
    (OOk, [], [EWrite 1 true; ERestore 4]).
Proof. vm_compute. repeat split. Qed.

(* lint restores in mid-session before a checkpoint file *)
Example C14_lint_checkpoint_nonvacuous :
  run_cmd NoNorm (CLint 2) false [mkMFile false [(1, SCreateTable ex_t0)];
                            mkMFile true [(2, SCreateTable ex_t0)]] SrcNone SrcNone false ([true; false], []) [] [] =
    (OFail 1, [], [EWrite 1 false; ERestore 4]) /\
  run_cmd NoNorm (CLint 2) false [mkMFile false [(1, SCreateTable ex_t0)];
                            mkMFile true [(2, SCreateTable ex_t0)]] SrcNone SrcNone false ([], []) [] [] =
    (OOk, [], [EWrite 1 true; ERestore 4; EWrite 2 true; ERestore 4]) /\
  run_cmd NoNorm (CLint 2) false [mkMFile false [(1, SCreateTable ex_t0)];
                            mkMFile true [(2, SCreateTable ex_t0)]] SrcNone SrcNone false ([], []) [true] [] =
    (ORestoreFail, [], [EWrite 1 true; ERestore 0; ERestore 4]).
Proof. vm_compute. repeat split. Qed.

(* the exit "all statements succeeded, the inspection afterwards failed":
   - Replay (validate): the table with the unparsable column is created, the row inserted, ReadState fails;
   - the same although a later statement dropped nothing (index written with a lower-case where);
   - Replay inspects only at the end: a table created and dropped again does not fail it;
   - DevLoader (lint) inspects after every statement: the same file fails right after statement 1,
     statement 2 is never executed;
   - a file of more than 10 statements as the first file is inspected once, at its end;
   - schema inspect with a malformed --exclude: fails iff there is a table to match;
   - NormalizeRealm/NormalizeSchema: the inspection after ApplyChanges fails;
   - migrate diff: the desired state is read first, the directory is never replayed nor written. *)
Definition ex_dirU : mdir := [mkMFile false [(1, SCreateTableU ex_t0); (2, SInsert ex_t0)]].
Definition ex_dirUD : mdir := [mkMFile false [(1, SCreateTableU ex_t0); (2, SDropTable ex_t0)]].
Definition ex_long : list (nat * stmt) :=
  [(1, SCreateTableU ex_t0); (2, SDropTable ex_t0); (3, SCreateTable ex_t0); (4, SDropTable ex_t0);
   (5, SCreateTable ex_t0); (6, SDropTable ex_t0); (7, SCreateTable ex_t0); (8, SDropTable ex_t0);
   (9, SCreateTable ex_t0); (10, SDropTable ex_t0); (11, SCreateTable ex_t0)].
Example C14_inspect_failure_nonvacuous :
  run_cmd NoNorm CValidate false ex_dirU SrcNone SrcNone false ([], []) [] [] =
    (OInspectFail 0, [], [EWrite 1 true; EWrite 2 true; ERestore 4]) /\
  run_cmd NoNorm CValidate false [mkMFile false [(1, SCreateTable ex_t0); (2, SCreateIndexU ex_i0 ex_t0); (3, SCreateView ex_v0)]]
          SrcNone SrcNone false ([], []) [] [mkObj KTable ex_seq ex_seq 0 true] =
    (OInspectFail 0, [], [EWrite 1 true; EWrite 2 true; EWrite 3 true; ERestore 4]) /\
  run_cmd NoNorm CValidate false ex_dirUD SrcNone SrcNone false ([], []) [] [] =
    (OOk, [], [EWrite 1 true; EWrite 2 true; ERestore 4]) /\
  run_cmd NoNorm (CLint 1) false ex_dirUD SrcNone SrcNone false ([], []) [] [] =
    (OInspectFail 1, [], [EWrite 1 true; ERestore 4]) /\
  run_cmd NoNorm (CLint 1) false [mkMFile false ex_long] SrcNone SrcNone false ([], []) [] [] =
    (OOk, [], [EWrite 1 true; EWrite 2 true; EWrite 3 true; EWrite 4 true; EWrite 5 true; EWrite 6 true;
               EWrite 7 true; EWrite 8 true; EWrite 9 true; EWrite 10 true; EWrite 11 true; ERestore 4]) /\
  run_cmd NoNorm CSchemaInspect true [] (SrcSQL [(1, SCreateTable ex_t0)]) SrcNone false ([], []) [] [] =
    (OInspectFail 0, [], [EWrite 1 true; ERestore 4]) /\
  run_cmd NoNorm CSchemaInspect true [] (SrcSQL [(1, SCreateView ex_v0)]) SrcNone false ([], []) [] [] =
    (OOk, [], [EWrite 1 true; ERestore 4]) /\
  run_cmd NormRealm CSchemaApply false [] SrcNone (SrcHCL [mkHTable 1 ex_t0 [(2, ex_i0)] true]) false ([], []) [] [] =
    (OInspectFail 0, [], [EWrite 1 true; EWrite 2 true; ERestore 4]) /\
  run_cmd NormSchema CSchemaApply false [] SrcNone (SrcHCL [mkHTable 1 ex_t0 [] true]) false ([], []) [] [] =
    (OInspectFail 0, [], [EWrite 1 true; ERestore 4]) /\
  run_cmd NoNorm CDiff false ex_dir SrcNone (SrcSQL [(3, SCreateTableU ex_t0)]) true ([], []) [] [] =
    (OInspectFail 0, [], [EWrite 3 true; ERestore 4]).
Proof. vm_compute. repeat split. Qed.

(* the same exit with a failing restore: the DELETE fails -> the unreadable table stays (and the
   next command's Snapshot fails on it); only VACUUM fails -> empty; the inspector's error is what
   is reported in both cases *)
Example C14_inspect_failure_restore_fault_nonvacuous :
  run_cmd NoNorm CValidate false ex_dirU SrcNone SrcNone false ([], []) [false; true] [] =
    (OInspectFail 0, [mkObj KTable ex_t0 ex_t0 1 false], [EWrite 1 true; EWrite 2 true; ERestore 1]) /\
  run_cmd NoNorm CValidate false ex_dirU SrcNone SrcNone false ([], []) [false; false; false; true] [] =
    (OInspectFail 0, [], [EWrite 1 true; EWrite 2 true; ERestore 3]) /\
  run_cmd NormSchema CSchemaDiff false [] (SrcHCL [mkHTable 1 ex_t0 [] true]) (SrcHCL [mkHTable 2 ex_t0 [] false])
          false ([], []) [true] [] =
    (OInspectFail 0, [mkObj KTable ex_t0 ex_t0 0 false], [EWrite 1 true; ERestore 0]).
Proof. vm_compute. repeat split. Qed.

(* a read hit by a fault (lost connection between the last statement and the inspection): nothing
   unparsable anywhere, every statement succeeded, the second read of the command fails *)
Example C14_read_fault_nonvacuous :
  run_cmd NoNorm CValidate false ex_dir SrcNone SrcNone false ([], [false; true]) [] [] =
    (OInspectFail 0, [], [EWrite 1 true; EWrite 2 true; ERestore 4]) /\
  (* Pending's CheckClean -- a read inside the session, before the first statement *)
  run_cmd NoNorm CValidate false ex_dir SrcNone SrcNone false ([], [true]) [] [] =
    (OInspectFail 0, [], [ERestore 4]) /\
  run_cmd NoNorm CDiff false [mkMFile false [(1, SCreateTable ex_t0)]] SrcNone
          (SrcSQL [(2, SCreateTable ex_t0); (3, SCreateView ex_v0)]) true ([], [false; false; false; true]) [] [] =
    (OInspectFail 0, [], [EWrite 2 true; EWrite 3 true; ERestore 4; EWrite 1 true; ERestore 4]) /\
  run_cmd NormRealm CSchemaApply false [] SrcNone (SrcHCL [mkHTable 1 ex_t0 [(2, ex_i0)] false]) false ([], [true]) [true] [] =
    (OInspectFail 0, [mkObj KTable ex_t0 ex_t0 0 true; mkObj KIndex ex_i0 ex_t0 0 true], [EWrite 1 true; EWrite 2 true; ERestore 0]).
Proof. vm_compute. repeat split. Qed.

(* the name classes: none of them is engine bookkeeping, each is refused as a lone table with rows
   and as a lone view, also next to real bookkeeping, also when the inspection hides the name;
   SQLITE_FOO *would* count as bookkeeping -- the engine does not let anybody create it *)
Definition ex_n_us : bytes := [95; 112; 114; 105; 115; 109; 97; 95; 109; 105; 103; 114; 97; 116; 105; 111; 110; 115]%N.  (* _prisma_migrations *)
Definition ex_n_digit : bytes := [49; 97; 98; 99]%N.  (* 1abc *)
Definition ex_n_space : bytes := [109; 121; 32; 116; 97; 98; 108; 101]%N.  (* my table *)
Definition ex_n_mid : bytes := [120; 95; 115; 113; 108; 105; 116; 101; 95; 121]%N.  (* x_sqlite_y *)
Definition ex_n_midl : bytes := [109; 121; 95; 108; 105; 98; 115; 113; 108; 95; 116]%N.  (* my_libsql_t *)
Definition ex_n_S6 : bytes := [83; 81; 76; 73; 84; 69]%N.  (* SQLITE *)
Definition ex_n_L : bytes := [76; 73; 66; 83; 81; 76; 95; 120]%N.  (* LIBSQL_x *)
Definition ex_n_wasm1 : bytes := [108; 105; 98; 115; 113; 108; 95; 119; 97; 115; 109; 95; 102; 117; 110; 99; 95; 116; 97; 98; 108]%N.  (* libsql_wasm_func_tabl *)
Definition ex_n_rev : bytes := [97; 116; 108; 97; 115; 95; 115; 99; 104; 101; 109; 97; 95; 114; 101; 118; 105; 115; 105; 111; 110; 115]%N.  (* atlas_schema_revisions *)
Definition ex_n_SF : bytes := [83; 81; 76; 73; 84; 69; 95; 70; 79; 79]%N.  (* SQLITE_FOO *)
Definition ex_name_classes : list bytes := [ex_n_us; ex_n_digit; ex_n_space; ex_n_mid; ex_n_midl; ex_n_S6; ex_n_L; ex_n_wasm1; ex_n_rev].
Example C14_name_classes_nonvacuous :
  forallb (fun n => negb (bookkeeping (mkObj KTable n n 2 true))) ex_name_classes = true /\
  forallb (fun n => match snapshot [mkObj KTable n n 2 true] with VNotClean => true | _ => false end) ex_name_classes = true /\
  forallb (fun n => match snapshot [mkObj KView n n 0 true] with VNotClean => true | _ => false end) ex_name_classes = true /\
  forallb (fun n => match snapshot [mkObj KTable ex_seq ex_seq 0 true; mkObj KTable n n 2 true] with VNotClean => true | _ => false end)
          ex_name_classes = true /\
  hidden_name ex_n_L = true /\ hidden_name ex_n_wasm1 = true /\ hidden_name ex_n_us = false /\
  bookkeeping (mkObj KTable ex_n_SF ex_n_SF 0 true) = true /\
  run_cmd NoNorm CValidate false ex_dir SrcNone SrcNone false ([], []) [] [mkObj KTable ex_n_us ex_n_us 2 true]
    = (ORefused, [mkObj KTable ex_n_us ex_n_us 2 true], []).
Proof. vm_compute. repeat split. Qed.

(** ------------------------------------------------------------------------
    Round 5 (a): scripts that carry their own BEGIN / COMMIT / ROLLBACK
    (Dev/DevTxModel.v).  Executor.Replay sends the statements of a migration
    file one by one, outside any transaction of its own; a transaction the
    script opened and did not close (its COMMIT comes after a failing
    statement, or is missing) is still open when the deferred RestoreFunc
    runs: its VACUUM is refused ("cannot VACUUM from within a transaction"),
    and when the connection is closed the restore's DELETE is rolled back
    with the rest.  What was committed before the BEGIN stays in the dev
    database.

    Full statement (false of the faithful model):
      forall ss, snd (tx_session ss []) = []
    -> C14_tx_handed_back_empty_refuted (finding C14-open-transaction), and
    the exact characterisation C14_tx_handed_back_empty_except. *)
From Atlas Require Dev.DevTxModel Dev.DevTxProofs.

Theorem C14_tx_handed_back_empty_refuted :
  exists ss : list DevTxModel.tstmt,
    DevTxModel.tx_session ss [] =
      (DevTxModel.TFail 2, [1%N]).
Proof. exists [DevTxModel.TCreate 1; DevTxModel.TBegin; DevTxModel.TBad; DevTxModel.TCommit]. vm_compute. reflexivity. Qed.
Print Assumptions C14_tx_handed_back_empty_refuted.

(** exactly when it is handed back empty: no transaction is open when the
    replay stops, or nothing had been committed before it was opened; in
    particular every script without a BEGIN (and then the restore completes) *)
Theorem C14_tx_handed_back_empty_except :
  forall ss : list DevTxModel.tstmt,
    (snd (DevTxModel.tx_session ss []) = [] <->
       (DevTxModel.c_intx (snd (DevTxModel.run_script ss DevTxProofs.conn0)) = false \/
        DevTxModel.c_file (snd (DevTxModel.run_script ss DevTxProofs.conn0)) = [])) /\
    (DevTxModel.has_begin ss = false ->
       snd (DevTxModel.tx_session ss []) = [] /\ fst (DevTxModel.tx_session ss []) <> DevTxModel.TRestoreFail).
Proof. intros ss. split. - exact (DevTxProofs.tx_empty_iff ss). - exact (DevTxProofs.tx_no_begin_empty ss). Qed.
Print Assumptions C14_tx_handed_back_empty_except.

(** a non-empty database is refused whatever the script holds, and not touched *)
Theorem C14_tx_refuse_untouched :
  forall (ss : list DevTxModel.tstmt) (file : list N),
    file <> [] -> DevTxModel.tx_session ss file = (DevTxModel.TRefused, file).
Proof. exact DevTxProofs.tx_refused. Qed.
Print Assumptions C14_tx_refuse_untouched.

(** the failed restore is reported when nothing else failed (decision of
    C14_restore_always_runs carried over): all statements succeed, a
    transaction is left open => the session ends in TRestoreFail *)
Theorem C14_tx_restore_failure_reported :
  forall ss : list DevTxModel.tstmt,
    fst (DevTxModel.run_script ss DevTxProofs.conn0) = None ->
    DevTxModel.c_intx (snd (DevTxModel.run_script ss DevTxProofs.conn0)) = true ->
    fst (DevTxModel.tx_session ss []) = DevTxModel.TRestoreFail.
Proof. exact DevTxProofs.tx_restore_reported. Qed.
Print Assumptions C14_tx_restore_failure_reported.

Example C14_tx_nonvacuous :
  (* closed transaction + failure: empty; open one with nothing committed before: empty, restore error;
     committed table + open transaction: the table stays; no BEGIN: empty *)
  DevTxModel.tx_session [DevTxModel.TBegin; DevTxModel.TCreate 1; DevTxModel.TCommit; DevTxModel.TBad] [] = (DevTxModel.TFail 3, []) /\
  DevTxModel.tx_session [DevTxModel.TBegin; DevTxModel.TCreate 1] [] = (DevTxModel.TRestoreFail, []) /\
  DevTxModel.tx_session [DevTxModel.TCreate 1; DevTxModel.TBegin; DevTxModel.TCreate 2] [] = (DevTxModel.TRestoreFail, [1%N]) /\
  DevTxModel.tx_session [DevTxModel.TCreate 1; DevTxModel.TCreate 2] [] = (DevTxModel.TOk, []) /\
  DevTxModel.tx_session [DevTxModel.TBegin] [7%N] = (DevTxModel.TRefused, [7%N]) /\
  DevTxModel.has_begin [DevTxModel.TCreate 1; DevTxModel.TBad] = false.
Proof. vm_compute. repeat split. Qed.

(** Round 5 (b): the verdict is recomputed by every Snapshot.  Whatever a first
    session [s1] did on whatever database (same driver object, same
    connection), if another writer then adds objects [xs] among which one is
    not engine bookkeeping, the next sessions decline: no event, the database
    [d1 ++ xs] and the fault streams as they were.  (Stage scen runs this on
    one *sqlite.Driver with a second connection as the other writer.) *)
Theorem C14_verdict_recomputed :
  forall (s1 : sess) (ss : list sess) (fs : faults) (rs : list bool) (d xs : db),
  (exists o, In o xs /\ bookkeeping o = false) ->
  let '(_, d1, fs1, rs1, _) := run_session s1 fs rs d in
  run_sessions ss fs1 rs1 (d1 ++ xs) =
    (match ss with [] => OOk | _ => decline_of (d1 ++ xs) end, d1 ++ xs, fs1, rs1, []).
Proof.
  intros s1 ss fs rs d xs [o [Hin Hb]].
  destruct (run_session s1 fs rs d) as [[[[o1 d1] fs1] rs1] es1].
  apply C14_refuse_untouched. exists o. split; [apply in_or_app; right; exact Hin | exact Hb].
Qed.
Print Assumptions C14_verdict_recomputed.

Example C14_verdict_recomputed_nonvacuous :
  (* first session accepted and handed back empty; a foreign view appears; the second is refused *)
  run_session (replay_sess false ex_dir) no_faults [] [] = (OOk, [], no_faults, [], snd (run_session (replay_sess false ex_dir) no_faults [] [])) /\
  run_sessions [replay_sess false ex_dir] no_faults [] ([] ++ [mkObj KView ex_n_us ex_n_us 0 true]) =
    (ORefused, [mkObj KView ex_n_us ex_n_us 0 true], no_faults, [], []).
Proof. vm_compute. repeat split. Qed.

(** ------------------------------------------------------------------------
    Round 5 (goal 1): MySQL Driver.Snapshot / SchemaRestoreFunc /
    RealmRestoreFunc and sqlx.DevDriver.NormalizeSchema / NormalizeRealm on a
    server (Dev/DevServer.v): a list of schemas with tables, the schema the
    connection is bound to, one fault bit per QueryContext/ExecContext call.
    "Contains anything" ([holds_content]): a connection bound to an existing
    schema owns that schema (any table in it); any other connection owns the
    server (any schema at all). *)
From Atlas Require Dev.DevServer Dev.DevServerProofs.

(** refused (or Snapshot's own inspection fails), and then nothing is issued:
    for every catalogue, scenario (script session, NormalizeSchema,
    NormalizeRealm) and fault stream *)
Theorem C14_refuse_untouched_mysql :
  forall (sc : DevServer.scenario) (srv : DevServer.server) (fs : list bool),
  DevServer.holds_content srv = true ->
  let r := DevServer.run_scenario sc srv fs in
  DevServer.r_trace r = [] /\ DevServer.r_srv r = srv /\ DevServer.r_ran r = false /\
  (DevServer.r_out r = DevServer.SRefused \/ DevServer.r_out r = DevServer.SSnapErr).
Proof.
  intros sc srv fs H. apply DevServerProofs.declined_scenario. apply DevServerProofs.snapshot_declines. exact H.
Qed.
Print Assumptions C14_refuse_untouched_mysql.

(** once Snapshot accepted, the RestoreFunc runs on every exit of every
    scenario, whichever call fails *)
Theorem C14_restore_always_runs_mysql :
  forall (sc : DevServer.scenario) (srv : DevServer.server) (fs fs1 : list bool) (rk : DevServer.restore_kind),
  DevServer.snapshot_my srv fs = (DevServer.SnapOk rk, fs1) ->
  DevServer.r_ran (DevServer.run_scenario sc srv fs) = true.
Proof. intros sc srv fs fs1 rk. exact (DevServerProofs.accepted_restore_runs sc srv fs rk fs1). Qed.
Print Assumptions C14_restore_always_runs_mysql.

(** a connection that is not bound to a schema (realm connection): accepted
    means the server has no schema, and whatever the script / the desired
    state creates -- schemas, tables in any schema -- and whichever statement
    the server rejects, with no call failing for other reasons the server is
    handed back without any schema and the RestoreFunc returned nil *)
Theorem C14_handed_back_empty_mysql :
  forall (sc : DevServer.scenario) (cur : option N),
  let r := DevServer.run_scenario sc (DevServer.mkSrv [] cur) [] in
  DevServer.r_ran r = true /\ DevServer.r_restored r = true /\ DevServer.sv_schemas (DevServer.r_srv r) = [] /\ DevServer.r_fs r = [].
Proof. exact DevServerProofs.handed_back_realm. Qed.
Print Assumptions C14_handed_back_empty_mysql.

Theorem C14_accepted_realm_is_empty_mysql :
  forall (srv : DevServer.server) (fs fs1 : list bool),
  DevServer.snapshot_my srv fs = (DevServer.SnapOk DevServer.RRealm, fs1) -> DevServer.holds_content srv = false.
Proof. exact DevServerProofs.accepted_realm_empty. Qed.
Print Assumptions C14_accepted_realm_is_empty_mysql.

(** Full statement for a connection bound to a schema -- "handed back as found
    whatever the session does" -- is false of the faithful model: the
    SchemaRestoreFunc only looks at the bound schema.  (1) a script (or
    NormalizeRealm) that creates another schema leaves it behind, no error;
    (2) a script that drops the bound schema: the restore fails (schema not
    found) and nothing is recreated.  Findings C14-bound-foreign-schema,
    C14-bound-schema-dropped. *)
Definition ex_bound : DevServer.server := DevServer.mkSrv [DevServer.mkSch 1 []] (Some 1%N).
Theorem C14_handed_back_empty_bound_mysql_refuted :
  (exists body, let r := DevServer.run_sess body ex_bound [] in
     DevServer.r_out r = DevServer.SOk /\ DevServer.r_restored r = true /\
     DevServer.sv_schemas (DevServer.r_srv r) = [DevServer.mkSch 1 []; DevServer.mkSch 2 [1%N]]) /\
  (exists rl, let r := DevServer.norm_realm rl ex_bound [] in
     DevServer.r_out r = DevServer.SOk /\ DevServer.r_restored r = true /\
     DevServer.sv_schemas (DevServer.r_srv r) = [DevServer.mkSch 1 []; DevServer.mkSch 2 [2%N]]) /\
  (exists body, let r := DevServer.run_sess body ex_bound [] in
     DevServer.r_out r = DevServer.SOk /\ DevServer.r_ran r = true /\ DevServer.r_restored r = false /\
     DevServer.sv_schemas (DevServer.r_srv r) = []).
Proof.
  split; [|split].
  - exists [DevServer.SCs 2 false; DevServer.SCt (Some 2%N) 1]. vm_compute. repeat split.
  - exists [DevServer.mkSch 1 [1%N]; DevServer.mkSch 2 [2%N]]. vm_compute. repeat split.
  - exists [DevServer.SDs 1]. vm_compute. repeat split.
Qed.
Print Assumptions C14_handed_back_empty_bound_mysql_refuted.

Example C14_server_nonvacuous :
  (* refused: realm connection, one empty schema; bound connection, a table in its schema.
     accepted: bound connection with an empty schema next to a foreign schema with tables;
     a script on a realm connection that creates a schema and a table, then fails: all dropped;
     a fault in the restore's DROP: reported, schema left *)
  DevServer.holds_content (DevServer.mkSrv [DevServer.mkSch 1 []] None) = true /\
  DevServer.r_out (DevServer.run_sess [] (DevServer.mkSrv [DevServer.mkSch 1 []] None) []) = DevServer.SRefused /\
  DevServer.r_out (DevServer.run_sess [] (DevServer.mkSrv [DevServer.mkSch 1 [3%N]] (Some 1%N)) []) = DevServer.SRefused /\
  DevServer.holds_content (DevServer.mkSrv [DevServer.mkSch 1 []; DevServer.mkSch 2 [1%N]] (Some 1%N)) = false /\
  DevServer.r_out (DevServer.run_sess [DevServer.SCt None 1] (DevServer.mkSrv [DevServer.mkSch 1 []; DevServer.mkSch 2 [1%N]] (Some 1%N)) []) = DevServer.SOk /\
  DevServer.r_trace (DevServer.run_sess [DevServer.SCs 2 false; DevServer.SCt (Some 2%N) 1; DevServer.SBadS] (DevServer.mkSrv [] None) [])
    = [DevServer.ECs 2; DevServer.ECt 2 1; DevServer.EDs 2] /\
  DevServer.r_out (DevServer.run_sess [DevServer.SCs 2 false; DevServer.SCt (Some 2%N) 1; DevServer.SBadS] (DevServer.mkSrv [] None) []) = DevServer.SFail 2 /\
  (let r := DevServer.run_sess [DevServer.SCs 2 false] (DevServer.mkSrv [] None) (DevServer.fault_stream [6] 10) in
   DevServer.r_restored r = false /\ DevServer.r_ran r = true /\ DevServer.sv_schemas (DevServer.r_srv r) = [DevServer.mkSch 2 []]) /\
  DevServer.snapshot_my (DevServer.mkSrv [] None) [] = (DevServer.SnapOk DevServer.RRealm, []).
Proof. vm_compute. repeat split. Qed.

(** ------------------------------------------------------------------------
    Round 5 (goal 1), PostgreSQL (Dev/DevServerPg.v).  [bound] = Driver.schema
    (the search_path of the dev URL).  "Contains anything"
    ([holds_content_pg]): a bound connection owns its schema (a table in it);
    an unbound one owns the database -- any schema other than an empty
    "public" (schema id 0). *)
From Atlas Require Dev.DevServerPg Dev.DevServerPgProofs.

Theorem C14_refuse_untouched_pg :
  forall (bound : option N) (sc : DevServer.scenario) (srv : DevServer.server) (fs : list bool),
  DevServerPg.holds_content_pg bound srv = true ->
  let r := DevServerPg.run_scenario_pg bound sc srv fs in
  DevServer.r_trace r = [] /\ DevServer.r_srv r = srv /\ DevServer.r_ran r = false /\
  (DevServer.r_out r = DevServer.SRefused \/ DevServer.r_out r = DevServer.SSnapErr).
Proof.
  intros bound sc srv fs H. apply DevServerPgProofs.declined_scenario_pg. apply DevServerPgProofs.snapshot_pg_declines. exact H.
Qed.
Print Assumptions C14_refuse_untouched_pg.

Theorem C14_restore_always_runs_pg :
  forall (bound : option N) (sc : DevServer.scenario) (srv : DevServer.server) (fs fs1 : list bool) (rk : DevServerPg.restore_pg_kind),
  DevServerPg.snapshot_pg bound srv fs = (DevServerPg.PSnapOk rk, fs1) ->
  DevServer.r_ran (DevServerPg.run_scenario_pg bound sc srv fs) = true.
Proof. intros bound sc srv fs fs1 rk. exact (DevServerPgProofs.accepted_restore_runs_pg bound sc srv fs rk fs1). Qed.
Print Assumptions C14_restore_always_runs_pg.

(** an unbound connection is accepted exactly on a database without schemas or
    with an empty "public" only, and then -- every scenario, every script /
    desired realm incl. DROP SCHEMA public, no call failing -- handed back as
    it was found: without schemas, resp. with the empty "public" recreated *)
Theorem C14_handed_back_empty_pg :
  forall (with_public : bool) (sc : DevServer.scenario) (cur : option N),
  let start := DevServerPgProofs.start_of with_public in
  let r := DevServerPg.run_scenario_pg None sc (DevServer.mkSrv start cur) [] in
  DevServer.r_ran r = true /\ DevServer.r_restored r = true /\ DevServer.sv_schemas (DevServer.r_srv r) = start /\ DevServer.r_fs r = [].
Proof. exact DevServerPgProofs.handed_back_realm_pg. Qed.
Print Assumptions C14_handed_back_empty_pg.

Theorem C14_accepted_realm_pg :
  forall (srv : DevServer.server) (fs fs1 : list bool) (with_public : bool),
  DevServerPg.snapshot_pg None srv fs = (DevServerPg.PSnapOk (DevServerPg.PRealm with_public), fs1) ->
  DevServer.sv_schemas srv = DevServerPgProofs.start_of with_public.
Proof. intros srv fs fs1 wp. exact (DevServerPgProofs.accepted_realm_pg srv fs wp fs1). Qed.
Print Assumptions C14_accepted_realm_pg.

(** bound connections: same two counterexamples as for MySQL *)
Definition ex_bound_pg : DevServer.server := DevServer.mkSrv [DevServer.mkSch 0 []] (Some 0%N).
Theorem C14_handed_back_empty_bound_pg_refuted :
  (exists body, let r := DevServerPg.run_sess_pg (Some 0%N) body ex_bound_pg [] in
     DevServer.r_out r = DevServer.SOk /\ DevServer.r_restored r = true /\
     DevServer.sv_schemas (DevServer.r_srv r) = [DevServer.mkSch 0 []; DevServer.mkSch 2 [1%N]]) /\
  (exists body, let r := DevServerPg.run_sess_pg (Some 0%N) body ex_bound_pg [] in
     DevServer.r_out r = DevServer.SOk /\ DevServer.r_ran r = true /\ DevServer.r_restored r = false /\
     DevServer.sv_schemas (DevServer.r_srv r) = []).
Proof.
  split.
  - exists [DevServer.SCs 2 false; DevServer.SCt (Some 2%N) 1]. vm_compute. repeat split.
  - exists [DevServer.SDs 0]. vm_compute. repeat split.
Qed.
Print Assumptions C14_handed_back_empty_bound_pg_refuted.

Example C14_server_pg_nonvacuous :
  (* refused: unbound, public with a table / a second schema; accepted: unbound with the empty public;
     a script that drops public and creates s2 with a table: restore drops s2 and recreates public;
     a connection bound to a schema that does not exist: Snapshot fails, nothing issued *)
  DevServerPg.holds_content_pg None (DevServer.mkSrv [DevServer.mkSch 0 [1%N]] (Some 0%N)) = true /\
  DevServerPg.holds_content_pg None (DevServer.mkSrv [DevServer.mkSch 0 []; DevServer.mkSch 1 []] (Some 0%N)) = true /\
  DevServerPg.holds_content_pg None (DevServer.mkSrv [DevServer.mkSch 0 []] (Some 0%N)) = false /\
  DevServer.r_trace (DevServerPg.run_sess_pg None [DevServer.SDs 0; DevServer.SCs 2 false; DevServer.SCt (Some 2%N) 1] (DevServer.mkSrv [DevServer.mkSch 0 []] (Some 0%N)) [])
    = [DevServer.EDs 0; DevServer.ECs 2; DevServer.ECt 2 1; DevServer.EDs 2; DevServer.ECs 0] /\
  DevServer.r_out (DevServerPg.run_sess_pg (Some 3%N) [] (DevServer.mkSrv [DevServer.mkSch 0 []] (Some 3%N)) []) = DevServer.SSnapErr /\
  (* the deferred search_path reset of InspectRealm fails (call 5 of Snapshot): Snapshot fails *)
  DevServer.r_out (DevServerPg.run_sess_pg None [] (DevServer.mkSrv [DevServer.mkSch 0 []] (Some 0%N)) (DevServer.fault_stream [5] 10)) = DevServer.SSnapErr.
Proof. vm_compute. repeat split. Qed.

(** Exactly what does hold for a connection bound to a schema: unique schema
    names, the bound schema exists and is empty, and every statement of the
    script stays inside it ([local_stmt]: CREATE/DROP TABLE unqualified or
    qualified with the bound schema; rejected statements allowed) => whatever
    the script creates, drops or fails on, with no call failing for other
    reasons the RestoreFunc runs, returns nil, and the server -- every schema,
    the foreign ones included -- is exactly as it was found. *)
From Atlas Require Dev.DevServerBound Dev.DevServerPgBound.

Theorem C14_handed_back_empty_bound_mysql_except :
  forall (c : N) (l : list DevServer.sch) (s0 : DevServer.sch) (body : list DevServer.sstmt),
  NoDup (map DevServer.s_id l) -> DevServer.find_sch c l = Some s0 -> DevServer.s_tabs s0 = [] ->
  forallb (DevServer.local_stmt c) body = true ->
  let r := DevServer.run_sess body (DevServer.mkSrv l (Some c)) [] in
  DevServer.r_ran r = true /\ DevServer.r_restored r = true /\ DevServer.r_srv r = DevServer.mkSrv l (Some c) /\
  (DevServer.r_out r = DevServer.SOk \/ exists k, DevServer.r_out r = DevServer.SFail k).
Proof. intros c l s0 body Hd Hf He Hl. exact (DevServerBound.handed_back_bound c l s0 Hd Hf He body Hl). Qed.
Print Assumptions C14_handed_back_empty_bound_mysql_except.

Theorem C14_handed_back_empty_bound_pg_except :
  forall (c : N) (l : list DevServer.sch) (s0 : DevServer.sch) (body : list DevServer.sstmt),
  NoDup (map DevServer.s_id l) -> DevServer.find_sch c l = Some s0 -> DevServer.s_tabs s0 = [] ->
  forallb (DevServer.local_stmt c) body = true ->
  let r := DevServerPg.run_sess_pg (Some c) body (DevServer.mkSrv l (Some c)) [] in
  DevServer.r_ran r = true /\ DevServer.r_restored r = true /\ DevServer.r_srv r = DevServer.mkSrv l (Some c) /\
  (DevServer.r_out r = DevServer.SOk \/ exists k, DevServer.r_out r = DevServer.SFail k).
Proof. intros c l s0 body Hd Hf He Hl. exact (DevServerPgBound.handed_back_bound_pg c l s0 Hd Hf He body Hl). Qed.
Print Assumptions C14_handed_back_empty_bound_pg_except.

Example C14_bound_except_nonvacuous :
  (* bound to s1 next to a foreign s2 with a table: create two tables, fail, restore drops both; s2 untouched *)
  let srv := DevServer.mkSrv [DevServer.mkSch 1 []; DevServer.mkSch 2 [7%N]] (Some 1%N) in
  forallb (DevServer.local_stmt 1) [DevServer.SCt None 1; DevServer.SCt (Some 1%N) 2; DevServer.SBadS] = true /\
  DevServer.r_trace (DevServer.run_sess [DevServer.SCt None 1; DevServer.SCt (Some 1%N) 2; DevServer.SBadS] srv [])
    = [DevServer.ECt 1 1; DevServer.ECt 1 2; DevServer.EDt 1 1; DevServer.EDt 1 2] /\
  DevServer.r_srv (DevServer.run_sess [DevServer.SCt None 1; DevServer.SCt (Some 1%N) 2; DevServer.SBadS] srv []) = srv /\
  DevServer.local_stmt 1 (DevServer.SCs 2 false) = false.
Proof. vm_compute. repeat split. Qed.

(** Round 5 (goal 2): the state after a failed RestoreFunc.  Whatever a first
    session did and wherever it -- or its RestoreFunc -- failed, if what it left
    is content the connection owns, the next session on the same driver and
    connection is declined and issues nothing: leftovers are never built upon
    nor wiped by a later command.  (Stages mysql/pg, scenario "twice": a fault
    at every call of the first session, its restore included.) *)
Theorem C14_after_failed_restore_mysql :
  forall (b1 : list DevServer.sstmt) (sc2 : DevServer.scenario) (srv : DevServer.server) (fs : list bool),
  let r1 := DevServer.run_sess b1 srv fs in
  DevServer.holds_content (DevServer.r_srv r1) = true ->
  let r2 := DevServer.run_scenario sc2 (DevServer.r_srv r1) (DevServer.r_fs r1) in
  DevServer.r_trace r2 = [] /\ DevServer.r_srv r2 = DevServer.r_srv r1 /\ DevServer.r_ran r2 = false /\
  (DevServer.r_out r2 = DevServer.SRefused \/ DevServer.r_out r2 = DevServer.SSnapErr).
Proof. intros b1 sc2 srv fs r1 H. exact (C14_refuse_untouched_mysql sc2 (DevServer.r_srv r1) (DevServer.r_fs r1) H). Qed.
Print Assumptions C14_after_failed_restore_mysql.

Theorem C14_after_failed_restore_pg :
  forall (bound : option N) (b1 : list DevServer.sstmt) (sc2 : DevServer.scenario) (srv : DevServer.server) (fs : list bool),
  let r1 := DevServerPg.run_sess_pg bound b1 srv fs in
  DevServerPg.holds_content_pg bound (DevServer.r_srv r1) = true ->
  let r2 := DevServerPg.run_scenario_pg bound sc2 (DevServer.r_srv r1) (DevServer.r_fs r1) in
  DevServer.r_trace r2 = [] /\ DevServer.r_srv r2 = DevServer.r_srv r1 /\ DevServer.r_ran r2 = false /\
  (DevServer.r_out r2 = DevServer.SRefused \/ DevServer.r_out r2 = DevServer.SSnapErr).
Proof. intros bound b1 sc2 srv fs r1 H. exact (C14_refuse_untouched_pg bound sc2 (DevServer.r_srv r1) (DevServer.r_fs r1) H). Qed.
Print Assumptions C14_after_failed_restore_pg.

Example C14_after_failed_restore_nonvacuous :
  (* realm connection: the script creates s2, the restore's DROP DATABASE (call 6) fails: s2 is left,
     the error is returned; the second session is refused and issues nothing *)
  let '(r1, r2) := DevServer.run_twice [DevServer.SCs 2 false] [DevServer.SCt (Some 2%N) 7] (DevServer.mkSrv [] None) (DevServer.fault_stream [6] 20) in
  DevServer.r_restored r1 = false /\ DevServer.holds_content (DevServer.r_srv r1) = true /\
  DevServer.r_out r2 = DevServer.SRefused /\ DevServer.r_trace r2 = [] /\ DevServer.r_srv r2 = DevServer.r_srv r1.
Proof. vm_compute. repeat split. Qed.

(** Round 5: which objects count as "not clean".  Both OSS inspectors never list
    views, so for a server with views (Dev/DevServerView.v) the full statement
      holds_content_v vs = true -> declined
    is false: a MySQL schema holding only a view is accepted; an unbound
    PostgreSQL connection whose "public" holds only a view is accepted and the
    first session that writes anything makes the RestoreFunc DROP SCHEMA public
    CASCADE -- the view is destroyed (findings C14-view-only-accepted,
    C14-view-only-wiped-pg; the SQLite form of this was fixed as 17b84dd).
    It does hold whenever the connection owns no view. *)
From Atlas Require Dev.DevServerView.

Theorem C14_refuse_untouched_views_refuted :
  (exists vs, DevServerView.holds_content_v_my vs = true /\
     DevServer.r_out (DevServer.run_sess [] (DevServerView.v_srv vs) []) = DevServer.SOk) /\
  (exists vs body, DevServerView.holds_content_v_pg None vs = true /\
     let r := DevServerPg.run_sess_pg None body (DevServerView.v_srv vs) [] in
     DevServer.r_out r = DevServer.SOk /\ DevServer.r_restored r = true /\
     DevServerView.views_after (DevServer.r_trace r) (DevServerView.v_views vs) = []).
Proof.
  split.
  - exists (DevServerView.mkV (DevServer.mkSrv [DevServer.mkSch 1 []] (Some 1%N)) [(1%N, 9%N)]). vm_compute. split; reflexivity.
  - exists (DevServerView.mkV (DevServer.mkSrv [DevServer.mkSch 0 []] (Some 0%N)) [(0%N, 9%N)]), [DevServer.SCt None 1].
    vm_compute. repeat split.
Qed.
Print Assumptions C14_refuse_untouched_views_refuted.

Theorem C14_refuse_untouched_views_except :
  (forall (vs : DevServerView.vserver) (sc : DevServer.scenario) (fs : list bool),
     existsb (DevServerView.owns_view_my (DevServerView.v_srv vs)) (DevServerView.v_views vs) = false ->
     DevServerView.holds_content_v_my vs = true ->
     let r := DevServer.run_scenario sc (DevServerView.v_srv vs) fs in
     DevServer.r_trace r = [] /\ DevServer.r_srv r = DevServerView.v_srv vs /\ DevServer.r_ran r = false /\
     (DevServer.r_out r = DevServer.SRefused \/ DevServer.r_out r = DevServer.SSnapErr)) /\
  (forall (bound : option N) (vs : DevServerView.vserver) (sc : DevServer.scenario) (fs : list bool),
     existsb (DevServerView.owns_view_pg bound) (DevServerView.v_views vs) = false ->
     DevServerView.holds_content_v_pg bound vs = true ->
     let r := DevServerPg.run_scenario_pg bound sc (DevServerView.v_srv vs) fs in
     DevServer.r_trace r = [] /\ DevServer.r_srv r = DevServerView.v_srv vs /\ DevServer.r_ran r = false /\
     (DevServer.r_out r = DevServer.SRefused \/ DevServer.r_out r = DevServer.SSnapErr)).
Proof.
  split.
  - intros vs sc fs Hn H. exact (C14_refuse_untouched_mysql sc _ fs (DevServerView.content_without_views_my vs Hn H)).
  - intros bound vs sc fs Hn H. exact (C14_refuse_untouched_pg bound sc _ fs (DevServerView.content_without_views_pg bound vs Hn H)).
Qed.
Print Assumptions C14_refuse_untouched_views_except.

Example C14_views_nonvacuous :
  (* a view in a foreign schema is not the bound connection's content; a table next to it is *)
  DevServerView.holds_content_v_my (DevServerView.mkV (DevServer.mkSrv [DevServer.mkSch 1 []; DevServer.mkSch 2 []] (Some 1%N)) [(2%N, 9%N)]) = false /\
  DevServerView.holds_content_v_my (DevServerView.mkV (DevServer.mkSrv [DevServer.mkSch 1 [3%N]; DevServer.mkSch 2 []] (Some 1%N)) [(2%N, 9%N)]) = true /\
  DevServerView.views_after [DevServer.ECt 0 1; DevServer.EDs 0; DevServer.ECs 0] [(0%N, 9%N); (1%N, 8%N)] = [(1%N, 8%N)].
Proof. vm_compute. repeat split. Qed.
