(** C14 -- the dev database is never damaged: refused if not empty (and then
    untouched), always handed back empty; replaying never writes the directory.

    Subject: the Gallina transcription (Dev/DevSession.v) of sqlite
    Driver.Snapshot, Executor.Replay, DevDriver.NormalizeSchema/NormalizeRealm,
    DevLoader.LoadChanges and of the session sequences of `migrate validate`,
    `migrate lint`, `migrate diff`, `schema diff`, `schema apply`.
    Only statements, [exact] and [Print Assumptions] live here. *)
From Coq Require Import List NArith Bool Arith.
From Atlas Require Import Base.Bytes Dev.DevSession Dev.DevProofs.
Import ListNotations.

(** 0. What Snapshot calls clean (no table InspectRealm can see, no view, no
    trigger) against what the property calls clean (no object at all).
    The verdict is "clean" exactly when every object is a table whose name
    matches LIKE 'sqlite_%' / 'libsql_%' (invisible to tablesQuery) or an index;
    on well-formed databases without such a table the two notions coincide. *)
Theorem C14_clean_gap :
  forall d : db,
  code_clean d = true <->
  (forall o, In o d ->
     (o_kind o = KTable /\ hidden_name (o_name o) = true) \/ o_kind o = KIndex).
Proof. exact code_clean_char. Qed.

Theorem C14_clean_coincide :
  forall d : db, wf_db d -> no_hidden d -> code_clean d = prop_clean d.
Proof. exact clean_coincide. Qed.

(** 1. Full statement "non-empty => refused and untouched" is FALSE of the
    code: a dev database holding the user table [libsql_users] with rows is
    accepted by [migrate validate] and wiped (reproduced on the real CLI,
    known finding C14-hidden-table). *)
Definition ex_libsql : bytes := [108; 105; 98; 115; 113; 108; 95; 117]%N.  (* "libsql_u" *)
Definition ex_t0 : bytes := [116; 48]%N.
Definition ex_hidden_db : db := [mkObj KTable ex_libsql ex_libsql 2].
Definition ex_dir : mdir := [mkMFile false [(1, SCreateTable ex_t0); (2, SInsert ex_t0)]].

Theorem C14_refuse_untouched_refuted :
  exists (d : db) (c : command) (dir : mdir),
    d <> [] /\ wf_db d /\
    exists es, run_cmd false c dir SrcNone SrcNone false [] d = (OOk, [], es) /\
               In (EWrite 1 true) es.
Proof.
  exists ex_hidden_db, CValidate, ex_dir. split; [discriminate|]. split.
  - intros o [<-|[]] H. discriminate.
  - eexists. split; [vm_compute; reflexivity|]. simpl. auto.
Qed.

(** 1'. What does hold, for every command (any session list [ss]), every body
    and every fault stream: a non-empty well-formed database without a hidden
    table -- more generally any database Snapshot judges not clean -- is
    refused by the first session, nothing at all is issued (the event trace is
    empty: no write, no restore) and the database is returned as it was. *)
Theorem C14_refuse_untouched_except :
  forall (d : db) (ss : list body) (fs : list bool),
  d <> [] -> wf_db d -> no_hidden d ->
  run_sessions ss fs d = (match ss with [] => OOk | _ => ORefused end, d, fs, []).
Proof.
  intros d ss fs Hne Hwf Hnh.
  exact (run_sessions_refused ss fs d (nonempty_not_clean d Hwf Hnh Hne)).
Qed.

Theorem C14_refuse_untouched_cmd :
  forall (norm : bool) (c : command) (dir : mdir) (from to : source) (changes : bool)
         (fs : list bool) (d : db),
  code_clean d = false ->
  sessions_of norm c dir from to <> [] ->
  run_cmd norm c dir from to changes fs d = (ORefused, d, []).
Proof.
  intros norm c dir from to changes fs d H Hne.
  rewrite (run_cmd_refused norm c dir from to changes fs d H).
  destruct (sessions_of norm c dir from to); [congruence|reflexivity].
Qed.

(** which commands open at least one session (all of them, except
    schema diff/apply whose sources are only HCL files on a driver that is
    not a schema.Normalizer -- SQLite: those never touch the dev database) *)
Theorem C14_sessions_nonempty :
  forall norm c dir from to,
  match c with
  | CValidate | CLint _ | CDiff => True
  | CSchemaDiff => (exists ss, from = SrcSQL ss) \/ (exists dd, from = SrcDir dd) \/
                   (exists ss, to = SrcSQL ss) \/ (exists dd, to = SrcDir dd) \/
                   (norm = true /\ ((exists ts, from = SrcHCL ts) \/ (exists ts, to = SrcHCL ts)))
  | CSchemaApply => (exists ss, to = SrcSQL ss) \/ (exists dd, to = SrcDir dd) \/
                    (norm = true /\ exists ts, to = SrcHCL ts)
  end -> sessions_of norm c dir from to <> [].
Proof. exact sessions_of_nonempty_sql. Qed.

(** 2. Otherwise the database is handed back empty: for every session list,
    every body and every fault stream (i.e. whichever statement fails, in
    whichever session), the final state is empty; and whenever the verdict was
    "clean" the last thing that happened to the database is the restore. *)
Theorem C14_handed_back_empty :
  forall (ss : list body) (fs : list bool) o d' fs' es,
  run_sessions ss fs [] = (o, d', fs', es) -> d' = [].
Proof. exact run_sessions_from_empty. Qed.

Theorem C14_handed_back_empty_cmd :
  forall norm c dir from to changes fs o d' es,
  run_cmd norm c dir from to changes fs [] = (o, d', es) -> d' = [].
Proof. exact run_cmd_from_empty. Qed.

Theorem C14_restore_always_runs :
  forall (ss : list body) (fs : list bool) (d : db),
  code_clean d = true -> ss <> [] ->
  exists o fs' es, run_sessions ss fs d = (o, [], fs', es ++ [ERestore]) /\ o <> ORefused.
Proof. exact run_sessions_clean. Qed.

(** 3. No session writes the migration directory; the only directory write
    of any command is [migrate diff]'s WritePlan, issued after every session
    has been closed, only on success and only if there is a plan. *)
Theorem C14_dir_readonly :
  forall (ss : list body) (fs : list bool) (d : db) o d' fs' es,
  run_sessions ss fs d = (o, d', fs', es) -> ~ In EDirWrite es.
Proof. exact run_sessions_no_dirwrite. Qed.

Theorem C14_dir_written_only_by_plan :
  forall norm c dir from to changes fs d o d' es,
  run_cmd norm c dir from to changes fs d = (o, d', es) ->
  exists es0, ~ In EDirWrite es0 /\
    ((es = es0 /\ (c <> CDiff \/ o <> OOk \/ changes = false)) \/
     (es = es0 ++ [EDirWrite] /\ c = CDiff /\ o = OOk /\ changes = true)).
Proof. exact run_cmd_dirwrite. Qed.

Print Assumptions C14_clean_gap.
Print Assumptions C14_clean_coincide.
Print Assumptions C14_refuse_untouched_refuted.
Print Assumptions C14_refuse_untouched_except.
Print Assumptions C14_refuse_untouched_cmd.
Print Assumptions C14_sessions_nonempty.
Print Assumptions C14_handed_back_empty.
Print Assumptions C14_handed_back_empty_cmd.
Print Assumptions C14_restore_always_runs.
Print Assumptions C14_dir_readonly.
Print Assumptions C14_dir_written_only_by_plan.

(** Non-vacuity. *)
Definition ex_i0 : bytes := [105; 48]%N.
Definition ex_v0 : bytes := [118; 48]%N.
Definition ex_g0 : bytes := [103; 48]%N.
Definition ex_user_db : db :=
  [mkObj KTable ex_t0 ex_t0 3; mkObj KIndex ex_i0 ex_t0 0; mkObj KTrigger ex_g0 ex_t0 0].
Definition ex_dir2 : mdir :=
  [mkMFile false [(1, SCreateTable ex_t0); (2, SCreateIndex ex_i0 ex_t0); (3, SCreateView ex_v0)];
   mkMFile false [(4, SCreateTrigger ex_g0 ex_t0); (5, SInsert ex_t0); (6, SInsert ex_t0); (7, SDropTable ex_t0)]].

(* a user database is refused, untouched *)
Example C14_refuse_nonvacuous :
  code_clean ex_user_db = false /\ code_clean [mkObj KView ex_v0 ex_v0 0] = false /\
  run_cmd false (CLint 1) ex_dir2 SrcNone SrcNone false [] ex_user_db = (ORefused, ex_user_db, []).
Proof. vm_compute. repeat split. Qed.

(* statement 6 (second insert: UNIQUE violation) fails with a table, an index,
   a view, a trigger and a row in place; everything is gone afterwards *)
Example C14_handed_back_nonvacuous :
  run_cmd false CValidate ex_dir2 SrcNone SrcNone false [] [] =
    (OFail 6, [], [EWrite 1 true; EWrite 2 true; EWrite 3 true; EWrite 4 true; EWrite 5 true;
                   EWrite 6 false; ERestore]).
Proof. vm_compute. reflexivity. Qed.

(* migrate diff against an SQL schema: two sessions, then the plan is written *)
Example C14_dir_nonvacuous :
  run_cmd false CDiff [mkMFile false [(1, SCreateTable ex_t0)]] SrcNone
          (SrcSQL [(2, SCreateTable ex_t0); (3, SCreateView ex_v0)]) true [] [] =
    (OOk, [], [EWrite 2 true; EWrite 3 true; ERestore; EWrite 1 true; ERestore; EDirWrite]).
Proof. vm_compute. reflexivity. Qed.

(* lint restores in mid-session before a checkpoint file *)
Example C14_lint_checkpoint_nonvacuous :
  run_cmd false (CLint 2) [mkMFile false [(1, SCreateTable ex_t0)];
                           mkMFile true [(2, SCreateTable ex_t0)]] SrcNone SrcNone false [true; false] [] =
    (OFail 1, [], [EWrite 1 false; ERestore]) /\
  run_cmd false (CLint 2) [mkMFile false [(1, SCreateTable ex_t0)];
                           mkMFile true [(2, SCreateTable ex_t0)]] SrcNone SrcNone false [] [] =
    (OOk, [], [EWrite 1 true; ERestore; EWrite 2 true; ERestore]).
Proof. vm_compute. split; reflexivity. Qed.
