(** C14 -- the dev database is never damaged: refused if not empty (and then
    untouched), always handed back empty; replaying never writes the directory.

    Subject: the Gallina transcription (Dev/DevSession.v) of sqlite
    Driver.Snapshot (after fix C14-hidden-table), Executor.Replay,
    DevDriver.NormalizeSchema/NormalizeRealm, DevLoader.LoadChanges and of the
    session sequences of `migrate validate`, `migrate lint`, `migrate diff`,
    `schema diff`, `schema apply`, `schema inspect` and Planner.Checkpoint.
    Only statements, [exact] and [Print Assumptions] live here.

    "Contains anything" is read as: sqlite_master holds a row that does not
    belong to a bookkeeping table of the engine ([prop_clean d = false]).
    sqlite_sequence cannot be dropped by any statement and `atlas schema clean`
    leaves it (and sqlite_stat1) behind, so a reading that counts them would
    make Atlas refuse databases it emptied itself; SQLite reserves the prefix
    "sqlite_" (no user object can carry it).  "Empty" at the end is read
    strictly: no sqlite_master row at all. *)
From Coq Require Import List NArith Bool Arith.
From Atlas Require Import Base.Bytes Dev.DevSession Dev.DevProofs.
Import ListNotations.

(** 0. Snapshot's verdict against the property's notion.  Whatever Snapshot
    accepts holds nothing but engine bookkeeping (no premise); on a
    sqlite_master-shaped database (tbl_name of a table row is its name) the two
    notions coincide, i.e. Atlas does not refuse what `schema clean` or SQLite
    itself leaves behind either. *)
Theorem C14_clean_sound :
  forall d : db, code_clean d = true -> forall o, In o d -> bookkeeping o = true.
Proof.
  intros d H. apply forallb_forall. exact (code_clean_sound d H).
Qed.

Theorem C14_clean_coincide :
  forall d : db, wf_db d -> code_clean d = prop_clean d.
Proof. exact clean_coincide. Qed.

(** 1. Non-empty => refused and completely untouched.  Full statement, for
    every command (any session list [ss]), every body and all fault streams:
    if the database holds any object that is not engine bookkeeping, the first
    session refuses, nothing at all is issued (the event trace is empty: no
    write, no restore), the database and both fault streams are returned as
    they were.  (Before fix C14-hidden-table this needed the premise "no table
    named LIKE 'sqlite_%'/'libsql_%'" and was refuted without it.) *)
Theorem C14_refuse_untouched :
  forall (d : db) (ss : list sess) (fs rs : list bool),
  (exists o, In o d /\ bookkeeping o = false) ->
  run_sessions ss fs rs d = (match ss with [] => OOk | _ => ORefused end, d, fs, rs, []).
Proof.
  intros d ss fs rs H. apply run_sessions_refused, not_prop_clean_refused.
  apply prop_clean_false_iff. exact H.
Qed.

Theorem C14_refuse_untouched_cmd :
  forall (norm : normalizer) (c : command) (dir : mdir) (from to : source) (changes : bool)
         (fs rs : list bool) (d : db),
  prop_clean d = false ->
  sessions_of norm c dir from to <> [] ->
  run_cmd norm c dir from to changes fs rs d = (ORefused, d, []).
Proof.
  intros norm c dir from to changes fs rs d H Hne.
  exact (run_cmd_refused norm c dir from to changes fs rs d (not_prop_clean_refused d H) Hne).
Qed.

(** which commands open at least one session: all of them, except schema
    diff/apply/inspect none of whose sources needs the dev database (database
    URLs; HCL files on a driver that is not a schema.Normalizer -- SQLite).
    Those never touch the dev database (C14_untouched_without_events). *)
Theorem C14_sessions_nonempty :
  forall norm c dir from to,
  match c with
  | CValidate | CLint _ | CDiff | CCheckpoint => True
  | CSchemaDiff => replays from \/ replays to \/ normalizes norm from \/ normalizes norm to
  | CSchemaApply => replays to \/ normalizes norm to
  | CSchemaInspect => replays from \/ normalizes norm from
  end -> sessions_of norm c dir from to <> [].
Proof. exact sessions_of_nonempty. Qed.

(** trace level: whatever the command, the sources and the fault streams, the
    database is exactly what it was unless a write succeeded or a restore
    reached its DELETE (so a refused or read-only run changes nothing). *)
Theorem C14_untouched_without_events :
  forall norm c dir from to changes fs rs d o d' es,
  run_cmd norm c dir from to changes fs rs d = (o, d', es) ->
  existsb touching es = false -> d' = d.
Proof. exact run_cmd_untouched. Qed.

(** 2. Otherwise the database is handed back empty.  For every sequence of
    sessions (each with restores nested in its body wherever LoadChanges puts
    them), every accepted start (empty, or engine bookkeeping only), every
    body and every fault stream [fs] over the replay/normalisation statements
    -- i.e. whichever statement fails, in whichever session -- the final state
    is strictly empty, the run ends with a complete restore and is never
    reported as refused.  [rs = []]: no statement of a RestoreFunc fails. *)
Theorem C14_handed_back_empty :
  forall (ss : list sess) (fs : list bool) (d : db),
  code_clean d = true -> ss <> [] ->
  exists o fs' es, run_sessions ss fs [] d = (o, [], fs', [], es ++ [ERestore 4]) /\
                   o <> ORefused /\ o <> ORestoreFail.
Proof. exact run_sessions_nofault. Qed.

Theorem C14_handed_back_empty_cmd :
  forall norm c dir from to changes fs o d' es,
  run_cmd norm c dir from to changes fs [] [] = (o, d', es) -> d' = [].
Proof. exact run_cmd_from_empty. Qed.

Theorem C14_handed_back_empty_cmd_bookkeeping :
  forall norm c dir from to changes fs d o d' es,
  wf_db d -> prop_clean d = true ->
  sessions_of norm c dir from to <> [] ->
  run_cmd norm c dir from to changes fs [] d = (o, d', es) -> d' = [].
Proof.
  intros norm c dir from to changes fs d o d' es Hwf Hp Hne.
  exact (run_cmd_handed_back norm c dir from to changes fs d o d' es
           (code_clean_complete d Hwf Hp) Hne).
Qed.

(** 2'. Decision recorded for a failing restore (outside the property's
    quantifier, which ranges over the statements of the replay): for all
    fault streams, also over the four statements of every RestoreFunc, the
    last thing that happens to the dev database of an accepted run is a
    restore; the database is empty iff that restore reached its DELETE
    (k >= 2: a failing `PRAGMA writable_schema = 0` or VACUUM leaves it
    logically empty), otherwise it is left as the replay left it -- and then
    the command reports the restore error, except through NormalizeSchema
    (unnamed results: the error is dropped), where a following session refuses
    the dirty database. *)
Theorem C14_restore_always_runs :
  forall norm c dir from to changes (fs rs : list bool) (d : db),
  code_clean d = true -> sessions_of norm c dir from to <> [] ->
  exists o d' es k tail,
    run_cmd norm c dir from to changes fs rs d = (o, d', es ++ [ERestore k] ++ tail) /\
    (2 <= k -> d' = []) /\ (o = ORefused -> k < 2) /\ (tail = [] \/ tail = [EDirWrite]).
Proof. exact run_cmd_restore_last. Qed.

(** 3. Replaying never writes the directory: no session of any command emits
    a directory write, whatever happens; a command that is not `migrate diff`
    / Planner.Checkpoint never writes it; those two write it once, after the
    last session was closed, only on success and only with a non-empty plan. *)
Theorem C14_dir_readonly :
  forall (ss : list sess) (fs rs : list bool) (d : db) o d' fs' rs' es,
  run_sessions ss fs rs d = (o, d', fs', rs', es) -> ~ In EDirWrite es.
Proof. exact run_sessions_no_dirwrite. Qed.

Theorem C14_dir_readonly_cmd :
  forall norm c dir from to changes fs rs d o d' es,
  run_cmd norm c dir from to changes fs rs d = (o, d', es) ->
  (writes_dir c = false \/ o <> OOk \/ changes = false) -> ~ In EDirWrite es.
Proof. exact run_cmd_dir_readonly. Qed.

Theorem C14_dir_written_only_by_plan :
  forall norm c dir from to changes fs rs d o d' es,
  run_cmd norm c dir from to changes fs rs d = (o, d', es) ->
  exists es0, ~ In EDirWrite es0 /\
    ((es = es0 /\ (writes_dir c = false \/ o <> OOk \/ changes = false)) \/
     (es = es0 ++ [EDirWrite] /\ writes_dir c = true /\ o = OOk /\ changes = true)).
Proof. exact run_cmd_dirwrite. Qed.

Print Assumptions C14_clean_sound.
Print Assumptions C14_clean_coincide.
Print Assumptions C14_refuse_untouched.
Print Assumptions C14_refuse_untouched_cmd.
Print Assumptions C14_sessions_nonempty.
Print Assumptions C14_untouched_without_events.
Print Assumptions C14_handed_back_empty.
Print Assumptions C14_handed_back_empty_cmd.
Print Assumptions C14_handed_back_empty_cmd_bookkeeping.
Print Assumptions C14_restore_always_runs.
Print Assumptions C14_dir_readonly.
Print Assumptions C14_dir_readonly_cmd.
Print Assumptions C14_dir_written_only_by_plan.

(** Non-vacuity. *)
Definition ex_t0 : bytes := [116; 48]%N.
Definition ex_i0 : bytes := [105; 48]%N.
Definition ex_v0 : bytes := [118; 48]%N.
Definition ex_g0 : bytes := [103; 48]%N.
Definition ex_libsql : bytes := [108; 105; 98; 115; 113; 108; 95; 117]%N.  (* "libsql_u" *)
Definition ex_sqlitedb : bytes := [115; 113; 108; 105; 116; 101; 100; 98]%N.  (* "sqlitedb" *)
Definition ex_seq : bytes :=   (* "sqlite_sequence" *)
  [115; 113; 108; 105; 116; 101; 95; 115; 101; 113; 117; 101; 110; 99; 101]%N.
Definition ex_user_db : db :=
  [mkObj KTable ex_t0 ex_t0 3; mkObj KIndex ex_i0 ex_t0 0; mkObj KTrigger ex_g0 ex_t0 0].
Definition ex_dir : mdir := [mkMFile false [(1, SCreateTable ex_t0); (2, SInsert ex_t0)]].
Definition ex_dir2 : mdir :=
  [mkMFile false [(1, SCreateTable ex_t0); (2, SCreateIndex ex_i0 ex_t0); (3, SCreateView ex_v0)];
   mkMFile false [(4, SCreateTrigger ex_g0 ex_t0); (5, SInsert ex_t0); (6, SInsert ex_t0); (7, SDropTable ex_t0)]].

(* the verdicts: the former witnesses of the hole are refused, the residue of
   AUTOINCREMENT tables is accepted *)
Example C14_clean_nonvacuous :
  code_clean [mkObj KTable ex_libsql ex_libsql 2] = false /\
  code_clean [mkObj KTable ex_sqlitedb ex_sqlitedb 1; mkObj KIndex ex_i0 ex_sqlitedb 0] = false /\
  code_clean [mkObj KView ex_v0 ex_v0 0] = false /\
  code_clean [mkObj KTable ex_seq ex_seq 0] = true /\ code_clean [mkObj KTable b_wasm b_wasm 0] = true /\
  hidden_name ex_libsql = true /\ hidden_name ex_sqlitedb = true.
Proof. vm_compute. repeat split. Qed.

(* a user database -- also one the inspection cannot see -- is refused, untouched *)
Example C14_refuse_nonvacuous :
  run_cmd NoNorm (CLint 1) ex_dir2 SrcNone SrcNone false [] [] ex_user_db = (ORefused, ex_user_db, []) /\
  run_cmd NoNorm CValidate ex_dir SrcNone SrcNone false [] [] [mkObj KTable ex_libsql ex_libsql 2]
    = (ORefused, [mkObj KTable ex_libsql ex_libsql 2], []).
Proof. vm_compute. split; reflexivity. Qed.

(* statement 6 (second insert: UNIQUE violation) fails with a table, an index,
   a view, a trigger and a row in place; everything is gone afterwards; the
   same from a database holding the sqlite_sequence residue *)
Example C14_handed_back_nonvacuous :
  run_cmd NoNorm CValidate ex_dir2 SrcNone SrcNone false [] [] [] =
    (OFail 6, [], [EWrite 1 true; EWrite 2 true; EWrite 3 true; EWrite 4 true; EWrite 5 true;
                   EWrite 6 false; ERestore 4]) /\
  run_cmd NoNorm CValidate ex_dir SrcNone SrcNone false [] [] [mkObj KTable ex_seq ex_seq 0] =
    (OOk, [], [EWrite 1 true; EWrite 2 true; ERestore 4]).
Proof. vm_compute. split; reflexivity. Qed.

(* a failing restore: DELETE fails -> the table stays and the error is reported;
   VACUUM fails -> empty, error reported; through NormalizeSchema the error is
   dropped and the next session refuses the dirty database *)
Example C14_restore_fault_nonvacuous :
  run_cmd NoNorm CValidate ex_dir SrcNone SrcNone false [] [false; true] [] =
    (ORestoreFail, [mkObj KTable ex_t0 ex_t0 1], [EWrite 1 true; EWrite 2 true; ERestore 1]) /\
  run_cmd NoNorm CValidate ex_dir SrcNone SrcNone false [] [false; false; false; true] [] =
    (ORestoreFail, [], [EWrite 1 true; EWrite 2 true; ERestore 3]) /\
  run_cmd NormSchema CSchemaDiff [] (SrcHCL [mkHTable 1 ex_t0 []]) (SrcHCL [mkHTable 2 ex_t0 []])
          false [] [true] [] =
    (ORefused, [mkObj KTable ex_t0 ex_t0 0], [EWrite 1 true; ERestore 0]).
Proof. vm_compute. repeat split. Qed.

(* nothing succeeded (read-only connection): nothing changed *)
Example C14_untouched_nonvacuous :
  run_cmd NoNorm CValidate ex_dir SrcNone SrcNone false [true] [true] [] =
    (OFail 1, [], [EWrite 1 false; ERestore 0]).
Proof. vm_compute. reflexivity. Qed.

(* migrate diff against an SQL schema: two sessions, then the plan is written;
   against an HCL schema on a normalising driver: replay, then normalise *)
Example C14_dir_nonvacuous :
  run_cmd NoNorm CDiff [mkMFile false [(1, SCreateTable ex_t0)]] SrcNone
          (SrcSQL [(2, SCreateTable ex_t0); (3, SCreateView ex_v0)]) true [] [] [] =
    (OOk, [], [EWrite 2 true; EWrite 3 true; ERestore 4; EWrite 1 true; ERestore 4; EDirWrite]) /\
  run_cmd NormRealm CDiff [mkMFile false [(1, SCreateTable ex_t0)]] SrcNone
          (SrcHCL [mkHTable 2 ex_t0 [(3, ex_i0)]]) true [] [] [] =
    (OOk, [], [EWrite 1 true; ERestore 4; EWrite 2 true; EWrite 3 true; ERestore 4; EDirWrite]) /\
  run_cmd NoNorm CCheckpoint [mkMFile false [(1, SCreateTable ex_t0)]] SrcNone SrcNone true [] [] [] =
    (OOk, [], [EWrite 1 true; ERestore 4; EDirWrite]) /\
  run_cmd NoNorm CSchemaInspect [] (SrcSQL [(1, SCreateTable ex_t0)]) SrcNone true [] [] [] =
    (OOk, [], [EWrite 1 true; ERestore 4]).
Proof. vm_compute. repeat split. Qed.

(* lint restores in mid-session before a checkpoint file *)
Example C14_lint_checkpoint_nonvacuous :
  run_cmd NoNorm (CLint 2) [mkMFile false [(1, SCreateTable ex_t0)];
                            mkMFile true [(2, SCreateTable ex_t0)]] SrcNone SrcNone false [true; false] [] [] =
    (OFail 1, [], [EWrite 1 false; ERestore 4]) /\
  run_cmd NoNorm (CLint 2) [mkMFile false [(1, SCreateTable ex_t0)];
                            mkMFile true [(2, SCreateTable ex_t0)]] SrcNone SrcNone false [] [] [] =
    (OOk, [], [EWrite 1 true; ERestore 4; EWrite 2 true; ERestore 4]) /\
  run_cmd NoNorm (CLint 2) [mkMFile false [(1, SCreateTable ex_t0)];
                            mkMFile true [(2, SCreateTable ex_t0)]] SrcNone SrcNone false [] [true] [] =
    (ORestoreFail, [], [EWrite 1 true; ERestore 0; ERestore 4]).
Proof. vm_compute. repeat split. Qed.
