(** C03 -- schema exports are faithful: the HCL document and the SQL script that
    `schema inspect` prints re-create the inspected database; inspecting twice gives
    the same output.  Only statements, [exact] and [Print Assumptions] live here.

    The SQLite inspector recovers CHECK constraints, constraint names, generated
    expressions, AUTOINCREMENT and partial-index predicates from the stored CREATE
    text with regular expressions (sql/sqlite/inspect.go).  Sqlite/ExportModel.v holds
    those matchers (tied to the real inspector on every run: stage "regex"), and a
    printer of the text the planner emits.  In the statements below the double-quote
    byte is written <dq>. *)
From Coq Require Import List NArith Bool Arith.
From Atlas Require Import Base.Bytes Diff.Schema Sqlite.PlanModel Sqlite.ExportModel Sqlite.ExportProofs Sqlite.ExportPrint Sqlite.ExportPrintProofs.
Import ListNotations.
Require Import Coq.Strings.String.
Open Scope string_scope.
Open Scope list_scope.

(** 1. scanExpr (the helper every recovery ends with): pointed at a wrapped expression
    -- "(" body ")" where the body is made of plain bytes, closed '...'/<dq>...<dq>
    literals and parenthesised groups -- followed by ANY text, it returns exactly the
    expression.  All bodies, all continuations. *)
Theorem C03_scanExpr_exact :
  forall e rest, wrapped e -> scan_expr (e ++ rest) = e.
Proof. exact scan_expr_wrapped. Qed.
Print Assumptions C03_scanExpr_exact.

(** 2. C03_regex_inverts_printer, CHECK part, at full strength for the planner's printer:
    for every list of constraints [cks] -- names arbitrary non-empty \w+ byte strings or
    absent, expressions arbitrary wrapped expressions -- printed the way
    sqlite/migrate.go addTable/check prints them (", CONSTRAINT `n` CHECK (e)" / ", CHECK (e)"),
    after ANY text [x] that does not contain the letters CHECK (in any case) and before the
    closing parenthesis and ANY table options free of those letters, fillChecks returns
    exactly the printed constraints, in order.
    What is missing for the full statement (all of inspect.go's recoveries, all identifiers):
    the same theorem for setGenExpr / autoinc / fillConstName / the index predicate; they are
    modelled and tied, their failures are the _refuted theorems below, and the premise on [x]
    cannot be dropped (3a). *)
Theorem C03_regex_inverts_printer_partial :
  forall x cks post0,
  occurs_ci K_CHECK x = false -> Forall check_ok cks -> occurs_ci K_CHECK post0 = false ->
  fill_checks (x ++ checks_text cks ++ ch_rp :: post0) = cks.
Proof. exact fill_checks_inverts_printer. Qed.
Print Assumptions C03_regex_inverts_printer_partial.

Example C03_regex_inverts_printer_nonvacuous :
  Forall check_ok w_cks /\
  fill_checks (B "CREATE TABLE `t` (`a` int NULL, `b` text NULL" ++ checks_text w_cks ++ ch_rp :: B " STRICT") = w_cks.
Proof. split; [exact w_cks_ok|vm_compute; reflexivity]. Qed.

(** 2b. The same for the planner's printer itself (Sqlite/ExportPrint.v: sqlite/migrate.go addTable over a
    model of sqlx.Builder, tied to the real PlanChanges text on every run, stage "print"): for EVERY table
    [x] the printer accepts -- any columns, types, defaults, generated columns, primary key, foreign keys,
    options -- whose CHECK constraints have names in \w+ (or none) and wrapped expressions, and whose text
    before the constraints ([print_body]) does not contain the letters CHECK, fillChecks applied to the
    printed CREATE TABLE returns exactly the table's constraints.  This is C03_regex_inverts_printer for
    CHECK at full strength; the premise on the body cannot be dropped (3a). *)
Theorem C03_regex_inverts_printer_checks_except :
  forall x b3 txt,
  print_body x = Some b3 -> print_table x = Some txt ->
  occurs_ci K_CHECK (norm b3) = false ->
  Forall check_wf (t_checks (x_t x)) ->
  fill_checks txt = map kopt (t_checks (x_t x)).
Proof. exact fill_checks_print_table. Qed.
Print Assumptions C03_regex_inverts_printer_checks_except.

Example C03_regex_inverts_printer_checks_except_nonvacuous :
  print_table w_tab_full = Some w_tab_full_text /\
  (exists b3, print_body w_tab_full = Some b3 /\ occurs_ci K_CHECK (norm b3) = false) /\
  fill_checks w_tab_full_text = [(Some (B "ck"), B "(a > 0)"); (None, B "(length(b) > (1))")].
Proof. split; [exact w_tab_full_print|split; [exact w_tab_full_body_free|vm_compute; reflexivity]]. Qed.

(** 2c. setGenExpr on a generated column as the planner writes it -- after "(" or ",", spaces, `name`
    (name in \w+), a white-space byte (required by the regexp since the fix "sqlite inspection looks for the
    generated-column expression after the whole column name"), any comma-free text (type, NULL), AS, spaces, the wrapped expression: if no match of
    the column's regexp starts earlier in the statement and no further "AS (" follows in the same
    comma-free stretch, the expression is recovered exactly.  Both premises are decidable on the text
    and both are necessary (3b). *)
Theorem C03_regex_inverts_printer_genexpr_except :
  forall name pre c sp1 s0 mid w e rest,
  name_ok name -> open_ch c = true -> forallb is_space sp1 = true -> is_space s0 = true ->
  forallb not_comma mid = true -> forallb is_space w = true -> wrapped e ->
  last_as (tl e ++ rest) = None ->
  no_start_before _ (match_gen_at name)
    (pre ++ c :: sp1 ++ bt_ident name ++ (s0 :: mid) ++ K_AS ++ w ++ e ++ rest) (List.length pre) = true ->
  set_gen_expr name (pre ++ c :: sp1 ++ bt_ident name ++ (s0 :: mid) ++ K_AS ++ w ++ e ++ rest) = GenOk e.
Proof. exact set_gen_expr_printed. Qed.
Print Assumptions C03_regex_inverts_printer_genexpr_except.

Example C03_regex_inverts_printer_genexpr_except_nonvacuous :
  set_gen_expr (B "cx") w_tab_full_text = GenOk (B "(a + 1)") /\
  no_start_before _ (match_gen_at (B "cx")) w_tab_full_text 104 = true.
Proof. vm_compute. split; reflexivity. Qed.

(** 2d. autoinc on a column as the planner writes it: `name` integer ... PRIMARY KEY AUTOINCREMENT. *)
Theorem C03_regex_inverts_printer_autoinc_except :
  forall name pre c sp1 w1 mid rest cols,
  name_ok name -> open_ch c = true -> forallb is_space sp1 = true -> forallb is_space w1 = true ->
  forallb not_comma mid = true -> In name cols ->
  no_start_before _ match_autoinc_at
    (pre ++ c :: sp1 ++ bt_ident name ++ ch_sp :: w1 ++ t_integer ++ ch_sp :: mid ++ PK_AUTOINC ++ rest) (List.length pre) = true ->
  autoinc (pre ++ c :: sp1 ++ bt_ident name ++ ch_sp :: w1 ++ t_integer ++ ch_sp :: mid ++ PK_AUTOINC ++ rest) cols [name] = AutoOk name.
Proof. exact autoinc_printed. Qed.
Print Assumptions C03_regex_inverts_printer_autoinc_except.

Example C03_regex_inverts_printer_autoinc_except_nonvacuous :
  autoinc w_tab_full_text [B "id"; B "a"; B "b"; B "cx"; B "c"] [B "id"] = AutoOk (B "id").
Proof. vm_compute. reflexivity. Qed.

(** 2e. the predicate of a partial index as the planner writes it -- the statement up to the closing
    parenthesis of the parts, spaces, WHERE, a white-space byte, the predicate: if no match of reIdxWhere
    (")" + spaces + WHERE in any case + white space) starts earlier in the statement, the predicate is
    recovered (trimmed).  This is addIndexes since the fix "sqlite inspection finds the predicate of a partial
    index after the closing parenthesis of the index parts"; before it the premise had to be "the upper-case
    letters WHERE do not occur before the keyword" (index_predicate_old_printed, and 3d). *)
Theorem C03_regex_inverts_printer_predicate_except :
  forall pre w1 s0 c p,
  forallb is_space w1 = true -> is_space s0 = true ->
  no_start_before _ where_at (pre ++ ch_rp :: w1 ++ K_WHERE ++ s0 :: c :: p) (List.length pre) = true ->
  index_predicate (pre ++ ch_rp :: w1 ++ K_WHERE ++ s0 :: c :: p) = Some (ExportModel.trim_space (s0 :: c :: p)).
Proof. exact index_predicate_printed. Qed.
Print Assumptions C03_regex_inverts_printer_predicate_except.

(** 2e'. the predicate [p] of 2e is arbitrary: it may itself contain the letters WHERE / where -- in a string
    literal, in a column name, twice; the cut is taken at the first upper-case WHERE of the statement, which
    is the keyword when nothing before it has those letters. *)
Example C03_regex_inverts_printer_predicate_where_in_predicate :
  index_predicate (B "CREATE INDEX `i` ON `t` (`a`) WHERE k <> 'NOWHERE'") = Some (B "k <> 'NOWHERE'") /\
  index_predicate (B "CREATE INDEX `i` ON `t` (`whereabouts`) WHERE a = 'where' AND whereabouts > 0") = Some (B "a = 'where' AND whereabouts > 0") /\
  index_predicate (B "CREATE INDEX `i` ON `t` (`a`) WHERE note <> 'a WHERE b' OR WHERE_y > 0") = Some (B "note <> 'a WHERE b' OR WHERE_y > 0") /\
  occurs_cs K_WHERE (B "CREATE INDEX `i` ON `t` (`whereabouts`)") = false.
Proof. vm_compute. repeat split; reflexivity. Qed.

(** 3. The full statement "the recovery applied to the text the planner emits returns what was
    printed" is FALSE of inspect.go.  Each witness is a statement SQLite accepts and stores
    verbatim; each was reproduced on the real inspector (known findings of the same names).
    3a. fillChecks: a DEFAULT string containing "check (" -- the planner's own text for
        Column{b text, Default: Literal 'check (x)'} -- yields a constraint that does not exist. *)
Theorem C03_regex_inverts_printer_refuted_check :
  exists x, fill_checks (x ++ checks_text [] ++ ch_rp :: []) <> [].
Proof.
  exists (B "CREATE TABLE `t` (`a` int NULL, `b` text NULL DEFAULT 'check (x)'").
  vm_compute. discriminate.
Qed.
Print Assumptions C03_regex_inverts_printer_refuted_check.

(** 3a'. ... and on the printer: the table t(a int, b text DEFAULT 'check (x)') has no CHECK constraint; the
    planner prints it as shown and fillChecks finds one. *)
Theorem C03_regex_inverts_printer_checks_refuted :
  exists x txt, print_table x = Some txt /\ t_checks (x_t x) = [] /\ fill_checks txt <> [].
Proof.
  exists w_tab_default. eexists. split; [exact (proj1 w_tab_default_phantom)|split; [reflexivity|]].
  rewrite (proj2 w_tab_default_phantom). discriminate.
Qed.
Print Assumptions C03_regex_inverts_printer_checks_refuted.

(** 3b. setGenExpr: a string literal holding "AS (" inside the expression is taken for the start of the
    expression.  (The other former witness -- generated columns `cx` AS (a + 1) and `c` AS (a * 2) of the
    planner's own CREATE TABLE, column c given cx's expression because the name was matched without a
    boundary, known findings C03-prefix-column-names = C01-gen-col-name-prefix -- is FIXED in the Go code;
    [C03_prefix_column_names_fixed] states the new behaviour and what the OLD regexp did.) *)
Theorem C03_regex_inverts_printer_refuted_genexpr :
  set_gen_expr (B "g") w_gen_as_text = GenOk (B "(x')").
Proof. exact w_gen_as. Qed.
Print Assumptions C03_regex_inverts_printer_refuted_genexpr.
Theorem C03_prefix_column_names_fixed :
  (set_gen_expr (B "c") w_gen_text = GenOk (B "(a * 2)") /\ set_gen_expr (B "cx") w_gen_text = GenOk (B "(a + 1)")) /\
  (* the old code *) set_gen_expr_old (B "c") w_gen_text = GenOk (B "(a + 1)").
Proof. exact (conj w_gen_prefix_fixed (proj1 w_gen_prefix)). Qed.
Print Assumptions C03_prefix_column_names_fixed.

(** 3c. autoinc: a [bracket]-quoted AUTOINCREMENT column is not recognised (still true); and, for the OLD
    regexp ([autoinc_old]: PRIMARY\s+KEY\s+[^,]*AUTOINCREMENT), the letters AUTOINCREMENT later in the definition
    of a plain INTEGER PRIMARY KEY column were -- known finding C03-keyword-in-name-autoinc, FIXED in the Go code
    (fix "sqlite inspection recognises AUTOINCREMENT only where the grammar allows it"):
    [C03_autoinc_keyword_in_name_fixed] is the new behaviour on the same statement, and on the longest form
    the grammar allows (PRIMARY KEY DESC ON CONFLICT REPLACE AUTOINCREMENT). *)
Theorem C03_autoinc_refuted :
  autoinc w_auto_bracket [B "id"; B "b"] [B "id"] = AutoNone /\
  autoinc_old w_auto_phantom [B "id"; B "autoincrement_x"] [B "id"] = AutoOk (B "id").
Proof. exact w_autoinc. Qed.
Print Assumptions C03_autoinc_refuted.
Theorem C03_autoinc_keyword_in_name_fixed :
  autoinc w_auto_phantom [B "id"; B "autoincrement_x"] [B "id"] = AutoNone /\
  autoinc w_auto_full [B "id"; B "b"] [B "id"] = AutoOk (B "id").
Proof. exact w_autoinc_fixed. Qed.
Print Assumptions C03_autoinc_keyword_in_name_fixed.

(** 3d. partial-index predicate, the OLD code (strings.Index(stmt, "WHERE"); known findings C03-where-in-name
    and C03-lowercase-where, both FIXED in the Go code): the planner's own CREATE INDEX `ix_WHERE_y` ... WHERE a > 0
    was cut at the WHERE inside the name; a lower-case `where` was not found at all (inspection failed).
    [C03_index_predicate_fixed]: what addIndexes returns on the same two statements since the fix. *)
Theorem C03_index_predicate_refuted :
  index_predicate_old (B "CREATE INDEX `ix_WHERE_y` ON `t` (`a`) WHERE a > 0") = Some (B "_y` ON `t` (`a`) WHERE a > 0") /\
  index_predicate_old (B "CREATE INDEX i on t (a) where a > 0") = None.
Proof. exact w_where. Qed.
Theorem C03_index_predicate_fixed :
  index_predicate (B "CREATE INDEX `ix_WHERE_y` ON `t` (`a`) WHERE a > 0") = Some (B "a > 0") /\
  index_predicate (B "CREATE INDEX i on t (a) where a > 0") = Some (B "a > 0").
Proof. exact w_where_fixed. Qed.
Print Assumptions C03_index_predicate_fixed.
Print Assumptions C03_index_predicate_refuted.

(** 3e. fillConstName: of two foreign keys with the same columns and target the first one of the
    PRAGMA list gets every name: here id 0 is `fk2` and id 1 is `myfk` (SQLite numbers from the
    last declared key); the result names id 0 `myfk` and leaves id 1 unnamed. *)
Theorem C03_fk_names_refuted :
  map pf_symbol (fill_const_name w_fk_text
    [mkPfk (B "0") [B "pid"] (B "p") [B "id"]; mkPfk (B "1") [B "pid"] (B "p") [B "id"]]) = [B "myfk"; B "1"].
Proof. exact w_fk_same_shape. Qed.
Print Assumptions C03_fk_names_refuted.

(** 4. C03_hcl.  [hcl_roundtrip] is sqlite.EvalHCLBytes after sqlite.MarshalHCL on the spec tree
    (Hcl/SpecModel.v: sqlspec.go + specutil/convert.go for SQLite, tied to the real functions on
    every run, stage "spec"); premise made visible: the HCL text layer (hashicorp/hcl printing the
    tree and parsing it back, evaluating references) is NOT in the model -- a reference is the name it
    resolves to, a string is its bytes.  Full statement:
        forall well-formed s in the image of inspect,
          diff (from_spec (to_spec s)) s = [] and diff s (from_spec (to_spec s)) = [].
    4a. the structural half, at full strength: for every well-formed schema the round trip succeeds
        and returns the explicit normal form [norm_x] (defaults re-read, parts renumbered from 0,
        index origin dropped, primary key unnamed). *)
From Atlas Require Import Diff.DiffModel Diff.DiffSqlite Hcl.SpecModel Hcl.SpecProofs Hcl.SpecDiffProofs.
Theorem C03_hcl_normal_form :
  forall xs, schema_wf xs -> hcl_roundtrip xs = ROk (map norm_x xs).
Proof. exact hcl_roundtrip_norm. Qed.
Print Assumptions C03_hcl_normal_form.

(** 4b. the differ half: for every well-formed schema whose tables are [diffable_auto] the SQLite differ
    (Diff/DiffSqlite.v, C02's model of sqlx.Diff + sqlite/diff.go) finds no change between the round
    trip and the original, in both directions.  [diffable_auto]: unique column / index / fk names, typed
    columns, defaults in [default_ok] (4c: each excluded form is a genuine change), index parts numbered
    increasingly, primary key on plain ascending columns, referential actions without '_', named CHECKs
    unique; indexes with generated names (the sqlite_autoindex_ ones of UNIQUE constraints, which Normalize
    renames on one side and FindGeneratedIndex finds again) are allowed as long as the renamed names do
    not collide (C02's finding C02-sqlite-autoindex-name-collision is the failure without it).
    This is the characterisation that holds ("_except"); what stays assumed is the HCL text layer. *)
From Atlas Require Import Hcl.SpecDiffAutoProofs.
Theorem C03_hcl_except :
  forall name xs, schema_wf xs -> Forall diffable_auto xs ->
  exists ys, hcl_roundtrip xs = ROk ys /\
    SchemaDiff sqlite_driver no_skip (schema_of name ys) (schema_of name xs) = Some [] /\
    SchemaDiff sqlite_driver no_skip (schema_of name xs) (schema_of name ys) = Some [].
Proof. exact hcl_roundtrip_diff_empty_auto. Qed.
Print Assumptions C03_hcl_except.

Example C03_hcl_nonvacuous :
  (schema_wf w_xs /\ Forall diffable w_xs /\ List.length w_xs = 2%nat) /\
  (schema_wf [w_u] /\ Forall diffable_auto [w_u]).
Proof.
  split; [exact (conj w_xs_wf (conj w_xs_diffable eq_refl))|].
  split; [exact w_u_wf|constructor; [exact w_u_diffable|constructor]].
Qed.

(** 4c. C03_hcl at full strength is FALSE: columns the conversion accepts ([col_wf]) whose round trip the
    differ reports as changed -- boolean DEFAULT TRUE, DEFAULT '''a''' (a quoted quote), DEFAULT +5,
    DEFAULT 007.  Each reproduced on MarshalHCL / EvalHCLBytes / SchemaDiff (known findings
    C03-default-bool-case, C03-default-quoted-quote, C03-default-number-form). *)
Theorem C03_hcl_refuted :
  exists c, col_wf c /\ sqlite_column_change (mkTable [] false false [] None [] [] []) (norm_col c) c <> Some 0%N.
Proof.
  pose proof default_refuted as H. inversion H as [|c l Hc _]. subst. eexists. exact Hc.
Qed.
Print Assumptions C03_hcl_refuted.

(** 5. C03_sql.  The SQL export is the plan of (nothing -> inspected schema): cmdlog.sqlInspect =
    fmtPlan(ChangesToRealm(realm)), one AddTable per inspected table in inspection order, dump mode
    ([plan_dump]); over the shared model of planner, engine and inspector (Sqlite/PlanModel.v,
    EngineModel.v, InspectModel.v, tied by C01's stages) it is the plan [diff_and_plan] computes from an
    empty database, so it is a corollary of C01_create_converges.  Full statement:
        forall db, inspect (exec_all empty (plan_dump (inspect db))) ~ inspect db   (diff empty both ways).
    Proved: for every database whose inspected schema is within C01's decidable [supported] (typed
    columns, no generated index names, names that do not clash with the planner's new_<table>, ...), the
    export plans, executes without error on an empty engine, and the differ finds no change from the
    re-created database to the original.  Missing: the other direction of the diff, and the inspected
    schemas outside [supported] (C01's refuted witnesses: PRIMARY KEY (b, a), PRIMARY KEY (a DESC), ...
    -- the same inputs the oracle reports as C03-pk-order / C03-pk-desc). *)
From Atlas Require Import Sqlite.EngineModel Sqlite.InspectModel Sqlite.ConvergeSupported Sqlite.ExportDump Sqlite.ExportSqlProofs.
Theorem C03_sql_partial :
  forall nm d, supported empty_db (inspect d) = true ->
  exists p d', plan_dump (inspect d) = Some p /\ exec_all empty_db (plan_stmts p) = Ok d' /\
    sqlite_schema_diff no_skip (inspect_schema nm d') (inspect_schema nm d) = Some [].
Proof. exact sql_export_faithful. Qed.
Print Assumptions C03_sql_partial.

(** 5b. Which tables the SQL export creates: exactly the inspected tables, in inspection order -- for
    EVERY inspected schema, whatever its foreign keys point to.  A foreign key names its parent
    ([f_reftable]); when the parent was dropped (foreign_keys off / legacy_alter_table), never existed or
    lost the referenced column, SQLite keeps the clause and the inspector hangs a name-only stub on
    ForeignKey.RefTable that is not a member of Schema.Tables.  ChangesToRealm walks Schema.Tables only,
    so the plan holds one CREATE TABLE per inspected table and nothing for the stub ([created_tables] =
    the names of the plan's CREATE TABLE statements).  Tied on every loop of the stages loop and cli
    (in process and `atlas schema inspect --format '{{ sql . }}'`): the table list read from SQLite's own
    catalogue against the CREATE TABLE statements of the real export ([dump_creates] = the plan model on
    table skeletons).  That such an export executes and re-creates the dangling key is the oracle's part
    (SQLite resolves parents lazily). *)
Theorem C03_sql_dump_tables :
  forall B p, plan_dump B = Some p -> created_tables p = map x_name B.
Proof. exact dump_creates_inspected. Qed.
Print Assumptions C03_sql_dump_tables.

Example C03_sql_nonvacuous : supported empty_db (inspect w_db) = true /\ List.length (inspect w_db) = 1%nat.
Proof. exact w_db_supported. Qed.

(** 6. C03_stable: the inspection is a function of the catalogue -- two databases with the same tables
    (whatever their rows, flags or transaction state) are inspected identically; in particular inspecting
    twice gives the same schema, hence the same HCL and SQL ([hcl_roundtrip], [plan_dump], [print_table]
    are functions).  Trivial in Gallina; the content that is not -- no dependence on Go map iteration
    order in schemahcl -- is C20's (fixes 4422ee4, 7161040, 0d778d1), and is checked here by the oracle
    (hcl-unstable / sql-unstable symptoms, in process and through the CLI). *)
Theorem C03_stable :
  forall d1 d2, db_tables d1 = db_tables d2 ->
  inspect d1 = inspect d2 /\ plan_dump (inspect d1) = plan_dump (inspect d2) /\
  hcl_roundtrip (inspect d1) = hcl_roundtrip (inspect d2).
Proof. intros d1 d2 H. rewrite (inspect_stable d1 d2 H). auto. Qed.
Print Assumptions C03_stable.

(** 2f. fillConstName (table-level CONSTRAINT ... FOREIGN KEY, the form the planner writes): the text is any
    sequence of named keys  CONSTRAINT `sym` FOREIGN KEY (`c1`, ...) REFERENCES `t` (`r1`, ...)  -- all names
    arbitrary \w+ byte strings -- each preceded by any text without the letters CONSTRAINT that ends in a
    non-word byte (columns, primary key, unnamed keys, ON DELETE ..., ", "), followed by any [post] in which
    reFKT finds nothing (the CHECK constraints, the options); no inline  CONSTRAINT x REFERENCES  anywhere.
    Then every foreign key of the PRAGMA list ends up with the symbol of the printed key that has its
    columns, table and referenced columns, provided no two keys of the list share that shape ([one_match]);
    3e is the failure without it. *)
From Atlas Require Import Sqlite.ExportFkProofs.
Theorem C03_regex_inverts_printer_fk_names_except :
  forall l post fks,
  Forall (fun p => gap_ok (fst p) /\ nfk_ok (snd p)) l ->
  find_all_fkt (S (List.length post)) post = [] ->
  find_all_fkc (S (List.length (fks_text l ++ post))) (fks_text l ++ post) = [] ->
  (forall k, In k (map snd l) -> one_match (m_fk k) fks) ->
  fill_const_name (fks_text l ++ post) fks = map (fun p => fold_left (fun p k => upd k p) (map snd l) p) fks.
Proof. exact fill_const_name_printed. Qed.
Print Assumptions C03_regex_inverts_printer_fk_names_except.

Example C03_regex_inverts_printer_fk_names_except_nonvacuous :
  w_tab_full_text = fks_text [(w_gap, w_k)] ++ w_post /\
  map pf_symbol (fill_const_name w_tab_full_text [mkPfk (B "0") [B "a"] (B "p") [B "id"]]) = [B "fk1"].
Proof. exact (conj w_fk_decomposition w_fk_result). Qed.

(** 3e'. fillConstName, the inline form (reFKC; round 5b).  Users write  `col` type ... CONSTRAINT `sym` REFERENCES `rt` (`r`)
    inside a column definition; the planner never does.  Full statement wanted: for every CREATE TABLE text SQLite
    accepts, every named inline key is inspected with its name.  Proved: for every statement of the shape
      pre ++ [( or ,] ++ spaces ++ `col` ++ mid ++ " CONSTRAINT `sym` REFERENCES `rt` (`r1`, ...)" ++ rest
    with [mid] (type, NOT NULL, DEFAULT ...) free of commas, back-quoted \w+ names, and the decidable side conditions
    (a) reFKC starts nowhere in [pre] (leftmost match), (b) no later CONSTRAINT..REFERENCES tail in the same comma-free
    stretch ([no_later_tail]: the class [^,]* is greedy, the LAST tail wins), (c) reFKC finds nothing in [rest] and reFKT
    nothing in the statement: the key of the PRAGMA list with that column, table and referenced columns gets the symbol,
    when only one key has that shape.  Missing: other quotings (double quotes, none: tied, 9.4 k texts), several inline
    keys in one statement (iterate [find_all_fkc_printed]).  (b) is necessary: ExportFkcProofs.wi_two_result. *)
From Atlas Require Import Sqlite.ExportFkcProofs.
Theorem C03_regex_inverts_inline_fk_except :
  forall pre c w col mid sym rt rcols rest fks,
  open_ch c = true -> forallb ExportModel.is_space w = true -> name_ok col -> mid_ok mid ->
  name_ok sym -> name_ok rt -> rcols <> [] -> Forall name_ok rcols ->
  no_later_tail (inline_tail sym rt rcols ++ rest) = true ->
  no_start_before _ match_fkc_at (pre ++ inline_fk_text c w col mid sym rt rcols ++ rest) (List.length pre) = true ->
  find_all_fkc (S (List.length rest)) rest = [] ->
  (let T := pre ++ inline_fk_text c w col mid sym rt rcols ++ rest in find_all_fkt (S (List.length T)) T = []) ->
  one_match (m_fk (mkNfk sym [col] rt rcols)) fks ->
  fill_const_name (pre ++ inline_fk_text c w col mid sym rt rcols ++ rest) fks = map (upd (mkNfk sym [col] rt rcols)) fks.
Proof. exact fill_const_name_inline. Qed.
Print Assumptions C03_regex_inverts_inline_fk_except.

Example C03_regex_inverts_inline_fk_except_nonvacuous :
  wi_text = B "CREATE TABLE `c` (`id` integer NOT NULL PRIMARY KEY, `pid` int NOT NULL CONSTRAINT `fk_p` REFERENCES `p` (`id`) ON DELETE CASCADE, `n` text NULL)"
  /\ no_later_tail (inline_tail (B "fk_p") (B "p") [B "id"] ++ wi_rest) = true
  /\ map pf_symbol (fill_const_name wi_text [mkPfk (B "0") [B "pid"] (B "p") [B "id"]]) = [B "fk_p"].
Proof. exact (conj wi_is (conj (proj1 wi_premises) wi_result)). Qed.

(** the premise [no_later_tail] of 3e' is necessary, and without it the export loses a declared name: two named
    references in one column definition (legal SQL; reproduced on the real inspector: corpus statement 15 of
    harness/cmd/export/corpus.go, tie line k015 `fks=fk_b,1`; finding C03-two-inline-fk-one-column): the greedy class
    [^,]* finds the LAST clause only, the key to p keeps its PRAGMA number and the name fk_a is not recovered. *)
Theorem C03_inline_fk_two_names_refuted :
  exists s : bytes,
    s = B "CREATE TABLE `c` (`pid` int CONSTRAINT `fk_a` REFERENCES `p` (`id`) CONSTRAINT `fk_b` REFERENCES `q` (`id`))"
    /\ map pf_symbol (fill_const_name s [mkPfk (B "0") [B "pid"] (B "q") [B "id"]; mkPfk (B "1") [B "pid"] (B "p") [B "id"]])
        = [B "fk_b"; B "1"].
Proof. exists wi_two. split; [reflexivity|exact (proj2 wi_two_result)]. Qed.
Print Assumptions C03_inline_fk_two_names_refuted.

(** reFKC at one inline key, for every text around it: the match and its captures *)
Theorem C03_reFKC_match_exact :
  forall c w col mid sym rt rcols rest,
  open_ch c = true -> forallb ExportModel.is_space w = true -> name_ok col -> mid_ok mid ->
  name_ok sym -> name_ok rt -> rcols <> [] -> Forall name_ok rcols ->
  no_later_tail (inline_tail sym rt rcols ++ rest) = true ->
  match_fkc_at (inline_fk_text c w col mid sym rt rcols ++ rest) = Some (col, sym, rt, idents_text rcols, rest).
Proof. exact match_fkc_printed. Qed.
Print Assumptions C03_reFKC_match_exact.
Example C03_reFKC_match_exact_nonvacuous :
  match_fkc_at (B ", `pid` int CONSTRAINT `fk_p` REFERENCES `p` (`id`) ON DELETE CASCADE)")
  = Some (B "pid", B "fk_p", B "p", B "`id`", B " ON DELETE CASCADE)").
Proof. vm_compute. reflexivity. Qed.

(** 3f. further findings as kernel-evaluated witnesses on the models (each reproduced on the real code, see
    known_findings.d/C03.json): a bare identifier ending in "check" before "(", a CHECK inside an SQL comment,
    a two-parameter type on a generated column, a column name with a space on AUTOINCREMENT, a comma before an
    inline named REFERENCES, [bracket] quoting of a CHECK name; and the printer quoting a blob literal. *)
Theorem C03_regex_inverts_printer_refuted_more :
  fill_checks (B "CREATE TABLE health_check (id int)") = [(None, B "(id int)")] /\
  fill_checks (B "CREATE TABLE t (a int, /* CHECK (a > 1) */ b int)") = [(None, B "(a > 1)")] /\
  set_gen_expr (B "b") (B "CREATE TABLE t (a int, b numeric(10,2) AS (a * 2) STORED)") = GenNotFound /\
  autoinc (B "CREATE TABLE t (""my col"" INTEGER PRIMARY KEY AUTOINCREMENT, b int)") [B "my col"; B "b"] [B "my col"] = AutoNone /\
  map pf_symbol (fill_const_name (B "CREATE TABLE t (cx int CHECK (cx IN (1, 2, 3)) CONSTRAINT fk_a REFERENCES y (c))")
                   [mkPfk (B "0") [B "cx"] (B "y") [B "c"]]) = [B "0"] /\
  map pf_symbol (fill_const_name (B "CREATE TABLE t (cx int CHECK (cx > 0) CONSTRAINT fk_a REFERENCES y (c))")
                   [mkPfk (B "0") [B "cx"] (B "y") [B "c"]]) = [B "fk_a"] /\
  fill_checks (B "CREATE TABLE [t] ([a] int, CONSTRAINT [ck] CHECK (a > 0))") = [(None, B "(a > 0)")].
Proof. exact w_more. Qed.
Print Assumptions C03_regex_inverts_printer_refuted_more.

(** 2g. ... and composed over the tied printer, like 2b: for EVERY table [x] that [print_table] accepts and
    every generated column / the AUTOINCREMENT column [c] of it, the printed CREATE TABLE has the column at
    some position [n] (everything the planner writes afterwards only appends to the text or rewrites its last
    byte: [gen_column_in_table]); if no match of the column's regexp starts before [n] (and, for generated
    columns, no further "AS (" follows in the same comma-free stretch), the inspector recovers exactly
    sqlx.MayWrap(expr) / the column.  Both premises are decidable on the printed text; 3b / 3c show that
    neither can be dropped. *)
(** 5c. The SQL export path of the CLI as a whole (round 5b; Sqlite/ExportRealm.v).
    cmdlog.sqlInspect = fmtPlan(ChangesToRealm(client, realm)).  Full statement wanted: for every realm the exported
    script, executed on an empty database, creates every object before it is used and exactly the objects of the realm.
    [C03_sql_script_objects]: for EVERY realm (any number of schemas; tables are carried by the change, not looked up by
    name) the object sequence of the planned script is: per schema in order, per table in order, CREATE TABLE then one
    CREATE INDEX per index under its normalised name -- nothing else (no PRAGMA bracket, no stub of a referenced table);
    a client that is not bound to a schema gets AddSchema first, which the SQLite planner refuses (every SQLite URL is
    bound to "main", so that branch is only reachable in process).
    [C03_sql_script_creates_before_use_except]: SQLite's catalogue (tables and indexes share one name space; an index
    needs its table; REFERENCES needs nothing) accepts every statement of the script of every realm whose script names
    each object once, whatever the foreign keys are (cycles, self references, dangling parents), and ends with exactly
    the realm's tables in order.
    [C03_sql_script_name_clash_refuted]: the premise is NOT implied by a legal catalogue: normalizeIdxName renames the
    index of a UNIQUE constraint (sqlite_autoindex_t_1) to t_a, which another index may already be called; the script
    then creates t_a twice (reproduced: finding C03-unique-index-name-clash).
    [C03_sql_script_fk_order_refuted]: "parents before children" (C04's strict catalogue) is false of the export: it keeps
    the inspection order; SQLite accepts it because parents are resolved when rows are written (tied: the scripts are
    executed on a real engine in stages loop and cli, cyclic / self-referencing / child-first corpus included).
    [C03_sql_script_fk_closure]: a parent that is a table of the realm is created by the script. *)
From Atlas Require Import Sqlite.ExportRealm Sqlite.ExportRealmProofs.
Theorem C03_sql_script_objects :
  forall (bound : bool) (r : realm), option_map objects (sqlInspect bound r) = script_spec bound r.
Proof. exact sqlInspect_spec. Qed.
Print Assumptions C03_sql_script_objects.
Example C03_sql_script_objects_nonvacuous :
  option_map objects (sqlInspect true w_cycle)
  = Some [OTable n_a [n_b]; OIndex [105;49]%N n_a; OTable n_b [n_a]; OTable n_t [n_t]]
  /\ sqlInspect false w_cycle = None.
Proof. exact (conj (proj1 w_cycle_lazy) (proj1 w_unbound)). Qed.

Theorem C03_sql_script_creates_before_use_except :
  forall (bound : bool) (r : realm) (os : list obj),
  script_spec bound r = Some os -> NoDup (obj_names os) ->
  exists c', replay false empty_cat os = Some c' /\ c_tables c' = map x_name (all_tables r).
Proof. exact dump_replays. Qed.
Print Assumptions C03_sql_script_creates_before_use_except.
Example C03_sql_script_creates_before_use_except_nonvacuous :
  exists os, script_spec true w_cycle = Some os /\ NoDup (obj_names os) /\ List.length os = 4%nat.
Proof.
  eexists. split; [vm_compute; reflexivity|]. split; [|reflexivity].
  repeat constructor; cbn; intro H; repeat (destruct H as [H|H]; [discriminate|]); exact H.
Qed.

Theorem C03_sql_script_name_clash_refuted :
  exists (r : realm) (os : list obj),
    script_spec true r = Some os
    /\ NoDup (map x_name (all_tables r) ++ flat_map (fun x => map i_name (t_idx (x_t x))) (all_tables r))
    /\ replay false empty_cat os = None.
Proof.
  exists w_clash, [OTable n_t []; OIndex n_t_a n_t; OIndex n_t_a n_t].
  destruct w_clash_fails as (H1 & H2 & H3). split; [exact H1|]. split; [exact H2|exact H3].
Qed.
Print Assumptions C03_sql_script_name_clash_refuted.

Theorem C03_sql_script_fk_order_refuted :
  exists (r : realm) (os : list obj),
    option_map objects (sqlInspect true r) = Some os
    /\ (exists c, replay false empty_cat os = Some c) /\ replay true empty_cat os = None.
Proof. exists w_cycle. eexists. exact w_cycle_lazy. Qed.
Print Assumptions C03_sql_script_fk_order_refuted.

Theorem C03_sql_script_fk_closure :
  forall (bound : bool) (r : realm) (os : list obj) (x : xtable) (p : str),
  script_spec bound r = Some os -> In x (all_tables r) -> In p (map f_reftable (t_fks (x_t x))) ->
  In p (map x_name (all_tables r)) -> In p (tnames os).
Proof. exact dump_fk_closure. Qed.
Print Assumptions C03_sql_script_fk_closure.
Example C03_sql_script_fk_closure_nonvacuous :
  exists os, script_spec true w_cycle = Some os /\ In n_b (tnames os).
Proof. eexists. split; [vm_compute; reflexivity|]. vm_compute. right. left. reflexivity. Qed.

(** 5d. (round 5b) the pointer-based script of 5c and the name-based [plan_dump] of 5 / 5b are the same plan for a
    schema-bound client, one schema and distinct table names (SQLite's catalogue): C03_sql_partial and
    C03_sql_dump_tables are statements about the script of 5c. *)
From Atlas Require Import Sqlite.ExportRealmLink.
Theorem C03_sql_script_is_plan_dump :
  forall (nm : str) (B : xschema), NoDup (map x_name B) ->
  sqlInspect true [mkRS nm B] = option_map p_changes (plan_dump B).
Proof. exact sqlInspect_is_plan_dump. Qed.
Print Assumptions C03_sql_script_is_plan_dump.
Example C03_sql_script_is_plan_dump_nonvacuous :
  NoDup (map x_name (rs_tables (hd (mkRS [] []) w_cycle))) /\
  exists cs, sqlInspect true w_cycle = Some cs /\ List.length cs = 4%nat.
Proof.
  split; [|eexists; split; vm_compute; reflexivity].
  repeat constructor; cbn; intro H; repeat (destruct H as [H|H]; [discriminate|]); exact H.
Qed.

(** 5d'. (round 5b) the premise of C03_sql_script_creates_before_use_except discharged from SQLite's own name space:
    for every realm in which no inspected index carries a generated name (sqlite_autoindex...: the only names
    normalizeIdxName changes) and whose tables and indexes are pairwise distinct, the script is accepted statement by
    statement and creates exactly the realm's tables, in order.  With C03_sql_script_name_clash_refuted this is exact:
    the only way the export of a legal catalogue can name an object twice is a renamed UNIQUE-constraint index. *)
From Atlas Require Import Sqlite.ExportRealmPlain.
Theorem C03_sql_script_creates_before_use_plain :
  forall (bound : bool) (r : realm) (os : list obj),
  script_spec bound r = Some os ->
  Forall (fun x => Forall plain_idx (t_idx (x_t x))) (all_tables r) ->
  NoDup (cat_names (all_tables r)) ->
  exists c', replay false empty_cat os = Some c' /\ c_tables c' = map x_name (all_tables r).
Proof. exact dump_replays_plain. Qed.
Print Assumptions C03_sql_script_creates_before_use_plain.
Example C03_sql_script_creates_before_use_plain_nonvacuous :
  Forall (fun x => Forall plain_idx (t_idx (x_t x))) (all_tables w_cycle) /\ NoDup (cat_names (all_tables w_cycle)).
Proof. exact w_cycle_plain. Qed.

(** 5e. (round 5b) the indented export  {{ sql . "  " }}  (cmdlog.sqlInspect(report, indent) -> PlanOptions.Indent;
    sqlx.Builder.NL / MapIndent / WrapIndent; Sqlite/ExportPrintIndent.v, tied in stage print with two indents).
    Full statement wanted: the indented script recreates the same database as the plain one.  Proved, for EVERY table:
    with the empty indent the text is the plain CREATE TABLE; with ANY indent made of white space the indented text
    fails exactly when the plain one fails and differs from it in white space only ([sq] removes the bytes of
    strings.TrimSpace's ASCII class).  Missing: SQLite's reading of the two texts (white space is insignificant outside
    literals: the engine is outside the proofs; observed through the CLI loop of stage cli), and the regex recovery on
    the stored indented text (observed: sql-indent-reinspect). *)
From Atlas Require Import Sqlite.ExportPrintIndent Sqlite.ExportPrintIndentProofs.
Theorem C03_indent_empty_is_plain : forall x : xtable, print_table_ind [] x = print_table x.
Proof. exact print_table_ind_nil. Qed.
Print Assumptions C03_indent_empty_is_plain.
Theorem C03_indent_whitespace_only :
  forall (ind : bytes) (x : xtable), forallb is_go_space ind = true ->
  match print_table_ind ind x, print_table x with
  | Some a, Some a' => sq a = sq a'
  | None, None => True
  | _, _ => False
  end.
Proof. intros ind x H. exact (print_table_ind_ws ind H x). Qed.
Print Assumptions C03_indent_whitespace_only.
Example C03_indent_nonvacuous :
  print_table_ind [32;32]%N wi_x <> print_table wi_x /\
  (exists a a', print_table_ind [32;32]%N wi_x = Some a /\ print_table wi_x = Some a' /\ sq a = sq a' /\ In ch_nl a /\ ~ In ch_nl a').
Proof. exact wi_x_text. Qed.

(** 5f. (round 5b) fillChecks on the CHECK list of the INDENTED CREATE TABLE -- the text SQLite stores when the script of
    `schema inspect --format '{{ sql . "  " }}'` is executed: after ANY text free of the letters CHECK, the constraints
    each written after a comma and ANY white space (new line + any indentation), then ANY text free of those letters
    (new line, closing parenthesis, options): fillChecks returns exactly the constraints, in order.  This is 2. with
    the separator of the indented printer.  Missing: the decomposition of [print_table_ind] into this shape (the
    analogue of 2b; the CLI loop of stage cli observes the recovery on the real indented text instead). *)
From Atlas Require Import Sqlite.ExportIndentCheckProofs.
Theorem C03_regex_inverts_indented_checks_partial :
  forall (x : bytes) (l : list (bytes * (option bytes * bytes))) (post : bytes),
  occurs_ci K_CHECK x = false ->
  Forall (fun p => forallb ExportModel.is_space (fst p) = true /\ check_ok (snd p)) l ->
  occurs_ci K_CHECK post = false -> (l = [] -> occurs_ci K_CHECK (x ++ post) = false) ->
  fill_checks (x ++ checks_text_ws l ++ post) = map snd l.
Proof. exact fill_checks_inverts_indented. Qed.
Print Assumptions C03_regex_inverts_indented_checks_partial.
Example C03_regex_inverts_indented_checks_nonvacuous :
  Forall (fun p => forallb ExportModel.is_space (fst p) = true /\ check_ok (snd p)) w_ind_l /\
  fill_checks w_ind_text = w_cks /\ In ch_nl w_ind_text.
Proof. split; [exact (proj1 w_ind_checks)|]. split; [exact (proj2 w_ind_checks)|]. vm_compute. tauto. Qed.

(** 5g. (round 5b) C03_regex_inverts_printer, CHECK part, for the INDENTED printer itself: for EVERY table the indented
    printer accepts (any columns, defaults, generated columns, primary key, foreign keys, options), every indent that
    is a non-empty run of blanks, CHECK constraints with \w+ names (or none) and wrapped expressions, and a body
    ([print_body_ind]) free of the letters CHECK: fillChecks applied to the indented CREATE TABLE -- the text SQLite
    stores when the indented export is executed -- returns exactly the table's constraints.  (For a table without
    constraints the premise is on the whole text.)  The other recoveries on the indented statement are observed only. *)
From Atlas Require Import Sqlite.ExportIndentTableProofs.
Theorem C03_regex_inverts_indented_printer_checks_except :
  forall (ind : bytes), ind <> [] -> forallb (N.eqb 32) ind = true ->
  forall (x : xtable) (b3 txt : bytes),
  print_body_ind ind x = Some b3 -> print_table_ind ind x = Some txt ->
  occurs_ci K_CHECK (norm b3) = false ->
  (t_checks (x_t x) = [] -> occurs_ci K_CHECK (norm b3 ++ ch_nl :: ch_rp :: opts_suffix (x_t x)) = false) ->
  Forall check_wf (t_checks (x_t x)) ->
  fill_checks txt = map kopt (t_checks (x_t x)).
Proof. exact fill_checks_print_table_ind. Qed.
Print Assumptions C03_regex_inverts_indented_printer_checks_except.
Example C03_regex_inverts_indented_printer_checks_nonvacuous :
  exists b3 txt, print_body_ind [32;32]%N wi_x = Some b3 /\ print_table_ind [32;32]%N wi_x = Some txt /\
    occurs_ci K_CHECK (norm b3) = false /\ fill_checks txt = map kopt (t_checks (x_t wi_x)) /\ t_checks (x_t wi_x) <> [].
Proof. eexists. eexists. split; [vm_compute; reflexivity|]. split; [vm_compute; reflexivity|]. split; [vm_compute; reflexivity|]. split; [vm_compute; reflexivity|discriminate]. Qed.


From Atlas Require Import Diff.Schema Sqlite.ExportColumnProofs.
Theorem C03_regex_inverts_printer_genexpr_table_except :
  forall x cols1 c cols2 e ty txt,
  t_cols (x_t x) = cols1 ++ c :: cols2 -> c_gen c = Some (e, ty) -> has_autoinc x (c_name c) = false ->
  c_default c = None -> c_class c <> 0%N -> name_ok (c_name c) -> type_ok (c_T c) -> wrapped (may_wrap e) ->
  print_table x = Some txt ->
  exists n rest,
    (no_start_before _ (match_gen_at (c_name c)) txt n = true -> last_as (tl (may_wrap e) ++ rest) = None ->
     set_gen_expr (c_name c) txt = GenOk (may_wrap e)).
Proof. exact set_gen_expr_print_table. Qed.
Print Assumptions C03_regex_inverts_printer_genexpr_table_except.

Theorem C03_regex_inverts_printer_autoinc_table_except :
  forall x cols1 c cols2 txt,
  t_cols (x_t x) = cols1 ++ c :: cols2 -> c_gen c = None -> has_autoinc x (c_name c) = true ->
  c_default c = None -> c_class c <> 0%N -> name_ok (c_name c) -> c_T c = t_integer ->
  print_table x = Some txt ->
  exists n,
    (no_start_before _ match_autoinc_at txt n = true ->
     autoinc txt (map c_name (t_cols (x_t x))) [c_name c] = AutoOk (c_name c)).
Proof. exact autoinc_print_table. Qed.
Print Assumptions C03_regex_inverts_printer_autoinc_table_except.

Example C03_regex_inverts_printer_table_nonvacuous :
  print_table w_tab_full = Some w_tab_full_text /\
  set_gen_expr (B "cx") w_tab_full_text = GenOk (B "(a + 1)") /\
  autoinc w_tab_full_text (map c_name (t_cols (x_t w_tab_full))) [B "id"] = AutoOk (B "id").
Proof. split; [exact w_tab_full_print|vm_compute; split; reflexivity]. Qed.

(** 2h. the partial-index predicate composed over the tied printer ([print_index] = addIndexes after
    normalizeIdxName): for every index with a trimmed, non-empty predicate [p], if no match of reIdxWhere
    (")" + spaces + WHERE in any case + white space) starts before the closing parenthesis of ([index_head]:
    CREATE [UNIQUE] INDEX `name` ON `table` (parts)), the inspector reads back exactly [p].  The premise is
    decidable on the text; it fails only for a name or expression that itself contains ") WHERE ". *)
Theorem C03_regex_inverts_printer_predicate_index_except :
  forall t i0 i p txt,
  normalize_idx_name i0 t = Some i -> i_pred i = Some p -> p <> [] -> ExportModel.trim_space p = p ->
  is_go_space (last_byte p) = false ->
  print_index t i0 = Some txt ->
  no_start_before _ where_at txt (pred (List.length (index_head t i))) = true ->
  index_predicate txt = Some p.
Proof. exact index_predicate_print_index. Qed.
Print Assumptions C03_regex_inverts_printer_predicate_index_except.

Example C03_regex_inverts_printer_predicate_index_nonvacuous :
  let i := mkIndex (B "i1") true [mkPart 1 true (Some (B "a")) None; mkPart 2 false None (Some (B "(a + 1)"))] (Some (B "a > 0")) None None in
  let t := x_t w_tab_full in
  print_index t i = Some (B "CREATE UNIQUE INDEX `i1` ON `t` (`a` DESC, (a + 1)) WHERE a > 0") /\
  no_start_before _ where_at (B "CREATE UNIQUE INDEX `i1` ON `t` (`a` DESC, (a + 1)) WHERE a > 0") (pred (List.length (index_head t i))) = true /\
  index_predicate (B "CREATE UNIQUE INDEX `i1` ON `t` (`a` DESC, (a + 1)) WHERE a > 0") = Some (B "a > 0").
Proof. vm_compute. repeat split; reflexivity. Qed.

(** 7. A disturbed inspection fails, it does not export less.  The inspection reads the catalogue with a
    sequence of statements (schema list, table list + CREATE text, and per table pragma_table_xinfo, the index
    list, one index-info statement per index, the foreign-key list); any of them can fail ("database is
    locked").  The inspector is modelled as a program over reads ([inspect_prog], Sqlite/ExportFault.v) in a
    language without an operator that catches a failed read; [run] executes it against the catalogue of [d]
    with an arbitrary fault plan ([fault n] = the n-th statement of the process fails).  For EVERY database
    and EVERY fault plan: the result is an error iff a statement the undisturbed inspection issues is hit, and
    otherwise it is exactly [inspect d] (the shared inspection model) -- never a smaller schema.  With
    [C03_stable]: inspection is a function of the catalogue when every read succeeds.
    What the theorem cannot see is an implementation that leaves this language (retrying
    pragma_table_xinfo as pragma_table_info, ignoring the error of the index-info statement): that is the
    tie and the oracle of stage `fault` -- every statement of the undisturbed inspection is failed in turn, in
    process (ExecQuerier around sqlite.Open) and through the CLI (sqlitefault://); observed: number of
    statements = [reads] of the model on the same catalogue shape, and every single fault ends in an error. *)
From Atlas Require Import Sqlite.ExportFault.
Theorem C03_disturbed_inspection :
  forall d fault,
  run _ _ (cat_of d) fault 0 inspect_prog =
  if existsb fault (seq 0 (reads _ _ (cat_of d) inspect_prog)) then None else Some (inspect d).
Proof. exact inspect_disturbed. Qed.
Print Assumptions C03_disturbed_inspection.

(** ... in the form of the oracle: exit non-zero, or the undisturbed export; and a fault on any statement the
    inspection issues is an error *)
Theorem C03_disturbed_inspection_fails_or_same :
  forall d fault,
  (run _ _ (cat_of d) fault 0 inspect_prog = None \/ run _ _ (cat_of d) fault 0 inspect_prog = Some (inspect d)) /\
  (forall k, k < reads _ _ (cat_of d) inspect_prog -> fault k = true ->
     run _ _ (cat_of d) fault 0 inspect_prog = None) /\
  run _ _ (cat_of d) (fun _ => false) 0 inspect_prog = Some (inspect d).
Proof.
  intros d fault. split; [|split].
  - rewrite inspect_disturbed. destruct (existsb _ _); auto.
  - intros k Hk Hf. exact (run_fault_detected _ _ (cat_of d) inspect_prog fault 0 k Hk Hf).
  - rewrite run_undisturbed, inspect_prog_eval. reflexivity.
Qed.
Print Assumptions C03_disturbed_inspection_fails_or_same.

(** non-vacuity: the witness database of C03_sql is inspected with 6 statements (one table, one index) *)
Example C03_disturbed_nonvacuous : reads _ _ (cat_of w_db) inspect_prog = 6%nat.
Proof. vm_compute. reflexivity. Qed.

(** 7b. Row-level faults.  A statement can also fail while its rows are read -- that is where go-sqlite3
    reports "database is locked": from rows.Next(), not from QueryContext.  Until fix C03-rows-err none of the
    six [for rows.Next()] loops of sql/sqlite/inspect.go looked at rows.Err(): a table-list statement that
    broke off before its first row was read as "no tables" ([read_rows_unchecked_old_refuted]; finding
    C03-rows-err-unchecked, fixed).  Now every loop is followed by the check ([read_rows_checked]: a result
    set that breaks off after any number of rows is a failed read, otherwise all rows are delivered), so the
    inspection under a plan of row-level faults ([rf n = Some j]: the n-th statement breaks off after j rows)
    is the program of 7 with exactly those statements failing: for EVERY database and EVERY such plan the
    inspection is an error iff a statement it issues breaks off -- a failing Next is an error of the
    inspection -- and exactly [inspect d] otherwise.  Observed on the real driver with a second connection
    holding the database (BEGIN EXCLUSIVE) during one statement at a time (stage fault, lock mode): every
    locked inspection must return an error or the undisturbed export. *)
Theorem C03_disturbed_inspection_rows :
  forall d rf,
  (run_rows (cat_of d) rf 0 inspect_prog =
     if existsb (fun m => match rf m with Some _ => true | None => false end)
                (seq 0 (reads _ _ (cat_of d) inspect_prog))
     then None else Some (inspect d)) /\
  (forall k j, k < reads _ _ (cat_of d) inspect_prog -> rf k = Some j ->
     run_rows (cat_of d) rf 0 inspect_prog = None) /\
  (forall (T : Type) (rows : list T) break,
     read_rows_checked rows break = match break with Some _ => None | None => Some rows end).
Proof.
  intros d rf. split; [apply inspect_disturbed_rows|]. split.
  - intros k j Hk Hr. unfold run_rows.
    apply (run_fault_detected _ _ (cat_of d) inspect_prog _ 0 k Hk). cbn. rewrite Hr. reflexivity.
  - intros T rows b. apply read_rows_checked_spec.
Qed.
Print Assumptions C03_disturbed_inspection_rows.
