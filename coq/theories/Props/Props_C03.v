(** C03 -- schema exports are faithful (placeholder while the models are built). *)
From Coq Require Import List NArith Bool Arith.
Import ListNotations.
