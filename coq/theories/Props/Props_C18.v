(** C18 -- `migrate lint` flags every destructive migration file and no purely additive one.

    Model: Lint/LintModel.v (DevLoader.nextStmts/first/LoadChanges, sqlx RealmDiff, File.loadSpans,
    the sqlitecheck rebuild pre-pass, destructive.Analyze, Runner exit status).  The pre-pass is modelled
    after fix 3711e87 and after the two C18 fixes notes/fixes/C18-rebuild-copy-slot.diff and
    notes/fixes/C18-rebuild-exact-rename.diff.
    Vocabulary: Lint/LintSpec.v ([run], [step_at], [has_table], [has_col], [removes_table], [removes_col] ...).

    FULL STATEMENTS (both are FALSE of the faithful model and of the real CLI, see the [_refuted] theorems;
    the findings are recorded in known_findings.d/C18.json):

    C18_complete (full): for every start catalogue r0 and every file [stmts] that executes ([run r0 stmts rs]):
      (a) EVERY statement that removes a table name that has been present since before the file -- even if the
          name is created again later in the file -- gets a DS102 diagnostic at its position (or at the CREATE
          that opens the rebuild group it belongs to), and the file report carries the error;
      (b) every statement that removes a column t.c present since before the file and non-virtual when it is
          dropped gets a DS103 naming c (or a DS102 naming t) likewise.
    C18_sound (full): a file none of whose statements removes a table/column name that existed in r0
      gets no DS102/DS103 diagnostic (and no error).

    PROVED here, for all inputs:
      C18_analyze_exact_DS102 / _DS103 / C18_diag_position / C18_exit_status   exact characterisation of the
            analyzer on ANY change list (so also after the pre-pass)
      C18_complete_tables_dropped_except / C18_complete_columns_dropped_except   (a)/(b) for every file on which
            the rebuild pre-pass does not fire: the statement that removes the pre-existing name is reported,
            whether or not the name is created again afterwards -- EXCEPT when the file removes that name a
            second time (finding `readded`: drop, re-create, drop again => nothing is reported)
      C18_complete_tables_except / C18_complete_columns_except   the weaker "existed before, not after" forms
      C18_prepass_identity   the pre-pass does not fire when no statement creates a table named new_*
      C18_rebuild_group_shape / C18_rebuild_group_partial / C18_rebuild_copy_slot_kept   a confirmed rebuild group
            (CREATE new_t / copy without schema change / DROP t / RENAME to exactly t) is reported at the position
            of its first statement with DS103 for every omitted non-virtual column; a schema-changing statement
            in the copy slot prevents the fold and stays in the analysed list
      C18_sound_additive     a file none of whose statements removes a table or column name gets no diagnostic
      C18_sound_temp_table_partial   a table name created once in the analysed list, before any drop of it, is
            never named by a DS102
      C18_complete_refuted_readded / _readded_column / C18_sound_refuted   witnesses of the two remaining defects
    MISSING (hence the _partial names): (i) the file-level completeness theorems assume that the pre-pass does not
    fire; what a confirmed group is turned into is proved, but the composition "group inside a longer file" is
    covered by the tie (stages exh, rand) only; (ii) the temporary-object half of soundness is proved on the
    analysed change list for tables; its column analogue and the bridge from statements to that list are covered
    by the tie only.
    ROUND 5 closes most of (i) and (ii): C18_rebuild_group_in_file (a confirmed group after any statements that
    create no new_* table: the statements before stay, the group is folded at its CREATE, the rest is processed
    by the same pre-pass; DS103 of the group and DS102 of the statements before it are in the file's report),
    C18_sound_temp_objects (tables and columns, any analysed list), C18_sound_temp_table_file and
    C18_sound_temp_column_file (bridge from statements).  Still missing: file-level COMPLETENESS (theorems 5-6')
    for files on which the pre-pass fires, stated on statements rather than on the analysed list. *)
From Coq Require Import List NArith Bool Arith.
From Atlas Require Import Base.Bytes Lint.LintModel Lint.LintSpec Lint.LintProofs Lint.LintFileProofs Lint.LintSoundProofs Lint.LintDropProofs Lint.LintRefute
  Lint.LintNolintModel Lint.LintNolintProofs Lint.LintNolintRefute
  Lint.LintGenModel Lint.LintGenSpec Lint.LintGenProofs Lint.LintGenRefute Lint.LintEnvModel Lint.LintEnvProofs Lint.LintHistProofs Lint.LintComposeProofs Lint.LintRefineProofs.
Import ListNotations.

(** 1. destructive.Analyze, exactly: DS102 at [p] naming [n] iff a statement at [p] carries DropTable n
    and the add/drop history of the name n in the analysed list does not end as Added-then-Dropped. *)
Theorem C18_analyze_exact_DS102 :
  forall (cl : list schange) (p : N) (ns : list name),
  In (mkDiag DS102 p ns) (Analyze cl) <->
  exists sc T, In sc cl /\ sc_pos sc = p /\ In (DropTableC T) (sc_changes sc) /\ ns = [t_name T] /\
               table_state cl (t_name T) <> SpanTemporary.
Proof. exact Analyze_DS102. Qed.
Print Assumptions C18_analyze_exact_DS102.

(** 2. ... DS103 at [p] naming column [n] iff a statement at [p] carries ModifyTable T [.. DropColumn n ..],
    n is not VIRTUAL, and the history of T.n does not end as Added-then-Dropped. *)
Theorem C18_analyze_exact_DS103 :
  forall (cl : list schange) (p : N) (n : name),
  (exists ns, In (mkDiag DS103 p ns) (Analyze cl) /\ In n ns) <->
  exists sc T cs d, In sc cl /\ sc_pos sc = p /\ In (ModifyTableC T cs) (sc_changes sc) /\
                    In (DropColumnC d) cs /\ c_name d = n /\ c_virtual d = false /\
                    column_state cl (t_name T) (c_name d) <> SpanTemporary.
Proof. exact Analyze_DS103. Qed.
Print Assumptions C18_analyze_exact_DS103.

(** 3. Every diagnostic carries the position of one of the analysed statements (never "the last
    statement of the file" or a position of its own). *)
Theorem C18_diag_position :
  forall (cl : list schange) (d : diag), In d (Analyze cl) -> exists sc, In sc cl /\ sc_pos sc = d_pos d.
Proof. exact Analyze_pos. Qed.
Print Assumptions C18_diag_position.

(** 4. Exit status: `migrate lint` fails iff the replay fails or some analysed file has a destructive diagnostic. *)
Theorem C18_exit_status :
  forall (dir : list mfile) (latest : nat) files failed,
  lint dir latest = LintReport files failed ->
  (failed = true <-> exists f ds, In (f, ds) files /\ ds <> []).
Proof. exact lint_exit_status. Qed.
Print Assumptions C18_exit_status.

(** 5. Completeness, tables: DROP TABLE / RENAME / anything that makes the name disappear. *)
Theorem C18_complete_tables_except :
  forall (r0 : realm) (stmts : list pstmt) (rs : list realm) (n : name),
  run r0 stmts rs ->
  rewriteTemp (changes_of r0 stmts rs) = changes_of r0 stmts rs ->       (* pre-pass does not fire *)
  has_table r0 n -> ~ has_table (last rs r0) n ->
  (* exception: no statement of the file creates the name n (again) *)
  (forall j p b a, step_at r0 stmts rs j p b a -> has_table a n -> has_table b n) ->
  exists j p b a, step_at r0 stmts rs j p b a /\ removes_table b a n /\
                  In (mkDiag DS102 p [n]) (analyze_file (changes_of r0 stmts rs)).
Proof. exact complete_tables. Qed.
Print Assumptions C18_complete_tables_except.

(** 6. Completeness, columns of a surviving table (ALTER TABLE .. DROP COLUMN, RENAME COLUMN, ...):
    the statement that removes t.c is reported with DS103 naming c whenever the column it drops is not virtual. *)
Theorem C18_complete_columns_except :
  forall (r0 : realm) (stmts : list pstmt) (rs : list realm) (t c : name),
  wf_realm r0 -> run r0 stmts rs ->
  rewriteTemp (changes_of r0 stmts rs) = changes_of r0 stmts rs ->
  has_col r0 t c -> has_table (last rs r0) t -> ~ has_col (last rs r0) t c ->
  (* exceptions: no statement creates table t (again) / adds column t.c (again) *)
  (forall j p b a, step_at r0 stmts rs j p b a -> has_table a t -> has_table b t) ->
  (forall j p b a, step_at r0 stmts rs j p b a -> has_col a t c -> has_col b t c) ->
  exists j p b a T d, step_at r0 stmts rs j p b a /\
     find_table b t = Some T /\ find_col (t_cols T) c = Some d /\ has_table a t /\ ~ has_col a t c /\
     (c_virtual d = false ->
      exists ns, In (mkDiag DS103 p ns) (analyze_file (changes_of r0 stmts rs)) /\ In c ns).
Proof. exact complete_columns. Qed.
Print Assumptions C18_complete_columns_except.

(** 5'. Completeness at full strength but one exception: the statement [j] that removes table name [n], present
    since before the file, is reported -- the name may be created again later (DROP TABLE t; CREATE TABLE t ...).
    Exception: [n] is removed by no other statement of the file. *)
Theorem C18_complete_tables_dropped_except :
  forall (r0 : realm) (stmts : list pstmt) (rs : list realm) (n : name) j p b a,
  run r0 stmts rs ->
  rewriteTemp (changes_of r0 stmts rs) = changes_of r0 stmts rs ->       (* pre-pass does not fire *)
  has_table r0 n ->
  step_at r0 stmts rs j p b a -> removes_table b a n ->
  single_table_removal r0 stmts rs n ->
  In (mkDiag DS102 p [n]) (analyze_file (changes_of r0 stmts rs)).
Proof. exact complete_tables_dropped. Qed.
Print Assumptions C18_complete_tables_dropped_except.

(** 6'. ... and the statement that removes column t.c (non-virtual when dropped) from the surviving table t:
    reported with DS103 naming c even when a later statement adds a column c again
    (ALTER TABLE t DROP COLUMN b; ALTER TABLE t ADD COLUMN b text).  Exception: t.c is removed only once. *)
Theorem C18_complete_columns_dropped_except :
  forall (r0 : realm) (stmts : list pstmt) (rs : list realm) (t c : name) j p b a T d,
  wf_realm r0 -> run r0 stmts rs ->
  rewriteTemp (changes_of r0 stmts rs) = changes_of r0 stmts rs ->
  has_col r0 t c ->
  step_at r0 stmts rs j p b a ->
  find_table b t = Some T -> find_col (t_cols T) c = Some d -> has_table a t -> ~ has_col a t c ->
  single_col_removal r0 stmts rs t c ->
  c_virtual d = false ->
  exists ns, In (mkDiag DS103 p ns) (analyze_file (changes_of r0 stmts rs)) /\ In c ns.
Proof. exact complete_columns_dropped. Qed.
Print Assumptions C18_complete_columns_dropped_except.

(** 7. The pre-pass is the identity when no statement creates a table whose name starts with "new_";
    and nextStmts yields exactly [changes_of] of the run. *)
Theorem C18_prepass_identity :
  forall cl, (forall T, In (AddTableC T) (all_changes cl) -> has_prefix (t_name T) new_prefix = false) ->
  rewriteTemp cl = cl.
Proof. exact rewriteTemp_id. Qed.
Print Assumptions C18_prepass_identity.

Theorem C18_nextStmts_is_run :
  forall stmts r cl rf, nextStmts r stmts = inr (cl, rf) <->
  exists rs, run r stmts rs /\ cl = changes_of r stmts rs /\ rf = last rs r.
Proof. exact nextStmts_iff_run. Qed.
Print Assumptions C18_nextStmts_is_run.

(** 8. The full completeness statement is false (defect `readded`, replayed on the real CLI; the two former
    witnesses `hidden` and `prefix-rename` are repaired by notes/fixes/C18-rebuild-*.diff, see the Examples):
    a file executes from a well-formed catalogue, a table present before it is absent after it, and the
    analysis of the file (pre-pass + destructive analyzer) reports nothing at all. *)
Theorem C18_complete_refuted_readded :
  exists (r0 : realm) (stmts : list pstmt) (n : name), let rs := states_of r0 stmts in
    wf_realm r0 /\ run r0 stmts rs /\ nextStmts r0 stmts = inr (changes_of r0 stmts rs, last rs r0) /\
    has_table r0 n /\ ~ has_table (last rs r0) n /\ analyze_file (changes_of r0 stmts rs) = [].
Proof. exact (ex_intro _ w_r0 (ex_intro _ w_readd (ex_intro _ n_t readd_missed))). Qed.
Print Assumptions C18_complete_refuted_readded.



Theorem C18_complete_refuted_readded_column :
  exists (r0 : realm) (stmts : list pstmt) (t c : name), let rs := states_of r0 stmts in
    wf_realm r0 /\ run r0 stmts rs /\ has_real_col r0 t c /\ has_table (last rs r0) t /\ ~ has_col (last rs r0) t c /\
    analyze_file (changes_of r0 stmts rs) = [].
Proof. exact (ex_intro _ w_r0 (ex_intro _ w_readd_col (ex_intro _ n_t (ex_intro _ (c_name c_b) readd_col_missed)))). Qed.
Print Assumptions C18_complete_refuted_readded_column.

(** 9. The full soundness statement is false: starting from the empty catalogue (nothing existed before the
    file) a file that creates tmp, drops it and creates it again is reported with DS102. *)
Theorem C18_sound_refuted :
  exists (stmts : list pstmt), let rs := states_of [] stmts in
    run [] stmts rs /\ (forall n, ~ has_table [] n) /\
    exists p n, In (mkDiag DS102 p [n]) (analyze_file (changes_of [] stmts rs)).
Proof. exact (ex_intro _ w_recreate recreate_flagged). Qed.
Print Assumptions C18_sound_refuted.

(** 10. The rebuild idiom.  Exact shape of what modifyUsingTemp accepts, and what a confirmed group becomes. *)
Theorem C18_rebuild_group_shape :
  forall c0 c2 c3 prevT currT,
  modifyUsingTemp c0 c2 c3 = Some (prevT, currT) ->
  exists addT, sc_changes c0 = [AddTableC addT] /\ has_prefix (t_name addT) new_prefix = true /\
               sc_changes c2 = [DropTableC prevT] /\ t_name prevT = trim_prefix (t_name addT) new_prefix /\
               currT = set_name addT (t_name prevT) /\
               ((exists f t, sc_changes c3 = [RenameTableC f t] /\ t_name f = t_name addT /\ t_name t = t_name prevT) \/
                (exists X Y, sc_changes c3 = [DropTableC X; AddTableC Y] /\ t_name X = t_name addT /\
                             t_name Y = t_name prevT)).
Proof. exact modifyUsingTemp_some. Qed.
Print Assumptions C18_rebuild_group_shape.

Theorem C18_rebuild_group_partial :
  forall c0 c1 c2 c3 rest prevT currT,
  sc_changes c1 = [] ->                                   (* the copy statement changes no schema *)
  modifyUsingTemp c0 c2 c3 = Some (prevT, currT) ->
  let cl := c0 :: c1 :: c2 :: c3 :: rest in
  rewriteTemp cl = mkSC (sc_pos c0) [ModifyTableC currT (tableDiff prevT currT)] :: rewriteTemp rest /\
  forall d, In d (t_cols prevT) -> find_col (t_cols currT) (c_name d) = None -> c_virtual d = false ->
            column_state (rewriteTemp cl) (t_name currT) (c_name d) <> SpanTemporary ->
            exists ns, In (mkDiag DS103 (sc_pos c0) ns) (analyze_file cl) /\ In (c_name d) ns.
Proof. exact rebuild_group. Qed.
Print Assumptions C18_rebuild_group_partial.

Theorem C18_rebuild_copy_slot_kept :
  forall c0 c1 c2 c3 rest, sc_changes c1 <> [] ->
  rewriteTemp (c0 :: c1 :: c2 :: c3 :: rest) = c0 :: rewriteTemp (c1 :: c2 :: c3 :: rest).
Proof. exact copy_slot_kept. Qed.
Print Assumptions C18_rebuild_copy_slot_kept.

(** 11. Soundness.  (a) Files that only add objects: no statement removes a table name or a column name. *)
Theorem C18_sound_additive :
  forall (r0 : realm) (stmts : list pstmt) (rs : list realm),
  wf_realm r0 -> run r0 stmts rs ->
  (forall j p b a n, step_at r0 stmts rs j p b a -> has_table b n -> has_table a n) ->
  (forall j p b a t c, step_at r0 stmts rs j p b a -> has_col b t c -> has_col a t c) ->
  analyze_file (changes_of r0 stmts rs) = [].
Proof. exact sound_additive. Qed.
Print Assumptions C18_sound_additive.

(** (b) A table created once in the analysed list, and not dropped before that, is never reported --
    however often it is dropped afterwards (the temporary table of the property text). *)
Theorem C18_sound_temp_table_partial :
  forall (cl : list schange) (n : name) l1 T l2,
  all_changes cl = l1 ++ AddTableC T :: l2 -> t_name T = n ->
  (forall T', In (AddTableC T') l1 -> t_name T' <> n) ->
  (forall T', In (AddTableC T') l2 -> t_name T' <> n) ->
  (forall T', In (DropTableC T') l1 -> t_name T' <> n) ->
  forall p ns, In (mkDiag DS102 p ns) (Analyze cl) -> ns <> [n].
Proof. exact sound_temp_table. Qed.
Print Assumptions C18_sound_temp_table_partial.

(** ** Round 3: `atlas:nolint` directives (Lint/LintNolintModel.v: reDirective/directive, Stmt.Directive,
    LocalFile.Directive, strings.Split, nolintRules, skipRules.reporterFor, Runner.analyze).

    FULL STATEMENT C18_nolint (full): a DS102/DS103 diagnostic of a statement is withheld exactly when a nolint
    comment written for that statement (directly above it, or in the file header) is the bare `atlas:nolint`
    or has `destructive` or the code itself among its names; a comment naming other checks never withholds it,
    however it is spelled.  FALSE of the code (and reproduced on the real CLI, known_findings.d/C18.json):
    C18_nolint_refuted_tab, C18_nolint_refuted_header_mention (missed drops), C18_nolint_refuted_bare_with_other
    (over-reporting).  A fourth cause sits in the statement scanner, which the model takes as input (a comment at
    the end of the previous statement's line is handed to the next statement): tie + oracle only.
    What holds, for all inputs, is stated on the rule list that nolintRules builds. *)

(* the rule list silences code c iff it is the bare list [""] or has c's code or c's class among its elements
   (exact code only: reporterFor uses slices.Contains(rules, d.Code); a prefix such as DS1 silences nothing) *)
Theorem C18_nolint_silences_iff :
  forall rules c,
    silences rules c = true <-> rules = [[]] \/ In (code_str c) rules \/ In az_name rules.
Proof. exact silences_iff. Qed.
Print Assumptions C18_nolint_silences_iff.

(* strings.Split(d, " "): never empty, joins back to d, no element holds a blank, and it is [""] only for d = "" *)
Theorem C18_nolint_split_spec :
  forall d,
    split_sp d <> [] /\ join_sp (split_sp d) = d /\ (forall w, In w (split_sp d) -> ~ In 32%N w)
    /\ (split_sp d = [[]] <-> d = []) /\ (~ In 32%N d -> split_sp d = [d]).
Proof.
  intros d. repeat split.
  - apply split_sp_nonempty.
  - apply split_sp_join.
  - apply split_sp_no_blank.
  - apply split_sp_bare.
  - intros ->. reflexivity.
  - apply split_sp_word.
Qed.
Print Assumptions C18_nolint_split_spec.

(* ... and it inverts joining: names written one blank apart are exactly the rule elements; a further blank
   anywhere adds an empty element (Split is compositional over every blank) *)
Theorem C18_nolint_split_words :
  (forall ws, ws <> [] -> (forall w, In w ws -> ~ In 32%N w) -> split_sp (join_sp ws) = ws)
  /\ (forall a b0, split_sp (a ++ 32%N :: b0) = split_sp a ++ split_sp b0).
Proof. split; [exact split_sp_join_words | exact split_sp_app]. Qed.
Print Assumptions C18_nolint_split_words.

(* what an empty element (surplus blank: leading, trailing, doubled) means: it silences nothing by itself,
   and a list holding it next to anything else is not the bare form -- only the names in it count *)
Theorem C18_nolint_empty_element :
  forall rules c, rules <> [] ->
    (silences ([] :: rules) c = contains rules (code_str c) || contains rules az_name)
    /\ (silences (rules ++ [[]]) c = true <-> In (code_str c) rules \/ In az_name rules).
Proof. intros rules c H. split; [apply silences_empty_element | apply silences_empty_element_last]; exact H. Qed.
Print Assumptions C18_nolint_empty_element.

(* in terms of the directive arguments ds that apply to the statement (file ones, then its own): silenced iff
   ds is exactly ONE directive with an empty argument, or some argument has the code / "destructive" as a word *)
Theorem C18_nolint_silences_directives :
  forall ds c,
    silences (flat_map split_sp ds) c = true <->
    ds = [[]] \/ exists d, In d ds /\ (In (code_str c) (split_sp d) \/ In az_name (split_sp d)).
Proof. exact silences_directives. Qed.
Print Assumptions C18_nolint_silences_directives.

(* the argument that reDirective extracts after the directive name: empty unless a BLANK follows the name;
   after blanks, the printable run *)
Theorem C18_nolint_directive_argument :
  forall nm rest, nm <> [] -> forallb wordc nm = true ->
    (forall c, wordc c = false -> is_blank c = false -> dir_tail (nm ++ c :: rest) = Some (nm, []))
    /\ dir_tail (nm ++ 32%N :: rest) = Some (nm, take_while printable (drop_while is_blank rest)).
Proof.
  intros nm rest Hne Hw. split.
  - intros c Hc Hb. apply dir_tail_no_blank; assumption.
  - apply dir_tail_blank; assumption.
Qed.
Print Assumptions C18_nolint_directive_argument.

(* the report of one file under directives: exactly the diagnostics of the analyzer whose statement's rule list
   does not silence them; the file error iff one is left; an ignored file has no report *)
Theorem C18_nolint_report_exact :
  forall nf cl,
    (file_ignored nf = true -> analyze_nl nf cl = None)
    /\ (forall kept err, analyze_nl nf cl = Some (kept, err) ->
          (forall d, In d kept <->
                     In d (analyze_file cl) /\ silences (rules_at nf cl (d_pos d)) (d_code d) = false)
          /\ (err = true <-> kept <> [])).
Proof. intros nf cl. split; [apply analyze_nl_ignored | apply analyze_nl_exact]. Qed.
Print Assumptions C18_nolint_report_exact.

(* additive files stay clean with any directive *)
Theorem C18_nolint_sound_additive :
  forall nf cl, analyze_file cl = [] -> analyze_nl nf cl = None \/ analyze_nl nf cl = Some ([], false).
Proof. exact analyze_nl_sound. Qed.
Print Assumptions C18_nolint_sound_additive.

(* directives whose rule lists do not silence the DS codes (they name other checks) change nothing *)
Theorem C18_nolint_other_checks_transparent :
  forall nf cl,
    file_ignored nf = false ->
    (forall sc, In sc cl -> silences (pos2rules nf (sc_pos sc)) DS102 = false
                            /\ silences (pos2rules nf (sc_pos sc)) DS103 = false) ->
    analyze_nl nf cl = Some (analyze_file cl, match analyze_file cl with [] => false | _ => true end).
Proof. exact analyze_nl_transparent. Qed.
Print Assumptions C18_nolint_other_checks_transparent.

(* refuted: `-- atlas:nolint<TAB>incompatible` names another check only and silences DS102 and DS103 *)
Theorem C18_nolint_refuted_tab :
  exists comment,
    comment = w_tab /\ silences (rules_of [comment]) DS102 = true /\ silences (rules_of [comment]) DS103 = true
    /\ silences (rules_of [w_plain]) DS102 = false.
Proof. exists w_tab. destruct tab_is_bare as [_ [H2 [H3 _]]]. destruct plain_is_not as [_ H4]. repeat split; assumption. Qed.
Print Assumptions C18_nolint_refuted_tab.

(* refuted: a header comment that ends in the words atlas:nolint switches the file off (it is no directive on a statement) *)
Theorem C18_nolint_refuted_header_mention :
  exists line, line = w_mention /\ file_ignored (mkNL [line] []) = true
               /\ Stmt_Directive [line ++ nl] nolint_name = [].
Proof. exists w_mention. destruct mention_ignores_file as [H1 H2]. repeat split; assumption. Qed.
Print Assumptions C18_nolint_refuted_header_mention.

(* refuted (over-reporting): two bare directives for one statement are not the bare form *)
Theorem C18_nolint_refuted_bare_with_other :
  exists c1 c2, c1 = w_bare /\ c2 = w_bare /\ silences (rules_of [c1]) DS102 = true
                /\ silences (rules_of [c1; c2]) DS102 = false.
Proof. exists w_bare, w_bare. destruct two_bare_not_honoured as [_ [H2 H3]]. repeat split; assumption. Qed.
Print Assumptions C18_nolint_refuted_bare_with_other.

(** ** Non-vacuity examples (vm_compute on concrete files; names: t = "t", vic, tmp, new_t) *)
Definition ex_states (stmts : list pstmt) := states_of w_r0 stmts.

(* theorems 1, 3, 5: DROP TABLE vic at byte 7 *)
Example ex_drop_table :
  analyze_file (changes_of w_r0 [(7%N, DropTable n_victim)] (ex_states [(7%N, DropTable n_victim)]))
  = [mkDiag DS102 7 [n_victim]].
Proof. vm_compute. reflexivity. Qed.

(* theorems 2, 6: ALTER TABLE t DROP COLUMN b at byte 3 *)
Example ex_drop_column :
  analyze_file (changes_of w_r0 [(3%N, DropColumn n_t (c_name c_b))] (ex_states [(3%N, DropColumn n_t (c_name c_b))]))
  = [mkDiag DS103 3 [c_name c_b]].
Proof. vm_compute. reflexivity. Qed.

(* theorems 4, 10: the whole pipeline on a directory: file 1 creates t(id,a,b); file 2 rebuilds t without b *)
Example ex_lint_rebuild :
  lint [mkFile 1 false [(0%N, CreateTable n_t [c_id; c_a; c_b])];
        mkFile 2 false [(5%N, CreateTable n_new_t [c_id; c_a]); (50%N, InsertSelect n_new_t n_t);
                        (90%N, DropTable n_t); (105%N, RenameTable n_new_t n_t)]] 1
  = LintReport [(2%N, [mkDiag DS103 5 [c_name c_b]])] true.
Proof. vm_compute. reflexivity. Qed.

(* theorem 7, 11a: additive file *)
Example ex_additive :
  let f := [(0%N, AddColumn n_t (mkCol [99]%N false 2)); (30%N, CreateTable n_tmp [c_id])] in
  analyze_file (changes_of w_r0 f (ex_states f)) = [] /\ rewriteTemp (changes_of w_r0 f (ex_states f)) = changes_of w_r0 f (ex_states f).
Proof. vm_compute. split; reflexivity. Qed.

(* theorem 11b: temporary table, also named new_t (the defect fixed by 3711e87) *)
Example ex_temp_table :
  let f := [(0%N, CreateTable n_new_t [c_id]); (20%N, AddColumn n_t (mkCol [99]%N false 2));
            (40%N, Other true); (60%N, DropTable n_new_t)] in
  analyze_file (changes_of w_r0 f (ex_states f)) = [].
Proof. vm_compute. reflexivity. Qed.

(* theorem 8 (nextStmts = run): *)
Example ex_next_is_run :
  nextStmts w_r0 w_readd = inr (changes_of w_r0 w_readd (states_of w_r0 w_readd), last (states_of w_r0 w_readd) w_r0).
Proof. vm_compute. reflexivity. Qed.

(* theorems 5', 6': the drop is reported although the name comes back *)
Example ex_drop_add_column :
  analyze_file (changes_of w_r0 w_drop_add_col (states_of w_r0 w_drop_add_col)) = [mkDiag DS103 0 [c_name c_b]].
Proof. exact drop_add_col_flagged. Qed.

(* the former findings hidden / prefix-rename, after the fixes *)
Example ex_hidden_fixed :
  analyze_file (changes_of w_r0 w_hidden (states_of w_r0 w_hidden)) = [mkDiag DS102 60 [n_victim]; mkDiag DS102 80 [n_t]].
Proof. exact hidden_now_flagged. Qed.
Example ex_prefix_rename_fixed :
  analyze_file (changes_of w_r0 w_prefix (states_of w_r0 w_prefix)) = [mkDiag DS102 100 [n_t]].
Proof. exact prefix_now_flagged. Qed.

From Coq Require Import String.
Open Scope list_scope.
(* round 3 (nolint): spellings of the directive and what the rule list becomes *)
Example ex_nolint_spellings :
  rules_of [b "-- atlas:nolint incompatible " ++ nl] = [b "incompatible"; []]
  /\ rules_of [b "-- atlas:nolint  incompatible  naming" ++ nl] = [b "incompatible"; []; b "naming"]
  /\ rules_of [b "/*atlas:nolint incompatible */"] = [b "incompatible"; []]
  /\ rules_of [b "/*atlas:nolint */"] = [[]]
  /\ rules_of [b "/* atlas:nolint */"] = []
  /\ rules_of [b "--atlas:nolint DS102 destructive" ++ nl] = [b "DS102"; b "destructive"]
  /\ silences [b "DS1"] DS102 = false
  /\ silences [b "incompatible"; []] DS102 = false
  /\ silences [b "naming"; b "destructive"] DS103 = true.
Proof. exact spellings. Qed.

(* the pipeline with directives: `-- atlas:nolint incompatible` keeps DS102@29, the tab form and the bare form
   silence it, a header mention drops the file from the report *)
Example ex_nolint_lint :
  lint_nl (fst (dir_with w_plain)) (snd (dir_with w_plain)) 1 = LintReport [(2%N, [mkDiag DS102 29 [LintNolintRefute.n_t]])] true
  /\ lint_nl (fst (dir_with w_tab)) (snd (dir_with w_tab)) 1 = LintReport [(2%N, [])] false
  /\ lint_nl (fst (dir_with w_bare)) (snd (dir_with w_bare)) 1 = LintReport [(2%N, [])] false
  /\ lint_nl (fst (dir_with w_plain)) [(2%N, mkNL [w_mention] [])] 1 = LintReport [] false.
Proof. exact lint_nl_examples. Qed.

(* names lost after a tab inside the argument list; no comments = the model of rounds 1-2 *)
Example ex_nolint_inner_tab : rules_of [w_inner_tab] = [b "incompatible"] /\ silences (rules_of [w_inner_tab]) DS102 = false.
Proof. exact inner_tab_drops_names. Qed.
Example ex_nolint_no_comments : forall cl,
  analyze_nl no_comments cl = Some (analyze_file cl, match analyze_file cl with [] => false | _ => true end).
Proof. exact analyze_nl_no_comments. Qed.

(* C18_nolint_sound_additive / C18_nolint_report_exact: an additive statement stays clean under a directive naming
   other checks; a DROP TABLE next to it keeps its DS102 unless its own rule list silences it *)
Example ex_nolint_additive :
  let T := mkTab LintNolintRefute.n_t cols_t [] in
  let U := mkTab [117]%N cols_t [] in
  analyze_nl (mkNL [] [(0%N, [w_plain])]) [mkSC 0 [AddTableC T]] = Some ([], false)
  /\ analyze_nl (mkNL [] [(0%N, [w_bare])]) [mkSC 0 [AddTableC T]; mkSC 40 [DropTableC U]]
     = Some ([mkDiag DS102 40 [[117]%N]], true)
  /\ analyze_nl (mkNL [] [(40%N, [b "-- atlas:nolint DS102" ++ nl])]) [mkSC 0 [AddTableC T]; mkSC 40 [DropTableC U]]
     = Some ([], false)
  /\ analyze_nl (mkNL [b "-- atlas:nolint"] []) [mkSC 0 [AddTableC T]; mkSC 40 [DropTableC U]] = None.
Proof. vm_compute. repeat split; reflexivity. Qed.

(* C18_nolint_directive_argument on other separators: colon, no-break space => the bare directive; comma => one element *)
Example ex_nolint_nonblank :
  rules_of [b "-- atlas:nolint: incompatible" ++ nl] = [[]]
  /\ rules_of [b "-- atlas:nolint" ++ [194; 160]%N ++ b "incompatible" ++ nl] = [[]]
  /\ rules_of [b "-- atlas:nolint incompatible,DS102" ++ nl] = [b "incompatible,DS102"]
  /\ silences (rules_of [b "-- atlas:nolint incompatible,DS102" ++ nl]) DS102 = false.
Proof. exact nonblank_is_bare. Qed.


(** * Round 5 -- the analyzer itself, engine-free (Lint/LintGenModel.v: File.loadSpans / SchemaSpan / TableSpan /
    ColumnSpan, destructive.New and Analyzer.Analyze on ARBITRARY multi-schema change lists: DropSchema, DropTable,
    ModifyTable with several drops, RenameTable / RenameColumn, nil Table.Schema), vocabulary Lint/LintGenSpec.v:
    the HISTORY of a name = its Add (true) / Drop (false) events in file order; [temp_history] = created in the file
    and dropped after its last creation; [dropped_history] = only dropped.

    FULL STATEMENTS at this level (both FALSE, see the [_refuted] theorems; same root cause as rounds 1-2, one span
    state per name per file; round-5 finding `renamed` -- loadSpans had no case for Rename changes -- is repaired by fix C18-loadspans-rename, theorem 41):
      C18_complete_generic (full): every Drop change that removes an incarnation that existed before the file is reported.
      C18_sound_generic (full): no Drop change that removes an incarnation the file itself created is reported.
    PROVED, for all change lists: the span of every name is the end state of its history (any history), the exact
    report, completeness with the exact exception [temp_history], soundness w.r.t. histories, the exit rule. *)

(** 31. Every span loadSpans computes is the end state of the add/drop history of that name -- over ALL change lists. *)
Theorem C18_generic_spans_are_histories :
  forall (cl : list gschange) (s t c : name),
  SchemaSpan_g (loadSpans_g cl) s = state_of (schema_hist cl s) /\
  (rename_free cl ->     (* histories are per name; a rename carries a life-span to another name: theorem 41 *)
   TableSpan_g (loadSpans_g cl) s t = state_of (table_hist cl s t) /\
   ColumnSpan_g (loadSpans_g cl) s t c = state_of (column_hist cl s t c)).
Proof. exact spans_are_histories. Qed.
Print Assumptions C18_generic_spans_are_histories.

(** 32. ... and what the end state says about the history -- over ALL histories. *)
Theorem C18_generic_history_state :
  forall h : list bool,
  match state_of h with
  | SpanUnknown => h = []
  | SpanDropped => dropped_history h
  | SpanAdded => exists h1, h = h1 ++ [true]
  | SpanTemporary => temp_history h
  end.
Proof. exact state_of_spec. Qed.
Print Assumptions C18_generic_history_state.

(** 33. The report of Analyze, exactly, on any change list it does not panic on. *)
Theorem C18_generic_exact :
  forall (error : bool) (cl : list gschange) ds rep err,
  rename_free cl ->
  Analyze_g error cl = GDone ds rep err ->
  forall d, In d ds <-> exists sc c, In sc cl /\ In c (gsc_changes sc) /\ diag_of cl (gsc_pos sc) c d.
Proof. exact Analyze_g_exact. Qed.
Print Assumptions C18_generic_exact.

(** 34. Completeness over all change lists and span histories: a DropSchema / DropTable / DropColumn change whose
    name does NOT have a temp_history (in particular: a name the file never creates) is reported at the position of
    its statement -- DS101 with the table count; DS102, or else a DS101 for the table's schema is in the report (the
    schema is only dropped in this file); DS103 naming the column unless it is VIRTUAL -- and the analyzer reports
    once and fails iff option `error`.  Exception = temp_history, which is exactly finding `readded` when the first
    event of the name is a Drop. *)
Theorem C18_complete_generic :
  forall (error : bool) (cl : list gschange) ds rep err,
  rename_free cl ->
  Analyze_g error cl = GDone ds rep err ->
  (forall sc S0, In sc cl -> In (GDropSchema S0) (gsc_changes sc) ->
     ~ temp_history (schema_hist cl (gs_name S0)) ->
     In (mkGD GDS101 (gsc_pos sc) [gs_name S0] (gs_ntables S0)) ds) /\
  (forall sc T s, In sc cl -> In (GDropTable T) (gsc_changes sc) -> gt_schema T = Some s ->
     ~ temp_history (table_hist cl s (gt_name T)) ->
     In (mkGD GDS102 (gsc_pos sc) [gt_name T] 0%N) ds \/
     exists sc' S0, In sc' cl /\ In (GDropSchema S0) (gsc_changes sc') /\ gs_name S0 = s /\
                   In (mkGD GDS101 (gsc_pos sc') [s] (gs_ntables S0)) ds) /\
  (forall sc T s cs d, In sc cl -> In (GModifyTable T cs) (gsc_changes sc) -> gt_schema T = Some s ->
     In (GDropColumn d) cs -> is_virtual d = false ->
     ~ temp_history (column_hist cl s (gt_name T) (gc_name d)) ->
     exists ns, In (mkGD GDS103 (gsc_pos sc) ns 0%N) ds /\ In (gc_name d) ns) /\
  (ds <> [] -> rep = true /\ err = error).
Proof. exact complete_generic. Qed.
Print Assumptions C18_complete_generic.

(** 35. Soundness over all change lists: every diagnostic sits on a statement that carries a Drop change of exactly
    the named object (DS101: that schema, with its table count; DS102: that table; DS103: non-empty, every named
    column is dropped there and is not VIRTUAL), and the named object does not have a temp_history: an object
    created in the file and dropped after its last creation is never named. *)
Theorem C18_sound_generic :
  forall (error : bool) (cl : list gschange) ds rep err,
  rename_free cl ->
  Analyze_g error cl = GDone ds rep err ->
  forall d, In d ds -> exists sc, In sc cl /\ gd_pos d = gsc_pos sc /\ sound_diag cl sc d.
Proof. exact sound_generic. Qed.
Print Assumptions C18_sound_generic.

(** 36. ... and a change list without any Drop change gets no diagnostic, no report, no error -- whatever schemas,
    renames, index / foreign-key changes or nil Table.Schema pointers it holds. *)
Theorem C18_sound_generic_additive :
  forall (error : bool) (cl : list gschange),
  forallb (fun c => negb (is_drop c)) (all_gchanges cl) = true ->
  Analyze_g error cl = GDone [] false false.
Proof. exact sound_generic_additive. Qed.
Print Assumptions C18_sound_generic_additive.

(** 37. One report iff a diagnostic; the error iff a diagnostic and option `error`. *)
Theorem C18_generic_exit :
  forall (error : bool) (cl : list gschange) ds rep err,
  Analyze_g error cl = GDone ds rep err ->
  (rep = true <-> ds <> []) /\ (err = true <-> ds <> [] /\ error = true).
Proof. exact Analyze_g_exit. Qed.
Print Assumptions C18_generic_exit.

(** 38. Analyze panics (nil dereference in schemaSpan) iff some change asks for a span and some AddTable /
    DropTable / ModifyTable carries a table without Schema. *)
Theorem C18_generic_panic_iff :
  forall (error : bool) (cl : list gschange),
  Analyze_g error cl = GPanic <->
  (exists c, In c (all_gchanges cl) /\ queries c = true) /\
  (exists c, In c (all_gchanges cl) /\ nil_schema c = true).
Proof. exact Analyze_g_panic. Qed.
Print Assumptions C18_generic_panic_iff.

(** 39. destructive.New: `error` is true unless a `destructive` block says otherwise. *)
Theorem C18_generic_error_default :
  forall children : list gblock,
  (forall b, In b children -> fst b <> s_destructive) -> New_error children = true.
Proof. exact New_error_default. Qed.
Print Assumptions C18_generic_error_default.

(** 39'. ... and only the FIRST `destructive` block and its FIRST `error` attribute count (Resource.Resource / Resource.Attr). *)
Theorem C18_generic_error_first :
  forall (ty : name) (attrs : list (name * bool)) (rest : list gblock),
  ty = s_destructive ->
  New_error ((ty, attrs) :: rest) =
  match find (fun a => name_eqb (fst a) s_error) attrs with None => true | Some a => snd a end.
Proof. exact New_error_first. Qed.
Print Assumptions C18_generic_error_first.

(** 40. The full completeness statement is false at schema level too: DROP SCHEMA s1; CREATE SCHEMA s1; DROP SCHEMA s1
    (history Drop, Add, Drop of a schema that existed before the file) -> no DS101, no error. *)
Theorem C18_generic_refuted_readded_schema :
  exists cl s, schema_hist cl s = [false; true; false] /\ Analyze_g true cl = GDone [] false false.
Proof. exists w_readd_schema, g_s1. exact readded_schema_silent. Qed.
Print Assumptions C18_generic_refuted_readded_schema.

(** 41. Renames, AFTER fix C18-loadspans-rename (before it loadSpans had no case for RenameTable / RenameColumn and
    the two lists below were reported: DS102 "u" / DS103 "b", the former witness C18_generic_refuted_renamed).
    One loadSpans step on RenameTable F T: the new name takes over the table's state and all its column states, no
    other table and no schema state changes; on RenameColumn a b: the new name takes over the column's state, the old
    name is forgotten, no other column changes. *)
Theorem C18_generic_rename_carries_span :
  (forall sp F T sf st, gt_schema F = Some sf -> gt_schema T = Some st ->
     let sp' := span_gchange sp (GRenameTable F T) in
     TableSpan_g sp' st (gt_name T) = TableSpan_g sp sf (gt_name F) /\
     (forall c, ColumnSpan_g sp' st (gt_name T) c = ColumnSpan_g sp sf (gt_name F) c) /\
     (forall s t, tab_is T s t = false -> ss_tabs (sp' s) t = ss_tabs (sp s) t) /\
     (forall s, SchemaSpan_g sp' s = SchemaSpan_g sp s)) /\
  (forall cols a b c,
     let cols' := span_gtchange cols (GRenameColumn a b) in
     (gc_name a <> gc_name b -> cols' (gc_name b) = cols (gc_name a)) /\
     cols' (gc_name a) = SpanUnknown /\
     (c <> gc_name a -> c <> gc_name b -> cols' c = cols c)).
Proof. split; [exact rename_table_carries_span|exact rename_column_carries_span]. Qed.
Print Assumptions C18_generic_rename_carries_span.

(** 41'. ... so a table / column the file created, renamed and dropped under its new name is a temporary object again
    (nothing reported), while one that existed before the file, renamed and dropped, stays reported. *)
Theorem C18_generic_renamed_temp_clean :
  Analyze_g true [mkGSC 0 [GAddTable g_T]; mkGSC 8 [GRenameTable g_T g_U]; mkGSC 18 [GDropTable g_U]] = GDone [] false false /\
  Analyze_g true [mkGSC 0 [GModifyTable g_T [GAddColumn g_a]]; mkGSC 8 [GModifyTable g_T [GRenameColumn g_a g_b]];
                  mkGSC 18 [GModifyTable g_T [GDropColumn g_b]]] = GDone [] false false /\
  Analyze_g true w_renamed_pre = GDone [mkGD GDS103 18 [[98]%N] 0; mkGD GDS102 30 [g_u] 0] true true.
Proof. split; [exact (proj1 renamed_clean)|]. split; [exact (proj2 renamed_clean)|exact renamed_pre_reported]. Qed.
Print Assumptions C18_generic_renamed_temp_clean.

(** * Round 5 -- the analysed window: project file against explicit flags (Lint/LintEnvModel.v) *)

(** 42. An explicit --latest wins: the project file's `lint { latest = ... }` has no influence on the run, and the
    run is `lint dir n` for the flag's n (maySetFlag's Changed guard). *)
Theorem C18_window_flag_wins :
  forall (dir : list mfile) (fl : lint_flags) (cfg cfg' : env_cfg) (n : N),
  fl_latest fl = Some n ->
  ec_git_base cfg = ec_git_base cfg' -> ec_children cfg = ec_children cfg' ->
  lint_env dir fl cfg = lint_env dir fl cfg' /\
  (n <> 0%N -> eff_git_base fl cfg = [] ->
   lint_env dir fl cfg = EnvLint (apply_error (New_error (ec_children cfg)) (lint dir (N.to_nat n)))).
Proof. exact window_flag_wins. Qed.
Print Assumptions C18_window_flag_wins.

(** 43. Without flags the project file's window is used. *)
Theorem C18_window_config_used :
  forall (dir : list mfile) (fl : lint_flags) (cfg : env_cfg),
  fl_latest fl = None -> fl_git_base fl = None -> ec_git_base cfg = [] -> ec_latest cfg <> 0%N ->
  lint_env dir fl cfg = EnvLint (apply_error (New_error (ec_children cfg)) (lint dir (N.to_nat (ec_latest cfg)))).
Proof. exact window_config_used. Qed.
Print Assumptions C18_window_config_used.

(** 44. `--latest n`: every file among the last n of the directory is analysed (has a report entry), in order,
    and none before (LatestChanges + DevLoader.LoadChanges base/files split + Runner.Run). *)
Theorem C18_window_files :
  forall (dir : list mfile) (n : nat) files failed,
  lint dir n = LintReport files failed ->
  map fst files = map f_id (skipn (List.length dir - n) dir).
Proof. exact lint_window. Qed.
Print Assumptions C18_window_files.

(** 44'. ... for ANY base/files split a ChangeDetector hands to DevLoader.LoadChanges (LatestChanges, the git
    detector, ...): when the replay succeeds, exactly the files of the `files` part get an entry, in order; no file of
    the base is analysed (checkpoint files included: skipped in the main loop, replayed on the clean database). *)
Theorem C18_window_files_any_split :
  forall (base files : list mfile) l,
  LoadChanges base files = Loaded l -> map fst l = map f_id files.
Proof. exact LoadChanges_ids. Qed.
Print Assumptions C18_window_files_any_split.

(** * Round 5 -- temporary objects of the SQLite-derived change lists (Lint/LintHistProofs.v) *)

(** 45. The span states of rounds 1-2 ([table_state], [column_state]) are end states of add/drop histories too. *)
Theorem C18_states_are_histories :
  forall cl : list schange,
  (forall n, table_state cl n = state_of (tab_hist cl n)) /\
  (forall t c, column_state cl t c = state_of (col_hist cl t c)).
Proof. exact states_are_histories. Qed.
Print Assumptions C18_states_are_histories.

(** 46. Temporary objects, tables AND columns, on ANY analysed list (so also after the pre-pass): a name whose history
    is "created in this list and dropped after its last creation" is named by no DS102 / left out of every DS103 of its
    table.  (The column half was tie-only until round 5; "created once" is no longer needed.) *)
Theorem C18_sound_temp_objects :
  forall cl : list schange,
  (forall n, temp_history (tab_hist cl n) -> forall p, ~ In (mkDiag DS102 p [n]) (Analyze cl)) /\
  (forall t c, temp_history (col_hist cl t c) ->
     forall T cs, t_name T = t -> ~ In c (dropped_names (loadSpans cl) T cs)).
Proof. exact sound_temp_objects. Qed.
Print Assumptions C18_sound_temp_objects.

(** 47. The bridge from statements, tables: a table name that exists neither before the file nor after it -- created
    and dropped inside the file, any number of times, by whatever statements -- is never named by a DS102
    (files on which the rebuild pre-pass does not fire).  Columns: still tie only (a DROP TABLE ends the columns of
    the table without column events, the invariant needs the table level too). *)
Theorem C18_sound_temp_table_file :
  forall (r0 : realm) (stmts : list pstmt) (rs : list realm) (n : name),
  run r0 stmts rs ->
  rewriteTemp (changes_of r0 stmts rs) = changes_of r0 stmts rs ->
  ~ has_table r0 n -> ~ has_table (last rs r0) n ->
  forall p, ~ In (mkDiag DS102 p [n]) (analyze_file (changes_of r0 stmts rs)).
Proof. exact sound_temp_table_file. Qed.
Print Assumptions C18_sound_temp_table_file.

(** 48. ... and the bridge for columns: a column that table t has neither before the file nor after it, t being
    there after every statement, is left out of every DS103 of the file's ModifyTable changes of t -- however often
    it is added and dropped in between (pre-pass not firing).  Without "t stays" the statement is false
    (ADD c; DROP c; ADD c; DROP TABLE t reports the DROP c: finding `recreated`). *)
Theorem C18_sound_temp_column_file :
  forall (r0 : realm) (stmts : list pstmt) (rs : list realm) (t c : name),
  wf_realm r0 -> run r0 stmts rs ->
  rewriteTemp (changes_of r0 stmts rs) = changes_of r0 stmts rs ->
  has_table r0 t -> Forall (fun x => has_table x t) rs ->
  ~ has_col r0 t c -> ~ has_col (last rs r0) t c ->
  forall sc T cs, In sc (rewriteTemp (changes_of r0 stmts rs)) -> In (ModifyTableC T cs) (sc_changes sc) -> t_name T = t ->
  ~ In c (dropped_names (loadSpans (rewriteTemp (changes_of r0 stmts rs))) T cs).
Proof. exact sound_temp_column_file. Qed.
Print Assumptions C18_sound_temp_column_file.

(** * Round 5 -- composition: a rebuild group inside a longer file (Lint/LintComposeProofs.v) *)

(** 50. A confirmed rebuild group (CREATE new_t / copy without schema change / DROP t / RENAME new_t TO t) that follows
    any statements none of which creates a new_* table: the statements before it stay in the analysed list as they are,
    the group is folded into one ModifyTable at the position of its CREATE, the statements after it are processed by
    the same pre-pass; every omitted non-virtual column gets its DS103 there, and every DropTable of the statements
    before the group keeps its DS102 (span states taken over the whole analysed list).  Applied repeatedly (the
    [rewriteTemp rest] of one application is the [cl] of the next when [rest] starts with statements without new_*
    creations) this covers any number of groups in one file. *)
Theorem C18_rebuild_group_in_file :
  forall pre c0 c1 c2 c3 rest prevT currT,
  (forall T, In (AddTableC T) (all_changes pre) -> has_prefix (t_name T) new_prefix = false) ->
  sc_changes c1 = [] ->
  modifyUsingTemp c0 c2 c3 = Some (prevT, currT) ->
  let cl := pre ++ c0 :: c1 :: c2 :: c3 :: rest in
  rewriteTemp cl = pre ++ mkSC (sc_pos c0) [ModifyTableC currT (tableDiff prevT currT)] :: rewriteTemp rest /\
  (forall d, In d (t_cols prevT) -> find_col (t_cols currT) (c_name d) = None -> c_virtual d = false ->
             column_state (rewriteTemp cl) (t_name currT) (c_name d) <> SpanTemporary ->
             exists ns, In (mkDiag DS103 (sc_pos c0) ns) (analyze_file cl) /\ In (c_name d) ns) /\
  (forall p T, (exists sc, In sc pre /\ sc_pos sc = p /\ In (DropTableC T) (sc_changes sc)) ->
             table_state (rewriteTemp cl) (t_name T) <> SpanTemporary ->
             In (mkDiag DS102 p [t_name T]) (analyze_file cl)).
Proof. exact rebuild_group_in_file. Qed.
Print Assumptions C18_rebuild_group_in_file.

(** * Round 5 -- the two analyzer models are one (Lint/LintRefineProofs.v) *)

(** 51. destructive.Analyze of the SQLite-derived model (rounds 1-4: one schema, DS102/DS103, spans keyed by table name)
    is the engine-free analyzer on the single schema "main": embedding the change list ([esc]: tables get schema main,
    a virtual column gets GeneratedExpr VIRTUAL, index changes become "other") commutes with the analysis, for every
    change list and option.  So the in-process tie of stage gen and the theorems 31-41 also speak about the
    analyzer the CLI stages exercise. *)
Theorem C18_generic_refines_sqlite_model :
  forall (error : bool) (cl : list schange),
  no_rename_c cl ->      (* no RenameTableC: the only lists the OSS DevLoader produces (mayFix = identity) *)
  Analyze_g error (map esc cl) =
  GDone (map ediag (Analyze cl)) (nonempty (Analyze cl)) (nonempty (Analyze cl) && error).
Proof. exact Analyze_refines. Qed.
Print Assumptions C18_generic_refines_sqlite_model.

(* non-vacuity, round 5 *)
Example ex_generic_multi :
  Analyze_g false w_multi =
  GDone [mkGD GDS102 0 [g_t] 0; mkGD GDS102 0 [g_t] 0; mkGD GDS103 8 [[97]%N; [98]%N] 0; mkGD GDS101 18 [[115; 51]%N] 2]
        true false.
Proof. exact multi_result. Qed.
Example ex_generic_drop_schema : Analyze_g true w_drop_schema = GDone [mkGD GDS101 18 [g_s1] 0] true true.
Proof. exact drop_schema_result. Qed.
Example ex_generic_temp : Analyze_g true w_temp = GDone [] false false.
Proof. exact temp_result. Qed.
Example ex_generic_nil :
  Analyze_g true w_nil = GDone [] false false /\ Analyze_g true (w_nil ++ [mkGSC 8 [GDropSchema g_S]]) = GPanic.
Proof. exact nil_results. Qed.
Example ex_generic_histories :
  schema_hist w_temp g_s1 = [true; false] /\ table_hist w_temp g_s1 g_t = [true; false]
  /\ column_hist w_temp g_s1 g_t [97]%N = [true; false] /\ state_of [true; false] = SpanTemporary
  /\ state_of [false; true] = SpanAdded /\ state_of [false; false] = SpanDropped /\ state_of [false; true; false] = SpanTemporary.
Proof. vm_compute. repeat split; reflexivity. Qed.
Example ex_generic_error_option :
  New_error [] = true /\ New_error [(s_destructive, [])] = true
  /\ New_error [(s_destructive, [(s_error, false); (s_error, true)])] = false
  /\ New_error [([100]%N, [(s_error, false)]); (s_destructive, [(s_error, true)]); (s_destructive, [(s_error, false)])] = true.
Proof. vm_compute. repeat split; reflexivity. Qed.
Example ex_window :
  let fl := mkFlags (Some 2%N) None in
  eff_latest fl (mkEnvCfg 1 [] []) = 2%N /\ eff_latest (mkFlags None None) (mkEnvCfg 1 [] []) = 1%N
  /\ lint_env [] (mkFlags None None) (mkEnvCfg 0 [] []) = EnvRequired
  /\ lint_env [] (mkFlags (Some 0%N) None) (mkEnvCfg 1 [] []) = EnvRequired
  /\ lint_env [] fl (mkEnvCfg 0 [109]%N []) = EnvExclusive
  /\ lint_env [] fl (mkEnvCfg 1 [] []) = EnvLint (LintReport [] false).
Proof. vm_compute. repeat split; reflexivity. Qed.

Example ex_temp_objects :
  let T := mkTab n_tmp [c_id; c_a] [] in
  let cl := [mkSC 0 [AddTableC T]; mkSC 20 [ModifyTableC T [DropColumnC c_a]]; mkSC 50 [DropTableC T]] in
  tab_hist cl n_tmp = [true; false] /\ col_hist cl n_tmp (c_name c_a) = [true; false]
  /\ temp_history (tab_hist cl n_tmp) /\ Analyze cl = []
  /\ Analyze [mkSC 20 [ModifyTableC T [DropColumnC c_a]]; mkSC 50 [DropTableC T]]
     = [mkDiag DS103 20 [c_name c_a]; mkDiag DS102 50 [n_tmp]].
Proof.
  vm_compute. repeat split; try reflexivity.
  exists [], [false]. repeat split; [discriminate].
Qed.
Example ex_temp_table_file :
  let stmts := [(0, CreateTable n_tmp [c_id]); (25, DropTable n_tmp); (40, CreateTable n_tmp [c_id; c_a]); (70, DropTable n_tmp)]%N in
  run w_r0 stmts (states_of w_r0 stmts) /\ ~ has_table w_r0 n_tmp /\ ~ has_table (last (states_of w_r0 stmts) w_r0) n_tmp
  /\ analyze_file (changes_of w_r0 stmts (states_of w_r0 stmts)) = [].
Proof.
  vm_compute. repeat split; try reflexivity; intros H; apply H; reflexivity.
Qed.

Example ex_temp_column_file :
  let x := mkCol [120]%N false 3 in
  let stmts := [(0, AddColumn n_t x); (30, DropColumn n_t [120]%N); (60, AddColumn n_t x); (90, DropColumn n_t [120]%N)]%N in
  run w_r0 stmts (states_of w_r0 stmts) /\ Forall (fun r => has_table r n_t) (states_of w_r0 stmts)
  /\ ~ has_col w_r0 n_t [120]%N /\ ~ has_col (last (states_of w_r0 stmts) w_r0) n_t [120]%N
  /\ analyze_file (changes_of w_r0 stmts (states_of w_r0 stmts)) = [].
Proof.
  vm_compute. repeat split; try reflexivity.
  - repeat constructor; discriminate.
  - intros [T [H1 H2]]. inversion H1; subst. apply H2. reflexivity.
  - intros [T [H1 H2]]. inversion H1; subst. apply H2. reflexivity.
Qed.

Example ex_rebuild_group_in_file :
  let V := mkTab n_victim [c_id] [] in
  let New := mkTab n_new_t [c_id; c_a] [] in
  let Old := mkTab n_t [c_id; c_a; c_b] [] in
  let Cur := mkTab n_t [c_id; c_a] [] in
  let cl := [mkSC 0 [DropTableC V]; mkSC 20 [AddTableC New]; mkSC 60 []; mkSC 100 [DropTableC Old];
             mkSC 115 [RenameTableC New Cur]; mkSC 150 [ModifyTableC Cur [DropColumnC c_a]]] in
  modifyUsingTemp (mkSC 20 [AddTableC New]) (mkSC 100 [DropTableC Old]) (mkSC 115 [RenameTableC New Cur]) = Some (Old, Cur)
  /\ analyze_file cl = [mkDiag DS102 0 [n_victim]; mkDiag DS103 20 [c_name c_b]; mkDiag DS103 150 [c_name c_a]].
Proof. vm_compute. split; reflexivity. Qed.

Example ex_refines :
  let T := mkTab n_t [c_id; c_a; mkCol [103]%N true 5] [] in
  let cl := [mkSC 0 [ModifyTableC T [DropColumnC c_a; DropColumnC (mkCol [103]%N true 5); DropIndexC (mkIdx [105]%N [])]];
             mkSC 40 [DropTableC T]] in
  Analyze cl = [mkDiag DS103 0 [c_name c_a]; mkDiag DS102 40 [n_t]]
  /\ Analyze_g true (map esc cl) = GDone [mkGD GDS103 0 [c_name c_a] 0; mkGD GDS102 40 [n_t] 0] true true.
Proof. vm_compute. split; reflexivity. Qed.
