(** C18 -- lint flags every destructive migration file and no purely additive one. (work in progress) *)
From Coq Require Import List NArith Bool Arith.
From Atlas Require Import Base.Bytes Lint.LintModel Lint.LintProofs.
Import ListNotations.

Theorem C18_name_eqb_spec : forall a b, name_eqb a b = true <-> a = b.
Proof. exact name_eqb_eq. Qed.
Print Assumptions C18_name_eqb_spec.
