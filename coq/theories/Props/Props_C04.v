From Coq Require Import List Bool Arith.
From Atlas Require Import Plan.SortModel.
Import ListNotations.
