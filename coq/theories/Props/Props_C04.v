(** C04 -- plans respect dependencies for every foreign-key graph, including cycles.
    Only statements, [exact], [Print Assumptions] and non-vacuity Examples live here.

    Model (Plan/SortModel.v, function by function after sql/internal/sqlx/plan.go and sqlx_oss.go):
      [plan cs] = DetachCycles (sortMap / dependencies / detachReferences) followed by
      SortChanges (partition, hasE/edges over dependsOn, the DFS closure add).
      [POut] is "a search ran out of fuel" (= the Go code would loop); there is no panic outcome
      because the modelled code has no indexing / nil dereference on well-typed input.
    Reference catalogue: [replay l c] runs the planned changes in order on the catalogue [c]
      (existing tables, live foreign keys) and fails on: CREATE of an existing table, a foreign
      key (inline, ADD, or re-pointed) to a table that does not exist at that moment, ALTER of a
      missing table, DROP of a missing table, DROP of a table with a live foreign key from
      another table, DROP FOREIGN KEY (or re-pointing) of a key that is not live.
    Table identity (round 3): a table is the pair (schema, name) -- [t_schema], [t_name]; two schemas may
      hold tables of the same name.  The model reads the name alone or the pair exactly where the Go code
      does: [dependencies], [isDropped], [table] and the index map of [sortMap] go by T.Name, [dependsOn]
      by SameTable (name and schema).  The catalogue keys tables by [qn t] = an injective code of the pair
      (SortReplay.qn_inj); WF / consistent are stated over [qn].  No theorem assumes that names are
      distinct across schemas: C04_safe & co. hold for colliding names (a name collision can only add
      edges to the name graph of sortMap, i.e. force the detach branch or a finer order).
    [adds x] / [drops x]: the table (its [qn]) created / dropped by change x (SortReplay.v).
    [WF cs]: what the differ can emit (SortProofs.v): every table in at most one of
      add/drop/modify; object ids determine names; a dropped table's keys name it as child;
      declared keys do not point at dropped tables; the keys of a dropped table have distinct
      symbols and a ModifyTable drops / re-points a symbol at most once.
    [consistent c cs]: created tables are new, dropped and modified ones exist, parents of
      declared keys exist or are created, every live key from another table into a dropped table
      is dropped by the change set (its table is dropped with that key listed, or a
      DropForeignKey / ModifyForeignKey of that symbol is present); the keys of dropped tables and the
      keys a ModifyTable drops or re-points are live. *)
From Coq Require Import List Bool Arith Permutation Sorted.
From Atlas Require Import Plan.SortModel Plan.SortDfs Plan.SortReplay Plan.SortProofs Plan.SortDialect Plan.SortExamples.
From Atlas Require Import Plan.SortTidbModel Plan.SortTidbProofs Plan.SortTidbExcept gen.Gen_TidbPriority.
From Atlas Require Import Plan.SortSqliteModel Plan.SortSqliteProofs Plan.SortTies.
From Atlas Require Import Plan.SortObjModel Plan.SortGenProofs Plan.SortObjProofs Plan.SortObjTypes Plan.SortObjExamples.
Import ListNotations.

(** 1. "Plans never fail or loop because of a cycle": for EVERY change list -- any reference
    graph, well-formed or not -- sortMap (fuel 1 + number of names in the dependency map),
    DetachCycles and SortChanges (fuel 1 + number of changes) terminate with a plan. *)
Theorem C04_total : forall cs : list change, exists l, plan cs = POk l.
Proof. exact plan_total. Qed.

Theorem C04_total_parts :
  (forall cs, sortMap cs <> SMOut) /\
  (forall cs, exists S, DetachCycles cs = DCOk S) /\
  (forall S, exists l, SortChanges S = Some l).
Proof.
  exact (conj sortMap_total (conj DetachCycles_total
          (fun S => let (out, H) := SortChanges_perm S in ex_intro _ out (proj1 H)))).
Qed.

(** 2. "Every table of the change set is created/dropped exactly once": for EVERY change list the
    plan is a permutation of what DetachCycles returned, and detaching keeps the multiset of
    table creations and of table drops (nothing is duplicated or lost, whatever the cycles). *)
Theorem C04_once : forall cs l, plan cs = POk l ->
  exists d, DetachCycles cs = DCOk d /\ Permutation d l /\
    Permutation (flat_map adds cs) (flat_map adds l) /\
    Permutation (flat_map drops cs) (flat_map drops l).
Proof. exact plan_once. Qed.

(** ... hence, for a well-formed change set, exactly once. *)
Theorem C04_once_wf : forall cs l, WF cs -> plan cs = POk l ->
  NoDup (flat_map adds l) /\ NoDup (flat_map drops l) /\
  (forall n, In n (flat_map adds l) <-> In n (flat_map adds cs)) /\
  (forall n, In n (flat_map drops l) <-> In n (flat_map drops cs)).
Proof. exact plan_once_wf. Qed.

(** ... and no declared foreign key is lost or duplicated: the (child, symbol, parent) triples declared
    by the plan (inline in CREATE TABLE, by ADD / re-pointed in ALTER TABLE) are those of the input. *)
Theorem C04_once_fks : forall cs l, plan cs = POk l -> Permutation (flat_map decl cs) (flat_map decl l).
Proof. exact plan_once_fks. Qed.

(** 3. "A table is created before any foreign key that points at it is declared, a table is
    dropped only after every foreign key pointing at it has been dropped" -- the full statement, for
    every well-formed change set and consistent catalogue, whatever the reference graph (chains, diamonds,
    self references by pointer or by name, cycles of any length; created / dropped / modified tables mixed).

    History: on the tree pinned at 086d914 this statement was false (then: C04_safe_refuted with the witness
    [ModifyTable t0 [ModifyForeignKey .. To -> t1]; AddTable t1 [fk -> t0]], C04_safe_exact for the exact
    failing class).  dependsOn's ModifyTable/AddTable arm now treats ModifyForeignKey.To like an added
    key (fix C04-modfk-detached, notes/fixes/C04-modfk-detached.diff); the model follows the fixed code. *)
Theorem C04_safe : forall cs c,
  WF cs -> consistent c cs -> exists l c', plan cs = POk l /\ replay l c = Some c'.
Proof. exact plan_safe. Qed.

(** The same for every list Go's unstable sort.Slice may hand to SortChanges in the cycle-free branch
    (any permutation sorted by the index map), not only the model's stable sort. *)
Theorem C04_safe_any_tiebreak : forall cs c S,
  WF cs -> consistent c cs -> detach_spec cs S ->
  exists out c', SortChanges S = Some out /\ replay out c = Some c'.
Proof. exact safe_any_tiebreak. Qed.

(** Without a cycle SortChanges has nothing to repair: it only moves the drops behind the other changes. *)
Theorem C04_acyclic_sort_is_partition : forall cs S sorted,
  WF cs -> sortMap cs = SMOk sorted -> detach_spec cs S -> SortChanges S = Some (partition_changes S).
Proof. exact acyclic_sort_is_partition. Qed.

(** The plans mysql.DefaultPlan / postgres.DefaultPlan carry in Plan.Changes[i].Source: both rewrite
    a ModifyTable (re-pointed key = DROP + ADD; MySQL drops in a first ALTER, PostgreSQL puts the
    constraint drops first inside one ALTER).  All three plans replay. *)
Theorem C04_safe_dialects : forall cs c,
  WF cs -> consistent c cs ->
  exists l, plan cs = POk l /\
    (exists c1, replay l c = Some c1) /\
    (exists c2, replay (flat_map mysql_sources l) c = Some c2) /\
    (exists c3, replay (flat_map pg_sources l) c = Some c3).
Proof. exact plan_dialect_safe. Qed.

(** 4. Schema-level changes in the list (round 3).  state.plan of both planners runs topLevel first: the
    AddSchema / DropSchema / ModifySchema changes of the list -- each once, in order -- become the first
    statements of the plan, the table changes -- each once, in order -- are what DetachCycles / SortChanges
    get.  Nothing is said here about the Go code leaving its argument alone (not expressible for a pure
    function): that clause ("the same slice value planned again gives the same plan") is judged on the Go
    side only (oracle classes replan-differs, input-mutated, schema-change-not-once). *)
Theorem C04_toplevel_once : forall l, topLevel l = (schemas_of l, tables_of l).
Proof. exact topLevel_spec. Qed.

Theorem C04_safe_with_schemas : forall l c,
  WF (tables_of l) -> consistent c (tables_of l) ->
  exists r c', plan_all l = Some (schemas_of l, r) /\ plan (tables_of l) = POk r /\ replay r c = Some c'.
Proof. exact plan_all_safe. Qed.

(** 5. The TiDB planner (round 5): sql/mysql/tidb.go, PlanChanges of tplanApply -- installed by mysql.Open when the
    server version contains "TiDB".  It runs DetachCycles, flattens every ModifyTable into atomic ModifyTables ([tflat]),
    re-sorts them with sort.SliceStable by [priority] (the table is dumped from the Go source on every run:
    gen/Gen_TidbPriority.v) and plans each atomic change alone with the MySQL planner ([tidb_sources]).  There is
    NO SortChanges pass over the list.
    For EVERY change list: the planner returns, its order is the flattened DetachCycles output sorted by priority
    with the order of equal priorities kept (the sort is stable), every element is atomic (priority's c.Changes[0]
    is defined), and creations, drops and declared foreign keys are the input's. *)
Theorem C04_tidb_total : forall cs : list change, exists l, tidb_order cs = TOk l.
Proof. exact tidb_order_total. Qed.

Theorem C04_tidb_order : forall cs l, tidb_order cs = TOk l ->
  exists d, tidb_detach cs = DCOk d /\ Permutation (tflat d) l /\ StronglySorted ple l /\
    (forall k, filter (fun x => priority x =? k) l = filter (fun x => priority x =? k) (tflat d)) /\
    (forall x, In x l -> atomic x).
Proof. exact tidb_order_spec. Qed.

Theorem C04_tidb_once : forall cs l, tidb_order cs = TOk l ->
  Permutation (flat_map adds cs) (flat_map adds l) /\
  Permutation (flat_map drops cs) (flat_map drops l) /\
  Permutation (flat_map decl cs) (flat_map decl l).
Proof. exact tidb_once. Qed.

(** The full statement for this planner,
      C04_tidb_safe : forall cs c, WF cs -> consistent c cs -> exists l c', tidb_plan cs = TOk l /\ replay l c = Some c',
    is FALSE: priority(ModifyForeignKey) = 3 < priority(AddTable) = 4, so a foreign key that is re-pointed to a table
    the same change set creates is declared before its parent exists (finding C04-tidb-modfk-priority, reproduced on
    mysql.Open(sqlmock "5.7.25-TiDB-v6.1.0").PlanChanges: ALTER TABLE t0 ADD CONSTRAINT .. REFERENCES t1 before
    CREATE TABLE t1).  Witness: SortExamples.ch_cs (WF and consistent: C04_safe covers it for the other planners). *)
Theorem C04_tidb_safe_refuted : exists cs c l,
  WF cs /\ consistent c cs /\ tidb_plan cs = TOk l /\ replay l c = None.
Proof. exists ch_cs, ch_cat, ch_tidb. exact (conj ch_wf (conj ch_cons ch_tidb_runs)). Qed.

(** The exception is exact.  The failing class, for ALL inputs and with no hypothesis on the change set: whenever a
    ModifyForeignKey points its new side at a table that is not in the catalogue (i.e. that the change set has to create
    first), the TiDB order fails to replay (C04_tidb_unsafe_class).  Conversely, for every well-formed change set and
    consistent catalogue in which every re-pointed key points at a table of the catalogue, the TiDB order replays
    (C04_tidb_safe_except: both DetachCycles branches; the stable priority sort of a list that is sorted by the sortMap
    index resp. by planned / deferred is sorted by the lexicographic rank (priority, key); needs of the dumped table only
    priority(AddTable) <= priority(AddForeignKey), priority(DropForeignKey) < priority(DropTable),
    priority(ModifyForeignKey) < priority(DropTable)).  Together: C04_tidb_safe_exact.  These three are about
    [tidb_order], the order of the atomic changes; the statement sources [tidb_plan] (each atomic change planned alone by
    the MySQL planner) are covered by the tie and the oracle of stage tidb and by the witness of C04_tidb_safe_refuted. *)
Theorem C04_tidb_unsafe_class : forall cs c l t tcs from to,
  In (ModifyTable t tcs) cs -> In (ModifyFK from to) tcs -> ~ In (qn (f_ref to)) (c_tabs c) ->
  tidb_order cs = TOk l -> replay l c = None.
Proof. exact tidb_unsafe_class. Qed.

Theorem C04_tidb_safe_except : forall cs c l,
  WF cs -> consistent c cs ->
  (forall t tcs from to, In (ModifyTable t tcs) cs -> In (ModifyFK from to) tcs -> In (qn (f_ref to)) (c_tabs c)) ->
  tidb_order cs = TOk l -> exists c', replay l c = Some c'.
Proof. intros cs c l HWF Hc Hex. exact (tidb_safe_except cs c HWF Hc Hex l). Qed.

Theorem C04_tidb_safe_exact : forall cs c l,
  WF cs -> consistent c cs -> tidb_order cs = TOk l ->
  ((exists c', replay l c = Some c') <->
   (forall t tcs from to, In (ModifyTable t tcs) cs -> In (ModifyFK from to) tcs -> In (qn (f_ref to)) (c_tabs c))).
Proof.
  intros cs c l HWF Hc Ho. split.
  - intros [c' Hr] t tcs from to H1 H2.
    destruct (in_dec Nat.eq_dec (qn (f_ref to)) (c_tabs c)) as [Hin|Hn]; [exact Hin|].
    rewrite (tidb_unsafe_class cs c l t tcs from to H1 H2 Hn Ho) in Hr. discriminate.
  - intros Hex. exact (tidb_safe_except cs c HWF Hc Hex l Ho).
Qed.

(** 6. Typed objects (round 5): change sets with PostgreSQL enum types -- AddObject / DropObject next to table changes
    whose columns use the types (SortObjModel.v: [xchange], [xdependsOn] with the arms AddTable/AddObject,
    ModifyTable/AddObject (AddColumn, ModifyColumn.To), DropObject/DropTable, DropObject/ModifyTable (DropColumn);
    IsType = pointer equality; an object change has sort key 0 in DetachCycles, falls through dependencies and
    detachReferences, DropObject is in SortChanges' drop partition).  [erase_all] is the table-only change set behind
    an extended one.
    For EVERY extended change list: where the Go code ignores objects and column types, the extended functions are
    the table-only ones on the projection ... *)
Theorem C04_objects_commute :
  (forall X, xsortMap X = sortMap (erase_all X)) /\
  (forall X, erase_all (xdetachReferences X) = detachReferences (erase_all X)) /\
  (forall X, filter xis_obj (xdetachReferences X) = filter xis_obj X) /\
  (forall x y, xis_obj x = false -> xis_obj y = false -> xdependsOn x y = dependsOn (erase1 x) (erase1 y)).
Proof. exact (conj xsortMap_erase (conj xdetach_erase (conj xdetach_objs xdep_tables))). Qed.

(** ... the planner terminates (any graph, any use of the types), and the plan is a permutation of what DetachCycles
    returned: every CREATE TYPE / DROP TYPE and every table creation / drop of the input exactly as often as in the input. *)
Theorem C04_total_objects : forall X : list xchange, exists l, xplan X = XPOk l.
Proof. exact xplan_total. Qed.

Theorem C04_once_objects : forall X l, xplan X = XPOk l ->
  exists d, xDetachCycles X = XDCOk d /\ Permutation d l /\
    Permutation (flat_map oadds X) (flat_map oadds l) /\ Permutation (flat_map odrops X) (flat_map odrops l) /\
    Permutation (flat_map adds (erase_all X)) (flat_map adds (erase_all l)) /\
    Permutation (flat_map drops (erase_all X)) (flat_map drops (erase_all l)).
Proof. exact xplan_once. Qed.

(** SortChanges as a function of the change type (SortObjModel.gSortChanges): for ANY change type, dependency test and
    drop test -- if the dependency relation is acyclic on the partitioned input (a rank exists), the result is a
    permutation in which every dependency stands before its dependent, and, when no non-drop depends on a drop,
    every drop behind every other change.  (SortDfs.SortChanges_ranked, proved with the three as parameters.) *)
Theorem C04_SortChanges_generic : forall (A : Type) (dep : A -> A -> bool) (isdrop : A -> bool) (r : A -> nat) (l : list A),
  let cs := gpartition A isdrop l in
  NoDup cs ->
  (forall x y, In x cs -> In y cs -> x <> y -> dep x y = true -> r y < r x) ->
  exists out, gSortChanges A dep isdrop l = Some out /\ Permutation cs out /\
    (forall pre x post y, out = pre ++ x :: post -> In y cs -> y <> x -> dep x y = true -> In y pre) /\
    ((forall x y, In x cs -> In y cs -> isdrop x = false -> x <> y -> dep x y = true -> isdrop y = false) ->
     forall pre x post y, out = pre ++ x :: post -> isdrop x = false -> In y pre -> isdrop y = false).
Proof. exact gSortChanges_ranked. Qed.

(** C04_safe with objects: for every change set whose table changes are well-formed (WF of the projection; an object
    change occurs once) and every consistent catalogue, in both branches of DetachCycles and for every tie-break of
    its sort.Slice: the plan [out] is a permutation of the detached input in which
      - every change stands behind every change it depends on -- in particular CREATE TYPE e stands before every
        CREATE TABLE / ADD COLUMN / ALTER COLUMN TYPE that uses e, DROP TYPE e behind every DROP TABLE with a column
        of type e and every DROP COLUMN of type e (the four object arms of xdependsOn), and every table / foreign-key
        dependency as before;
      - no drop (DROP TABLE, DROP TYPE) stands before a change that is no drop -- so DROP TYPE e also stands behind an
        ALTER COLUMN that moves a column AWAY from e, for which dependsOn has no arm;
      - the table projection replays on the reference catalogue (tables and foreign keys), as in C04_safe.
    [xplan_ok] is that conjunction.  The type half of the catalogue ([treplay]: a type exists when used, is created
    once, dropped only when unused) is C04_safe_objects_full below. *)
Theorem C04_safe_objects_any_tiebreak : forall X c S,
  XWF X -> consistent c (erase_all X) -> xdetach_spec X S ->
  exists out, xSortChanges S = Some out /\ xplan_ok S out c.
Proof. exact xsafe_any_tiebreak. Qed.

Theorem C04_safe_objects : forall X c,
  XWF X -> consistent c (erase_all X) ->
  exists S out, xDetachCycles X = XDCOk S /\ xplan X = XPOk out /\ xplan_ok S out c.
Proof. exact xplan_safe. Qed.

(** The full statement with objects.  Reference catalogue = tables and foreign keys as before + the existing enum
    types and the (table, type) uses; [xreplay] fails on every error of [replay] and on: CREATE TYPE of an existing type,
    a column (CREATE TABLE, ADD COLUMN, ALTER COLUMN TYPE) of a type that does not exist at that moment, DROP TYPE of
    a missing type, DROP TYPE while a column still uses the type.
    [xconsistent c X] = consistent for the table half + [tconsistent]: created types are new and dropped types exist
    (each once); a type that a change starts using is not dropped by the set and exists or is created by the set --
    by an AddObject carrying the very type object (pointer) the column has, as in a realm; every existing use of a
    dropped type is given up by the set (its table is dropped and lists the type object DropObject carries, or the
    column is dropped / moved to another type).
    For every such change set and catalogue -- any FK graph, both DetachCycles branches, any tie-break -- the plan replays. *)
Theorem C04_types_split : forall l t0, tsplit_ok l t0 -> exists st, treplay l t0 = Some st.
Proof. exact tsplit_replay_ok. Qed.

Theorem C04_safe_objects_full_any_tiebreak : forall X c S,
  XWF X -> xconsistent c X -> xdetach_spec X S ->
  exists out c', xSortChanges S = Some out /\ Permutation S out /\ xreplay out c = Some c'.
Proof. exact xreplay_safe_any_tiebreak. Qed.

Theorem C04_safe_objects_full : forall X c,
  XWF X -> xconsistent c X -> exists out c', xplan X = XPOk out /\ xreplay out c = Some c'.
Proof. exact xreplay_safe. Qed.

(** A by-product: in the cycle-free branch the order DetachCycles produces is not needed for safety -- ANY order of a
    well-formed table-only change set that respects every dependsOn edge and keeps the drops behind replays. *)
Theorem C04_edges_suffice : forall cs c out,
  WF cs -> consistent c cs -> Permutation cs out ->
  (forall pre x post y, out = pre ++ x :: post -> In y cs -> y <> x -> dependsOn x y = true -> In y pre) ->
  (forall pre x post y, out = pre ++ x :: post -> is_drop x = false -> In y pre -> is_drop y = false) ->
  exists c', replay out c = Some c'.
Proof. intros cs c out HWF Hc Hp Hd Hb. exact (split_replay_ok out c (edge_split cs c HWF Hc out Hp Hd Hb)). Qed.

(** 7. The SQLite planner (round 5): sql/sqlite/migrate.go, PlanChanges / state.plan.  It calls neither DetachCycles nor
    SortChanges: the statements follow the change list ([sqlite_plan l] = (bracket?, l)), and the plan is bracketed by
    PRAGMA foreign_keys = off / on exactly when it drops a table or rebuilds one (a ModifyTable that is not
    [alterable]: everything but plain ADD COLUMN).  SQLite's catalogue ([sreplay off]): a foreign key to a table that
    does not exist is legal; DROP TABLE of a table referenced from another table fails under enforcement (pessimistic:
    as soon as a row references it) and is legal with enforcement off.
    The SQLite analogue of C04_safe: for every well-formed change set IN ANY ORDER -- any reference graph, cycles
    included -- and every consistent catalogue the plan replays: every table is created / dropped once (the plan is
    the list), and the only order-dependent obligation SQLite has is switched off by the bracket whenever a table is
    dropped. *)
Theorem C04_sqlite_plan_spec : forall l,
  snd (sqlite_plan l) = l /\
  (fst (sqlite_plan l) = true <->
   exists x, In x l /\ match x with AddTable _ _ => False | DropTable _ _ => True | ModifyTable _ tcs => alterable tcs = false end).
Proof. exact sqlite_plan_spec. Qed.

Theorem C04_sqlite_safe : forall cs c,
  WF cs -> consistent c cs -> exists c', sreplay (fst (sqlite_plan cs)) (snd (sqlite_plan cs)) c = Some c'.
Proof. exact sqlite_safe. Qed.

(** 8. What Go's unstable sort.Slice in DetachCycles can change (round 5; reusable by C20).  In the cycle-free branch
    every tie-break gives a plan that is sorted by the rank [ra sorted] = (sortMap index, drops behind); two changes of
    equal rank -- the only ones whose order a tie-break can swap -- never depend on one another; two tie-breaks give
    plans that are permutations of one another and order every two changes of different rank alike.  (In the cycle
    branch DetachCycles does not sort: the plan is a function of the input list.) *)
Theorem C04_ties_independent : forall cs sorted x y,
  WF cs -> sortMap cs = SMOk sorted -> In x cs -> In y cs -> x <> y ->
  ra sorted x = ra sorted y -> dependsOn x y = false /\ dependsOn y x = false.
Proof. exact ties_independent. Qed.

Theorem C04_tiebreaks_agree : forall cs sorted S1 S2 o1 o2,
  WF cs -> sortMap cs = SMOk sorted -> detach_spec cs S1 -> detach_spec cs S2 ->
  SortChanges S1 = Some o1 -> SortChanges S2 = Some o2 ->
  Permutation o1 o2 /\
  (forall pre x post y, o1 = pre ++ x :: post -> In y pre -> ra sorted y <> ra sorted x ->
     exists pre' post', o2 = pre' ++ x :: post' /\ In y pre').
Proof. exact tiebreaks_agree. Qed.

Print Assumptions C04_total.
Print Assumptions C04_total_parts.
Print Assumptions C04_once.
Print Assumptions C04_once_wf.
Print Assumptions C04_once_fks.
Print Assumptions C04_safe.
Print Assumptions C04_safe_any_tiebreak.
Print Assumptions C04_acyclic_sort_is_partition.
Print Assumptions C04_safe_dialects.
Print Assumptions C04_toplevel_once.
Print Assumptions C04_safe_with_schemas.
Print Assumptions C04_tidb_total.
Print Assumptions C04_tidb_order.
Print Assumptions C04_tidb_once.
Print Assumptions C04_tidb_safe_refuted.
Print Assumptions C04_tidb_unsafe_class.
Print Assumptions C04_tidb_safe_except.
Print Assumptions C04_tidb_safe_exact.
Print Assumptions C04_objects_commute.
Print Assumptions C04_total_objects.
Print Assumptions C04_once_objects.
Print Assumptions C04_SortChanges_generic.
Print Assumptions C04_safe_objects_any_tiebreak.
Print Assumptions C04_safe_objects.
Print Assumptions C04_edges_suffice.
Print Assumptions C04_types_split.
Print Assumptions C04_safe_objects_full_any_tiebreak.
Print Assumptions C04_safe_objects_full.
Print Assumptions C04_sqlite_plan_spec.
Print Assumptions C04_sqlite_safe.
Print Assumptions C04_ties_independent.
Print Assumptions C04_tiebreaks_agree.

(** Non-vacuity. *)
(* C04_total / C04_once: a 3-cycle of created tables is planned (6 changes out of 3). *)
Example C04_total_ex : plan c3_cs = POk c3_plan /\ length c3_plan = 6.
Proof. vm_compute. split; reflexivity. Qed.

Example C04_once_ex :
  plan sr_cs = POk sr_plan /\ flat_map adds sr_plan = ktabs [0] /\ flat_map drops sr_plan = ktabs [1; 2].
Proof. vm_compute. repeat split; reflexivity. Qed.

Example C04_once_fks_ex :
  plan c3_cs = POk c3_plan /\ flat_map decl c3_cs = kfks [(0, 21, 1); (1, 22, 2); (2, 20, 0)] /\
  flat_map decl c3_plan = kfks [(0, 21, 1); (1, 22, 2); (2, 20, 0)].
Proof. vm_compute. repeat split; reflexivity. Qed.

Example C04_once_wf_ex : WF sr_cs /\ plan sr_cs = POk sr_plan.
Proof. exact (conj sr_wf (proj1 (proj2 sr_runs))). Qed.

(* C04_safe, cycle branch: 3-cycle of created tables *)
Example C04_safe_ex_3cycle :
  WF c3_cs /\ consistent c3_cat c3_cs /\
  sortMap c3_cs = SMCycle /\ plan c3_cs = POk c3_plan /\
  replay c3_plan c3_cat = Some (kcat [2; 1; 0] [(0, 21, 1); (1, 22, 2); (2, 20, 0)]).
Proof. exact (conj c3_wf (conj c3_cons c3_runs)). Qed.

(* cycle branch: a created self-referencing table, a dropped self-referencing table in a 2-cycle of drops *)
Example C04_safe_ex_selfref :
  WF sr_cs /\ consistent sr_cat sr_cs /\
  sortMap sr_cs = SMCycle /\ plan sr_cs = POk sr_plan /\
  replay sr_plan sr_cat = Some (kcat [0] [(0, 20, 0)]).
Proof. exact (conj sr_wf (conj sr_cons sr_runs)). Qed.

(* cycle branch, the former counterexample: SortChanges moves CREATE TABLE 1 in front of the ALTER of
   table 0 that re-points its key to table 1 (DetachCycles alone leaves it behind) *)
Example C04_safe_ex_repoint_cycle :
  WF cx_cs /\ consistent cx_cat cx_cs /\ sortMap cx_cs = SMCycle /\
  DetachCycles cx_cs = DCOk
    [ ModifyTable (des 0) [ModifyFK (mkFK 5 (cur 0) (cur 2)) (mkFK 5 (des 0) (des 1))];
      AddTable (des 1) [];
      ModifyTable (des 1) [AddFK (mkFK 21 (des 1) (des 0))] ] /\
  plan cx_cs = POk cx_plan /\
  replay cx_plan cx_cat = Some (kcat [1; 0; 2] [(0, 5, 1); (1, 21, 0)]).
Proof. exact (conj cx_wf (conj cx_cons cx_runs)). Qed.

(* cycle-free branch: a re-pointed key to a created table, a chain, a drop *)
Example C04_safe_ex_chain :
  WF ch_cs /\ consistent ch_cat ch_cs /\
  sortMap ch_cs = SMOk [2; 1; 0] /\ plan ch_cs = POk ch_plan /\
  replay ch_plan ch_cat = Some (kcat [1; 2; 0] [(1, 22, 2); (0, 5, 1)]).
Proof. exact (conj ch_wf (conj ch_cons ch_runs)). Qed.

(* the dialect plans of the chain example: the re-pointed key becomes DROP then ADD *)
Example C04_safe_ex_dialects :
  flat_map mysql_sources ch_plan =
    [ AddTable (des 2) []; AddTable (des 1) [mkFK 22 (des 1) (des 2)];
      ModifyTable (des 0) [DropFK (mkFK 5 (cur 0) (cur 3))];
      ModifyTable (des 0) [AddFK (mkFK 5 (des 0) (des 1))];
      DropTable (cur 3) [] ] /\
  replay (flat_map mysql_sources ch_plan) ch_cat = Some (kcat [1; 2; 0] [(1, 22, 2); (0, 5, 1)]) /\
  replay (flat_map pg_sources ch_plan) ch_cat = Some (kcat [1; 2; 0] [(1, 22, 2); (0, 5, 1)]).
Proof. vm_compute. repeat split; reflexivity. Qed.

Example C04_safe_ex_tiebreak : detach_spec ch_cs [AddTable (des 2) []; DropTable (cur 3) [];
    AddTable (des 1) [mkFK 22 (des 1) (des 2)];
    ModifyTable (des 0) [ModifyFK (mkFK 5 (cur 0) (cur 3)) (mkFK 5 (des 0) (des 1))]].
Proof. exact ch_tiebreak. Qed.

(* round 3 -- C04_safe with colliding names: s1.t1 <-> s1.t2 dropped (2-cycle of drops) while the namesake
   s2.t1 is altered earlier in the list and s2.t2 is created.  isDropped (by name) calls the altered s2.t1
   dropped, SameTable does not confuse the two; the plan replays on the catalogue keyed by (schema, name). *)
Example C04_safe_ex_two_schemas :
  WF tw_cs /\ consistent tw_cat tw_cs /\
  sortMap tw_cs = SMCycle /\ plan tw_cs = POk tw_plan /\
  replay tw_plan tw_cat = Some (qcat [(2, 2); (2, 1)] [((2, 1), 23, (2, 2))]) /\
  isDropped tw_cs (tq 2 1 5) = true /\ same_table (tq 2 1 5) (tq 1 1 0) = false.
Proof. exact (conj tw_wf (conj tw_cons tw_runs)). Qed.

(* C04_toplevel_once / C04_safe_with_schemas: CREATE SCHEMA s2 and ALTER SCHEMA s1 in front of the same change set *)
Example C04_safe_with_schemas_ex :
  plan_all (GSchema (AddSchema 2) :: GSchema (ModifySchema 1) :: map GTable tw_cs)
    = Some ([AddSchema 2; ModifySchema 1], tw_plan).
Proof. vm_compute. reflexivity. Qed.

(* round 5 -- the TiDB planner on the chain example: the re-pointed key (priority 3) is declared before CREATE TABLE 1
   (priority 4); DROP TABLE 3 keeps the place DetachCycles gave it (no SortChanges) *)
Example C04_tidb_ex :
  tidb_order ch_cs = TOk
    [ ModifyTable (des 0) [ModifyFK (mkFK 5 (cur 0) (cur 3)) (mkFK 5 (des 0) (des 1))];
      AddTable (des 2) []; DropTable (cur 3) []; AddTable (des 1) [mkFK 22 (des 1) (des 2)] ] /\
  tidb_plan ch_cs = TOk ch_tidb /\ replay ch_tidb ch_cat = None /\
  (exists c', replay ch_plan ch_cat = Some c').
Proof. vm_compute. repeat split; try reflexivity. eexists; reflexivity. Qed.

(* C04_tidb_order / C04_tidb_once: a ModifyTable with four sub-changes among two creations flattens to 6 atomic
   changes and is re-sorted: AddColumn (1), DropForeignKey (2), then the rest in DetachCycles' order *)
Example C04_tidb_order_ex :
  tidb_order [ AddTable (des 1) []; ModifyTable (des 0) [Other 1; AddFK (mkFK 21 (des 0) (des 1)); DropFK (mkFK 5 (cur 0) (cur 2)); Other 2] ]
  = TOk [ ModifyTable (des 0) [Other 2]; ModifyTable (des 0) [DropFK (mkFK 5 (cur 0) (cur 2))];
          AddTable (des 1) []; ModifyTable (des 0) [Other 1]; ModifyTable (des 0) [AddFK (mkFK 21 (des 0) (des 1))] ].
Proof. vm_compute. reflexivity. Qed.

(* round 5 -- enum objects: CREATE TYPE 0 moves to the front, DROP TYPE 1 to the end, the cycle 0 <-> 1 is detached;
   both halves of the catalogue replay on the plan; the input order fails on the type half *)
Example C04_safe_objects_ex :
  XWF ox_cs /\ consistent ox_cat (erase_all ox_cs) /\
  xsortMap ox_cs = SMCycle /\ xplan ox_cs = XPOk ox_plan /\
  replay (erase_all ox_plan) ox_cat = Some (kcat [1; 0] [(1, 20, 0); (0, 21, 1)]) /\
  treplay ox_plan ox_types = Some ([0], [(qcode 0 1, 0); (qcode 0 0, 0)]) /\
  treplay ox_cs ox_types = None.
Proof. exact (conj ox_wf (conj ox_cons ox_runs)). Qed.

Example C04_once_objects_ex :
  flat_map oadds ox_plan = [0] /\ flat_map odrops ox_plan = [1] /\
  flat_map adds (erase_all ox_plan) = ktabs [1] /\ flat_map drops (erase_all ox_plan) = ktabs [2].
Proof. vm_compute. repeat split; reflexivity. Qed.

(* C04_SortChanges_generic is the statement SortChanges_ranked at A = change: the generic function is SortChanges *)
Example C04_SortChanges_generic_ex :
  gSortChanges change dependsOn is_drop ch_cs = SortChanges ch_cs /\ gSortChanges change dependsOn is_drop c3_cs = SortChanges c3_cs.
Proof. vm_compute. split; reflexivity. Qed.

(* C04_safe_objects_full on the example: hypotheses hold, the plan replays on both halves; the input order does not *)
Example C04_safe_objects_full_ex :
  XWF ox_cs /\ xconsistent (mkXC ox_cat (fst ox_types) (snd ox_types)) ox_cs /\
  xreplay ox_plan (mkXC ox_cat (fst ox_types) (snd ox_types))
    = Some (mkXC (kcat [1; 0] [(1, 20, 0); (0, 21, 1)]) [0] [(qcode 0 1, 0); (qcode 0 0, 0)]) /\
  xreplay ox_cs (mkXC ox_cat (fst ox_types) (snd ox_types)) = None.
Proof. split; [exact ox_wf|]. split; [exact ox_xcons|]. vm_compute. split; reflexivity. Qed.

(* C04_types_split: the obligations are met by the plan of the example *)
Example C04_types_split_ex : tsplit_ok ox_plan ox_types.
Proof.
  destruct (xplan_safe ox_cs ox_cat ox_wf ox_cons) as [S [out [HS [Hp [P1 [P2 [P3 _]]]]]]].
  rewrite (proj1 (proj2 ox_runs)) in Hp. injection Hp as <-.
  exact (plan_tsplit ox_cs S ox_plan ox_types (xDetachCycles_spec _ _ HS) ox_tcons P1 P2 P3).
Qed.

(* round 5 -- SQLite: the selfref example (a created self-referencing table, a 2-cycle of dropped tables) in its input
   order: bracketed, replays on the SQLite catalogue -- and would not replay without the bracket, nor does the input
   order replay on the catalogue of the other dialects *)
Example C04_sqlite_safe_ex :
  WF sr_cs /\ consistent sr_cat sr_cs /\ sqlite_plan sr_cs = (true, sr_cs) /\
  (exists c', sreplay true sr_cs sr_cat = Some c') /\ sreplay false sr_cs sr_cat = None /\ replay sr_cs sr_cat = None.
Proof. split; [exact sr_wf|]. split; [exact sr_cons|]. vm_compute. repeat split; try reflexivity. eexists; reflexivity. Qed.

(* no bracket when the plan only creates tables and adds plain columns *)
Example C04_sqlite_plan_spec_ex :
  sqlite_plan [AddTable (des 1) [mkFK 20 (des 1) (des 0)]; ModifyTable (des 0) [Other 2]; AddTable (des 2) []]
  = (false, [AddTable (des 1) [mkFK 20 (des 1) (des 0)]; ModifyTable (des 0) [Other 2]; AddTable (des 2) []]) /\
  fst (sqlite_plan [ModifyTable (des 0) [Other 1]]) = true.
Proof. vm_compute. split; reflexivity. Qed.

(* C04_ties_independent / C04_tiebreaks_agree: in the chain example CREATE TABLE 2 and DROP TABLE 3 ... have different
   ranks, CREATE TABLE 2 (index 0) and the unrelated rank-0 changes tie; the two tie-breaks of C04_safe_ex_tiebreak *)
Example C04_ties_ex :
  sortMap ch_cs = SMOk [2; 1; 0] /\
  ra [2; 1; 0] (AddTable (des 2) []) = 0 /\ ra [2; 1; 0] (DropTable (cur 3) []) = 4 /\
  ra [2; 1; 0] (AddTable (des 1) [mkFK 22 (des 1) (des 2)]) = 1 /\
  dependsOn (AddTable (des 1) [mkFK 22 (des 1) (des 2)]) (AddTable (des 2) []) = true.
Proof. vm_compute. repeat split; reflexivity. Qed.

(* C04_tidb_safe_except: the selfref example (no re-pointed key; a cycle) is planned safely by the TiDB order *)
Example C04_tidb_safe_except_ex :
  WF sr_cs /\ consistent sr_cat sr_cs /\
  exists l c', tidb_order sr_cs = TOk l /\ replay l sr_cat = Some c' /\ length l = 5.
Proof. split; [exact sr_wf|]. split; [exact sr_cons|]. eexists; eexists. vm_compute. repeat split; reflexivity. Qed.
