(** C01 -- declarative apply converges: one plan takes any database to the desired schema.

    FULL STATEMENT (properties.jsonl): for any current database schema and any desired schema within
    the supported feature set (column types, nullability, defaults, single/composite/autoincrement
    primary keys, unique/multi-column/descending/partial indexes, named and unnamed checks, self/cross/
    cyclic foreign keys with all actions, WITHOUT ROWID / STRICT, generated columns), executing the
    statements Atlas plans for the difference brings the live database to a state whose difference
    from the desired schema is empty; a second plan computed right after is empty.

    The full statement is FALSE of the faithful model and of the Go code: four witnesses inside the
    listed feature set are proved below as [C01_converges_refuted_*] (each reproduced on real SQLite,
    known_findings.d/C01.json).  Four more (composite key not in column order, raw default in parentheses,
    CHECK "(a) AND (b)", dropping an inline UNIQUE) were defects REPAIRED in the Go code in the fix round
    (notes/fixes/ORDER-sqlite.txt); the model follows the fixed code, the former witnesses are proved to
    converge ([C01_converges_*_fixed]) and what the old code did is kept as [C01_*_old_code_refuted] over the
    old definitions.  What does hold is [C01_converges_except]: for every database of the
    abstract engine and every desired schema satisfying the decidable predicate [supported] --
    (a) the database has no rows, no inline UNIQUE constraints, distinct names, printable tables, no
        open transaction;
    (b) every desired table is creatable (CREATE TABLE accepted by the engine), has no autoindex-named
        index, and *itself* survives CREATE + inspect without a difference, as do its columns and
        indexes one by one (a per-object, computable check; the witnesses pk_desc and unnamed_fks fail
        here, index_moves and new_table_clash fail (c));
    (c) names do not collide: new_<t> is free and unreferenced, an index name of the desired schema is
        not used by another table of the database, AUTOINCREMENT columns of an existing table exist --
    SchemaDiff + PlanChanges produce a plan, the engine executes it without error, and the SchemaDiff of
    the inspected result with the desired schema is [].  The proof is by induction over the change
    list (Sqlite/Converge.v: phase1/phase2) with the invariant ConvergeStep.inv, per table by cases
    drop / no change / ALTER path / rebuild path; nothing is sampled.
    [C01_converges_rows] lifts (a) to databases with rows: the same plan ends in sync or stops with a
    row error, never with a schema error.  Condition (c) is not a convenience: both of its clauses are
    refuted when dropped ([C01_converges_refuted_index_moves], [_new_table_clash]), and both witnesses
    fail on real SQLite.
    [C01_converges_feature_set] states it over a syntactic feature list ([in_feature_set]; primary key,
    foreign keys and checks by structural conditions proved sufficient in Sqlite/ConvergeSyntactic.v).
    MISSING for the full statement: (1) the string-level part of condition (b) -- a default, a generated
    expression, an index or a check expression is unchanged by print + inspect -- stays a closed
    computation per object rather than a grammar of expressions; foreign keys with an empty Symbol (at
    most one per table converges; numeric symbols of an inspected desired state are ordinary names) are
    covered by [C01_converges_supported] only; (2) inline UNIQUE constraints in the current database
    (since the fix of [alterable] the former counterexample converges, C01_converges_drop_unique_fixed, but the
    invariant of the proof does not carry them yet); (3) SQL text and SQLite itself: the engine
    is a model, tied to real go-sqlite3 by the correspondence stages. *)
From Coq Require Import List NArith ZArith Bool Arith.
From Atlas Require Sqlite.ConvergeTable.
From Atlas Require Import Base.Bytes Diff.Schema Diff.DiffModel Diff.DiffSqlite
  Sqlite.PlanModel Sqlite.PlanProofs Sqlite.EngineModel Sqlite.InspectModel Sqlite.ConvergeDefs Sqlite.ConvergeStep
  Sqlite.Converge Sqlite.ConvergeSupported Sqlite.EngineRowsProofs Sqlite.ConvergeRows Sqlite.ConvergeParts Sqlite.ConvergeSyntactic
  Sqlite.ConvergeFeature Sqlite.ConvergeExported Hcl.SpecModel Hcl.SpecProofs.
From Atlas Require Hcl.SpecDiffAutoProofs.
Import ListNotations.

(** ** the theorems *)

(** the characterisation that holds, hypotheses as propositions *)
Theorem C01_converges_except :
  forall (nm : str) (d : db) (B : xschema),
    db_ok d -> (forall bx, In bx B -> desired_ok bx) -> compatible d B ->
    exists p d', diff_and_plan nm (inspect d) B = Some p /\ exec_all d (plan_stmts p) = Ok d' /\ synced nm d' B.
Proof. exact converges. Qed.
Print Assumptions C01_converges_except.

(** the same with the decidable predicate *)
Theorem C01_converges_supported :
  forall (nm : str) (d : db) (B : xschema),
    supported d B = true ->
    exists p d', diff_and_plan nm (inspect d) B = Some p /\ exec_all d (plan_stmts p) = Ok d' /\ synced nm d' B.
Proof. exact converges_supported. Qed.
Print Assumptions C01_converges_supported.

(** populated databases: [forget d] is [d] with every table emptied (same catalogue).  The plan is the
    same; its execution ends in sync or stops with a row error (a NOT NULL / UNIQUE / foreign-key
    violation by the rows, or ADD COLUMN NOT NULL without default on a table with rows) -- never with a
    schema error *)
Theorem C01_converges_rows :
  forall (nm : str) (d : db) (B : xschema),
    supported (forget d) B = true ->
    exists p, diff_and_plan nm (inspect d) B = Some p /\
      ((exists d', exec_all d (plan_stmts p) = Ok d' /\ synced nm d' B) \/
       (exists er, exec_all d (plan_stmts p) = Err er /\ row_err er = true)).
Proof. exact converges_rows. Qed.
Print Assumptions C01_converges_rows.

(** a second plan computed after a successful apply is empty, and running it changes nothing *)
Theorem C01_second_plan_empty :
  forall (nm : str) (d : db) (B : xschema),
    synced nm d B ->
    diff_and_plan nm (inspect d) B = Some (mkPlan [] true true) /\ exec_all d (plan_stmts (mkPlan [] true true)) = Ok d.
Proof. exact second_plan_empty. Qed.
Print Assumptions C01_second_plan_empty.

(** apply + second plan, in one statement *)
Theorem C01_apply_then_second_plan_empty :
  forall (nm : str) (d : db) (B : xschema),
    supported d B = true ->
    exists p d', diff_and_plan nm (inspect d) B = Some p /\ exec_all d (plan_stmts p) = Ok d' /\
                 diff_and_plan nm (inspect d') B = Some (mkPlan [] true true).
Proof. exact apply_then_second_plan_empty. Qed.
Print Assumptions C01_apply_then_second_plan_empty.

(** creating a schema from nothing (the case the SQL export of C03 needs) *)
Theorem C01_create_converges :
  forall (nm : str) (B : xschema),
    supported empty_db B = true ->
    exists p d', diff_and_plan nm [] B = Some p /\ exec_all empty_db (plan_stmts p) = Ok d' /\ synced nm d' B.
Proof. exact (fun nm B H => converges_supported nm empty_db B H). Qed.
Print Assumptions C01_create_converges.

(** THE FEATURE LIST, syntactically.  [in_feature_set d B]:
    - catalogue of d: distinct table/index names, no inline UNIQUE constraint, typed columns, printable
      tables, no open transaction ([db_ok_b] of the catalogue; rows are free);
    - every desired table ([desired_syntactic_b]): accepted by CREATE TABLE (distinct column names, a
      stored column, printable types/defaults, STRICT types, no DEFAULT on generated columns, key over
      existing stored columns, WITHOUT ROWID only with a key, AUTOINCREMENT only as the INTEGER key);
      primary key = the declared one, over columns, ascending, in the order of the columns; indexes with
      distinct non-autoindex names accepted by CREATE INDEX; foreign keys named, distinct non-numeric
      names, distinct shapes, any actions, any (self / cross / cyclic) target; checks pairwise
      non-matching; and the string-level conditions, each a closed computation on one object: a
      column's default / generated expression, an index (parts, DESC, expressions, predicate) and a
      check expression are unchanged by print + inspect;
    - names ([compatible_b]): new_<t> unused and unreferenced, desired index names not in use elsewhere,
      AUTOINCREMENT columns of an existing table exist.
    Then: a plan exists; executed on d (with its rows) it ends in sync, or stops with a row error. *)
Theorem C01_converges_feature_set :
  forall (nm : str) (d : db) (B : xschema),
    in_feature_set d B = true ->
    exists p, diff_and_plan nm (inspect d) B = Some p /\
      ((exists d', exec_all d (plan_stmts p) = Ok d' /\ synced nm d' B) \/
       (exists er, exec_all d (plan_stmts p) = Err er /\ row_err er = true)).
Proof. exact converges_feature_set. Qed.
Print Assumptions C01_converges_feature_set.

(** the round-trip condition of a desired table follows from the syntactic one *)
Theorem C01_desired_ok_syntactic : forall bx : xtable, desired_syntactic_b bx = true -> desired_ok bx.
Proof. exact desired_ok_syntactic. Qed.
Print Assumptions C01_desired_ok_syntactic.

(** condition (b) of a desired table from its parts: the table is creatable and its check list, each
    column, its primary key, each index and its foreign-key list round-trip on their own (a computable
    check that does not run the differ on the whole table) *)
Theorem C01_desired_ok_by_parts : forall bx : xtable, desired_parts_b bx = true -> desired_ok bx.
Proof. exact desired_ok_by_parts. Qed.
Print Assumptions C01_desired_ok_by_parts.

(** for every input of the planner (no hypothesis on the schemas or on the change list): a plan that drops
    a table -- DROP TABLE or the rebuild -- is bracketed by PRAGMA foreign_keys = off / on, no other plan
    contains a pragma, Reversible is computed on the changes between the brackets, Transactional is set *)
Theorem C01_plan_fk_bracket :
  forall (from to : xschema) (cs : list schange) (p : plan),
    PlanChanges from to cs = Some p ->
    exists (body : list pchange) (sk : bool),
      p_changes p = (if sk then mkPC (SPragmaFK false) [] CmFKOff :: body ++ [mkPC (SPragmaFK true) [] CmFKOn] else body) /\
      forallb (fun c => negb (is_pragma (pc_cmd c))) body = true /\
      (sk = false -> forallb (fun c => negb (is_drop_table (pc_cmd c))) body = true) /\
      p_reversible p = set_reversible body /\ p_transactional p = true.
Proof. exact plan_fk_bracket. Qed.
Print Assumptions C01_plan_fk_bracket.

(** ROUND 5 -- the desired schema is what `atlas schema inspect` printed for ANOTHER database.
    Such a document lists the index behind an inline UNIQUE constraint under its reserved name
    sqlite_autoindex_<t>_<n> and without sqlite.IndexOrigin.  [normalizeIdxName] (sql/sqlite/migrate.go) renames
    it to <table>_<columns> at three places -- diff.Normalize, diff.FindGeneratedIndex, state.addIndexes.
    [nrm B] is [B] with that renaming done once; [stable_b B]: the renaming succeeds (column parts only) and
    its results are not reserved names again (decidable).  For EVERY current schema [A], engine database [d]
    and desired [B] with [stable_b B]: the differ + planner return for [B] literally the plan they return for
    [nrm B], and the second diff judges [B] as it judges [nrm B] -- the three call sites agree. *)
Theorem C01_normalizeIdxName_sites_agree :
  forall (nm : str) (A B : xschema) (d : db),
    stable_b B = true ->
    diff_and_plan nm A (nrm B) = diff_and_plan nm A B /\ (synced nm d (nrm B) <-> synced nm d B).
Proof. intros nm A B d S. split; [exact (diff_and_plan_nrm nm A B S)|exact (synced_nrm nm d B S)]. Qed.
Print Assumptions C01_normalizeIdxName_sites_agree.

(** hence convergence for desired schemas WITH reserved index names (which [supported] excludes):
    [supported_exported d B] = [stable_b B && supported d (nrm B)] *)
Theorem C01_converges_exported :
  forall (nm : str) (d : db) (B : xschema),
    supported_exported d B = true ->
    exists p d', diff_and_plan nm (inspect d) B = Some p /\ exec_all d (plan_stmts p) = Ok d' /\ synced nm d' B.
Proof. exact converges_exported. Qed.
Print Assumptions C01_converges_exported.

(** ... composed with C03's export lemma (C03_hcl_normal_form: for a well-formed inspected schema the HCL
    round trip MarshalHCL -> EvalHCL succeeds and returns [map norm_x]: defaults re-read, parts renumbered,
    index origin dropped): export database d1, apply the document unedited to database d2.
    FULL STATEMENT wanted: for all d1, d2 of the feature set.  PROVED: for all d1 with a well-formed inspected
    schema and all d2 with [supported_exported d2 (map norm_x (inspect d1))] -- a decidable condition on the pair;
    it holds when d2 is empty, lacks the table, lacks only the UNIQUE constraint, or holds it as the index
    <t>_<cols> an earlier apply created (Examples below).  MISSING: a d2 that itself has inline UNIQUE
    constraints (header, item (2): the invariant of the proof does not carry them; the stage `exported` covers
    them against the model and the real engine), and deriving the condition from d1's catalogue alone. *)
Theorem C01_converges_from_exported_hcl :
  forall (nm : str) (d1 d2 : db),
    schema_wf (inspect d1) ->
    supported_exported d2 (map norm_x (inspect d1)) = true ->
    exists B p d', hcl_roundtrip (inspect d1) = ROk B /\
      diff_and_plan nm (inspect d2) B = Some p /\ exec_all d2 (plan_stmts p) = Ok d' /\ synced nm d' B.
Proof. exact converges_from_exported_hcl. Qed.
Print Assumptions C01_converges_from_exported_hcl.

(** D2 = D1 (the relation `same` of the stage, oracle class exported-self-diff): a database's own export plans
    NOTHING -- also when the database has inline UNIQUE constraints, which [supported] excludes on the current
    side.  [diffable_auto] is C03's condition on the inspected tables (C03_hcl_except: unique names, typed columns,
    defaults the document preserves, made-up names that do not collide). *)
Theorem C01_exported_self_apply_is_noop :
  forall (nm : str) (d1 : db),
    schema_wf (inspect d1) -> Forall Hcl.SpecDiffAutoProofs.diffable_auto (inspect d1) ->
    exists B, hcl_roundtrip (inspect d1) = ROk B /\
      diff_and_plan nm (inspect d1) B = Some (mkPlan [] true true) /\
      exec_all d1 (plan_stmts (mkPlan [] true true)) = Ok d1 /\ synced nm d1 B.
Proof. exact exported_self_apply_noop. Qed.
Print Assumptions C01_exported_self_apply_is_noop.
Example C01_ex_self_apply :
  schema_wf (inspect ex_u_db) /\ Forall Hcl.SpecDiffAutoProofs.diffable_auto (inspect ex_u_db) /\
  map (fun c => length (ct_uniques c)) (db_tables ex_u_db) = [1%nat].
Proof. split; [exact (proj1 ex_self_nonvacuous)|]. split; [exact (proj2 ex_self_nonvacuous)|reflexivity]. Qed.

(** ** witnesses *)
Definition nm : str := [109]%N.
Definition n_t : str := [116]%N.
Definition n_p : str := [112]%N.
Definition n_a : str := [97]%N.
Definition n_b : str := [98]%N.
Definition n_c : str := [99]%N.
Definition n_id : str := [105;100]%N.
Definition T_int : str := [105;110;116]%N.
Definition T_integer : str := [105;110;116;101;103;101;114]%N.
Definition T_text : str := [116;101;120;116]%N.

Definition col (n : str) (ty : str) (cls : N) (null : bool) : column := mkColumn n cls ty null None None None.
Definition cpart (k : N) (c : str) (desc : bool) : part := mkPart k desc (Some c) None.
Definition pk_of (ps : list part) : index := mkIndex [] false ps None None None.
Definition tbl (n : str) (cols : list column) (pk : option index) (idx : list index) (fks : list fkey) (cks : list check) : xtable :=
  mkX (mkTable n false false cols pk idx fks cks) [].

Definition converged (d : db) (B : xschema) : bool :=
  match sqlite_schema_diff no_skip (inspect_schema nm d) (schema_of nm B) with Some [] => true | _ => false end.

(** *** where the theorem applies (non-vacuity) *)
(** t(id integer NOT NULL PRIMARY KEY, a text NULL) created from nothing; then a column and a unique
    index are added (ALTER path); then the column a becomes NOT NULL (rebuild path) *)
Definition ex_A : xschema := [tbl n_t [col n_id T_integer 2 false; col n_a T_text 3 true] (Some (pk_of [cpart 1 n_id false])) [] [] []].
Definition ex_idx : index := mkIndex [105;49]%N true [cpart 1 n_a false] None None None.
Definition ex_B : xschema :=
  [tbl n_t [col n_id T_integer 2 false; col n_a T_text 3 true; col n_b T_int 2 true] (Some (pk_of [cpart 1 n_id false])) [ex_idx] [] []].
Definition ex_C : xschema :=
  [tbl n_t [col n_id T_integer 2 false; col n_a T_text 3 false; col n_b T_int 2 true] (Some (pk_of [cpart 1 n_id false])) [ex_idx] [] []].

Definition run (d : db) (B : xschema) : db :=
  match apply_plan nm d B with Some (Ok d') => d' | _ => d end.

Example C01_ex_supported_create : supported empty_db ex_A = true.
Proof. vm_compute. reflexivity. Qed.
Example C01_ex_supported_alter : supported (run empty_db ex_A) ex_B = true.
Proof. vm_compute. reflexivity. Qed.
Example C01_ex_supported_rebuild : supported (run (run empty_db ex_A) ex_B) ex_C = true.
Proof. vm_compute. reflexivity. Qed.
(** the three plans: 1 statement; ADD COLUMN + CREATE INDEX; the 12-step rebuild with the PRAGMA bracket *)
Example C01_ex_plans :
  (match diff_and_plan nm (inspect empty_db) ex_A with Some p => length (p_changes p) | None => 0 end,
   match diff_and_plan nm (inspect (run empty_db ex_A)) ex_B with Some p => length (p_changes p) | None => 0 end,
   match diff_and_plan nm (inspect (run (run empty_db ex_A) ex_B)) ex_C with Some p => length (p_changes p) | None => 0 end)
  = (1, 2, 7).
Proof. vm_compute. reflexivity. Qed.
Example C01_ex_parts : forallb desired_parts_b (ex_A ++ ex_B ++ ex_C) = true.
Proof. vm_compute. reflexivity. Qed.
Example C01_ex_bracket :
  match diff_and_plan nm (inspect (run (run empty_db ex_A) ex_B)) ex_C with
  | Some p => map (fun c => is_pragma (pc_cmd c)) (p_changes p)
  | None => []
  end = [true; false; false; false; false; false; true].
Proof. vm_compute. reflexivity. Qed.
Example C01_ex_converged :
  converged (run empty_db ex_A) ex_A && converged (run (run empty_db ex_A) ex_B) ex_B
  && converged (run (run (run empty_db ex_A) ex_B) ex_C) ex_C = true.
Proof. vm_compute. reflexivity. Qed.
(** the rebuild of a table holding the row (id = 1, a = NULL) into a NOT NULL: stops with ENotNull;
    holding (1, 'x'): succeeds and keeps the row *)
Definition with_rows (d : db) (rows : list row) : db :=
  mkDB (map (fun c => mkCT (ct_x c) (ct_uniques c) rows) (db_tables d)) (db_fk d) (db_tx d).
Definition ex_AB : db := run (run empty_db ex_A) ex_B.
Example C01_ex_rows :
  (match apply_plan nm (with_rows ex_AB [(1%Z, [(n_id, VInt 1); (n_a, VNull); (n_b, VNull)])]) ex_C with
   | Some (Err e) => row_err e | _ => false end)
  && (match apply_plan nm (with_rows ex_AB [(1%Z, [(n_id, VInt 1); (n_a, VText [120]%N); (n_b, VNull)])]) ex_C with
      | Some (Ok d') => converged d' ex_C && match db_tables d' with [c] => Nat.eqb (length (ct_rows c)) 1 | _ => false end
      | _ => false end) = true.
Proof. vm_compute. reflexivity. Qed.
Example C01_ex_feature_set :
  in_feature_set empty_db ex_A && in_feature_set (run empty_db ex_A) ex_B && in_feature_set (run (run empty_db ex_A) ex_B) ex_C
  && in_feature_set (with_rows (run (run empty_db ex_A) ex_B) [(1%Z, [(n_id, VInt 1); (n_a, VNull); (n_b, VNull)])]) ex_C = true.
Proof. vm_compute. reflexivity. Qed.
Example C01_ex_second_plan : synced nm (run empty_db ex_A) ex_A.
Proof. vm_compute. reflexivity. Qed.

(** *** where the full statement fails *)
(** composite primary key listed in another order than the columns: PRIMARY KEY (b, a).  FIXED in the Go code
    (fix "sqlite inspection orders the parts of a composite primary key by their position in the key", known
    findings C01-pk-order = C03-pk-order): [inspect_pk] now returns the parts in key order, the former witness
    is inside [supported] and converges.  The second theorem is about the OLD inspection ([inspect_pk_old]:
    parts in column order): the key it returned for this table differs from the desired one for ever. *)
Definition w_pk_order : xschema :=
  [tbl n_t [col n_a T_int 2 false; col n_b T_int 2 false] (Some (pk_of [cpart 1 n_b false; cpart 2 n_a false])) [] [] []].
Theorem C01_converges_pk_order_fixed :
  supported empty_db w_pk_order = true /\
  exists d', apply_plan nm empty_db w_pk_order = Some (Ok d') /\ synced nm d' w_pk_order.
Proof.
  assert (S : supported empty_db w_pk_order = true) by (vm_compute; reflexivity).
  split; [exact S|]. destruct (converges_supported nm empty_db w_pk_order S) as [p [d' [P [E Y]]]].
  exists d'. split; [|exact Y]. unfold apply_plan. rewrite P, E. reflexivity.
Qed.
Print Assumptions C01_converges_pk_order_fixed.
Theorem C01_pk_order_old_code_refuted :
  forall t, In t w_pk_order ->
  ConvergeTable.pk_part (inspect_pk_old (x_t t)) (t_pk (x_t t)) <> [] /\ ConvergeTable.pk_part (inspect_pk (x_t t)) (t_pk (x_t t)) = [].
Proof. intros t [<-|[]]. split; [vm_compute; discriminate|vm_compute; reflexivity]. Qed.
Print Assumptions C01_pk_order_old_code_refuted.

(** PRIMARY KEY (a DESC) *)
Definition w_pk_desc : xschema := [tbl n_t [col n_a T_text 3 false] (Some (pk_of [cpart 1 n_a true])) [] [] []].
Theorem C01_converges_refuted_pk_desc :
  exists B d', apply_plan nm empty_db B = Some (Ok d') /\ ~ synced nm d' B.
Proof. exists w_pk_desc. eexists. split; [vm_compute; reflexivity|]. vm_compute. discriminate. Qed.
Print Assumptions C01_converges_refuted_pk_desc.

(** DEFAULT sql("(1 + 1)"): a raw expression written with its own parentheses.  FIXED in the Go code (fix
    "sqlite differ compares two unquoted column defaults up to their outer parentheses", known finding
    C01-raw-default-parens): SQLite reports the default as 1 + 1, and [sqlite_default_changed] of
    Diff/DiffSqlite.v now compares unquoted defaults after MayWrap; the former witness is inside [supported]
    and converges.  The second theorem is about the OLD differ ([sqlite_default_changed_old]): it reported the
    inspected column as changed after every apply. *)
Definition w_raw_default : xschema :=
  [tbl n_t [mkColumn n_a 2 T_int true (Some (DRaw [40;49;32;43;32;49;41]%N)) None None] None [] [] []].
Theorem C01_converges_raw_default_fixed :
  supported empty_db w_raw_default = true /\
  exists d', apply_plan nm empty_db w_raw_default = Some (Ok d') /\ synced nm d' w_raw_default.
Proof.
  assert (S : supported empty_db w_raw_default = true) by (vm_compute; reflexivity).
  split; [exact S|]. destruct (converges_supported nm empty_db w_raw_default S) as [p [d' [P [E Y]]]].
  exists d'. split; [|exact Y]. unfold apply_plan. rewrite P, E. reflexivity.
Qed.
Print Assumptions C01_converges_raw_default_fixed.
Theorem C01_raw_default_old_code_refuted :
  let desired := mkColumn n_a 2 T_int true (Some (DRaw [40;49;32;43;32;49;41]%N)) None None in
  let inspected := mkColumn n_a 2 T_int true (Some (DRaw [49;32;43;32;49]%N)) None None in
  inspect_column desired = inspected /\
  sqlite_default_changed_old inspected desired = true /\ sqlite_default_changed inspected desired = false.
Proof. vm_compute. repeat split; reflexivity. Qed.
Print Assumptions C01_raw_default_old_code_refuted.
(** ... and the same default without the parentheses converges *)
Definition w_raw_default_ok : xschema :=
  [tbl n_t [mkColumn n_a 2 T_int true (Some (DRaw [49;32;43;32;49]%N)) None None] None [] [] []].
Example C01_raw_default_unwrapped_supported : supported empty_db w_raw_default_ok = true.
Proof. vm_compute. reflexivity. Qed.

(** two foreign keys without a symbol *)
Definition w_unnamed_fks : xschema :=
  [tbl n_p [col n_id T_int 2 false] (Some (pk_of [cpart 1 n_id false])) [] [] [];
   tbl n_t [col n_a T_int 2 true; col n_b T_int 2 true] None []
       [mkFk [] [n_a] n_p [n_id] [] []; mkFk [] [n_b] n_p [n_id] [] []] []].
Theorem C01_converges_refuted_unnamed_fks :
  exists B d', apply_plan nm empty_db B = Some (Ok d') /\ ~ synced nm d' B.
Proof. exists w_unnamed_fks. eexists. split; [vm_compute; reflexivity|]. vm_compute. discriminate. Qed.
Print Assumptions C01_converges_refuted_unnamed_fks.

(** CHECK "(a > 0) AND (a < 9)".  FIXED in the Go code (fix "sqlite planner wraps a CHECK expression like
    (a) AND (b) in parentheses", known finding C01-check-parens): check() now prints
    sqlx.MayWrap(TrimSpace(expr)), and the former witness is inside [supported], so it converges by
    [C01_converges_supported].  The second theorem is about the OLD code ([check_sql_old]: the first and last
    byte test): it printed this expression unwrapped, which SQLite rejects. *)
Definition ck_expr : str := [40;97;32;62;32;48;41;32;65;78;68;32;40;97;32;60;32;57;41]%N.
Definition w_check_parens : xschema := [tbl n_t [col n_a T_int 2 true] None [] [] [mkCheck [] ck_expr]].
Theorem C01_converges_check_parens_fixed :
  supported empty_db w_check_parens = true /\
  exists d', apply_plan nm empty_db w_check_parens = Some (Ok d') /\ synced nm d' w_check_parens.
Proof.
  assert (S : supported empty_db w_check_parens = true) by (vm_compute; reflexivity).
  split; [exact S|]. destruct (converges_supported nm empty_db w_check_parens S) as [p [d' [P [E Y]]]].
  exists d'. split; [|exact Y]. unfold apply_plan. rewrite P, E. reflexivity.
Qed.
Print Assumptions C01_converges_check_parens_fixed.
Theorem C01_check_parens_old_code_refuted :
  is_wrapped (check_sql_old ck_expr) = false /\ is_wrapped (check_sql ck_expr) = true /\
  (forall e, check_sql e = may_wrap (trim_space e)).
Proof. split; [vm_compute; reflexivity|]. split; [vm_compute; reflexivity|]. intros e. reflexivity. Qed.
Print Assumptions C01_check_parens_old_code_refuted.

(** a current table with an inline UNIQUE (c) constraint, a desired table without it.  FIXED in the Go code
    (fix "sqlite planner rebuilds the table when the dropped index backs an inline UNIQUE constraint", known
    findings C01-drop-inline-unique = C17-autoindex-drop): [alterable] now sends the drop of a
    sqlite_autoindex_* index to the rebuild, and the former witness converges.  The second theorem is about
    the OLD code: its plan was DROP INDEX t_c, which does not exist.  (Current databases with inline UNIQUE
    constraints are still outside [supported]; the engine and oracle stages cover them observationally.) *)
Definition w_unique_db : db :=
  mkDB [mkCT (mkX (mkTable n_t false false [col n_c T_int 2 true] None [] [] []) []) [[n_c]] []] false false.
Definition w_unique_B : xschema := [tbl n_t [col n_c T_int 2 true] None [] [] []].
Theorem C01_converges_drop_unique_fixed :
  exists d', apply_plan nm w_unique_db w_unique_B = Some (Ok d') /\ synced nm d' w_unique_B /\
             map ct_uniques (db_tables d') = [[]].
Proof.
  eexists. split; [vm_compute; reflexivity|]. split; vm_compute; reflexivity.
Qed.
Print Assumptions C01_converges_drop_unique_fixed.
Theorem C01_drop_unique_old_code_refuted :
  exec_all w_unique_db [SDropIndex (n_t ++ [95]%N ++ n_c)] = Err ENoSuchIndex.
Proof. vm_compute. reflexivity. Qed.
Print Assumptions C01_drop_unique_old_code_refuted.

(** an index name that moves to a table inspected earlier: CREATE INDEX i ON a before DROP INDEX i *)
Definition n_z : str := [122]%N.
Definition n_i : str := [105]%N.
Definition ix (c : str) : index := mkIndex n_i false [cpart 1 c false] None None None.
Definition w_moves_A : xschema := [tbl n_a [col n_c T_int 2 true] None [] [] []; tbl n_z [col n_c T_int 2 true] None [ix n_c] [] []].
Definition w_moves_B : xschema := [tbl n_a [col n_c T_int 2 true] None [ix n_c] [] []; tbl n_z [col n_c T_int 2 true] None [] [] []].
Theorem C01_converges_refuted_index_moves :
  exists d B, (forall bx, In bx B -> desired_ok_b bx = true) /\ db_ok_b d = true /\ apply_plan nm d B = Some (Err EExists).
Proof.
  exists (run empty_db w_moves_A), w_moves_B. split; [intros bx [<-|[<-|[]]]; vm_compute; reflexivity|].
  split; vm_compute; reflexivity.
Qed.
Print Assumptions C01_converges_refuted_index_moves.

(** a table new_t next to a table t that must be rebuilt *)
Definition n_new_t : str := [110;101;119;95;116]%N.
Definition w_clash_A : xschema := [tbl n_t [col n_c T_int 2 true] None [] [] []; tbl n_new_t [col n_c T_int 2 true] None [] [] []].
Definition w_clash_B : xschema := [tbl n_t [col n_c T_int 2 false] None [] [] []; tbl n_new_t [col n_c T_int 2 true] None [] [] []].
Theorem C01_converges_refuted_new_table_clash :
  exists d B, (forall bx, In bx B -> desired_ok_b bx = true) /\ db_ok_b d = true /\ apply_plan nm d B = Some (Err EExists).
Proof.
  exists (run empty_db w_clash_A), w_clash_B. split; [intros bx [<-|[<-|[]]]; vm_compute; reflexivity|].
  split; vm_compute; reflexivity.
Qed.
Print Assumptions C01_converges_refuted_new_table_clash.

(** *** round 5: the exported schema of users(id integer NOT NULL PRIMARY KEY, email text NULL UNIQUE) *)
Definition n_users : str := [117;115;101;114;115]%N.
Definition n_email : str := [101;109;97;105;108]%N.
Definition ex_d1 : db :=
  mkDB [mkCT (mkX (mkTable n_users false false [col n_id T_integer 2 false; col n_email T_text 3 true]
                     (Some (pk_of [cpart 1 n_id false])) [] [] []) []) [[n_email]] []] false false.
Definition ex_insp : xschema := Eval vm_compute in inspect ex_d1.
Example C01_ex_insp : inspect ex_d1 = ex_insp.
Proof. vm_compute. reflexivity. Qed.
Definition ex_hcl : xschema := Eval vm_compute in map norm_x ex_insp.
Example C01_ex_hcl : map norm_x (inspect ex_d1) = ex_hcl.
Proof. vm_compute. reflexivity. Qed.
(** the export carries the reserved name, no origin; the renaming gives users_email *)
Example C01_ex_exported_shape :
  map (fun x => map (fun i => (i_name i, i_unique i, i_origin i)) (t_idx (x_t x))) ex_hcl
    = [[(SQLITE_AUTOINDEX ++ [95]%N ++ n_users ++ [95;49]%N, true, None)]] /\
  map (fun x => map i_name (t_idx (x_t x))) (nrm ex_hcl) = [[n_users ++ [95]%N ++ n_email]] /\
  stable_b ex_hcl = true /\ supported empty_db ex_hcl = false.
Proof. vm_compute. repeat split; reflexivity. Qed.
(** d2 = nothing / the table without the constraint / the table with the index an earlier apply made *)
Definition ex_d2_plain : db := Eval vm_compute in
  run empty_db [tbl n_users [col n_id T_integer 2 false; col n_email T_text 3 true] (Some (pk_of [cpart 1 n_id false])) [] [] []].
Definition ex_d2_applied : db := Eval vm_compute in run empty_db ex_hcl.
Example C01_ex_exported_supported :
  supported_exported empty_db ex_hcl && supported_exported ex_d2_plain ex_hcl && supported_exported ex_d2_applied ex_hcl = true.
Proof. vm_compute. reflexivity. Qed.
Example C01_ex_exported_wf : schema_wf ex_insp.
Proof.
  split.
  - constructor; [|constructor]. split; [|split; [|split]].
    + constructor; [exact I|]. constructor; [exact I|constructor].
    + constructor; [exists n_id; split; [reflexivity|vm_compute; reflexivity]|constructor].
    + constructor; [|constructor]. split; [discriminate|]. constructor; [vm_compute; reflexivity|constructor].
    + constructor.
  - vm_compute. constructor; [intros []|constructor].
Qed.
(** the three plans: CREATE TABLE + CREATE UNIQUE INDEX users_email; CREATE UNIQUE INDEX users_email; nothing *)
Example C01_ex_exported_plans :
  (match diff_and_plan nm (inspect empty_db) ex_hcl with Some p => length (p_changes p) | None => 99 end,
   match diff_and_plan nm (inspect ex_d2_plain) ex_hcl with Some p => length (p_changes p) | None => 99 end,
   match diff_and_plan nm (inspect ex_d2_applied) ex_hcl with Some p => length (p_changes p) | None => 99 end,
   converged ex_d2_applied ex_hcl, converged (run ex_d2_plain ex_hcl) ex_hcl,
   (* a d2 that has the same inline constraint: outside the theorem, converges by computation (nothing to do) *)
   converged ex_d1 ex_hcl)
  = (2, 1, 0, true, true, true).
Proof. vm_compute. reflexivity. Qed.

(** *** round 5: where the exported scenario fails.  d1 = users(id, email UNIQUE) + CREATE INDEX users_email ON
    users(email): a valid database; its export lists sqlite_autoindex_users_1 and users_email; [normalizeIdxName]
    makes up the name users_email for the first, and the plan for an EMPTY database is CREATE TABLE, CREATE UNIQUE
    INDEX users_email, CREATE INDEX users_email: "index users_email already exists".  The renaming is stable
    ([stable_b]), the renamed schema has two indexes of one name, so it is outside [supported_exported].
    Reproduced through the real CLI (known finding C01-exported-made-up-index-name-clash). *)
Definition ex_clash_d1 : db :=
  mkDB [mkCT (mkX (mkTable n_users false false [col n_id T_integer 2 false; col n_email T_text 3 true]
                     (Some (pk_of [cpart 1 n_id false]))
                     [mkIndex (n_users ++ [95]%N ++ n_email) false [cpart 1 n_email false] None None None] [] []) []) [[n_email]] []] false false.
Theorem C01_converges_from_exported_hcl_refuted_name_clash :
  exists d1 B, hcl_roundtrip (inspect d1) = ROk B /\ stable_b B = true /\ db_ok_b empty_db = true /\
    apply_plan nm empty_db B = Some (Err EExists) /\ supported_exported empty_db B = false.
Proof. exists ex_clash_d1. eexists. split; [vm_compute; reflexivity|]. vm_compute. repeat split; reflexivity. Qed.
Print Assumptions C01_converges_from_exported_hcl_refuted_name_clash.
