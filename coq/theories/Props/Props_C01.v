(** C01 -- declarative apply converges (work in progress: the theorems are added after the
    shared model milestone; this file already fixes the non-vacuity examples of the model). *)
From Coq Require Import List NArith ZArith Bool Arith.
From Atlas Require Import Base.Bytes Diff.Schema Diff.DiffModel Diff.DiffSqlite
  Sqlite.PlanModel Sqlite.EngineModel Sqlite.InspectModel.
Import ListNotations.

(** table t(id integer not null primary key, name text null) and the same with an extra column and
    an index: the plan is ALTER TABLE ADD COLUMN + CREATE INDEX, it runs, and the second diff is empty *)
Definition ex_id : column := mkColumn [105;100]%N 2 [105;110;116;101;103;101;114]%N false None None None.
Definition ex_name : column := mkColumn [110]%N 3 [116;101;120;116]%N true None None None.
Definition ex_age : column := mkColumn [97]%N 2 [105;110;116]%N true None None None.
Definition ex_pk : index := mkIndex [] false [mkPart 1 false (Some [105;100]%N) None] None None None.
Definition ex_idx : index := mkIndex [105;49]%N true [mkPart 1 false (Some [110]%N) None] None None None.
Definition ex_A : xschema := [mkX (mkTable [116]%N false false [ex_id; ex_name] (Some ex_pk) [] [] []) []].
Definition ex_B : xschema := [mkX (mkTable [116]%N false false [ex_id; ex_name; ex_age] (Some ex_pk) [ex_idx] [] []) []].
Definition ex_main : str := [109]%N.

Definition apply_from (start : db) (to : xschema) : option (result db) :=
  match diff_and_plan ex_main (inspect start) to with
  | Some p => Some (exec_all start (plan_stmts p))
  | None => None
  end.

Definition converged (d : db) (to : xschema) : bool :=
  match sqlite_schema_diff no_skip (inspect_schema ex_main d) (schema_of ex_main to) with
  | Some [] => true
  | _ => false
  end.

Example C01_ex_create_then_alter :
  match apply_from empty_db ex_A with
  | Some (Ok d1) =>
      converged d1 ex_A &&
      match apply_from d1 ex_B with
      | Some (Ok d2) => converged d2 ex_B
      | _ => false
      end
  | _ => false
  end = true.
Proof. vm_compute. reflexivity. Qed.
