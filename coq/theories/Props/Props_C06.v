(** C06 -- directory integrity (sql/migrate/dir.go: NewHashFile, HashFile.Sum /
    MarshalText / UnmarshalText, Validate, directive; migrate.go: WritePlan,
    WriteCheckpoint, writeSum; dir.go: MemDir.CopyFiles).

    Property: "After the sum file has been written for a directory, validation
    succeeds as long as the set of migration files, their names, order and
    bytes are unchanged, and fails with a checksum error after any change: a
    file added anywhere, removed, renamed, reordered, or edited by even one
    byte, or a sum file whose lines were edited.  Every Atlas operation that
    writes to the directory leaves it valid."

    Only statements, [exact], [Print Assumptions] and [Example]s live here.
    [HS] stands for base64(sha256(.)).  The only thing assumed of it is its
    *shape* ([hash_ok]: 44 bytes of the base64 alphabet, checked on every
    value by the OCaml driver); collision freeness is NOT assumed: every
    detection theorem concludes "detected, or here are two different byte
    strings, computed from the two directories, with the same hash".

    The statement as worded is false of the code in five ways (each a
    [_refuted] theorem whose witness holds for EVERY hash of that shape, is
    replayed on the Go code by the harness, and is an open known finding);
    next to each stands the exact characterisation that does hold. *)
From Coq Require Import List NArith Bool Arith Strings.String.
From Atlas Require Import Base.Bytes Dir.DirModel Dir.DirProofs Dir.DirDetect Dir.DirEdits Dir.DirGlob
  Dir.DirRefuted Dir.DirWriters Dir.DirExact Dir.DirReason Dir.DirToyHash
  Dir.DirConsumersModel Dir.DirConsumers Dir.DirFormatsModel Dir.DirFormats Dir.DirReasonIgn Dir.DirFlywayEdit.
Import ListNotations.

Section C06.
Variable HS : bytes -> bytes.
Hypothesis HS_shape : forall x, hash_ok (HS x).

(** * 1. An untouched directory validates *)

(** ... against the sum file NewHashFile + MarshalText wrote for it -- for
    every directory (any number of files, any contents, sum-ignored files
    included) whose names survive the text format of atlas.sum: [names_ok] =
    every name [n] has [strings.TrimSpace(n) == n] and no line feed
    (decidable).  ("h1:" inside a name is fine since fix 55b7d3e.) *)
Theorem C06_untouched_validates :
  forall d : list file,
  names_ok d = true ->
  validate HS d (Some (marshal HS (newhash HS d))) = VOk.
Proof. exact (untouched_validates_lemma HS HS_shape). Qed.

(** Without [names_ok] it is false: a name containing a line feed makes
    UnmarshalText fail with ErrChecksumFormat on the file it just wrote.
    (Leading/trailing white space in a name gives ErrChecksumMismatch the same
    way; known findings C06-name-whitespace[-writer].) *)
Theorem C06_untouched_refuted :
  exists d : list file,
    NoDup (map fst d) /\ validate HS d (Some (marshal HS (newhash HS d))) = VFormat.
Proof. exact (untouched_refuted_lemma HS HS_shape). Qed.

(** * 2. Detection as a collision reduction *)

(** If ANY directory [d'] validates against the sum file written for [d],
    then the two directories have the same [covered] list (per hash line: the
    file name, and the stream segment  names-of-the-sum-ignored-files-since-
    the-previous-line ++ name ++ content) -- or two different hash inputs of
    the two directories collide ([collision] exhibits them).  [names_wf]:
    ".sql" occurs in every name exactly once, as the suffix (decidable; true
    of every name Atlas generates; reported by the check).
    The form without [names_wf d'] is [C06_detect_glob] below. *)
Theorem C06_detect :
  forall d d' : list file,
  names_wf d = true -> names_wf d' = true ->
  validate HS d' (Some (marshal HS (newhash HS d))) = VOk ->
  covered d = covered d' \/ collision HS (hash_inputs HS d ++ hash_inputs HS d').
Proof. exact (detect_lemma HS HS_shape). Qed.

(** The same against EVERY directory Dir.Files() can return: nothing is
    assumed of the tampered names except that they end in ".sql" ([all_sql];
    Glob "*.sql" guarantees it).  The price is a third disjunct about the
    ORIGINAL directory only: [embedded_hash HS d] exhibits two of d's own hash
    streams s, t with HS s occurring inside t (a migration file that quotes
    the base64 SHA-256 of a prefix of the very stream it belongs to: decidable
    for the directory at hand, and for a random-looking hash infeasible unless
    deliberately constructed by the directory's author). *)
Theorem C06_detect_glob :
  forall d d' : list file,
  names_wf d = true -> all_sql d' = true ->
  validate HS d' (Some (marshal HS (newhash HS d))) = VOk ->
  covered d = covered d' \/
  collision HS (hash_inputs HS d ++ hash_inputs HS d') \/
  embedded_hash HS d.
Proof. exact (detect_glob_lemma HS HS_shape). Qed.

(** * 3. No sum-ignored file on either side: every change is detected *)

(** Only the directory itself validates -- any other list of files (added
    anywhere, removed, renamed, reordered, edited by one byte or more, any
    compound edit) is refused, or a collision is exhibited. *)
Theorem C06_detect_plain :
  forall d d' : list file,
  names_wf d = true -> names_wf d' = true -> no_ignored d = true -> no_ignored d' = true ->
  validate HS d' (Some (marshal HS (newhash HS d))) = VOk ->
  d' = d \/ collision HS (hash_inputs HS d ++ hash_inputs HS d').
Proof. exact (detect_plain_lemma HS HS_shape). Qed.

(** ... and the refusal is a *ChecksumError (not a panic, not another error)
    when the sum file is the one Atlas wrote for a directory with distinct
    [names_ok] names. *)
Theorem C06_detect_plain_checksum_error :
  forall d d' : list file,
  names_ok d = true -> NoDup (map fst d) ->
  names_wf d = true -> names_wf d' = true -> no_ignored d = true -> no_ignored d' = true ->
  d' <> d ->
  is_checksum_error (validate HS d' (Some (marshal HS (newhash HS d)))) \/
  collision HS (hash_inputs HS d ++ hash_inputs HS d').
Proof. exact (detect_plain_error HS HS_shape). Qed.

(** The edit kinds of the statement, one by one ([single_edit]: a file added
    at any position, removed, renamed, any reordering, one byte flipped /
    inserted / deleted at any position of any file, any other content edit). *)
Theorem C06_single_edit_detected :
  forall d d' : list file,
  names_ok d = true -> NoDup (map fst d) -> names_wf d = true -> no_ignored d = true ->
  single_edit d d' -> names_wf d' = true -> no_ignored d' = true ->
  is_checksum_error (validate HS d' (Some (marshal HS (newhash HS d)))) \/
  collision HS (hash_inputs HS d ++ hash_inputs HS d').
Proof. exact (single_edit_detected HS HS_shape). Qed.

(** WHAT Validate reports for a single edit of a directory without
    sum-ignored files, at every position [length a] of the edit: line, total,
    byte position ([pos_of a] = 48 + sum over the files in front of (len name
    + 50)), file and reason of the *ChecksumError -- or a collision.
      content edited -> that file, ReasonEdited;  removed -> that file,
      ReasonRemoved;  renamed in place -> the OLD name, ReasonRemoved;
      added in front of [b] (at the end if b = []) -> the NEW file, ReasonAdded. *)
Theorem C06_reason_edited :
  forall (a : list file) (n c c' : bytes) (b : list file),
  let d := a ++ (n, c) :: b in let d' := a ++ (n, c') :: b in
  names_ok d = true -> names_wf d = true -> NoDup (map fst d) ->
  no_ignored d = true -> no_ignored d' = true -> c' <> c ->
  validate HS d' (Some (marshal HS (newhash HS d)))
    = VChecksum (List.length a + 2) (List.length d) (pos_of a) n Edited \/
  collision HS (hash_inputs HS d ++ hash_inputs HS d').
Proof. exact (reason_edited HS HS_shape). Qed.

Theorem C06_reason_removed :
  forall (a : list file) (n c : bytes) (b : list file),
  let d := a ++ (n, c) :: b in let d' := a ++ b in
  names_ok d = true -> names_wf d = true -> NoDup (map fst d) -> no_ignored d = true ->
  validate HS d' (Some (marshal HS (newhash HS d)))
    = VChecksum (List.length a + 2) (List.length d) (pos_of a) n Removed \/
  collision HS (hash_inputs HS d ++ hash_inputs HS d').
Proof. exact (reason_removed HS HS_shape). Qed.

Theorem C06_reason_renamed :
  forall (a : list file) (n n' c : bytes) (b : list file),
  let d := a ++ (n, c) :: b in let d' := a ++ (n', c) :: b in
  names_ok d = true -> names_wf d = true -> NoDup (map fst d) -> no_ignored d = true ->
  name_wf n' = true -> ~ In n' (map fst d) ->
  validate HS d' (Some (marshal HS (newhash HS d)))
    = VChecksum (List.length a + 2) (List.length d) (pos_of a) n Removed \/
  collision HS (hash_inputs HS d ++ hash_inputs HS d').
Proof. exact (reason_renamed HS HS_shape). Qed.

Theorem C06_reason_added :
  forall (a : list file) (n' c' : bytes) (b : list file),
  let d := a ++ b in let d' := a ++ (n', c') :: b in
  names_ok d = true -> names_wf d' = true -> NoDup (map fst d) ->
  no_ignored d = true -> sum_ignored c' = false -> ~ In n' (map fst d) ->
  validate HS d' (Some (marshal HS (newhash HS d)))
    = VChecksum (List.length a + 2) (List.length d) (pos_of a) n' Added \/
  collision HS (hash_inputs HS d ++ hash_inputs HS d').
Proof. exact (reason_added HS HS_shape). Qed.

(** [embedded_hash] (third disjunct of the _glob/_exact theorems) is decidable
    for the directory at hand; the harness evaluates it on every original. *)
Theorem C06_embedded_hash_decidable :
  forall d : list file, embedded_hashb HS d = true <-> embedded_hash HS d.
Proof. exact (embedded_hashb_spec HS). Qed.

(** Exact characterisation for an original directory without sum-ignored
    files against ANYTHING Dir.Files() can return ([all_sql]: names end in
    ".sql"; [sorted_strict]: strictly increasing names; the tampered files
    MAY carry the sum-ignore directive, their names need not be wf): the only
    directories that validate are [d ++ t] with every file of [t] sum-ignored
    (the known finding; converse: [C06_trailing_ignored_undetected]) -- or a
    collision, or the original quotes one of its own stream hashes. *)
Theorem C06_detect_plain_exact :
  forall d d' : list file,
  names_wf d = true -> no_ignored d = true ->
  all_sql d' = true -> sorted_strict d' = true ->
  validate HS d' (Some (marshal HS (newhash HS d))) = VOk ->
  (exists t, d' = d ++ t /\ all_ignored t = true) \/
  collision HS (hash_inputs HS d ++ hash_inputs HS d') \/
  embedded_hash HS d.
Proof. exact (detect_plain_exact_lemma HS HS_shape). Qed.

Theorem C06_detect_plain_exact_checksum_error :
  forall d d' : list file,
  names_ok d = true -> NoDup (map fst d) -> names_wf d = true -> no_ignored d = true ->
  all_sql d' = true -> sorted_strict d' = true ->
  (forall t, all_ignored t = true -> d' <> d ++ t) ->
  is_checksum_error (validate HS d' (Some (marshal HS (newhash HS d)))) \/
  collision HS (hash_inputs HS d ++ hash_inputs HS d') \/
  embedded_hash HS d.
Proof. exact (detect_plain_exact_error HS HS_shape). Qed.

(** * 5. With sum-ignored files: what exactly is pinned down *)

(** [view d]: per hashed file, (names of the sum-ignored files since the
    previous hashed file, name, content).  Validation pins the view, hence
    (corollary [view_hashed]) every hashed file's name, bytes and order and
    the names and positions of the sum-ignored files in front of a hashed
    one.  This is the [_except] side of [C06_full_refuted]: what is NOT
    pinned is exactly the content of sum-ignored files and the sum-ignored
    files after the last hashed file. *)
Theorem C06_detect_wf :
  forall d d' : list file,
  names_wf d = true -> names_wf d' = true -> NoDup (map fst d) -> NoDup (map fst d') ->
  validate HS d' (Some (marshal HS (newhash HS d))) = VOk ->
  view d = view d' \/ collision HS (hash_inputs HS d ++ hash_inputs HS d').
Proof. exact (detect_wf_lemma HS HS_shape). Qed.

(** The unrestricted statement ("fails after ANY change") is false:
    (a) a sum-ignored file added after the last hashed file, all names wf;
    (b) names and contents are hashed undelimited: {".sql.sql": ".sqlFOO"} ->
        {".sql": "-- atlas:sum ignore\n", ".sql.sql": "FOO"} changes a hashed
        file (this is why [C06_detect] needs [names_wf]). *)
Theorem C06_full_refuted :
  (exists d d' : list file,
     names_ok d = true /\ names_wf d = true /\ names_wf d' = true /\ d' <> d /\
     validate HS d' (Some (marshal HS (newhash HS d))) = VOk) /\
  (exists d d' : list file,
     names_ok d = true /\ no_ignored d = true /\ hashed d' <> hashed d /\
     validate HS d' (Some (marshal HS (newhash HS d))) = VOk).
Proof. exact (full_refuted_lemma HS HS_shape). Qed.

(** (a) in general: any sum-ignored files appended to ANY directory *)
Theorem C06_trailing_ignored_undetected :
  forall d t : list file,
  names_ok (d ++ t) = true -> all_ignored t = true ->
  validate HS (d ++ t) (Some (marshal HS (newhash HS d))) = VOk.
Proof. exact (trailing_ignored_added HS HS_shape). Qed.

(** the content of a file that carries the directive before and after *)
Theorem C06_ignored_content_undetected :
  forall (d1 : list file) (n c c' : bytes) (d2 : list file),
  names_ok (d1 ++ (n, c') :: d2) = true -> sum_ignored c = true -> sum_ignored c' = true ->
  validate HS (d1 ++ (n, c') :: d2) (Some (marshal HS (newhash HS (d1 ++ (n, c) :: d2)))) = VOk.
Proof. exact (ignored_content_edited HS HS_shape). Qed.

(** * 4. Edited sum files *)

(** Exact criterion: a sum file text [s] validates only if UnmarshalText
    accepts it, and then its entries [ac] have the same concatenation
    N1 H1 N2 H2 ... as the directory's (or collide with it); entries that are
    still well formed (names with ".sql" only as suffix, 44-byte hashes)
    must be the directory's own. *)
Theorem C06_sumfile_edits_except :
  forall (d : list file) (s : bytes),
  names_wf d = true ->
  validate HS d (Some s) = VOk ->
  exists ac, unmarshal HS s = UOk ac /\
    (collision HS [cat_entries ac; cat_entries (newhash HS d)] \/
     (cat_entries ac = cat_entries (newhash HS d) /\ (Forall entry_wf ac -> ac = newhash HS d))).
Proof. exact (sumfile_edits_lemma HS HS_shape). Qed.

(** "Any edited sum line is refused" is false: (1) the separator moved inside
    a line ("2.sql h1:H" -> "2.s h1:qlH") changes the parsed entries but not
    their concatenation; (2) dropping the final line feed changes the file
    but not the parsed entries. *)
Theorem C06_sumfile_edits_refuted :
  (exists (d : list file) (s : bytes) (ac : list entry),
     names_ok d = true /\ names_wf d = true /\ unmarshal HS s = UOk ac /\
     ac <> newhash HS d /\ validate HS d (Some s) = VOk) /\
  (exists (d : list file) (s : bytes),
     names_ok d = true /\ s <> marshal HS (newhash HS d) /\ validate HS d (Some s) = VOk).
Proof. exact (sumfile_refuted_lemma HS HS_shape). Qed.

(** Validate never panics on a sum file whose parsed entries have distinct
    names (every sum file Atlas writes) ... *)
Theorem C06_validate_no_panic_except :
  forall (d : list file) (s : bytes),
  (forall ac, unmarshal HS s = UOk ac -> NoDup (map fst ac)) ->
  validate HS d (Some s) <> VPanic.
Proof. exact (validate_no_panic_lemma HS). Qed.

(** ... but it does (index out of range in the ReasonAdded arm) on a sum file
    that lists a name twice. *)
Theorem C06_validate_panic_refuted :
  exists (d : list file) (s : bytes) (ac : list entry),
    names_ok d = true /\ names_wf d = true /\ unmarshal HS s = UOk ac /\
    (validate HS d (Some s) = VPanic \/
     collision HS [cat_entries ac; cat_entries (newhash HS d)]).
Proof. exact (validate_panic_refuted_lemma HS HS_shape). Qed.

(** * 6. Every writer leaves the directory valid *)

(** For every sequence of writer operations (Planner.WritePlan,
    Planner.WriteCheckpoint, MemDir.CopyFiles) from ANY store with [name_ok]
    names -- valid or not --, the directory validates after each operation
    (induction over the sequence).  [ops_pre]: written names are [name_ok];
    CopyFiles is called as Executor.ExecuteTo calls it (MemDir without *.sql
    files, argument = *.sql files in strictly increasing name order). *)
Theorem C06_writers_inv :
  forall (ops : list op) (st : store),
  store_ok st = true -> ops_pre HS st ops ->
  Forall (fun s => validate_store HS s = VOk) (run_ops HS st ops).
Proof. exact (writers_inv_lemma HS HS_shape). Qed.

(** Without the CopyFiles precondition it is false: CopyFiles writes the sum
    of its argument list, not of the directory. *)
Theorem C06_writers_refuted :
  exists (ops : list op) (x y : bytes),
    Forall (fun o => match o with
                     | OpWritePlan fs | OpCopyFiles fs =>
                         names_ok fs = true /\ forallb sqlf fs = true /\ sorted_strict fs = true
                     | OpWriteCheckpoint n _ _ => name_ok n = true
                     end) ops /\
    x <> y /\
    (Exists (fun s => validate_store HS s <> VOk) (run_ops HS [] ops) \/ HS x = HS y).
Proof. exact (writers_refuted_lemma HS HS_shape). Qed.

(** ** Round 3: the consumers of a directory (DirConsumersModel.v)

    "Any edit of a migration directory or its sum file is detected by every command that
    consumes it", whatever the state of the target database.  In the model the database, the
    dev database and all flags are one abstract [db : DB] and what a command does after
    validation is an abstract [rest]; the theorems hold for every choice of them.

    Full statement: for every command c other than [migrate hash]:
      validate_store st <> VOk -> proceeds (run c st db) = false.
    It is FALSE of the code in two ways (C06_consumers_exempt_refuted, both reproduced on the real
    CLI, both open known findings); what holds is the statement outside [exempt]. *)
Theorem C06_consumers_never_proceed_except :
  forall (is_checkpoint : bytes -> bool) (DB R : Type) (setup_ok : command -> DB -> bool)
         (rest : command -> store -> DB -> R) (c : command) (st : store) (db : DB),
  validate_store HS st <> VOk -> exempt HS is_checkpoint c st = false ->
  proceeds R (run HS is_checkpoint DB R setup_ok rest c st db) = false.
Proof. exact (consumers_never_proceed_lemma HS). Qed.

(** the commands that look at the directory first (all but the schema commands, which reach it
    through Executor.Replay after opening their databases) answer with Validate's own error --
    the *ChecksumError / ErrChecksumMismatch / ErrChecksumFormat / ErrChecksumNotFound of the
    directory -- for every [db]: fresh, fully applied, partially applied, with pending files. *)
Theorem C06_consumers_refuse_first :
  forall (is_checkpoint : bytes -> bool) (DB R : Type) (setup_ok : command -> DB -> bool)
         (rest : command -> store -> DB -> R) (c : command) (st : store) (db : DB),
  validate_store HS st <> VOk -> exempt HS is_checkpoint c st = false -> validates_first c = true ->
  run HS is_checkpoint DB R setup_ok rest c st db = Refused (validate_store HS st).
Proof. exact (consumers_refuse_first_lemma HS). Qed.

(** the library entry points: Pending, ExecuteN, and ExecuteTo when no checkpoint follows the version *)
Theorem C06_executor_entry_points_refuse :
  forall (is_checkpoint : bytes -> bool) (DB R : Type) (k : store -> DB -> R) (st : store) (db : DB),
  validate_store HS st <> VOk ->
  executor_pending HS DB R k st db = Refused (validate_store HS st) /\
  execute_n HS DB R k st db = Refused (validate_store HS st) /\
  (forall i, before_checkpoint is_checkpoint i st = false ->
     execute_to HS is_checkpoint DB R k (Some i) st db = Refused (validate_store HS st)).
Proof. exact (executor_entry_points_lemma HS). Qed.

(** untampered controls: a directory that validates is never answered with a checksum error *)
Theorem C06_consumers_accept_untouched :
  forall (is_checkpoint : bytes -> bool) (DB R : Type) (setup_ok : command -> DB -> bool)
         (rest : command -> store -> DB -> R) (c : command) (st : store) (db : DB) (v : vresult),
  validate_store HS st = VOk -> validates_first c = true ->
  run HS is_checkpoint DB R setup_ok rest c st db <> Refused v.
Proof. intros. apply (consumers_accept_valid_first_lemma HS); assumption. Qed.

(** refutation 1, in general: ExecuteTo(version) with a checkpoint file after the version hands
    Pending a MemDir copy that CopyFiles has just hashed: it proceeds on EVERY directory
    Dir.Files() can return -- there is no hypothesis on [validate_store st]. *)
Theorem C06_execute_to_before_checkpoint_unvalidated :
  forall (is_checkpoint : bytes -> bool) (DB R : Type) (k : store -> DB -> R) (i : nat) (st : store) (db : DB),
  names_ok (files_of st) = true -> forallb sqlf (files_of st) = true -> sorted_strict (files_of st) = true ->
  before_checkpoint is_checkpoint i st = true ->
  execute_to HS is_checkpoint DB R k (Some i) st db
  = Proceeded (k (apply_op HS [] (OpCopyFiles (firstn (S i) (files_of st)))) db).
Proof. exact (execute_to_before_checkpoint_lemma HS HS_shape). Qed.

(** refutations 1 and 2 on one witness (atlas.sum removed from {1.sql, 2.sql}; no hash involved):
    lint goes on; a schema command with version=1 goes on when 2.sql is a checkpoint. *)
Theorem C06_consumers_exempt_refuted :
  forall (is_checkpoint : bytes -> bool) (DB R : Type) (setup_ok : command -> DB -> bool)
         (rest : command -> store -> DB -> R),
  exists st : store,
    validate_store HS st = VNotFound /\
    (forall db, setup_ok CLint db = true ->
       run HS is_checkpoint DB R setup_ok rest CLint st db = Proceeded (rest CLint st db)) /\
    (forall db, is_checkpoint (bs "B;") = true -> setup_ok (CStateSQL (Some (Some 0))) db = true ->
       proceeds R (run HS is_checkpoint DB R setup_ok rest (CStateSQL (Some (Some 0))) st db) = true).
Proof. intros. exists wx_store. apply (consumers_exempt_refuted_lemma HS HS_shape). Qed.

(** [migrate hash], the one command allowed to repair, leaves a directory that validates *)
Theorem C06_migrate_hash_repairs :
  forall st : store, store_ok st = true -> validate_store HS (migrate_hash HS st) = VOk.
Proof. exact (migrate_hash_repairs_lemma HS HS_shape). Qed.

(** * Round 5: directory formats, archive round trip

    [tree] = a local directory (flat list of path components x regular file |
    directory); [format_files f t] = what [Files()] of the directory type that
    DirURL opens for [?format=f] returns (LocalDir / GolangMigrateDir /
    GooseDir / FlywayDir / LiquibaseDir / DBMateDir), [validate_tree] =
    [migrate.Validate] on it, [write_sum_tree] = WriteSumFile(dir, dir.Checksum()).

    For every format: hashing and then validating succeeds, whatever else lies
    in the tree (sub-directories, hidden directories, *.down.sql, U files,
    non-sql files) -- provided Files() itself works and the names read survive
    the sum format ([names_ok]). *)
Theorem C06_format_hash_then_validate :
  forall (f : format) (t : tree) (fs : list file),
  format_files f t = FOk fs -> names_ok fs = true ->
  exists t', write_sum_tree HS f t = Some t' /\ format_files f t' = FOk fs /\
             validate_tree HS f t' = TV VOk.
Proof. exact (format_hash_validates HS HS_shape). Qed.

(** Every change of what the format reads (the list Files() returns: names,
    order, bytes) is refused with a *ChecksumError, or a collision is
    exhibited -- for all six formats, for any two trees. *)
Theorem C06_format_change_detected :
  forall (f : format) (t' : tree) (fs fs' : list file),
  format_files f t' = FOk fs' ->
  names_ok fs = true -> NoDup (map fst fs) ->
  names_wf fs = true -> names_wf fs' = true -> no_ignored fs = true -> no_ignored fs' = true ->
  fs' <> fs ->
  exists v, validate_tree HS f (tree_put_sum t' (marshal HS (newhash HS fs))) = TV v /\
            (is_checksum_error v \/ collision HS (hash_inputs HS fs ++ hash_inputs HS fs')).
Proof. exact (format_change_detected HS HS_shape). Qed.

(** The literal "fails after any change" is false at the level of the
    directory tree, by design of each format: an entry the format does not
    read ([reads f e = false]: for golang-migrate everything but the root's
    *.up.sql -- the *.down.sql files; for Flyway the U (undo) files, files
    without the V/B/R prefix, everything below a hidden directory; for the
    others everything but the root's *.sql, in particular every sub-directory)
    can be added, removed or edited without any effect on Files() or Validate.
    Such an entry is not executed either (the Executor runs Files()), so this
    is the exact coverage, not a finding. *)
Theorem C06_format_unread_invisible :
  forall (f : format) (t1 : tree) (e : fsentry) (t2 : tree),
  reads f e = false -> is_sum_file e = false ->
  format_files f (t1 ++ e :: t2) = format_files f (t1 ++ t2) /\
  validate_tree HS f (t1 ++ e :: t2) = validate_tree HS f (t1 ++ t2).
Proof. exact (format_unread_invisible HS). Qed.

(** ArchiveDir then UnarchiveDir: for a directory whose Files() are *.sql
    names in name order (every MemDir / LocalDir and every glob format) the
    unarchived MemDir has the same files and the same Validate outcome. *)
Theorem C06_archive_roundtrip :
  forall (sum : option bytes) (fs : list file),
  all_sql fs = true -> sorted_strict fs = true ->
  files_of (unarchive (archive sum fs)) = fs /\
  validate_store HS (unarchive (archive sum fs)) = validate HS fs sum.
Proof. exact (archive_roundtrip HS). Qed.

(** ... and false for Flyway, whose Files() are in version order: the valid
    directory {V1__a.sql, V10__c.sql} does not validate after the round trip
    (or a collision is exhibited).  Known finding C06-archive-flyway-order. *)
Theorem C06_archive_roundtrip_flyway_refuted :
  exists (t : tree) (arc : list file),
    validate_tree HS FFlyway t = TV VOk /\ archive_tree FFlyway t = Some arc /\
    (validate_store HS (unarchive arc) <> VOk \/
     collision HS (hash_inputs HS wf_d ++ hash_inputs HS wf_d')).
Proof. exact (archive_flyway_refuted HS HS_shape). Qed.

(** * Round 5: what Validate reports when the directory holds sum-ignored files, and for compound edits

    Content edit of a hashed file at any position of a directory with
    sum-ignored files anywhere (in front of it, behind it): the error names
    that file with ReasonEdited; line and total count the *hashed* files
    ([hashed_names]), the position the sum lines in front ([possum]). *)
Theorem C06_reason_edited_ignored :
  forall (a : list file) (n c c' : bytes) (b : list file),
  let d := a ++ (n, c) :: b in let d' := a ++ (n, c') :: b in
  names_ok d = true -> names_wf d = true -> NoDup (map fst d) ->
  sum_ignored c = false -> sum_ignored c' = false -> c' <> c ->
  validate HS d' (Some (marshal HS (newhash HS d)))
    = VChecksum (List.length (hashed_names a) + 2) (List.length (hashed_names d))
                (48 + possum (newhash HS a)) n Edited \/
  collision HS (hash_inputs HS d ++ hash_inputs HS d').
Proof. exact (reason_edited_ign HS HS_shape). Qed.

(** ANY edit -- compound, any number of files, with or without sum-ignored
    files: if [P] is a common prefix of the sum lines written for [d] and of
    the lines recomputed for [d'], and the next written line [h] is not the
    next recomputed one, then Validate either accepts (the header sums agree:
    by C06_detect only with equal covered streams or a collision) or reports
    exactly [classify] of that first differing line: line |P|+2, position
    48 + possum P, and file/reason = h's file Removed if its name is gone,
    Edited if it is still at index |P|, else the file now at index |P| Added. *)
Theorem C06_reason_first_difference :
  forall (d d' : list file) (P : list entry) (h : entry) (R R' : list entry),
  names_ok d = true ->
  newhash HS d = P ++ h :: R -> newhash HS d' = P ++ R' -> hd_error R' <> Some h ->
  validate HS d' (Some (marshal HS (newhash HS d))) = VOk \/
  validate HS d' (Some (marshal HS (newhash HS d)))
    = classify (newhash HS d') h (List.length P) (48 + possum P) (List.length (newhash HS d)).
Proof. exact (reason_first_difference HS HS_shape). Qed.

(** ... and when every written line still matches but the directory has more
    hashed files: the first extra file, ReasonAdded, line total+2. *)
Theorem C06_reason_trailing_added :
  forall (d d' : list file) (x : entry) (R' : list entry),
  names_ok d = true ->
  newhash HS d' = newhash HS d ++ x :: R' ->
  validate HS d' (Some (marshal HS (newhash HS d))) = VOk \/
  validate HS d' (Some (marshal HS (newhash HS d)))
    = VChecksum (List.length (newhash HS d) + 2) (List.length (newhash HS d))
                (48 + possum (newhash HS d)) (fst x) Added.
Proof. exact (reason_trailing_added HS HS_shape). Qed.

(** * Round 5: the path of every PreRunE up to Validate (dirFormatBC, cmdmigrate.Dir / DirURL, checkDir)

    [check_dir_url parse_ok scheme fmt flag is_dir t]: [parse_ok] = url.Parse
    succeeded, [fmt] = the URL's format parameter if present, [flag] =
    --dir-format.  Validate is reached only when the URL parsed, the scheme
    is mem or file, the directory exists and the format *named* -- by the URL,
    by the flag only when the URL names none -- is a known one; and then it
    runs on that format's reader.  Every other arm is an error outcome: no
    fallback to the default reader for an unknown format. *)
Theorem C06_check_dir_before_validate :
  forall (parse_ok : bool) (scheme : bytes) (fmt : option bytes) (flag : bytes) (is_dir : bool) (t : tree) (v : tvres),
  check_dir_url HS parse_ok scheme fmt flag is_dir t = PValidated v ->
  parse_ok = true /\
  ((scheme = s_mem /\ v = TV VOk) \/
   (scheme = s_file /\ is_dir = true /\
    exists f, parse_format (chosen_format fmt flag) = Some f /\ v = validate_tree HS f t)).
Proof. exact (check_dir_validated HS). Qed.

Theorem C06_check_dir_unknown_format_refused :
  forall (x flag flag' : bytes) (is_dir : bool) (t : tree) (scheme : bytes),
  (parse_format x = None -> check_dir_url HS true s_file (Some x) flag is_dir t = PErrOpen) /\
  check_dir_url HS true scheme (Some x) flag is_dir t = check_dir_url HS true scheme (Some x) flag' is_dir t.
Proof.
  intros. split; [apply check_dir_unknown_format|apply check_dir_url_format_wins].
Qed.

End C06.

(** What the decidable name predicates used above mean. *)
Theorem C06_name_predicates_spec :
  (forall n, name_wf n = true <->
     (exists p, n = p ++ s_sql) /\ (forall a b, n = a ++ s_sql ++ b -> b = [])) /\
  (forall d, all_sql d = true <-> forall f, In f d -> exists p, fst f = p ++ s_sql) /\
  (forall n, name_ok n = true <-> trim_space n = n /\ no_nl n).
Proof. exact (conj name_wf_spec (conj all_sql_spec name_ok_spec)). Qed.

(** Which files the five glob formats read: exactly the root's regular files
    whose name has the suffix (".up.sql" for golang-migrate, ".sql" otherwise). *)
Theorem C06_format_reads_spec :
  forall (f : format) (t : tree) (fs : list file) (n c : bytes),
  f <> FFlyway -> format_files f t = FOk fs ->
  (In (n, c) fs <-> In ([n], KFile c) t /\ ends_with (glob_suffix f) n = true).
Proof.
  intros f t fs n c NF H. rewrite format_files_glob in H by exact NF. exact (glob_files_in _ t fs n c H).
Qed.

(** An edit of the bytes of a file such a format reads changes Files() (so
    [C06_format_change_detected] applies: it is refused). *)
Theorem C06_format_read_edit_changes :
  forall (f : format) (t1 t2 : tree) (n c c' : bytes) (fs fs' : list file),
  f <> FFlyway ->
  reads f ([n], KFile c) = true -> c <> c' ->
  format_files f (t1 ++ ([n], KFile c) :: t2) = FOk fs ->
  format_files f (t1 ++ ([n], KFile c') :: t2) = FOk fs' ->
  NoDup (map fst fs') -> fs' <> fs.
Proof. exact glob_read_edit_changes. Qed.

(** The same for Flyway: FlywayDir.Files selects and orders by path only
    ([flyway_selected]: the files that survive the baseline logic, before the
    paths are joined), so an edit of the bytes of a selected file -- at a
    path that occurs once in the tree -- changes Files(), and
    [C06_format_change_detected] refuses it. *)
Theorem C06_flyway_read_edit_changes :
  forall (t1 t2 : tree) (p : list bytes) (c c' : bytes),
  ~ In p (map fst (t1 ++ t2)) ->
  In (p, c) (flyway_selected (t1 ++ (p, KFile c) :: t2)) -> c <> c' ->
  flyway_files (t1 ++ (p, KFile c') :: t2) <> flyway_files (t1 ++ (p, KFile c) :: t2).
Proof. exact flyway_read_edit_changes. Qed.

(** FlywayDir.Files returns nothing but regular V/B/R *.sql files outside
    hidden directories, under their slash-joined path, with their bytes. *)
Theorem C06_flyway_reads_only_candidates :
  forall (t : tree) (n c : bytes),
  In (n, c) (flyway_files t) ->
  exists e p, In e t /\ flyway_candidate e = Some (p, c) /\ n = join_path p.
Proof. exact flyway_files_sound. Qed.

(** FilesFromLastCheckpoint never fails with ErrCheckpointNotFound on the
    directory's own Files(); it returns the suffix that starts at the last
    checkpoint file (no checkpoint after its head), everything if there is none. *)
Theorem C06_files_from_last_checkpoint :
  forall (is_ck : file -> bool) (fs : list file),
  exists a s, fs = a ++ s /\ files_from_last_checkpoint is_ck fs = Some s /\
    existsb is_ck (tl s) = false /\
    (existsb is_ck fs = true -> exists k r, s = k :: r /\ is_ck k = true) /\
    (existsb is_ck fs = false -> s = fs).
Proof.
  intros is_ck fs. destruct (from_last_ck_suffix is_ck fs) as [a E].
  exists a, (from_last_ck is_ck fs). split; [exact E|].
  split; [apply files_from_last_checkpoint_spec|].
  split; [apply from_last_ck_tail|].
  split; [apply from_last_ck_head|apply from_last_ck_none].
Qed.

(** The section premise is satisfiable (the toy function is not collision
    free; no theorem needs that). *)
Theorem C06_hash_shape_satisfiable : exists HS : bytes -> bytes, forall x, hash_ok (HS x).
Proof. exact (ex_intro _ toy_hs toy_hs_shape). Qed.

Print Assumptions C06_untouched_validates.
Print Assumptions C06_untouched_refuted.
Print Assumptions C06_detect.
Print Assumptions C06_detect_glob.
Print Assumptions C06_detect_plain.
Print Assumptions C06_detect_plain_checksum_error.
Print Assumptions C06_single_edit_detected.
Print Assumptions C06_reason_edited.
Print Assumptions C06_reason_removed.
Print Assumptions C06_reason_renamed.
Print Assumptions C06_reason_added.
Print Assumptions C06_embedded_hash_decidable.
Print Assumptions C06_detect_plain_exact.
Print Assumptions C06_detect_plain_exact_checksum_error.
Print Assumptions C06_detect_wf.
Print Assumptions C06_full_refuted.
Print Assumptions C06_trailing_ignored_undetected.
Print Assumptions C06_ignored_content_undetected.
Print Assumptions C06_sumfile_edits_except.
Print Assumptions C06_sumfile_edits_refuted.
Print Assumptions C06_validate_no_panic_except.
Print Assumptions C06_validate_panic_refuted.
Print Assumptions C06_writers_inv.
Print Assumptions C06_writers_refuted.
Print Assumptions C06_name_predicates_spec.
Print Assumptions C06_consumers_never_proceed_except.
Print Assumptions C06_consumers_refuse_first.
Print Assumptions C06_executor_entry_points_refuse.
Print Assumptions C06_consumers_accept_untouched.
Print Assumptions C06_execute_to_before_checkpoint_unvalidated.
Print Assumptions C06_consumers_exempt_refuted.
Print Assumptions C06_migrate_hash_repairs.
Print Assumptions C06_format_hash_then_validate.
Print Assumptions C06_format_change_detected.
Print Assumptions C06_format_unread_invisible.
Print Assumptions C06_archive_roundtrip.
Print Assumptions C06_archive_roundtrip_flyway_refuted.
Print Assumptions C06_format_reads_spec.
Print Assumptions C06_format_read_edit_changes.
Print Assumptions C06_flyway_reads_only_candidates.
Print Assumptions C06_flyway_read_edit_changes.
Print Assumptions C06_files_from_last_checkpoint.
Print Assumptions C06_reason_edited_ignored.
Print Assumptions C06_reason_first_difference.
Print Assumptions C06_reason_trailing_added.
Print Assumptions C06_check_dir_before_validate.
Print Assumptions C06_check_dir_unknown_format_refused.
Print Assumptions C06_hash_shape_satisfiable.

(** * Non-vacuity: concrete inputs meeting the hypotheses (toy hash) *)
Definition ex_d : list file :=
  [(bs "1_a.sql", bs "CREATE TABLE a;" ++ [NL]);
   (bs "2_b.sql", ign_header ++ bs "X;" ++ [NL]);
   (bs "3_c.sql", bs "Y;" ++ [NL])].
Definition ex_p : list file :=            (* no sum-ignored file *)
  [(bs "1_a.sql", bs "CREATE TABLE a;" ++ [NL]); (bs "3_c.sql", bs "Y;" ++ [NL])].
Definition ex_sum (d : list file) : option bytes := Some (marshal toy_hs (newhash toy_hs d)).

(* 1 *)
Example ex_untouched :
  names_ok ex_d = true /\ names_wf ex_d = true /\ validate toy_hs ex_d (ex_sum ex_d) = VOk.
Proof. vm_compute. auto. Qed.

(* 2, 5: a directory that differs (content of the sum-ignored file, a trailing
   sum-ignored file) validates; covered and view are equal as the theorems say *)
Definition ex_d2 : list file :=
  [(bs "1_a.sql", bs "CREATE TABLE a;" ++ [NL]);
   (bs "2_b.sql", ign_header ++ bs "DROP TABLE a;" ++ [NL]);
   (bs "3_c.sql", bs "Y;" ++ [NL]);
   (bs "4_d.sql", ign_header)].
Example ex_detect :
  names_wf ex_d2 = true /\ ex_d2 <> ex_d /\ validate toy_hs ex_d2 (ex_sum ex_d) = VOk /\
  covered ex_d = covered ex_d2 /\ view ex_d = view ex_d2.
Proof. vm_compute. repeat split; try reflexivity. discriminate. Qed.

(* 2': a tampered directory with a non-wf name (".sql" twice) meets all_sql and is refused *)
Example ex_detect_glob :
  all_sql [(bs "1_a.sql.sql", bs "CREATE TABLE a;" ++ [NL]); (bs "3_c.sql", bs "Y;" ++ [NL])] = true /\
  names_wf [(bs "1_a.sql.sql", bs "CREATE TABLE a;" ++ [NL]); (bs "3_c.sql", bs "Y;" ++ [NL])] = false /\
  validate toy_hs [(bs "1_a.sql.sql", bs "CREATE TABLE a;" ++ [NL]); (bs "3_c.sql", bs "Y;" ++ [NL])] (ex_sum ex_p)
    = VChecksum 2 2 48 (bs "1_a.sql") Removed.
Proof. vm_compute. repeat split; reflexivity. Qed.

(* 3: the hypotheses hold and each single edit kind yields a *ChecksumError *)
Example ex_plain :
  names_ok ex_p = true /\ names_wf ex_p = true /\ no_ignored ex_p = true /\
  validate toy_hs (insert_at 1 (bs "2_x.sql", bs "Z") ex_p) (ex_sum ex_p)
    = VChecksum 3 2 (48 + 56) (bs "2_x.sql") Added /\
  validate toy_hs (delete_at 0 ex_p) (ex_sum ex_p) = VChecksum 2 2 48 (bs "1_a.sql") Removed /\
  validate toy_hs (replace_at 1 (bs "3_c.sql", replace_at 0 90%N (bs "Y;" ++ [NL])) ex_p) (ex_sum ex_p)
    = VChecksum 3 2 (48 + 56) (bs "3_c.sql") Edited /\
  validate toy_hs (replace_at 0 (bs "0_a.sql", bs "CREATE TABLE a;" ++ [NL]) ex_p) (ex_sum ex_p)
    = VChecksum 2 2 48 (bs "1_a.sql") Removed.
Proof. vm_compute. repeat split; reflexivity. Qed.

(* 3': tampered directory with a non-wf name AND a new sum-ignored file in front: refused;
   only trailing sum-ignored files pass *)
Example ex_plain_exact :
  let d1 := [(bs "0_x.sql", ign_header); (bs "1_a.sql", bs "CREATE TABLE a;" ++ [NL]); (bs "3_c.sql", bs "Y;" ++ [NL])] in
  let d2 := ex_p ++ [(bs "4_x.sql.sql", ign_header)] in
  all_sql d1 = true /\ sorted_strict d1 = true /\
  validate toy_hs d1 (ex_sum ex_p) = VChecksum 2 2 48 (bs "1_a.sql") Edited /\
  all_sql d2 = true /\ sorted_strict d2 = true /\ validate toy_hs d2 (ex_sum ex_p) = VOk.
Proof. vm_compute. repeat split; reflexivity. Qed.

(* 3'': reasons/positions (the values of ex_plain are instances of the C06_reason theorems), and the
   originals of these examples quote none of their own stream hashes *)
Example ex_reason :
  pos_of [(bs "1_a.sql", bs "CREATE TABLE a;" ++ [NL])] = 48 + 56 /\
  embedded_hashb toy_hs ex_p = false /\ embedded_hashb toy_hs ex_d = false.
Proof. vm_compute. repeat split; reflexivity. Qed.

(* 4: an edited hash in a sum line is refused *)
Example ex_sumfile_edit :
  validate toy_hs ex_p (Some (sumfile (hf_sum toy_hs [(bs "1_a.sql", toy_hs [])]) [(bs "1_a.sql", toy_hs [])]))
  = VChecksum 2 1 48 (bs "1_a.sql") Edited.
Proof. vm_compute. reflexivity. Qed.

(* 6: a writer sequence meeting ops_pre, including CopyFiles into a fresh MemDir *)
Definition ex_ops1 : list op :=
  [OpWritePlan [(bs "1_a.sql", bs "A;")];
   OpWriteCheckpoint (bs "2_cp.sql") (bs "v1") (bs "B;");
   OpWritePlan [(bs "3_c.sql", bs "C;"); (bs "1_a.sql", bs "A2;")]].
Definition ex_ops2 : list op := [OpCopyFiles [(bs "1_a.sql", bs "A;"); (bs "2_b.sql", bs "B;")]].
Example ex_writers :
  ops_pre toy_hs [] ex_ops1 /\ ops_pre toy_hs [] ex_ops2 /\
  map (validate_store toy_hs) (run_ops toy_hs [] ex_ops1) = [VOk; VOk; VOk] /\
  map (validate_store toy_hs) (run_ops toy_hs [] ex_ops2) = [VOk].
Proof. vm_compute. repeat split; reflexivity. Qed.

(* the CopyFiles witness on the toy hash: the second store does not validate *)
Example ex_writers_refuted :
  map (validate_store toy_hs) (run_ops toy_hs [] wc_ops)
  = [VOk; VChecksum 2 1 48 (bs "2.sql") Added].
Proof. vm_compute. reflexivity. Qed.

(* round 3: consumers.  DB = a three-valued database state, rest = unit; toy hash; a file is a checkpoint
   when it starts with "-- atlas:checkpoint" (here: content equals [ck_c]) *)
Definition ck_c : bytes := bs "-- atlas:checkpoint" ++ [NL; NL] ++ bs "A;".
Definition ex_is_ck (c : bytes) : bool := bytes_eqb c ck_c.
Definition ex_run (c : command) (st : store) (db : nat) : outcome unit :=
  run toy_hs ex_is_ck nat unit (fun _ _ => true) (fun _ _ _ => tt) c st db.
Definition ex_st : store := write_sum toy_hs [(bs "1_a.sql", bs "A;"); (bs "2_b.sql", bs "B;")].
Definition ex_st_edit : store := store_put ex_st (bs "1_a.sql") (bs "a;").           (* applied file edited by one byte *)
Definition ex_st_ck : store :=                                                          (* 3_c is a checkpoint; 1_a edited *)
  store_put (write_sum toy_hs [(bs "1_a.sql", bs "A;"); (bs "2_b.sql", bs "B;"); (bs "3_c.sql", ck_c)]) (bs "1_a.sql") (bs "a;").
Example ex_consumers :
  validate_store toy_hs ex_st = VOk /\
  validate_store toy_hs ex_st_edit = VChecksum 2 2 48 (bs "1_a.sql") Edited /\
  exempt toy_hs ex_is_ck CApply ex_st_edit = false /\
  (* hypotheses of C06_consumers_never_proceed_except / _refuse_first are met, for three database states *)
  map (ex_run CApply ex_st_edit) [0; 1; 2] = repeat (Refused (VChecksum 2 2 48 (bs "1_a.sql") Edited)) 3 /\
  ex_run CStatus ex_st_edit 0 = Refused (VChecksum 2 2 48 (bs "1_a.sql") Edited) /\
  ex_run (CStateSQL None) ex_st_edit 0 = Refused (VChecksum 2 2 48 (bs "1_a.sql") Edited) /\
  (* the control proceeds (C06_consumers_accept_untouched) *)
  ex_run CApply ex_st 0 = Proceeded tt /\
  (* lint: a missing sum is accepted, an edited file is not *)
  ex_run CLint [(bs "1_a.sql", bs "A;")] 0 = Proceeded tt /\
  ex_run CLint ex_st_edit 0 = Refused (VChecksum 2 2 48 (bs "1_a.sql") Edited) /\
  (* version 2 lies before the checkpoint 3_c: the edited directory is accepted; version 3 / no version: refused *)
  before_checkpoint ex_is_ck 1 ex_st_ck = true /\
  validate_store toy_hs ex_st_ck <> VOk /\
  ex_run (CStateSQL (Some (Some 1))) ex_st_ck 0 = Proceeded tt /\
  proceeds unit (ex_run (CStateSQL (Some (Some 2))) ex_st_ck 0) = false /\
  proceeds unit (ex_run (CStateSQL None) ex_st_ck 0) = false /\
  (* migrate hash repairs *)
  store_ok ex_st_edit = true /\ validate_store toy_hs (migrate_hash toy_hs ex_st_edit) = VOk.
Proof. vm_compute. repeat split; try reflexivity; discriminate. Qed.

(* round 5: formats.  One tree seen through golang-migrate, atlas and Flyway *)
Definition ex_tree : tree :=
  [([bs "1.up.sql"], KFile (bs "A;")); ([bs "1.down.sql"], KFile (bs "a;")); ([bs "2.up.sql"], KFile (bs "B;"));
   ([bs "a.txt"], KFile (bs "t")); ([bs "sub"; bs "3.sql"], KFile (bs "S;"));
   ([bs "V10__c.sql"], KFile (bs "C;")); ([bs "V2__b.sql"], KFile (bs "B;")); ([bs "U2__b.sql"], KFile (bs "u;"));
   ([bs ".git"; bs "V7__h.sql"], KFile (bs "H;")); ([bs "sub"; bs "V3__s.sql"], KFile (bs "S3;")); ([bs "R__r.sql"], KFile (bs "R;"))].
Definition ex_gm : list file := [(bs "1.up.sql", bs "A;"); (bs "2.up.sql", bs "B;")].
Definition ex_fly : list file :=
  [(bs "V2__b.sql", bs "B;"); (bs "sub/V3__s.sql", bs "S3;"); (bs "V10__c.sql", bs "C;"); (bs "R__r.sql", bs "R;")].
Definition ex_edit (t : tree) (p : list bytes) (c : bytes) : tree :=
  map (fun e => if list_eq_dec bytes_eq_dec (fst e) p then (p, KFile c) else e) t.
Example ex_formats :
  format_files FGolangMigrate ex_tree = FOk ex_gm /\ names_ok ex_gm = true /\ names_wf ex_gm = true /\ no_ignored ex_gm = true /\
  format_files FFlyway ex_tree = FOk ex_fly /\ names_ok ex_fly = true /\ names_wf ex_fly = true /\
  (* hashed by the format: validates (C06_format_hash_then_validate) *)
  forallb (fun f => match write_sum_tree toy_hs f ex_tree with
                    | Some t' => match validate_tree toy_hs f t' with TV VOk => true | _ => false end
                    | None => false
                    end) [FAtlas; FGolangMigrate; FGoose; FFlyway; FLiquibase; FDBMate] = true /\
  (* the down file is not read by golang-migrate: editing it is invisible (C06_format_unread_invisible) ... *)
  reads FGolangMigrate ([bs "1.down.sql"], KFile (bs "a;")) = false /\
  validate_tree toy_hs FGolangMigrate (tree_put_sum (ex_edit ex_tree [bs "1.down.sql"] (bs "DROP;")) (marshal toy_hs (newhash toy_hs ex_gm))) = TV VOk /\
  (* ... editing the up file is refused (C06_format_read_edit_changes + C06_format_change_detected) *)
  reads FGolangMigrate ([bs "1.up.sql"], KFile (bs "A;")) = true /\
  validate_tree toy_hs FGolangMigrate (tree_put_sum (ex_edit ex_tree [bs "1.up.sql"] (bs "X;")) (marshal toy_hs (newhash toy_hs ex_gm)))
    = TV (VChecksum 2 2 48 (bs "1.up.sql") Edited) /\
  (* Flyway: the undo file and the hidden directory are unread, the file in the sub-directory is read *)
  reads FFlyway ([bs "U2__b.sql"], KFile (bs "u;")) = false /\ reads FFlyway ([bs ".git"; bs "V7__h.sql"], KFile (bs "H;")) = false /\
  validate_tree toy_hs FFlyway (tree_put_sum (ex_edit ex_tree [bs "sub"; bs "V3__s.sql"] (bs "X;")) (marshal toy_hs (newhash toy_hs ex_fly)))
    = TV (VChecksum 3 4 (48 + 58) (bs "sub/V3__s.sql") Edited).
Proof.
  vm_compute. repeat split; reflexivity.
Qed.

(* archive round trip: name-ordered directory keeps its outcome; the Flyway witness loses it (toy hash) *)
Example ex_archive :
  all_sql ex_gm = true /\ sorted_strict ex_gm = true /\
  validate_store toy_hs (unarchive (archive (ex_sum ex_gm) ex_gm)) = VOk /\
  validate_tree toy_hs FFlyway (tree_put_sum wf_tree (marshal toy_hs (newhash toy_hs wf_d))) = TV VOk /\
  archive_tree FFlyway (tree_put_sum wf_tree (marshal toy_hs (newhash toy_hs wf_d))) = Some (archive (ex_sum wf_d) wf_d) /\
  validate_store toy_hs (unarchive (archive (ex_sum wf_d) wf_d)) = VChecksum 2 2 48 (bs "V10__c.sql") Added.
Proof. vm_compute. repeat split; reflexivity. Qed.

(* checkpoint readers: the last of two checkpoints *)
Example ex_checkpoint :
  let is_ck (f : file) := ex_is_ck (snd f) in
  let fs := [(bs "1.sql", bs "A;"); (bs "2.sql", ck_c); (bs "3.sql", bs "B;"); (bs "4.sql", ck_c); (bs "5.sql", bs "C;")] in
  existsb is_ck fs = true /\
  files_from_last_checkpoint is_ck fs = Some [(bs "4.sql", ck_c); (bs "5.sql", bs "C;")] /\
  files_from_last_checkpoint is_ck [(bs "1.sql", bs "A;")] = Some [(bs "1.sql", bs "A;")].
Proof. vm_compute. repeat split; reflexivity. Qed.

(* round 5: reasons with sum-ignored files and for a compound edit (toy hash) *)
Example ex_reason_ignored :
  (* ex_d = 1_a, 2_b (sum-ignored), 3_c: editing 3_c -> line 3 of 2 hashed files, after one sum line *)
  hashed_names ex_d = [bs "1_a.sql"; bs "3_c.sql"] /\
  validate toy_hs [(bs "1_a.sql", bs "CREATE TABLE a;" ++ [NL]); (bs "2_b.sql", ign_header ++ bs "X;" ++ [NL]); (bs "3_c.sql", bs "Z;" ++ [NL])] (ex_sum ex_d)
    = VChecksum 3 2 (48 + 56) (bs "3_c.sql") Edited /\
  (* compound edit of ex_p = 1_a, 3_c: 1_a kept, 2_x added, 3_c edited: the first differing line is 3_c's,
     whose name is now at index 2, so the file at index 1 is reported as added *)
  validate toy_hs [(bs "1_a.sql", bs "CREATE TABLE a;" ++ [NL]); (bs "2_x.sql", bs "N;"); (bs "3_c.sql", bs "Z;")] (ex_sum ex_p)
    = VChecksum 3 2 (48 + 56) (bs "2_x.sql") Added /\
  (* trailing hashed file added *)
  validate toy_hs (ex_p ++ [(bs "4_d.sql", bs "D;")]) (ex_sum ex_p) = VChecksum 4 2 (48 + 56 + 56) (bs "4_d.sql") Added.
Proof. vm_compute. repeat split; reflexivity. Qed.

(* round 5: checkDir.  The golang-migrate tree hashed by golang-migrate validates under ?format=golang-migrate,
   also when --dir-format says otherwise; is refused by Validate under the atlas reader; unknown format / scheme,
   a parse error and a missing directory never reach Validate *)
Example ex_check_dir :
  let t := tree_put_sum ex_tree (marshal toy_hs (newhash toy_hs ex_gm)) in
  check_dir_url toy_hs true s_file (Some s_golang_migrate) [] true t = PValidated (TV VOk) /\
  check_dir_url toy_hs true s_file (Some s_golang_migrate) s_flyway true t = PValidated (TV VOk) /\
  check_dir_url toy_hs true s_file None s_golang_migrate true t = PValidated (TV VOk) /\
  (exists l tot p f r, check_dir_url toy_hs true s_file None [] true t = PValidated (TV (VChecksum l tot p f r))) /\
  check_dir_url toy_hs true s_file (Some (bs "bogus")) s_golang_migrate true t = PErrOpen /\
  check_dir_url toy_hs true (bs "ftp") None [] true t = PErrOpen /\
  check_dir_url toy_hs true [] None [] true t = PErrOpen /\
  check_dir_url toy_hs false s_file None [] true t = PErrParse /\
  check_dir_url toy_hs true s_file None [] false t = PErrNotExist /\
  check_dir_url toy_hs true s_mem None [] false t = PValidated (TV VOk).
Proof. vm_compute. repeat split; try reflexivity. do 5 eexists. reflexivity. Qed.

(* round 5: the hypotheses of C06_flyway_read_edit_changes are met by sub/V3__s.sql of ex_tree *)
Example ex_flyway_edit :
  let t1 := firstn 9 ex_tree in let t2 := skipn 10 ex_tree in
  ex_tree = t1 ++ ([bs "sub"; bs "V3__s.sql"], KFile (bs "S3;")) :: t2 /\
  In ([bs "sub"; bs "V3__s.sql"], bs "S3;") (flyway_selected ex_tree) /\
  flyway_files (t1 ++ ([bs "sub"; bs "V3__s.sql"], KFile (bs "X;")) :: t2) <> flyway_files ex_tree.
Proof. vm_compute. split; [reflexivity|]. split; [tauto|discriminate]. Qed.
