From Coq Require Import List NArith Bool Arith.
From Atlas Require Import Base.Bytes Dir.DirModel.
Import ListNotations.
