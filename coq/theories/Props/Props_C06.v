(** C06 -- directory integrity (sql/migrate/dir.go: NewHashFile, HashFile.Sum /
    MarshalText / UnmarshalText, Validate; migrate.go writers).

    Property: "After the sum file has been written for a directory, validation
    succeeds as long as the set of migration files, their names, order and
    bytes are unchanged, and fails with a checksum error after any change: a
    file added anywhere, removed, renamed, reordered, or edited by even one
    byte, or a sum file whose lines were edited.  Every Atlas operation that
    writes to the directory leaves it valid."

    Only statements, [exact], [Print Assumptions] and [Example]s live here.
    [HS] stands for base64(sha256(.)).  The only thing assumed of it is its
    *shape* ([hash_ok]: 44 bytes of the base64 alphabet); collision freeness
    is NOT assumed: every detection theorem concludes "detected, or here are
    two different byte strings, computed from the two directories, with the
    same hash". *)
From Coq Require Import List NArith Bool Arith.
From Atlas Require Import Base.Bytes Dir.DirModel Dir.DirProofs Dir.DirDetect Dir.DirToyHash.
Import ListNotations.

Section C06.
Variable HS : bytes -> bytes.
Hypothesis HS_shape : forall x, hash_ok (HS x).

(** 1. An untouched directory validates against the sum file NewHashFile +
    MarshalText wrote for it -- for every directory (any number of files, any
    contents, sum-ignored files included) whose names survive the text format
    of atlas.sum: [names_ok] = every name [n] has [TrimSpace(n) == n] and no
    line feed (decidable).  ("h1:" inside a name is fine since fix 55b7d3e.) *)
Theorem C06_untouched_validates :
  forall d : list file,
  names_ok d = true ->
  validate HS d (Some (marshal HS (newhash HS d))) = VOk.
Proof. exact (untouched_validates_lemma HS HS_shape). Qed.

(** 2. Detection as a collision reduction.  If ANY directory [d'] validates
    against the sum file written for [d], then the two directories have the
    same [covered] list (per hash line: the file name, and the names of the
    sum-ignored files since the previous line ++ name ++ content) -- or two
    different hash inputs of the two directories collide.  [names_wf]: ".sql"
    occurs in every name exactly once, as the suffix (decidable; true of
    every name Atlas generates).
    Not proved: the form without [names_wf d'] (it needs a third disjunct for
    self-referential hashes, DESIGN section 4). *)
Theorem C06_detect :
  forall d d' : list file,
  names_wf d = true -> names_wf d' = true ->
  validate HS d' (Some (marshal HS (newhash HS d))) = VOk ->
  covered d = covered d' \/ collision HS (hash_inputs HS d ++ hash_inputs HS d').
Proof. exact (detect_lemma HS HS_shape). Qed.

(** 3. No sum-ignored file on either side: only the directory itself
    validates -- any other list of files (added anywhere, removed, renamed,
    reordered, edited by one byte or more, any compound edit) is refused, or a
    collision is exhibited. *)
Theorem C06_detect_plain :
  forall d d' : list file,
  names_wf d = true -> names_wf d' = true -> no_ignored d = true -> no_ignored d' = true ->
  validate HS d' (Some (marshal HS (newhash HS d))) = VOk ->
  d' = d \/ collision HS (hash_inputs HS d ++ hash_inputs HS d').
Proof. exact (detect_plain_lemma HS HS_shape). Qed.

(** 3'. ... and the refusal is a *ChecksumError (not a panic, not another
    error) when the sum file is the one Atlas wrote for a directory with
    distinct [names_ok] names. *)
Theorem C06_detect_plain_checksum_error :
  forall d d' : list file,
  names_ok d = true -> NoDup (map fst d) ->
  names_wf d = true -> names_wf d' = true -> no_ignored d = true -> no_ignored d' = true ->
  d' <> d ->
  is_checksum_error (validate HS d' (Some (marshal HS (newhash HS d)))) \/
  collision HS (hash_inputs HS d ++ hash_inputs HS d').
Proof. exact (detect_plain_error HS HS_shape). Qed.

End C06.

Print Assumptions C06_untouched_validates.
Print Assumptions C06_detect.
Print Assumptions C06_detect_plain.
Print Assumptions C06_detect_plain_checksum_error.
