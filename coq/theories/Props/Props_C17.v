(** C17 -- reverse statements undo the plan: up then down restores the original schema; the
    down file of every formatter holds exactly the reverse statements of the changes, last change
    first; a plan with an irreversible change is never reported reversible.
    Only statements, [exact], [Print Assumptions] and [Example]s live here. *)
From Coq Require Import List NArith ZArith Bool Arith.
From Atlas Require Import Base.Bytes Diff.Schema Diff.DiffModel Diff.DiffSqlite
  Lex.DownModel Lex.DownProofs Lex.DownAlterModel Lex.DownAlterProofs Lex.DownLayoutModel Lex.DownLayoutProofs
  Diff.DiffProofs Diff.DiffSqliteProofs
  Sqlite.PlanModel Sqlite.EngineModel Sqlite.InspectModel Sqlite.ReverseModel Sqlite.ReverseProofs
  Sqlite.ReverseDropProofs Sqlite.ReverseStaticProofs
  Sqlite.ConvergeDefs Sqlite.ConvergeStep Sqlite.ConvergeSupported Sqlite.ReverseDropTableProofs.
From Atlas Require Plan.SortModel Lex.DownDetach.
Import ListNotations.

(** ** 1. Up then down restores the start state (SQLite: M-SQLITE planner + abstract engine)

    Full statement:
      forall db from to cs p db1,  PlanChanges from to cs = Some p -> p_reversible p = true ->
        exec_all db (up_stmts (p_changes p)) = Ok db1 ->
        exists db2, exec_all db1 (down_stmts (p_changes p)) = Ok db2 /\
                    SchemaDiff (inspect db2) (inspect db) = [] = SchemaDiff (inspect db) (inspect db2).

    It is false of the faithful model, in two ways that both reproduce on the real code
    (C17_reversible_sound_refuted below, known findings C17-down-drop-table-blocked and
    C17-autoindex-drop-wrong-index; the latter is FIXED in the Go code since the patch
    "sqlite planner rebuilds the table when the dropped index backs an inline UNIQUE constraint":
    [alterable] of PlanModel.v follows it, the drop of an inline UNIQUE is now a table rebuild, which
    is not flagged reversible).  What is proved (partial):

    (a) [C17_reversible_sound_partial]: every well-formed engine state [d] (rows included, any
        [foreign_keys] / transaction flag), every [from], every well-formed desired schema [to] and
        every change list WITHOUT DropTable (AddTable with any indexes; ModifyTable with AddColumn /
        AddIndex / DropIndex / modified indexes and whatever else the planner accepts): when the
        planner flags the plan reversible and the up statements execute, the down statements
        execute too and the engine is back in a state that is [sim] to the start: the same tables in
        the same order, identical in everything (columns, keys, foreign keys, checks, options, ROWS,
        flags) but the index lists, which agree up to order and [inspect_index]; hence the inspected
        schemas are [schema_perm] and the differ reports nothing between them
        ([C17_sim_no_difference], through C02_perm_empty).
        Conditions, all on the start state and on the plan: [from_ok d from] -- every index of the
        planner's view [from] that a DropIndex can name is re-created faithfully in [d]
        ([faithful_idx]: it exists in that table of [d], inspects like the planner's copy, can be
        created again and the rows satisfy it when UNIQUE); this is what [from = inspect d] gives
        for explicit indexes and what fails for the automatic index of an inline UNIQUE, which the
        planner renames -- the known finding; [fresh_drops] -- no DROP INDEX n after a change that
        touches n (decidable on the plan; true of every differ output); [droppable_along] -- a table
        the plan creates can be dropped again (foreign_keys off, or no ON DELETE action on a
        referencing table is uncompilable -- the other finding).
    (b) [C17_reversible_sound_additive_exact]: without DropIndex either, the final state IS the
        start state (catalogue, rows and flags); no condition but [droppable].
    Proof: per-change inverse lemmas (DROP TABLE after CREATE TABLE, DROP INDEX after CREATE INDEX,
    DROP COLUMN after ADD COLUMN, CREATE INDEX after DROP INDEX), congruence of the four reverse
    statements for [sim], composition by induction over the change list with the invariants
    [db_wf] / [names_ok]; the planner lemmas [plan_additive] / [plan_arms] show a reversible plan of
    such a list has no other arm (the table-rebuild path is never flagged).

    Missing: the DropTable arm, whose reverse re-creates the table from the *inspected* current
    schema -- table moved to the end, rows lost, inline UNIQUE constraints renamed to named
    indexes (harness: "restored-up-to-autoindex-name"); MySQL / PostgreSQL (no engine in the
    sandbox: items 2-4 only). *)
Theorem C17_reversible_sound_partial :
  forall (from to : xschema) (cs : list schange) (p : plan) (d d1 : db),
  db_wf d = true -> names_ok d -> xschema_wf to = true -> no_drop_table cs = true ->
  from_ok d from ->
  PlanChanges from to cs = Some p -> p_reversible p = true ->
  fresh_drops (p_changes p) = true ->
  droppable_along d (p_changes p) ->
  exec_all d (up_stmts (p_changes p)) = EngineModel.Ok d1 ->
  exists d2, exec_all d1 (down_stmts (p_changes p)) = EngineModel.Ok d2 /\ sim d d2.
Proof. exact reversible_sound_static. Qed.
Print Assumptions C17_reversible_sound_partial.

(** The characterisation that does hold when the planner is given the inspection of the state it will run on ([from = inspect d],
    what the CLI does), [from_ok] follows from a condition on the state alone: [idx_ok d] -- no inline
    UNIQUE constraints, and every explicit index has a name outside the sqlite_autoindex namespace, an
    inspected form that is a fixed point of [inspect_index], that CREATE INDEX accepts and that the
    rows satisfy when UNIQUE.  The exceptions are exactly the refuting inputs: an inline UNIQUE
    ([idx_ok] fails: the former known finding C17-autoindex-drop-wrong-index, fixed, see the header; the
    premise is kept because the proof is by the ALTER path of a catalogue without inline UNIQUE), a created table that cannot be
    dropped again ([droppable_along] fails: C17_reversible_sound_refuted), and -- outside this
    theorem -- DropTable changes (C17_reversible_sound_droptables_partial). *)
Theorem C17_reversible_sound_except :
  forall (to : xschema) (cs : list schange) (p : plan) (d d1 : db),
  db_wf d = true -> names_ok d -> idx_ok d -> xschema_wf to = true -> no_drop_table cs = true ->
  PlanChanges (inspect d) to cs = Some p -> p_reversible p = true ->
  fresh_drops (p_changes p) = true ->
  droppable_along d (p_changes p) ->
  exec_all d (up_stmts (p_changes p)) = EngineModel.Ok d1 ->
  exists d2, exec_all d1 (down_stmts (p_changes p)) = EngineModel.Ok d2 /\ sim d d2.
Proof. exact reversible_sound_inspect. Qed.
Print Assumptions C17_reversible_sound_except.

(** the same with the conditions stated along the run ([conds]: each DROP INDEX arm faithful and
    each created table droppable in the state the change executes in) instead of [from_ok] /
    [fresh_drops] / [droppable_along] *)
Theorem C17_reversible_sound_conds_partial :
  forall (from to : xschema) (cs : list schange) (p : plan) (d d1 : db),
  db_wf d = true -> names_ok d -> xschema_wf to = true -> no_drop_table cs = true ->
  PlanChanges from to cs = Some p -> p_reversible p = true ->
  conds d (p_changes p) ->
  exec_all d (up_stmts (p_changes p)) = EngineModel.Ok d1 ->
  exists d2, exec_all d1 (down_stmts (p_changes p)) = EngineModel.Ok d2 /\ sim d d2.
Proof. exact reversible_sound_no_drop_table. Qed.
Print Assumptions C17_reversible_sound_conds_partial.

(** [sim] states cannot be told apart by inspection + diff. *)
Theorem C17_sim_no_difference :
  forall (name : str) (skip : tag -> bool) (d d2 : db),
  sim d d2 ->
  schema_perm (inspect_schema name d) (inspect_schema name d2) /\
  (DiffProofs.wf_schema DiffSqliteProofs.sqlite_dwf (inspect_schema name d) ->
   SchemaDiff sqlite_driver skip (inspect_schema name d) (inspect_schema name d2) = Some []).
Proof.
  intros name skip d d2 S. split; [exact (sim_schema_perm name d d2 S)|exact (sim_diff_empty name skip d d2 S)].
Qed.
Print Assumptions C17_sim_no_difference.

(** engine level, for any list of planned changes of the four shapes ([arms_ok]) *)
Theorem C17_arms_sound :
  forall (l : list pchange) (d d1 : db),
  db_wf d = true -> names_ok d -> arms_ok d l ->
  exec_all d (up_stmts l) = EngineModel.Ok d1 ->
  exists d2, exec_all d1 (down_stmts l) = EngineModel.Ok d2 /\ sim d d2.
Proof. exact arms_sound. Qed.
Print Assumptions C17_arms_sound.

Theorem C17_reversible_sound_additive_exact :
  forall (from to : xschema) (cs : list schange) (p : plan) (d d1 : db),
  db_wf d = true -> xschema_wf to = true -> no_drops cs = true ->
  PlanChanges from to cs = Some p -> p_reversible p = true ->
  (droppable_along d (p_changes p) \/ db_fk d = false) ->
  exec_all d (up_stmts (p_changes p)) = EngineModel.Ok d1 ->
  exec_all d1 (down_stmts (p_changes p)) = EngineModel.Ok d.
Proof.
  intros from to cs p d d1 W XW ND HP R [DA|F] E.
  - exact (reversible_sound_additive from to cs p d d1 W XW ND HP R DA E).
  - exact (reversible_sound_additive_fk_off from to cs p d d1 W XW ND HP R F E).
Qed.
Print Assumptions C17_reversible_sound_additive_exact.

Definition ex_col (n : str) : column := mkColumn n 2 [105;110;116]%N true None None None.
Definition ex_table : xtable :=
  mkX (mkTable [116]%N false false [ex_col [97]%N; ex_col [98]%N] None
         [mkIndex [105;120]%N true [mkPart 0 false (Some [98]%N) None] None None None] [] []) [].
Definition ex_table2 : xtable :=
  mkX (mkTable [116]%N false false [ex_col [97]%N; ex_col [98]%N; ex_col [99]%N] None
         [mkIndex [105;120]%N true [mkPart 0 false (Some [98]%N) None] None None None;
          mkIndex [105;99]%N false [mkPart 0 false (Some [97]%N) None] None None None] [] []) [].
(** non-vacuity: CREATE TABLE t + CREATE UNIQUE INDEX ix, then on the result ADD COLUMN c +
    CREATE INDEX ic: both plans are flagged reversible, execute, and their down statements run. *)
Example C17_reversible_sound_nonvacuous :
  match PlanChanges [] [ex_table] [AddTable [116]%N] with
  | Some p =>
      p_reversible p = true /\ length (p_changes p) = 2%nat /\
      match exec_all empty_db (up_stmts (p_changes p)) with
      | EngineModel.Ok d1 =>
          db_tables d1 <> [] /\
          exec_all d1 (down_stmts (p_changes p)) = EngineModel.Ok empty_db /\
          match PlanChanges [ex_table] [ex_table2] [ModifyTable [116]%N [AddColumn [99]%N; AddIndex [105;99]%N]] with
          | Some p2 =>
              p_reversible p2 = true /\ length (p_changes p2) = 2%nat /\
              match exec_all d1 (up_stmts (p_changes p2)) with
              | EngineModel.Ok d2 => d2 <> d1 /\ exec_all d2 (down_stmts (p_changes p2)) = EngineModel.Ok d1
              | EngineModel.Err _ => False
              end
          | None => False
          end
      | EngineModel.Err _ => False
      end
  | None => False
  end.
Proof. vm_compute. repeat split; discriminate. Qed.

(** non-vacuity of the DROP INDEX arm: the planner is given the inspection of the state; the
    plan DROP INDEX ix is flagged reversible, runs, and its down statement CREATE UNIQUE INDEX ix
    brings back a state that inspects exactly like the start. *)
Definition ex_table_noidx : xtable :=
  mkX (mkTable [116]%N false false [ex_col [97]%N; ex_col [98]%N] None [] [] []) [].
Example C17_drop_index_nonvacuous :
  match exec_all empty_db [SCreateTable ex_table_noidx []; SCreateIndex [116]%N
          (mkIndex [105;120]%N true [mkPart 0 false (Some [98]%N) None] None None None)] with
  | EngineModel.Ok d =>
      match PlanChanges (inspect d) [ex_table_noidx] [ModifyTable [116]%N [DropIndex [105;120]%N]] with
      | Some p =>
          p_reversible p = true /\ length (p_changes p) = 1%nat /\
          match exec_all d (up_stmts (p_changes p)) with
          | EngineModel.Ok d1 =>
              inspect d1 <> inspect d /\
              match exec_all d1 (down_stmts (p_changes p)) with
              | EngineModel.Ok d2 => inspect d2 = inspect d
              | EngineModel.Err _ => False
              end
          | EngineModel.Err _ => False
          end
      | None => False
      end
  | EngineModel.Err _ => False
  end.
Proof. vm_compute. repeat split; discriminate. Qed.

(** non-vacuity of the premises of C17_reversible_sound_partial: for the state [ex_d] (table t with
    the unique index ix) the planner's view [inspect ex_d] is [from_ok]; the plan DROP INDEX ix is
    reversible, [fresh_drops], and creates no table. *)
Definition ex_ix : index := mkIndex [105;120]%N true [mkPart 0 false (Some [98]%N) None] None None None.
Definition ex_d : db :=
  mkDB [mkCT (mkX (mkTable [116]%N false false [ex_col [97]%N; ex_col [98]%N] None [ex_ix] [] []) []) [] []]
       false false.
Example C17_from_ok_nonvacuous : from_ok ex_d (inspect ex_d).
Proof.
  intros t xf m k i tt i' Hx Hi Ht Hn.
  unfold inspect, ex_d, find_xtable in Hx. cbn [db_tables map find] in Hx.
  match type of Hx with (if ?b then _ else _) = _ => destruct b eqn:E; [|discriminate] end.
  inversion Hx; subst xf; clear Hx.
  apply DiffProofs.str_eqb_eq in E. cbv in E. subst t.
  change (t_idx (x_t (inspect_table _))) with [inspect_index ex_ix] in Hi.
  unfold find_idx, find_idx_from in Hi.
  destruct (str_eqb (i_name (inspect_index ex_ix)) m); [|discriminate].
  inversion Hi; subst i k; clear Hi.
  change (normalize_idx_name (inspect_index ex_ix) tt) with (Some (inspect_index ex_ix)) in Hn.
  inversion Hn; subst i'; clear Hn.
  exists (mkCT (mkX (mkTable [116]%N false false [ex_col [97]%N; ex_col [98]%N] None [ex_ix] [] []) []) [] []), ex_ix.
  repeat split; try reflexivity. now left.
Qed.
Example C17_idx_ok_nonvacuous : idx_ok ex_d /\ names_ok ex_d.
Proof.
  split.
  - intros ct [<-|[]]. split; [reflexivity|]. intros j [<-|[]]. repeat split; reflexivity.
  - unfold names_ok. vm_compute. repeat constructor; simpl; intuition discriminate.
Qed.
Example C17_static_premises_nonvacuous :
  match PlanChanges (inspect ex_d) [ex_table_noidx] [ModifyTable [116]%N [DropIndex [105;120]%N]] with
  | Some p => p_reversible p = true /\ fresh_drops (p_changes p) = true /\
              no_drop_table [ModifyTable [116]%N [DropIndex [105;120]%N]] = true /\
              db_wf ex_d = true /\ xschema_wf [ex_table_noidx] = true
  | None => False
  end.
Proof. vm_compute. auto. Qed.

(** (c) The DROP TABLE arm, for the plans that drop tables (any number, any order) -- through C01's
    machinery (agent sqlite's Converge*.v): the reverse of DROP TABLE t is exactly the statement
    group the planner emits to ADD the inspected table, so the down run is a sequence of C01's
    "add table" steps on the state the up run left.  For every state [d] outside a transaction with a
    duplicate-free namespace and every list [cl] of distinct tables of it whose inspections survive
    CREATE + inspect without a difference ([desired_ok], C01's decidable precondition
    [desired_ok_b]; it is what excludes inline UNIQUE constraints, whose automatic index the
    planner renames): the plan
    [PRAGMA foreign_keys = off; DROP TABLE t1; ..; DROP TABLE tk; PRAGMA foreign_keys = on] is
    flagged reversible, and when it executes, its down statements
    [CREATE TABLE tk ..; CREATE INDEX ..; ...; CREATE TABLE t1 ..; CREATE INDEX ..] execute and the
    differ finds no difference between the inspection of the result and the inspection of the
    start ([synced]; the tables are back at the end of the catalogue, last dropped first, without
    their rows).  The untouched tables have to inspect to something the differ finds equal to
    itself (C02_self_empty on well-formed tables).
    Missing: plans mixing DropTable with other changes (the real-engine oracle executes them: 340
    multi-statement reverses in the quick run). *)
Theorem C17_reversible_sound_droptables_partial :
  forall (nm : str) (to : xschema) (cl : list ctable) (d d1 : db) (p : plan),
  db_tx d = false -> NoDup (all_names (db_tables d)) ->
  NoDup (map ct_name cl) ->
  (forall c, In c cl -> find_ct (ct_name c) (db_tables d) = Some c /\ desired_ok (inspect_table c)) ->
  (forall c0, In c0 (db_tables d) -> ~ In c0 cl ->
     tdiff (x_t (inspect_table c0)) (x_t (inspect_table c0)) = Some []) ->
  PlanChanges (inspect d) to (map (fun c => DropTable (ct_name c)) cl) = Some p ->
  exec_all d (up_stmts (p_changes p)) = EngineModel.Ok d1 ->
  p_reversible p = true /\
  exists d2, exec_all d1 (down_stmts (p_changes p)) = EngineModel.Ok d2 /\ synced nm d2 (inspect d).
Proof. exact drop_tables_sound. Qed.
Print Assumptions C17_reversible_sound_droptables_partial.

(** non-vacuity: DROP TABLE t (with its unique index ix) and DROP TABLE u *)
Definition ex_d2 : db :=
  mkDB [mkCT (mkX (mkTable [116]%N false false [ex_col [97]%N; ex_col [98]%N] None [ex_ix] [] []) []) [] [];
        mkCT (mkX (mkTable [117]%N false false [ex_col [97]%N] None [] [] []) []) [] []]
       true false.
Example C17_droptable_nonvacuous :
  match db_tables ex_d2 with
  | c :: u :: _ =>
      desired_ok_b (inspect_table c) = true /\
      tdiff (x_t (inspect_table u)) (x_t (inspect_table u)) = Some [] /\
      desired_ok_b (inspect_table u) = true /\
      match PlanChanges (inspect ex_d2) [] [DropTable [116]%N; DropTable [117]%N] with
      | Some p =>
          p_reversible p = true /\ length (p_changes p) = 4%nat /\
          match exec_all ex_d2 (up_stmts (p_changes p)) with
          | EngineModel.Ok d1 =>
              length (db_tables d1) = 0%nat /\
              match exec_all d1 (down_stmts (p_changes p)) with
              | EngineModel.Ok d2 =>
                  length (db_tables d2) = 2%nat /\
                  sqlite_schema_diff no_skip (inspect_schema [109]%N d2) (inspect_schema [109]%N ex_d2) = Some []
              | EngineModel.Err _ => False
              end
          | EngineModel.Err _ => False
          end
      | None => False
      end
  | _ => False
  end.
Proof. vm_compute. repeat split; reflexivity. Qed.

(** The full statement is false: a child table whose foreign keys point at two missing tables
    [p] (ON DELETE CASCADE) and [g]; the plan adds [p]; with foreign_keys on the plan is flagged
    reversible and executes, and its down statement DROP TABLE p is refused.  Real SQLite:
    "no such table: main.g" (harness cases special:dangling-parent, known finding
    C17-down-drop-table-blocked). *)
Definition ex_child : ctable :=
  mkCT (mkX (mkTable [99]%N false false [ex_col [97]%N; ex_col [98]%N] None []
               [mkFk [102;49]%N [[97]%N] [112]%N [[97]%N] [] [67;65;83;67;65;68;69]%N;
                mkFk [102;50]%N [[98]%N] [103]%N [[98]%N] [] []] []) []) [] [].
Definition ex_parent : xtable :=
  mkX (mkTable [112]%N false false [ex_col [97]%N] None [] [] []) [].
Theorem C17_reversible_sound_refuted :
  exists (from to : xschema) (cs : list schange) (p : plan) (d d1 : db) (e : err),
    db_wf d = true /\ names_ok d /\ xschema_wf to = true /\
    PlanChanges from to cs = Some p /\ p_reversible p = true /\
    exec_all d (up_stmts (p_changes p)) = EngineModel.Ok d1 /\
    exec_all d1 (down_stmts (p_changes p)) = EngineModel.Err e.
Proof.
  exists [], [ex_parent], [AddTable [112]%N].
  eexists. exists (mkDB [ex_child] true false). eexists. exists EFKViolation.
  split; [reflexivity|]. split; [|split; [reflexivity|]].
  - unfold names_ok. vm_compute. repeat constructor; simpl; intuition discriminate.
  - split; [vm_compute; reflexivity|]. split; [reflexivity|]. split; vm_compute; reflexivity.
Qed.
Print Assumptions C17_reversible_sound_refuted.

(** ** 2. The flag (sql/internal/sqlx/plan.go: SetReversible)

    [Reversible] is computed as "every change has at least one reverse statement", for every
    change list; hence a list with a change that has none is never flagged. *)
Theorem C17_flag :
  forall changes : list mchange, SetReversible changes = forallb has_reverse changes.
Proof. exact SetReversible_forallb. Qed.
Print Assumptions C17_flag.

Theorem C17_flag_never_with_irreversible :
  forall changes : list mchange,
  SetReversible changes = false <-> exists c, In c changes /\ ReverseStmts c = [].
Proof. exact SetReversible_false_iff. Qed.
Print Assumptions C17_flag_never_with_irreversible.

Example C17_flag_nonvacuous :
  SetReversible [MChange [1%N] [] (RStr [2%N]); MChange [3%N] [] (RList [[4%N]; [5%N]])] = true /\
  SetReversible [MChange [1%N] [] (RStr [2%N]); MChange [3%N] [] (RList [])] = false /\
  SetReversible [MChange [1%N] [] RNil; MChange [3%N] [] (RStr [2%N])] = false.
Proof. vm_compute. auto. Qed.

(** ** 3. The [rev] template function (sql/sqltool/tool.go: reverse)

    The swap loop, modelled with its indices, bounds checks and nil-initialised result slice,
    never panics, needs no more than [len] rounds, leaves no nil slot, and returns the reversed
    list -- for every element type and every list. *)
Theorem C17_rev_is_rev :
  forall (A : Type) (changes : list A), reverse changes = DownModel.Ok (List.rev changes).
Proof. exact (@reverse_is_rev_lemma). Qed.
Print Assumptions C17_rev_is_rev.

Example C17_rev_is_rev_nonvacuous :
  reverse [1;2;3;4;5]%N = DownModel.Ok [5;4;3;2;1]%N /\ reverse [1;2;3;4]%N = DownModel.Ok [4;3;2;1]%N /\
  reverse (@nil N) = DownModel.Ok [].
Proof. vm_compute. auto. Qed.

(** ** 4. The down sections

    [scan] is any statement reader with the single-statement round trip (C07's side): a
    [scan_closed] statement followed by ";\n" is returned as is and scanning continues behind it,
    and a "-- reverse: <comment>" line is skipped.  Then, for every change list whose reverse
    statements are [scan_closed] and whose comments are [comment_ok], the down section written by
    each formatter reads back as [flat_map ReverseStmts (rev changes)]: the changes last to
    first, each change's statements in the order [ReverseStmts] returns them, nothing else. *)
Section C17_downfile.
Variable scan : bytes -> list bytes.
Variable scan_closed : bytes -> bool.
Variable comment_ok : bytes -> bool.
Hypothesis scan_nil : scan [] = [].
Hypothesis scan_stmt : forall s rest,
  scan_closed s = true -> scan (s ++ s_semi_nl ++ rest) = s :: scan rest.
Hypothesis scan_comment : forall c rest,
  comment_ok c = true -> scan (s_rev_cmt ++ c ++ s_nl ++ rest) = scan rest.

(** golang-migrate: the [*.down.sql] file. *)
Theorem C17_downfile_golang_migrate :
  forall changes, (forall c, In c changes -> change_ok scan_closed comment_ok c) ->
  exists d, golang_migrate_down changes = DownModel.Ok d /\
            scan d = flat_map ReverseStmts (List.rev changes).
Proof. exact (down_body_scan scan scan_closed comment_ok scan_nil scan_stmt scan_comment). Qed.

(** flyway: the [U*.sql] file. *)
Theorem C17_downfile_flyway :
  forall changes, (forall c, In c changes -> change_ok scan_closed comment_ok c) ->
  exists d, flyway_down changes = DownModel.Ok d /\
            scan d = flat_map ReverseStmts (List.rev changes).
Proof. exact (down_body_scan scan scan_closed comment_ok scan_nil scan_stmt scan_comment). Qed.

(** goose: the text behind "-- +goose Down". *)
Theorem C17_downfile_goose :
  forall changes, (forall c, In c changes -> change_ok scan_closed comment_ok c) ->
  exists d, goose_file changes = DownModel.Ok (s_goose_up ++ up_body changes ++ s_goose_down ++ d) /\
            scan d = flat_map ReverseStmts (List.rev changes).
Proof. exact (goose_file_scan scan scan_closed comment_ok scan_nil scan_stmt scan_comment). Qed.

(** dbmate: the text behind "-- migrate:down". *)
Theorem C17_downfile_dbmate :
  forall changes, (forall c, In c changes -> change_ok scan_closed comment_ok c) ->
  exists d, dbmate_file changes = DownModel.Ok (s_dbmate_up ++ up_body changes ++ s_dbmate_down ++ d) /\
            scan d = flat_map ReverseStmts (List.rev changes).
Proof. exact (dbmate_file_scan scan scan_closed comment_ok scan_nil scan_stmt scan_comment). Qed.
End C17_downfile.
Print Assumptions C17_downfile_golang_migrate.
Print Assumptions C17_downfile_flyway.
Print Assumptions C17_downfile_goose.
Print Assumptions C17_downfile_dbmate.

(** The premises are satisfiable: the line reader [line_scan] (statement ends at ";\n", "--"
    lines between statements are skipped) meets them with [line_closed] / [no_nl]. *)
Theorem C17_downfile_premises_hold_for_line_scan :
  line_scan [] = [] /\
  (forall s rest, line_closed s = true -> line_scan (s ++ s_semi_nl ++ rest) = s :: line_scan rest) /\
  (forall c rest, no_nl c = true -> line_scan (s_rev_cmt ++ c ++ s_nl ++ rest) = line_scan rest).
Proof. exact (conj line_scan_nil (conj line_scan_stmt line_scan_comment)). Qed.
Print Assumptions C17_downfile_premises_hold_for_line_scan.

(** Non-vacuity: three changes (single reverse with comment; none; two reverse statements). *)
Definition ex_changes : list mchange :=
  [ MChange [67;49]%N [99;49]%N (RStr [82;49]%N);
    MChange [67;50]%N [] RNil;
    MChange [67;51]%N [99;51]%N (RList [[82;51;97]%N; [82;51;98]%N]) ].
Example C17_downfile_nonvacuous :
  (forall c, In c ex_changes -> change_ok line_closed no_nl c) /\
  match golang_migrate_down ex_changes with
  | DownModel.Ok d => line_scan d = [[82;51;97]%N; [82;51;98]%N; [82;49]%N]
  | _ => False
  end /\
  flat_map ReverseStmts (List.rev ex_changes) = [[82;51;97]%N; [82;51;98]%N; [82;49]%N].
Proof.
  split; [|vm_compute; auto].
  intros c [<-|[<-|[<-|[]]]]; split; try (intros _; reflexivity);
    intros s Hs; vm_compute in Hs; intuition; subst; reflexivity.
Qed.

(** liquibase: the rollback statements are "--rollback: " comment lines of their own changeset, every
    line of a statement carrying the prefix (template function [rollback], fix
    C17-liquibase-multiline-rollback); a rollback of the file joins the contents of the comment
    lines of each changeset, splits them at the ";" that end a line, and takes the changesets from
    the last to the first ([liquibase_down]).  For every change list whose reverse statements are
    [line_closed] (multi-line statements included), whose comments and timestamp hold no newline
    and whose [Cmd]s have no line starting with "--rollback: ", the rollback reads back as
    [flat_map ReverseStmts (rev changes)]. *)
Theorem C17_downfile_liquibase :
  forall now changes, no_nl now = true -> (forall c, In c changes -> lq_change_ok c) ->
  liquibase_file now changes = s_lq_header ++ concat (lq_changeset_texts now 0 changes) /\
  liquibase_down now changes = flat_map ReverseStmts (List.rev changes).
Proof.
  intros now changes Hn H. split.
  - unfold liquibase_file. now rewrite liquibase_file_texts.
  - now apply liquibase_down_lemma.
Qed.
Print Assumptions C17_downfile_liquibase.

(** the input that refuted the statement before the fix: DROP TABLE t with the reverse
    "CREATE TABLE t (\n  c int\n)" of an indented plan *)
Example C17_downfile_liquibase_multiline :
  let c := MChange [68;82;79;80]%N [] (RStr [67;82;69;65;84;69;32;116;32;40;10;32;32;99;32;105;110;116;10;41]%N) in
  lq_change_ok c /\
  liquibase_down [50%N] [c] = [[67;82;69;65;84;69;32;116;32;40;10;32;32;99;32;105;110;116;10;41]%N].
Proof.
  split; [|vm_compute; reflexivity].
  split; [reflexivity|split; [reflexivity|]]. intros s Hs. vm_compute in Hs. intuition; subst; reflexivity.
Qed.

Example C17_downfile_liquibase_nonvacuous :
  (forall c, In c ex_changes -> lq_change_ok c) /\
  liquibase_down [50%N] ex_changes = [[82;51;97]%N; [82;51;98]%N; [82;49]%N].
Proof.
  split; [|vm_compute; reflexivity].
  intros c [<-|[<-|[<-|[]]]]; (split; [reflexivity|split; [reflexivity|]]);
    intros s Hs; vm_compute in Hs; intuition; subst; reflexivity.
Qed.

(** ** 4a. Down sections with an extreme layout (round 5)

    Nothing in the statements above bounds the length of a statement, of a line or of the file, and
    none of the down templates of sql/sqltool/tool.go looks at a length ([printf "%s;\n"],
    [println], the [rollback] template function copy their argument whole).  The three statements
    below make that explicit for the *concrete* readers the harness stage [layout] runs on single
    lines of 64 KiB and more, CRLF line ends and trailing blank lines:

    [C17_layout_readers_eq]: the linear readers of [DownLayoutModel] ([rev_append] instead of the
    quadratic [List.rev]; the ones that are extracted and run on the real files) are the
    specification readers, for every input.

    [C17_downfile_any_length]: for every change list whose reverse statements are [line_closed]
    (not empty, not starting with a newline or "--", no ";\n" inside: a carriage return, a blank
    line inside, trailing blank lines and any length are all allowed) the down file of
    golang-migrate and flyway and the text behind the marker of goose and dbmate are one and the
    same text [d], and [line_scan_fast d = flat_map ReverseStmts (rev changes)]; the liquibase
    rollback reader gives the same list.

    [C17_line_closed_any_length]: the premise is insensitive to length: a closed statement padded
    with any number [k] of any byte other than newline and '-' is closed and [k] bytes longer, so
    the theorem covers statements beyond every bound.

    [C17_downfile_goose_section] / [C17_downfile_dbmate_section]: where a tool finds the down part
    of the one-file formats: the text behind the *first* marker line, provided no marker starts in
    the up part ([no_early], decidable; it fails only if a [Cmd] or comment holds the marker line
    itself). *)
Theorem C17_layout_readers_eq :
  (forall s, line_scan_fast s = line_scan s) /\
  (forall s, lines_fast s = lines s) /\
  (forall cmd, lq_cmd_ok_fast cmd = lq_cmd_ok cmd) /\
  (forall now changes, liquibase_down_fast now changes = liquibase_down now changes).
Proof.
  exact (conj line_scan_fast_eq (conj lines_fast_eq (conj lq_cmd_ok_fast_eq liquibase_down_fast_eq))).
Qed.
Print Assumptions C17_layout_readers_eq.

Theorem C17_downfile_any_length :
  forall now changes,
  (forall c, In c changes -> change_ok line_closed no_nl c) ->
  (exists d,
    golang_migrate_down changes = DownModel.Ok d /\ flyway_down changes = DownModel.Ok d /\
    goose_file changes = DownModel.Ok (s_goose_up ++ up_body changes ++ s_goose_down ++ d) /\
    dbmate_file changes = DownModel.Ok (s_dbmate_up ++ up_body changes ++ s_dbmate_down ++ d) /\
    line_scan_fast d = flat_map ReverseStmts (List.rev changes)) /\
  (no_nl now = true -> (forall c, In c changes -> lq_change_ok c) ->
   liquibase_down_fast now changes = flat_map ReverseStmts (List.rev changes)).
Proof.
  intros now changes H. split; [now apply down_sections_line_scan|].
  intros Hn Hl. rewrite liquibase_down_fast_eq. now apply liquibase_down_lemma.
Qed.
Print Assumptions C17_downfile_any_length.

Theorem C17_line_closed_any_length :
  forall s c k, line_closed s = true -> c <> 10%N -> c <> 45%N ->
  line_closed (s ++ repeat c k) = true /\ length (s ++ repeat c k) = (length s + k)%nat.
Proof. intros s c k H1 H2 H3. split; [now apply line_closed_pad|apply length_pad]. Qed.
Print Assumptions C17_line_closed_any_length.

Theorem C17_downfile_goose_section :
  forall changes,
  (forall c, In c changes -> change_ok line_closed no_nl c) ->
  no_early s_goose_down (s_goose_up ++ up_body changes) = true ->
  exists file, goose_file changes = DownModel.Ok file /\
    goose_down_stmts file = Some (flat_map ReverseStmts (List.rev changes)).
Proof. exact goose_down_section. Qed.
Print Assumptions C17_downfile_goose_section.

Theorem C17_downfile_dbmate_section :
  forall changes,
  (forall c, In c changes -> change_ok line_closed no_nl c) ->
  no_early s_dbmate_down (s_dbmate_up ++ up_body changes) = true ->
  exists file, dbmate_file changes = DownModel.Ok file /\
    dbmate_down_stmts file = Some (flat_map ReverseStmts (List.rev changes)).
Proof. exact dbmate_down_section. Qed.
Print Assumptions C17_downfile_dbmate_section.

(** Non-vacuity: a DROP TABLE whose reverse is a 70 000 byte single line ("CREATE TABLE t (" then
    69 983 'x' then ")"), next to a CRLF statement with a trailing blank line and a short one. *)
Definition ex_long : bytes :=
  [67;82;69;65;84;69;32;84;65;66;76;69;32;116;32;40]%N ++ repeat 120%N (N.to_nat 69983) ++ [41%N].
Definition ex_crlf : bytes := [67;49;13;10;120;13;10;10]%N.
Definition ex_layout : list mchange :=
  [ MChange [68;82;79;80]%N [99;49]%N (RList [ex_long; ex_crlf]);
    MChange [67;50]%N [] (RStr [82;50]%N) ].
Example ex_long_closed : line_closed ex_long = true.
Proof. apply line_closed_long; try reflexivity; discriminate. Qed.
Example ex_long_length : N.of_nat (length ex_long) = 70000%N.
Proof.
  unfold ex_long. rewrite !app_length, repeat_length. cbn [length].
  rewrite !Nat2N.inj_add, N2Nat.id. reflexivity.
Qed.
Example ex_layout_closed : forall c, In c ex_layout -> forall s, In s (ReverseStmts c) -> line_closed s = true.
Proof.
  intros c Hc s Hs. unfold ex_layout in Hc. cbn [In] in Hc.
  destruct Hc as [<-|[<-|[]]]; cbn [In ReverseStmts c_reverse] in Hs.
  - destruct Hs as [<-|[<-|[]]]; [exact ex_long_closed|reflexivity].
  - destruct Hs as [<-|[]]. reflexivity.
Qed.
Example ex_layout_ok : forall c, In c ex_layout -> change_ok line_closed no_nl c.
Proof.
  intros c Hc. split; [|now apply ex_layout_closed]. unfold ex_layout in Hc. cbn [In] in Hc.
  destruct Hc as [<-|[<-|[]]]; intros _; reflexivity.
Qed.
Example ex_layout_lq_ok : forall c, In c ex_layout -> lq_change_ok c.
Proof.
  intros c Hc. split; [|split; [|now apply ex_layout_closed]]; unfold ex_layout in Hc; cbn [In] in Hc;
    destruct Hc as [<-|[<-|[]]]; reflexivity.
Qed.
Example ex_layout_down : flat_map ReverseStmts (List.rev ex_layout) = [[82;50]%N; ex_long; ex_crlf].
Proof. reflexivity. Qed.
(** the premises hold for [ex_layout], whose first reverse statement is one line of 70 000 bytes, and
    the readers return it whole, between the other two *)
Example C17_downfile_any_length_nonvacuous :
  (exists d, golang_migrate_down ex_layout = DownModel.Ok d /\ line_scan_fast d = [[82;50]%N; ex_long; ex_crlf]) /\
  liquibase_down_fast [50%N] ex_layout = [[82;50]%N; ex_long; ex_crlf].
Proof.
  rewrite <- ex_layout_down.
  destruct (down_sections_line_scan ex_layout ex_layout_ok) as (d & E & _ & _ & _ & S).
  split; [exists d; split; [exact E|exact S]|].
  rewrite liquibase_down_fast_eq.
  apply liquibase_down_lemma; [reflexivity|exact ex_layout_lq_ok].
Qed.
(** the section finders on a small plan with a CRLF statement that ends in a blank line *)
Example C17_downfile_sections_nonvacuous :
  let cs := [ MChange [68;49]%N [99;49]%N (RList [ex_crlf; [82;49]%N]); MChange [67;50]%N [] (RStr [82;50]%N) ] in
  no_early s_goose_down (s_goose_up ++ up_body cs) = true /\
  no_early s_dbmate_down (s_dbmate_up ++ up_body cs) = true /\
  match goose_file cs, dbmate_file cs with
  | DownModel.Ok f, DownModel.Ok g =>
      goose_down_stmts f = Some [[82;50]%N; ex_crlf; [82;49]%N] /\
      dbmate_down_stmts g = Some [[82;50]%N; ex_crlf; [82;49]%N]
  | _, _ => False
  end.
Proof. vm_compute. repeat split; reflexivity. Qed.

Example C17_line_closed_any_length_nonvacuous :
  line_closed ([68;82;79;80]%N ++ repeat 44%N (N.to_nat 100000)) = true.
Proof. apply C17_line_closed_any_length; [reflexivity|discriminate|discriminate]. Qed.

(** ** 2a. The flag and the reverse of one ALTER TABLE (sql/mysql, sql/postgres: alterTable)

    Both planners build one ALTER TABLE per ModifyTable and accumulate over its sub-changes, arm by
    arm, the flag [reversible] (and-ed) and the list of reverse sub-changes (Lex/DownAlterModel.v,
    tied to mysql.DefaultPlan / postgres.DefaultPlan on every ordered pair and triple of sub-change
    kinds).  For every list of arms, in every order: the change carries a reverse exactly when every
    arm is reversible (no unnamed CHECK, no dropped generation expression) -- an irreversible arm
    anywhere in the list, before or after reversible ones, clears the flag ... *)
Theorem C17_alter_flag :
  forall arms : list arm,
  (alterTable_mysql arms <> None <-> forallb arm_reversible arms = true) /\
  (alterTable_postgres arms <> None <-> forallb arm_reversible arms = true).
Proof. exact alter_flag_lemma. Qed.
Print Assumptions C17_alter_flag.

(** ... and then the reverse ALTER holds the inverse of EVERY arm, last arm first (PostgreSQL: of the
    arms as sorted, constraint drops first).  MySQL's AddAttr / DropAttr arms, which have no reverse
    clause, clear the flag (fix C17-mysql-table-attr-reverse; before it they left the flag alone and
    the statement was false). *)
Theorem C17_alter_reverse_complete :
  forall (arms r : list arm),
  (alterTable_mysql arms = Some r -> r = List.rev arms) /\
  (alterTable_postgres arms = Some r -> r = List.rev (pg_sorted arms)).
Proof. exact alter_complete_lemma. Qed.
Print Assumptions C17_alter_reverse_complete.

Example C17_alter_nonvacuous :
  (* unnamed CHECK first, named CHECK second: no reverse, in both orders *)
  alterTable_mysql [mkArm KCheckUnnamed [117]%N; mkArm KCheckNamed [107]%N] = None /\
  alterTable_mysql [mkArm KCheckNamed [107]%N; mkArm KCheckUnnamed [117]%N] = None /\
  alterTable_postgres [mkArm KOther [97]%N; mkArm KCheckNamed [107]%N; mkArm KDropConst [100]%N] =
    Some [mkArm KCheckNamed [107]%N; mkArm KOther [97]%N; mkArm KDropConst [100]%N] /\
  (* an added table attribute next to a reversible arm: no reverse *)
  alterTable_mysql [mkArm KAttr [116]%N; mkArm KOther [99]%N] = None.
Proof. vm_compute. auto. Qed.

(** ** 2a'. One sub-change carrying several change kinds (PostgreSQL ModifyColumn)

    A ModifyColumn carries a set of change kinds (TYPE, NULL, DEFAULT, identity attribute, generation
    expression); [alterColumn] writes one ALTER COLUMN clause per kind and the ModifyColumn arm of
    [alterTable] decides per kind: the ChangeGenerated bit (DROP EXPRESSION) clears the flag.  For
    every set of kinds with that bit, every column, and every list of arms before and after it: the
    ALTER carries no reverse (tied to postgres.DefaultPlan on every subset of up to three kinds of a
    ModifyColumn, alone and next to another sub-change on either side). *)
Theorem C17_alter_kinds_irreversible :
  forall (pre post : list arm) (k : ckinds) (col : bytes),
  k_generated k = true ->
  alterTable_mysql (pre ++ mkArm (KModCol k) col :: post) = None /\
  alterTable_postgres (pre ++ mkArm (KModCol k) col :: post) = None.
Proof. exact alter_kinds_lemma. Qed.
Print Assumptions C17_alter_kinds_irreversible.

(** ... and a change that does carry a reverse undoes every clause of its Cmd, kind by kind: the clauses
    ("<kind>:<object>", one per change kind of a ModifyColumn) of the reverse are exactly those of the
    Cmd -- no kind is left out of the reverse and none is added. *)
Theorem C17_alter_kinds_complete :
  forall (arms r : list arm) (c : bytes),
  (alterTable_mysql arms = Some r) \/ (alterTable_postgres arms = Some r) ->
  (In c (flat_map arm_clauses arms) <-> In c (flat_map arm_clauses r)).
Proof. exact alter_clauses_lemma. Qed.
Print Assumptions C17_alter_kinds_complete.

Example C17_alter_kinds_nonvacuous :
  (* TYPE + NULL next to a new column: reversed, the two clauses in alterColumn's order *)
  reverse_objects (alterTable_postgres [mkArm (KModCol (mkKinds true true false false false)) [99]%N; mkArm KOther [110]%N]) =
    Some [[110]%N; C_TYPE ++ [99]%N; C_NULL ++ [99]%N] /\
  (* TYPE + DROP EXPRESSION: none *)
  alterTable_postgres [mkArm KOther [110]%N; mkArm (KModCol (mkKinds true false false false true)) [99]%N] = None.
Proof. vm_compute. auto. Qed.

(** ** 2a''. The down of a plan that went through DetachCycles (MySQL, TiDB, PostgreSQL planners)

    A change set with a reference cycle is rewritten by [detachReferences] (C04's model, Plan/SortModel.v):
    every change is split in a piece planned first and a piece deferred.  The reverse of a piece re-creates
    the foreign keys the piece drops and drops the ones it creates (Lex/DownDetach.v: [up_adds], [up_drops]).
    Key conservation, for every change list: the pieces create exactly the keys of the original changes,
    each once -- so the down of created tables drops every key once ... *)
Theorem C17_detach_keys_created_once :
  forall changes : list SortModel.change,
  Permutation.Permutation (flat_map DownDetach.up_adds (SortModel.detachReferences changes))
                          (flat_map DownDetach.up_adds changes).
Proof. exact DownDetach.detach_adds_lemma. Qed.
Print Assumptions C17_detach_keys_created_once.

(** ... and the pieces drop exactly the keys of the original changes, each once -- so the down re-creates
    every key of a dropped table once (the reverse CREATE TABLE does not carry a key that the reverse of the
    preceding ALTER re-adds, and none is lost) -- EXCEPT for a dropped table that has both external keys and
    a self reference: its copy is dropped with no key at all ([t.ForeignKeys = nil]) while the ALTER drops
    only the external ones (finding C17-detach-drop-loses-self-fk). *)
Theorem C17_detach_keys_once_except :
  forall changes : list SortModel.change,
  (forall c, In c changes -> DownDetach.drop_ok c) ->
  Permutation.Permutation (flat_map DownDetach.up_drops (SortModel.detachReferences changes))
                          (flat_map DownDetach.up_drops changes).
Proof. exact DownDetach.detach_drops_lemma. Qed.
Print Assumptions C17_detach_keys_once_except.

(** the literal statement is false: a(a -> a, a -> b), b(b -> a), both dropped -- DetachCycles takes the
    detach path and the pieces drop (their reverses re-create) two keys of the three *)
Theorem C17_detach_keys_once_refuted :
  exists changes : list SortModel.change,
  SortModel.DetachCycles changes = SortModel.DCOk (SortModel.detachReferences changes) /\
  ~ Permutation.Permutation (flat_map DownDetach.up_drops (SortModel.detachReferences changes))
                            (flat_map DownDetach.up_drops changes).
Proof.
  set (a := SortModel.mkT 1 1 1). set (b := SortModel.mkT 2 1 2).
  exists [SortModel.DropTable a [SortModel.mkFK 1 a a; SortModel.mkFK 2 a b];
          SortModel.DropTable b [SortModel.mkFK 3 b a]].
  split; [vm_compute; reflexivity|].
  intros P. apply Permutation.Permutation_length in P. vm_compute in P. discriminate P.
Qed.
Print Assumptions C17_detach_keys_once_refuted.

(** ** 2b. The flag of the SQLite planner (sql/sqlite/migrate.go: PlanChanges)

    The literal statement "Plan.Reversible = every change of Plan.Changes has a reverse" is false
    of the SQLite planner: dropping a table gives a plan flagged reversible whose first and last
    change (the PRAGMA foreign_keys bracket) have none.  Reproduced on the real driver
    (known finding C17-pragma-bracket-no-reverse). *)
Theorem C17_sqlite_flag_refuted :
  exists (from to : xschema) (cs : list schange) (p : plan),
    PlanChanges from to cs = Some p /\ p_reversible p = true /\
    forallb pc_has_reverse (p_changes p) = false.
Proof.
  exists [ex_table], [], [DropTable [116]%N].
  eexists. split; [vm_compute; reflexivity|]. split; reflexivity.
Qed.
Print Assumptions C17_sqlite_flag_refuted.

(** What holds for every plan: the flag is the [forallb] over the planned changes without the
    bracket, and those two changes are the only ones the flag does not look at. *)
Theorem C17_sqlite_flag_except :
  forall (from to : xschema) (cs : list schange) (p : plan),
  PlanChanges from to cs = Some p ->
  exists core,
    (p_changes p = core \/ p_changes p = pragma_off :: core ++ [pragma_on]) /\
    p_reversible p = forallb pc_has_reverse core.
Proof. exact sqlite_flag_except. Qed.
Print Assumptions C17_sqlite_flag_except.

(** The Go-level view of a planned change list ([to_mchange]: the rendered SQL of each abstract
    statement; [Reverse] a string for one statement, a []string for several, nil for none):
    [sqlx.SetReversible] computes the model's flag, and the statements every down section holds
    (item 4) are the rendered [down_stmts] of item 1. *)
Theorem C17_sqlite_down_statements :
  forall (render : stmt -> bytes) (comment : ckind -> bytes) (l : list pchange),
  SetReversible (map (to_mchange render comment) l) = forallb pc_has_reverse l /\
  flat_map ReverseStmts (List.rev (map (to_mchange render comment) l)) = map render (down_stmts l).
Proof.
  intros. split; [apply SetReversible_to_mchange|apply flat_ReverseStmts_to_mchange].
Qed.
Print Assumptions C17_sqlite_down_statements.
