(** C17 -- reverse statements undo the plan: up then down restores the original schema; the
    down file of every formatter holds exactly the reverse statements of the changes, last change
    first; a plan with an irreversible change is never reported reversible.
    Only statements, [exact], [Print Assumptions] and [Example]s live here. *)
From Coq Require Import List NArith ZArith Bool Arith.
From Atlas Require Import Base.Bytes Lex.DownModel Lex.DownProofs.
Import ListNotations.

(** ** 2. The flag (sql/internal/sqlx/plan.go: SetReversible)

    [Reversible] is computed as "every change has at least one reverse statement", for every
    change list; hence a list with a change that has none is never flagged. *)
Theorem C17_flag :
  forall changes : list mchange, SetReversible changes = forallb has_reverse changes.
Proof. exact SetReversible_forallb. Qed.
Print Assumptions C17_flag.

Theorem C17_flag_never_with_irreversible :
  forall changes : list mchange,
  SetReversible changes = false <-> exists c, In c changes /\ ReverseStmts c = [].
Proof. exact SetReversible_false_iff. Qed.
Print Assumptions C17_flag_never_with_irreversible.

Example C17_flag_nonvacuous :
  SetReversible [MChange [1%N] [] (RStr [2%N]); MChange [3%N] [] (RList [[4%N]; [5%N]])] = true /\
  SetReversible [MChange [1%N] [] (RStr [2%N]); MChange [3%N] [] (RList [])] = false /\
  SetReversible [MChange [1%N] [] RNil; MChange [3%N] [] (RStr [2%N])] = false.
Proof. vm_compute. auto. Qed.

(** ** 3. The [rev] template function (sql/sqltool/tool.go: reverse)

    The swap loop, modelled with its indices, bounds checks and nil-initialised result slice,
    never panics, needs no more than [len] rounds, leaves no nil slot, and returns the reversed
    list -- for every element type and every list. *)
Theorem C17_rev_is_rev :
  forall (A : Type) (changes : list A), reverse changes = Ok (List.rev changes).
Proof. exact (@reverse_is_rev_lemma). Qed.
Print Assumptions C17_rev_is_rev.

Example C17_rev_is_rev_nonvacuous :
  reverse [1;2;3;4;5]%N = Ok [5;4;3;2;1]%N /\ reverse [1;2;3;4]%N = Ok [4;3;2;1]%N /\
  reverse (@nil N) = Ok [].
Proof. vm_compute. auto. Qed.

(** ** 4. The down sections

    [scan] is any statement reader with the single-statement round trip (C07's side): a
    [scan_closed] statement followed by ";\n" is returned as is and scanning continues behind it,
    and a "-- reverse: <comment>" line is skipped.  Then, for every change list whose reverse
    statements are [scan_closed] and whose comments are [comment_ok], the down section written by
    each formatter reads back as [flat_map ReverseStmts (rev changes)]: the changes last to
    first, each change's statements in the order [ReverseStmts] returns them, nothing else. *)
Section C17_downfile.
Variable scan : bytes -> list bytes.
Variable scan_closed : bytes -> bool.
Variable comment_ok : bytes -> bool.
Hypothesis scan_nil : scan [] = [].
Hypothesis scan_stmt : forall s rest,
  scan_closed s = true -> scan (s ++ s_semi_nl ++ rest) = s :: scan rest.
Hypothesis scan_comment : forall c rest,
  comment_ok c = true -> scan (s_rev_cmt ++ c ++ s_nl ++ rest) = scan rest.

(** golang-migrate: the [*.down.sql] file. *)
Theorem C17_downfile_golang_migrate :
  forall changes, (forall c, In c changes -> change_ok scan_closed comment_ok c) ->
  exists d, golang_migrate_down changes = Ok d /\
            scan d = flat_map ReverseStmts (List.rev changes).
Proof. exact (down_body_scan scan scan_closed comment_ok scan_nil scan_stmt scan_comment). Qed.

(** flyway: the [U*.sql] file. *)
Theorem C17_downfile_flyway :
  forall changes, (forall c, In c changes -> change_ok scan_closed comment_ok c) ->
  exists d, flyway_down changes = Ok d /\
            scan d = flat_map ReverseStmts (List.rev changes).
Proof. exact (down_body_scan scan scan_closed comment_ok scan_nil scan_stmt scan_comment). Qed.

(** goose: the text behind "-- +goose Down". *)
Theorem C17_downfile_goose :
  forall changes, (forall c, In c changes -> change_ok scan_closed comment_ok c) ->
  exists d, goose_file changes = Ok (s_goose_up ++ up_body changes ++ s_goose_down ++ d) /\
            scan d = flat_map ReverseStmts (List.rev changes).
Proof. exact (goose_file_scan scan scan_closed comment_ok scan_nil scan_stmt scan_comment). Qed.

(** dbmate: the text behind "-- migrate:down". *)
Theorem C17_downfile_dbmate :
  forall changes, (forall c, In c changes -> change_ok scan_closed comment_ok c) ->
  exists d, dbmate_file changes = Ok (s_dbmate_up ++ up_body changes ++ s_dbmate_down ++ d) /\
            scan d = flat_map ReverseStmts (List.rev changes).
Proof. exact (dbmate_file_scan scan scan_closed comment_ok scan_nil scan_stmt scan_comment). Qed.
End C17_downfile.
Print Assumptions C17_downfile_golang_migrate.
Print Assumptions C17_downfile_flyway.
Print Assumptions C17_downfile_goose.
Print Assumptions C17_downfile_dbmate.

(** The premises are satisfiable: the line reader [line_scan] (statement ends at ";\n", "--"
    lines between statements are skipped) meets them with [line_closed] / [no_nl]. *)
Theorem C17_downfile_premises_hold_for_line_scan :
  line_scan [] = [] /\
  (forall s rest, line_closed s = true -> line_scan (s ++ s_semi_nl ++ rest) = s :: line_scan rest) /\
  (forall c rest, no_nl c = true -> line_scan (s_rev_cmt ++ c ++ s_nl ++ rest) = line_scan rest).
Proof. exact (conj line_scan_nil (conj line_scan_stmt line_scan_comment)). Qed.
Print Assumptions C17_downfile_premises_hold_for_line_scan.

(** Non-vacuity: three changes (single reverse with comment; none; two reverse statements). *)
Definition ex_changes : list mchange :=
  [ MChange [67;49]%N [99;49]%N (RStr [82;49]%N);
    MChange [67;50]%N [] RNil;
    MChange [67;51]%N [99;51]%N (RList [[82;51;97]%N; [82;51;98]%N]) ].
Example C17_downfile_nonvacuous :
  (forall c, In c ex_changes -> change_ok line_closed no_nl c) /\
  match golang_migrate_down ex_changes with
  | Ok d => line_scan d = [[82;51;97]%N; [82;51;98]%N; [82;49]%N]
  | _ => False
  end /\
  flat_map ReverseStmts (List.rev ex_changes) = [[82;51;97]%N; [82;51;98]%N; [82;49]%N].
Proof.
  split; [|vm_compute; auto].
  intros c [<-|[<-|[<-|[]]]]; split; try (intros _; reflexivity);
    intros s Hs; vm_compute in Hs; intuition; subst; reflexivity.
Qed.

(** liquibase: the rollback statements are "--rollback: " comment lines of their own changeset;
    a rollback of the file reads the changesets from the last to the first
    ([liquibase_down], a line reader).  The full statement -- for every change list the rollback
    lines read back as [flat_map ReverseStmts (rev changes)] -- is false of the template:      *)
Theorem C17_downfile_liquibase_refuted :
  exists (now : bytes) (changes : list mchange),
    liquibase_down now changes <> flat_map ReverseStmts (List.rev changes).
Proof.
  (* DROP TABLE t with reverse "CREATE TABLE t (\n  c int\n)" (an indented plan) *)
  exists [50%N], [MChange [68;82;79;80]%N [] (RStr [67;82;69;65;84;69;32;116;32;40;10;32;32;99;32;105;110;116;10;41]%N)].
  vm_compute. discriminate.
Qed.
Print Assumptions C17_downfile_liquibase_refuted.

(** What holds: when no reverse statement (and no comment, and not the timestamp) contains a
    newline and no line of a [Cmd] starts with "--rollback: ", the rollback lines read back
    exactly, changesets last to first. *)
Theorem C17_downfile_liquibase_except :
  forall now changes, no_nl now = true -> (forall c, In c changes -> lq_change_ok c) ->
  liquibase_file now changes = s_lq_header ++ concat (lq_changeset_texts now 0 changes) /\
  liquibase_down now changes = flat_map ReverseStmts (List.rev changes).
Proof.
  intros now changes Hn H. split.
  - unfold liquibase_file. now rewrite liquibase_file_texts.
  - now apply liquibase_down_lemma.
Qed.
Print Assumptions C17_downfile_liquibase_except.

Example C17_downfile_liquibase_nonvacuous :
  (forall c, In c ex_changes -> lq_change_ok c) /\
  liquibase_down [50%N] ex_changes = [[82;51;97]%N; [82;51;98]%N; [82;49]%N].
Proof.
  split; [|vm_compute; reflexivity].
  intros c [<-|[<-|[<-|[]]]]; (split; [reflexivity|split; [reflexivity|]]);
    intros s Hs; vm_compute in Hs; intuition; subst; reflexivity.
Qed.
