(** C10 -- `migrate apply` is crash-consistent at every point, per transaction
    mode (model M-TX: the run emits a trace of crash points, each paired with
    the committed state a crash at that instant leaves). Engine assumption
    (trusted base): transactions are atomic, and durable once Commit returned. *)
From Coq Require Import List NArith Bool Arith.
From Atlas Require Import Base.Bytes Base.Stutter Exec.ExecModel Exec.ExecProofs Exec.StepProofs Exec.PendingModel Exec.PendingProofs
  Exec.RunModel Exec.TxModel Exec.TxProofs Exec.RunProofs Exec.CrashProofs.
Import ListNotations.

Section C10.
Variable hash : Type.
Variable hash_eqb : hash -> hash -> bool.
Variable HS : bytes -> hash.

(** all: a crash at any point leaves either the state before the command or
    (only at the point after the final commit of a successful run) its final
    state -- all or nothing. *)
Theorem C10_all_atomic :
  forall (n : nat) (dir : list tfile) (c : db hash) o c' tr pt k d,
  apply_run hash hash_eqb HS TxAll n dir c = (o, c', tr) ->
  crash_state hash tr pt k = Some d ->
  d = c \/ (pt = AfterCommit /\ d = c' /\ o = ADone).
Proof.
  intros n dir c o c' tr pt k d H Hc.
  destruct (apply_run_all_atomic hash hash_eqb HS n dir c o c' tr H) as [_ Ht].
  apply Ht. eapply crash_state_in; eauto.
Qed.

(** file: a crash at any point leaves the state after a whole number of
    files -- never a half applied file. *)
Theorem C10_file_never_half_applied :
  forall (files : list tfile) (c : db hash),
  no_directive files ->
  forall o c' w' tr pt k d,
  apply_loop hash hash_eqb HS TxFile files c None = (o, c', w', tr) ->
  crash_state hash tr pt k = Some d ->
  exists j, j <= length files /\ d = boundary hash hash_eqb HS files c j.
Proof.
  intros files c Hnd o c' w' tr pt k d H Hc.
  destruct (apply_loop_file hash hash_eqb HS files c Hnd o c' w' tr H) as (_ & _ & Ht).
  eapply Ht. eapply crash_state_in; eauto.
Qed.

(** none: a crash at any point leaves the effects of a prefix of the events
    (statements and revision writes in the order they were issued): nothing
    issued before the crash is lost, nothing later is present. *)
Theorem C10_none_prefix :
  forall (es : list (event hash)) (c : db hash) pt k d,
  crash_state hash (snd (run_direct hash es c)) pt k = Some d ->
  exists n, n <= length es /\ d = db_of_events hash (firstn n es) c.
Proof.
  intros es c pt k d Hc.
  destruct (run_direct_spec hash es c) as [_ Ht].
  eapply Ht. eapply crash_state_in; eauto.
Qed.

(** ** re-running the same command completes the migration

    Setting: one directory [dir] (files strictly sorted by version, no checkpoint
    file, no txmode directive, no failing statement: [clean]); [hash_eqb] decides
    equality of hashes. [plan all] = the statements of all files in order.
    [Bd c k] ("file boundary"): the journal of [c] holds exactly the statements of
    the first [k] files and the revision table their complete revisions -- the
    empty database is [Bd _ 0] ([Bd_empty]); the theorems show that every
    crashed state and every state after the re-run is again such a state (file,
    all) resp. a resume state [DInv] (none), so they apply to any number of
    crashes and re-runs, and to any count argument [n] of the crashed command. *)
Section Rerun.
Hypothesis hash_eqb_spec : forall a b, hash_eqb a b = true <-> a = b.
Variable dir : list tfile.
Let all := map tf_file dir.
Hypothesis all_sorted : sorted_files all.
Hypothesis all_no_checkpoint : forall f, In f all -> f_ckpt f = false.
Hypothesis no_directives : no_directive dir.
Hypothesis no_failing_statement : clean dir.

(** file: wherever the process dies, the database holds whole files only, and
    running `migrate apply` again ends with every statement's effect present
    exactly once and every revision complete. *)
Theorem C10_file_rerun_completes :
  forall (c0 : db hash) k0 n o c1 tr pt i d,
  Bd hash HS dir c0 k0 ->
  apply_run hash hash_eqb HS TxFile n dir c0 = (o, c1, tr) ->
  crash_state hash tr pt i = Some d ->
  (exists j, Bd hash HS dir d j /\ d_journal d = map snd (plan (firstn j all))) /\
  exists o2 c2 tr2,
    apply_run hash hash_eqb HS TxFile 0 dir d = (o2, c2, tr2) /\
    (o2 = ADone \/ o2 = APend PNoPending) /\
    completed hash dir c2 /\ Bd hash HS dir c2 (length all).
Proof.
  intros c0 k0 n o c1 tr pt i d.
  exact (file_crash_rerun hash hash_eqb HS hash_eqb_spec dir all_sorted all_no_checkpoint no_directives
           c0 k0 n o c1 tr pt i d no_failing_statement).
Qed.

(** all: a crash leaves the state before the command or (after the final commit)
    its final state; the re-run completes exactly once. *)
Theorem C10_all_rerun_completes :
  forall (c0 : db hash) k0 n o c1 tr pt i d,
  Bd hash HS dir c0 k0 ->
  apply_run hash hash_eqb HS TxAll n dir c0 = (o, c1, tr) ->
  crash_state hash tr pt i = Some d ->
  (d = c0 \/ (pt = AfterCommit /\ d = c1 /\ o = ADone)) /\
  (exists j, Bd hash HS dir d j /\ d_journal d = map snd (plan (firstn j all))) /\
  exists o2 c2 tr2,
    apply_run hash hash_eqb HS TxAll 0 dir d = (o2, c2, tr2) /\
    (o2 = ADone \/ o2 = APend PNoPending) /\
    completed hash dir c2 /\ Bd hash HS dir c2 (length all).
Proof.
  intros c0 k0 n o c1 tr pt i d.
  exact (all_crash_rerun hash hash_eqb HS hash_eqb_spec dir all_sorted all_no_checkpoint no_directives
           c0 k0 n o c1 tr pt i d no_failing_statement).
Qed.

(** none: the re-run completes; no statement is lost, the final journal is the
    plan in order where statement i occurs 1 + reps[i] times and the repeats sum
    to at most one per crash ([D] = repeats inherited from earlier crashes;
    [D = 0] from a file boundary, e.g. the empty database): at most the one
    statement in flight at the crash is executed twice. *)
Theorem C10_none_rerun_completes :
  forall (c0 : db hash) D n o c1 tr pt i d,
  DInv hash HS dir c0 D ->
  apply_run hash hash_eqb HS TxNone n dir c0 = (o, c1, tr) ->
  crash_state hash tr pt i = Some d ->
  DInv hash HS dir d (D + 1) /\
  exists o2 c2 tr2,
    apply_run hash hash_eqb HS TxNone 0 dir d = (o2, c2, tr2) /\
    (o2 = ADone \/ o2 = APend PNoPending) /\
    (exists reps, length reps = length (plan all) /\ list_sum reps <= D + 1 /\
                  d_journal c2 = map snd (expand (plan all) reps)) /\
    (forall f, In f all -> exists r, tbl_get (d_tbl c2) (f_version f) = Some r /\
                                     r_applied r = length (f_stmts f) /\ r_total r = length (f_stmts f)) /\
    DInv hash HS dir c2 (D + 1).
Proof.
  intros c0 D n o c1 tr pt i d.
  exact (none_crash_rerun hash hash_eqb HS hash_eqb_spec dir all_sorted all_no_checkpoint no_directives
           c0 D n o c1 tr pt i d no_failing_statement).
Qed.

(** The revision table never records a statement whose effect is not in the
    database: in every crashed state, in every mode, the table claims exactly the
    plan up to a position [P], the journal holds the plan up to [E] (with at most
    one repeat) and [P <= E <= P + 1]. *)
Theorem C10_rev_sound :
  forall global (c0 : db hash) k0 n o c1 tr pt i d,
  Bd hash HS dir c0 k0 ->
  apply_run hash hash_eqb HS global n dir c0 = (o, c1, tr) ->
  crash_state hash tr pt i = Some d ->
  exists P E reps,
    P <= E /\ E <= P + 1 /\ E <= length (plan all) /\ length reps = E /\ list_sum reps <= 1 /\
    d_journal d = map snd (expand (firstn E (plan all)) reps) /\
    claimed_plan hash all (d_tbl d) = firstn P (plan all).
Proof.
  intros global c0 k0 n o c1 tr pt i d.
  exact (rev_sound_lemma hash hash_eqb HS hash_eqb_spec dir all_sorted all_no_checkpoint no_directives
           global c0 k0 n o c1 tr pt i d no_failing_statement).
Qed.

End Rerun.

End C10.

Print Assumptions C10_all_atomic.
Print Assumptions C10_file_never_half_applied.
Print Assumptions C10_none_prefix.
Print Assumptions C10_file_rerun_completes.
Print Assumptions C10_all_rerun_completes.
Print Assumptions C10_none_rerun_completes.
Print Assumptions C10_rev_sound.

Definition s (n : N) : bytes := [40%N; n; 41%N].
Definition ex_dir : list tfile :=
  [ mkTfile (mkFile [49%N] [s 1; s 2] false) None None;
    mkTfile (mkFile [50%N] [s 3] false) None None ].
Definition ex_db0 : db bytes := mkDb [] [].

(** Non-vacuity: the crash points exist and the states are what the theorems say. *)
Example C10_file_crash_nonvacuous :
  let '(_, _, tr) := apply_run bytes bytes_eqb (fun b => b) TxFile 0 ex_dir ex_db0 in
  option_map (@d_journal bytes) (crash_state bytes tr AfterExec 3) = Some [s 1; s 2] /\
  option_map (@d_journal bytes) (crash_state bytes tr BeforeCommit 1) = Some [] /\
  option_map (@d_journal bytes) (crash_state bytes tr AfterCommit 2) = Some [s 1; s 2; s 3].
Proof. vm_compute. repeat split; reflexivity. Qed.

Example C10_none_crash_nonvacuous :
  let '(_, _, tr) := apply_run bytes bytes_eqb (fun b => b) TxNone 0 ex_dir ex_db0 in
  option_map (@d_journal bytes) (crash_state bytes tr AfterExec 2) = Some [s 1; s 2] /\
  option_map (@d_journal bytes) (crash_state bytes tr BeforeExec 2) = Some [s 1].
Proof. vm_compute. repeat split; reflexivity. Qed.

(** Non-vacuity of the re-run theorems: the example directory meets the
    hypotheses, the empty database is a file boundary, and a crash after the
    third statement in none mode followed by the re-run executes it twice. *)
Example C10_rerun_hyps_nonvacuous :
  sorted_files (map tf_file ex_dir) /\ (forall f, In f (map tf_file ex_dir) -> f_ckpt f = false) /\
  no_directive ex_dir /\ clean ex_dir /\ Bd bytes (fun b => b) ex_dir ex_db0 0.
Proof.
  split; [unfold sorted_files, fver_lt; repeat constructor|].
  split; [intros f [<-|[<-|[]]]; reflexivity|].
  split; [intros f [<-|[<-|[]]]; reflexivity|].
  split; [intros f [<-|[<-|[]]]; reflexivity|].
  apply Bd_empty.
Qed.

Example C10_none_rerun_nonvacuous :
  let '(_, _, tr) := apply_run bytes bytes_eqb (fun b => b) TxNone 0 ex_dir ex_db0 in
  match crash_state bytes tr AfterExec 3 with
  | Some d =>
      d_journal d = [s 1; s 2; s 3] /\
      map (fun r => (r_applied r, r_total r)) (d_tbl d) = [(2, 2); (0, 1)] /\
      let '(o2, c2, _) := apply_run bytes bytes_eqb (fun b => b) TxNone 0 ex_dir d in
      o2 = ADone /\ d_journal c2 = [s 1; s 2; s 3; s 3]
  | None => False
  end.
Proof. vm_compute. repeat split; reflexivity. Qed.

Example C10_file_rerun_nonvacuous :
  let '(_, _, tr) := apply_run bytes bytes_eqb (fun b => b) TxFile 0 ex_dir ex_db0 in
  match crash_state bytes tr AfterExec 3 with
  | Some d =>
      d_journal d = [s 1; s 2] /\
      let '(o2, c2, _) := apply_run bytes bytes_eqb (fun b => b) TxFile 0 ex_dir d in
      o2 = ADone /\ d_journal c2 = [s 1; s 2; s 3]
  | None => False
  end.
Proof. vm_compute. repeat split; reflexivity. Qed.
