(** C10 -- `migrate apply` is crash-consistent at every point, per transaction
    mode (model M-TX: the run emits a trace of crash points, each paired with
    the committed state a crash at that instant leaves). Engine assumption
    (trusted base): transactions are atomic, and durable once Commit returned. *)
From Coq Require Import List NArith Bool Arith.
From Atlas Require Import Base.Bytes Base.Stutter Exec.ExecModel Exec.ExecProofs Exec.StepProofs Exec.PendingModel Exec.PendingProofs
  Exec.RunModel Exec.TxModel Exec.TxProofs Exec.RunProofs Exec.CrashProofs Exec.CrashStoreModel Exec.CrashStoreProofs Exec.LockModel Exec.LockProofs Exec.TxOrderModel Exec.TxOrderProofs Exec.CrashPointsModel gen.Gen_CrashPoints.
Import ListNotations.

Section C10.
Variable hash : Type.
Variable hash_eqb : hash -> hash -> bool.
Variable HS : bytes -> hash.

(** all: a crash at any point leaves either the state before the command or
    (only at the point after the final commit of a successful run) its final
    state -- all or nothing. *)
Theorem C10_all_atomic :
  forall (n : nat) (dir : list tfile) (c : db hash) o c' tr pt k d,
  apply_run hash hash_eqb HS TxAll n dir c = (o, c', tr) ->
  crash_state hash tr pt k = Some d ->
  d = c \/ (pt = AfterCommit /\ d = c' /\ o = ADone).
Proof.
  intros n dir c o c' tr pt k d H Hc.
  destruct (apply_run_all_atomic hash hash_eqb HS n dir c o c' tr H) as [_ Ht].
  apply Ht. eapply crash_state_in; eauto.
Qed.

(** file: a crash at any point leaves the state after a whole number of
    files -- never a half applied file. *)
Theorem C10_file_never_half_applied :
  forall (files : list tfile) (c : db hash),
  no_directive files ->
  forall o c' w' tr pt k d,
  apply_loop hash hash_eqb HS TxFile files c None = (o, c', w', tr) ->
  crash_state hash tr pt k = Some d ->
  exists j, j <= length files /\ d = boundary hash hash_eqb HS files c j.
Proof.
  intros files c Hnd o c' w' tr pt k d H Hc.
  destruct (apply_loop_file hash hash_eqb HS files c Hnd o c' w' tr H) as (_ & _ & Ht).
  eapply Ht. eapply crash_state_in; eauto.
Qed.

(** none: a crash at any point leaves the effects of a prefix of the events
    (statements and revision writes in the order they were issued): nothing
    issued before the crash is lost, nothing later is present. *)
Theorem C10_none_prefix :
  forall (es : list (event hash)) (c : db hash) pt k d,
  crash_state hash (snd (run_direct hash es c)) pt k = Some d ->
  exists n, n <= length es /\ d = db_of_events hash (firstn n es) c.
Proof.
  intros es c pt k d Hc.
  destruct (run_direct_spec hash es c) as [_ Ht].
  eapply Ht. eapply crash_state_in; eauto.
Qed.

(** ** re-running the same command completes the migration

    Setting: the migration directory is [dskip ++ dir], its files strictly sorted
    by version; checkpoint files are allowed: [dir] is the directory from its last
    checkpoint file on ([all_from_checkpoint]), the files of [dskip] are never
    run. No file has a failing statement ([clean]: crash only). Files may carry
    txmode directives; the command's global mode [g] must accept them ([valid]);
    every file runs in its effective mode [mode_for g tf]. [hash_eqb] decides
    equality of hashes. [plan all] = the statements of [dir] in order.

    [St c D k a has e] (CrashProofs.v): [c] is a resume state -- its table holds
    complete revisions of the first [k] files (+ a revision claiming [a]
    statements of file [k] if [has]), its journal is the plan up to position
    [pos k a + e] with repeats, repeats + [e] <= [D]. [Bd c k] = [St c 0 k 0
    false false]: a file boundary (the empty database is [Bd _ 0]: [Bd_empty]).
    [completed c D]: journal = the whole plan in order with statement i repeated
    reps[i] times, sum reps <= D; every revision Applied = Total = count.
    The theorems show each crashed state and each state after a re-run is again
    such a state, so they apply to any number of crashes and re-runs and to any
    count argument [n] of the crashed command. *)
Section Rerun.
Hypothesis hash_eqb_spec : forall a b, hash_eqb a b = true <-> a = b.
Variable dskip dir : list tfile.
Let all := map tf_file dir.
Hypothesis full_sorted : sorted_files (map tf_file dskip ++ all).
Hypothesis all_from_checkpoint : from_last_ckpt (map tf_file dskip ++ all) = all.
Hypothesis no_failing_statement : clean dir.

(** The general statement, any global mode, any valid directives, from any
    resume state: the crashed state is a resume state with at most one more
    repeat; where the crash can be seen ([crash_class]: between files / inside a
    transactional file the state the command started from or a state after whole
    further files -- only inside a file that runs WITHOUT transaction a file is
    half applied); the re-run succeeds and completes. *)
Theorem C10_rerun_completes :
  forall g (c0 : db hash) D k0 a0 has0 e0 n o c1 tr pt i d,
  valid g dir -> St hash HS dir c0 D k0 a0 has0 e0 -> normal all k0 a0 has0 ->
  apply_run hash hash_eqb HS g n (dskip ++ dir) c0 = (o, c1, tr) ->
  crash_state hash tr pt i = Some d ->
  DInv hash HS dir d (D + 1) /\
  match g with
  | TxAll => d = c0 \/ (pt = AfterCommit /\ d = c1 /\ o = ADone)
  | _ => crash_class hash HS dir g D k0 a0 has0 d
  end /\
  exists o2 c2 tr2,
    apply_run hash hash_eqb HS g 0 (dskip ++ dir) d = (o2, c2, tr2) /\
    (o2 = ADone \/ o2 = APend PNoPending) /\
    completed hash dir c2 (D + 1) /\ DInv hash HS dir c2 (D + 1) /\
    (g = TxAll \/ (exists k a has e, St hash HS dir d D k a has e) -> completed hash dir c2 D).
Proof.
  intros g c0 D k0 a0 has0 e0 n o c1 tr pt i d Hv.
  exact (crash_rerun hash hash_eqb HS hash_eqb_spec dskip dir full_sorted all_from_checkpoint
           g c0 D k0 a0 has0 e0 n o c1 tr pt i d no_failing_statement Hv).
Qed.

(** file: every file effectively in file mode (no directive, or "file"):
    wherever the process dies the database holds whole files only, and running
    `migrate apply` again ends with every statement's effect present exactly once
    and every revision complete. *)
Theorem C10_file_rerun_completes :
  forall (c0 : db hash) k0 n o c1 tr pt i d,
  (forall tf, In tf dir -> mode_for TxFile tf = Some TxFile) ->
  Bd hash HS dir c0 k0 ->
  apply_run hash hash_eqb HS TxFile n (dskip ++ dir) c0 = (o, c1, tr) ->
  crash_state hash tr pt i = Some d ->
  whole_files hash HS dir d /\
  exists o2 c2 tr2,
    apply_run hash hash_eqb HS TxFile 0 (dskip ++ dir) d = (o2, c2, tr2) /\
    (o2 = ADone \/ o2 = APend PNoPending) /\
    completed hash dir c2 0 /\ d_journal c2 = map snd (plan all).
Proof.
  intros c0 k0 n o c1 tr pt i d.
  exact (file_crash_rerun hash hash_eqb HS hash_eqb_spec dskip dir full_sorted all_from_checkpoint
           c0 k0 n o c1 tr pt i d no_failing_statement).
Qed.

(** all: a crash leaves the state before the command or (after the final commit)
    its final state; the re-run completes exactly once. *)
Theorem C10_all_rerun_completes :
  forall (c0 : db hash) k0 n o c1 tr pt i d,
  valid TxAll dir -> Bd hash HS dir c0 k0 ->
  apply_run hash hash_eqb HS TxAll n (dskip ++ dir) c0 = (o, c1, tr) ->
  crash_state hash tr pt i = Some d ->
  (d = c0 \/ (pt = AfterCommit /\ d = c1 /\ o = ADone)) /\
  exists o2 c2 tr2,
    apply_run hash hash_eqb HS TxAll 0 (dskip ++ dir) d = (o2, c2, tr2) /\
    (o2 = ADone \/ o2 = APend PNoPending) /\
    completed hash dir c2 0 /\ d_journal c2 = map snd (plan all).
Proof.
  intros c0 k0 n o c1 tr pt i d.
  exact (all_crash_rerun hash hash_eqb HS hash_eqb_spec dskip dir full_sorted all_from_checkpoint
           c0 k0 n o c1 tr pt i d no_failing_statement).
Qed.

(** none or file with per-file directives (each file in its effective mode):
    the crashed state holds whole files only, or the crash happened inside file
    [j] whose effective mode is none (only such a file can be half applied); the
    re-run completes with at most the one statement in flight executed twice, and
    exactly once if the crashed state holds whole files. In particular for
    --tx-mode none without directives: no statement lost, at most one repeated. *)
Theorem C10_none_rerun_completes :
  forall g (c0 : db hash) k0 n o c1 tr pt i d,
  g <> TxAll -> valid g dir -> Bd hash HS dir c0 k0 ->
  apply_run hash hash_eqb HS g n (dskip ++ dir) c0 = (o, c1, tr) ->
  crash_state hash tr pt i = Some d ->
  (whole_files hash HS dir d \/
   (exists j tf a has e, nth_error dir j = Some tf /\ mode_for g tf = Some TxNone /\
                         St hash HS dir d 1 j a has e)) /\
  exists o2 c2 tr2,
    apply_run hash hash_eqb HS g 0 (dskip ++ dir) d = (o2, c2, tr2) /\
    (o2 = ADone \/ o2 = APend PNoPending) /\ completed hash dir c2 1 /\
    (whole_files hash HS dir d -> completed hash dir c2 0 /\ d_journal c2 = map snd (plan all)).
Proof.
  intros g c0 k0 n o c1 tr pt i d Hg.
  exact (mixed_crash_rerun hash hash_eqb HS hash_eqb_spec dskip dir full_sorted all_from_checkpoint
           g c0 k0 n o c1 tr pt i d Hg no_failing_statement).
Qed.

(** The revision table never records a statement whose effect is not in the
    database: in every crashed state, in every mode, with any valid directives,
    the table claims exactly the plan up to a position [P], the journal holds the
    plan up to [E] (with at most one repeat) and [P <= E <= P + 1]. *)
Theorem C10_rev_sound :
  forall g (c0 : db hash) k0 n o c1 tr pt i d,
  valid g dir -> Bd hash HS dir c0 k0 ->
  apply_run hash hash_eqb HS g n (dskip ++ dir) c0 = (o, c1, tr) ->
  crash_state hash tr pt i = Some d ->
  exists P E reps,
    P <= E /\ E <= P + 1 /\ E <= length (plan all) /\ length reps = E /\ list_sum reps <= 1 /\
    d_journal d = map snd (expand (firstn E (plan all)) reps) /\
    claimed_plan hash all (d_tbl d) = firstn P (plan all).
Proof.
  intros g c0 k0 n o c1 tr pt i d.
  exact (rev_sound_lemma hash hash_eqb HS hash_eqb_spec dskip dir full_sorted all_from_checkpoint
           g c0 k0 n o c1 tr pt i d no_failing_statement).
Qed.

End Rerun.

End C10.


(** ** The store contract the crash model relies on (round 4; Exec/StoreModel.v:
    EntRevisions.WriteRevision / ReadRevision, Executor.Execute's read). *)
Section C10store.
Variable hash : Type.
Variable hash_eqb : hash -> hash -> bool.
Variable HS : bytes -> hash.

(** A write is an upsert that overwrites EVERY field: reading the version back
    returns exactly the row written (applied, total, partial hashes, error, type)
    and no other row changes. *)
Theorem C10_store_upsert_overwrites :
  forall (t : list (rev hash)) r t',
  write_revision hash t r false = Some t' ->
  read_revision hash t' (r_version r) false = RRow hash r /\
  (forall v, v <> r_version r -> read_revision hash t' v false = read_revision hash t v false).
Proof. exact (store_write_read hash). Qed.

(** A read returns the exact row or "does not exist" -- and "does not exist" only
    when there is no row; an error of the storage is an error. *)
Theorem C10_store_read_exact :
  forall (t : list (rev hash)) v,
  match read_revision hash t v false with
  | RRow _ r => tbl_get t v = Some r
  | RNotExist _ => tbl_get t v = None
  | RErr _ => False
  end /\ read_revision hash t v true = RErr hash.
Proof. exact (fun t v => conj (store_read_exact hash t v) eq_refl). Qed.

(** Execute over the store: a failing read of the file's row executes nothing and
    writes nothing; otherwise it is the [execute] of every other theorem. *)
Theorem C10_store_read_error_runs_nothing :
  forall f (t : list (rev hash)) fs,
  execute_st hash hash_eqb HS f t true fs = (XRead, t, fs, []) /\
  execute_st hash hash_eqb HS f t false fs =
  (let '(o, t', fs', es) := execute hash hash_eqb HS f t fs in (XExec o, t', fs', es)).
Proof. exact (fun f t fs => conj (execute_st_read_error hash hash_eqb HS f t fs) (execute_st_ok hash hash_eqb HS f t fs)). Qed.

(** A refused revision write is a crash right before it: when Execute ends with a
    write error (any file, table, fault stream) every event before the refused write
    succeeded, nothing follows it, and without a transaction the state left is the
    state the LAST crash point of the run shows, which is a before-write point. So
    every theorem about crashed states (C10_none_rerun_completes, C10_rev_sound, ...)
    covers the state a storage fault leaves. *)
Theorem C10_store_write_fault_is_crash :
  forall f (c : db hash) fs t' fs' es,
  execute hash hash_eqb HS f (d_tbl c) fs = (OWriteErr, t', fs', es) ->
  (exists es0 x, es = es0 ++ [EWrite x false] /\ Forall (fun e => event_ok hash e = true) es0) /\
  forall c' tr, run_direct hash es c = (c', tr) -> exists tr0, tr = tr0 ++ [(BeforeWrite, c')].
Proof.
  exact (fun f c fs t' fs' es H =>
    conj (execute_write_err hash hash_eqb HS f (d_tbl c) fs t' fs' es H)
         (write_fault_is_crash hash hash_eqb HS f c fs t' fs' es H)).
Qed.

End C10store.

Print Assumptions C10_all_atomic.
Print Assumptions C10_file_never_half_applied.
Print Assumptions C10_none_prefix.
Print Assumptions C10_rerun_completes.
Print Assumptions C10_file_rerun_completes.
Print Assumptions C10_all_rerun_completes.
Print Assumptions C10_none_rerun_completes.
Print Assumptions C10_rev_sound.
Print Assumptions C10_store_upsert_overwrites.
Print Assumptions C10_store_read_exact.
Print Assumptions C10_store_read_error_runs_nothing.
Print Assumptions C10_store_write_fault_is_crash.

Definition s (n : N) : bytes := [40%N; n; 41%N].
Definition ex_dir : list tfile :=
  [ mkTfile (mkFile [49%N] [s 1; s 2] false) None None;
    mkTfile (mkFile [50%N] [s 3] false) None None ].
Definition ex_db0 : db bytes := mkDb [] [].

(** Non-vacuity: the crash points exist and the states are what the theorems say. *)
Example C10_file_crash_nonvacuous :
  let '(_, _, tr) := apply_run bytes bytes_eqb (fun b => b) TxFile 0 ex_dir ex_db0 in
  option_map (@d_journal bytes) (crash_state bytes tr AfterExec 3) = Some [s 1; s 2] /\
  option_map (@d_journal bytes) (crash_state bytes tr BeforeCommit 1) = Some [] /\
  option_map (@d_journal bytes) (crash_state bytes tr AfterCommit 2) = Some [s 1; s 2; s 3].
Proof. vm_compute. repeat split; reflexivity. Qed.

Example C10_none_crash_nonvacuous :
  let '(_, _, tr) := apply_run bytes bytes_eqb (fun b => b) TxNone 0 ex_dir ex_db0 in
  option_map (@d_journal bytes) (crash_state bytes tr AfterExec 2) = Some [s 1; s 2] /\
  option_map (@d_journal bytes) (crash_state bytes tr BeforeExec 2) = Some [s 1].
Proof. vm_compute. repeat split; reflexivity. Qed.

(** Non-vacuity of the re-run theorems: the example directory meets the
    hypotheses, the empty database is a file boundary, and a crash after the
    third statement in none mode followed by the re-run executes it twice. *)
Example C10_rerun_hyps_nonvacuous :
  sorted_files (map tf_file [] ++ map tf_file ex_dir) /\
  from_last_ckpt (map tf_file [] ++ map tf_file ex_dir) = map tf_file ex_dir /\
  valid TxNone ex_dir /\ valid TxFile ex_dir /\ valid TxAll ex_dir /\ clean ex_dir /\
  Bd bytes (fun b => b) ex_dir ex_db0 0.
Proof.
  split; [unfold sorted_files, fver_lt; repeat constructor|]. split; [reflexivity|].
  split; [intros f [<-|[<-|[]]]; discriminate|]. split; [intros f [<-|[<-|[]]]; discriminate|].
  split; [intros f [<-|[<-|[]]]; discriminate|].
  split; [intros f [<-|[<-|[]]]; reflexivity|].
  apply Bd_empty.
Qed.

Example C10_none_rerun_nonvacuous :
  let '(_, _, tr) := apply_run bytes bytes_eqb (fun b => b) TxNone 0 ex_dir ex_db0 in
  match crash_state bytes tr AfterExec 3 with
  | Some d =>
      d_journal d = [s 1; s 2; s 3] /\
      map (fun r => (r_applied r, r_total r)) (d_tbl d) = [(2, 2); (0, 1)] /\
      let '(o2, c2, _) := apply_run bytes bytes_eqb (fun b => b) TxNone 0 ex_dir d in
      o2 = ADone /\ d_journal c2 = [s 1; s 2; s 3; s 3]
  | None => False
  end.
Proof. vm_compute. repeat split; reflexivity. Qed.

Example C10_file_rerun_nonvacuous :
  let '(_, _, tr) := apply_run bytes bytes_eqb (fun b => b) TxFile 0 ex_dir ex_db0 in
  match crash_state bytes tr AfterExec 3 with
  | Some d =>
      d_journal d = [s 1; s 2] /\
      let '(o2, c2, _) := apply_run bytes bytes_eqb (fun b => b) TxFile 0 ex_dir d in
      o2 = ADone /\ d_journal c2 = [s 1; s 2; s 3]
  | None => False
  end.
Proof. vm_compute. repeat split; reflexivity. Qed.

(** a directory with two checkpoint files and a `txmode none` directive on the
    last checkpoint under --tx-mode file: a fresh database starts at file 3; a
    crash after its first statement leaves that file (the one without
    transaction) half applied; the re-run repeats nothing and goes on with file 4. *)
Definition ck_skip : list tfile :=
  [ mkTfile (mkFile [49%N] [s 1] true) None None; mkTfile (mkFile [50%N] [s 2] false) None None ].
Definition ck_dir : list tfile :=
  [ mkTfile (mkFile [51%N] [s 3; s 4] true) (Some (Some TxNone)) None; mkTfile (mkFile [52%N] [s 5] false) None None ].
Example C10_checkpoint_directive_nonvacuous :
  sorted_files (map tf_file ck_skip ++ map tf_file ck_dir) /\
  from_last_ckpt (map tf_file ck_skip ++ map tf_file ck_dir) = map tf_file ck_dir /\
  valid TxFile ck_dir /\ clean ck_dir /\
  let '(_, _, tr) := apply_run bytes bytes_eqb (fun b => b) TxFile 0 (ck_skip ++ ck_dir) ex_db0 in
  match crash_state bytes tr AfterWrite 2 with
  | Some d =>
      d_journal d = [s 3] /\
      let '(o2, c2, _) := apply_run bytes bytes_eqb (fun b => b) TxFile 0 (ck_skip ++ ck_dir) d in
      o2 = ADone /\ d_journal c2 = [s 3; s 4; s 5]
  | None => False
  end.
Proof.
  split; [unfold sorted_files, fver_lt; repeat constructor|]. split; [reflexivity|].
  split; [intros f [<-|[<-|[]]]; discriminate|]. split; [intros f [<-|[<-|[]]]; reflexivity|].
  vm_compute. repeat split; reflexivity.
Qed.

(** Store contract, non-vacuity: a 2-statement file whose second progress write is
    refused (fault stream: started ok, exec ok, write ok, exec ok, write REFUSED). *)
Example C10_store_write_fault_nonvacuous :
  let f := mkFile [49%N] [s 1; s 2] false in
  let '(o, t', _, es) := execute bytes bytes_eqb (fun b => b) f [] [false; false; false; false; true] in
  o = OWriteErr /\ length es = 5 /\
  let '(c', tr) := run_direct bytes es (mkDb [] []) in
  d_journal c' = [s 1; s 2] /\ map (@r_applied bytes) (d_tbl c') = [1] /\
  crash_state bytes tr BeforeWrite 3 = Some c'.
Proof. vm_compute. repeat split; reflexivity. Qed.

(** ** Round 5: the migration lock (Exec/LockModel.v: sql/sqlite/driver.go Driver.Lock / acquireLock,
    cmdapi/migrate_oss.go migrateApplyRun: Lock before anything else, deferred unlock).

    The lock is a file in the temp directory holding the expiry time now + --lock-timeout;
    it survives the death of the process. Full statements wanted by the property:
    (1) after a crash at ANY point, re-running the command completes the migration;
    (2) two concurrent `migrate apply` on one database never interleave.
    Both are false of the code (refutation witnesses below, reproduced on the real CLI);
    what does hold is proved as the [_except] theorems. *)
Section C10lock.
Variable hash : Type.
Variable hash_eqb : hash -> hash -> bool.
Variable HS : bytes -> hash.

(** Mutual exclusion while the lock is valid: a process started before the expiry written in
    the lock file is refused and changes neither the database nor the lock file -- whatever
    it was asked to do, wherever it would have crashed. *)
Theorem C10_lock_excludes_while_valid :
  forall now timeout cr g n dir e (d : db hash),
  (now < e)%N ->
  locked_apply hash hash_eqb HS now timeout cr g n dir (Some (Some e), d) = (CLockTaken, (Some (Some e), d)).
Proof. exact (locked_apply_excluded hash hash_eqb HS). Qed.

(** Every process that does not get the lock (taken, or unreadable lock file) changes nothing. *)
Theorem C10_lock_refused_changes_nothing :
  forall now timeout cr g n dir l (d : db hash),
  fst (lock now timeout l) <> LAcquired ->
  (locked_apply hash hash_eqb HS now timeout cr g n dir (l, d) = (CLockTaken, (l, d)) /\ fst (lock now timeout l) = LTaken) \/
  (locked_apply hash hash_eqb HS now timeout cr g n dir (l, d) = (CLockInvalid, (l, d)) /\ l = Some None).
Proof. exact (locked_apply_blocked hash hash_eqb HS). Qed.

(** Lock release on every exit that is not a crash: the command is the apply run of the other
    theorems and leaves NO lock file, whatever the outcome (done, statement error, directive
    error, nothing pending, Pending error). *)
Theorem C10_lock_released_on_every_exit :
  forall now timeout g n dir l (d : db hash),
  fst (lock now timeout l) = LAcquired ->
  forall o d' tr, apply_run hash hash_eqb HS g n dir d = (o, d', tr) ->
  locked_apply hash hash_eqb HS now timeout CNo g n dir (l, d) = (CRan o, (None, d')).
Proof. exact (locked_apply_releases hash hash_eqb HS). Qed.

(** A crash at any crash point of the run leaves the state of the crash theorems AND the lock
    file, valid until now + timeout. *)
Theorem C10_lock_crash_leaves_stale_lock :
  forall now timeout g n dir l (d : db hash) pt k,
  fst (lock now timeout l) = LAcquired ->
  forall o d' tr dc, apply_run hash hash_eqb HS g n dir d = (o, d', tr) ->
  crash_state hash tr pt k = Some dc ->
  locked_apply hash hash_eqb HS now timeout (CAt pt k) g n dir (l, d)
  = (CCrashed, (Some (Some (now + timeout)%N), dc)).
Proof. exact (locked_apply_crash hash hash_eqb HS). Qed.

(** (1), what holds: after a crash at a crash point of the run, a re-run started before the
    dead process's lock expires is refused and changes nothing; a re-run started at or after
    the expiry is not blocked: it IS the apply run from the crashed state (to which
    C10_rerun_completes and its corollaries apply) and leaves no lock file. *)
Theorem C10_lock_rerun_not_blocked_forever_except :
  forall now timeout (dc : db hash) now' timeout' g n dir,
  ((now' < now + timeout)%N ->
     forall cr, locked_apply hash hash_eqb HS now' timeout' cr g n dir (Some (Some (now + timeout)%N), dc)
                = (CLockTaken, (Some (Some (now + timeout)%N), dc))) /\
  ((now + timeout <= now')%N ->
     forall o d' tr, apply_run hash hash_eqb HS g n dir dc = (o, d', tr) ->
     locked_apply hash hash_eqb HS now' timeout' CNo g n dir (Some (Some (now + timeout)%N), dc) = (CRan o, (None, d'))).
Proof. exact (rerun_after_crash hash hash_eqb HS). Qed.

(** (1) refuted at full strength ("after a crash at any point a re-run completes"): a process
    that dies inside acquireLock, between os.Create and the write of the expiry (or whose write
    fails), leaves an EMPTY lock file; every later process -- at any time, with any
    --lock-timeout, any arguments -- is refused with "invalid lock file format" and changes nothing. *)
Theorem C10_lock_rerun_refuted :
  exists cr, forall now timeout g n dir (d : db hash),
  exists l', locked_apply hash hash_eqb HS now timeout cr g n dir (None, d) = (CCrashed, (l', d)) /\
  forall now' timeout' cr' g' n' dir',
    locked_apply hash hash_eqb HS now' timeout' cr' g' n' dir' (l', d) = (CLockInvalid, (l', d)).
Proof.
  exists CInAcquire. intros now timeout g n dir d. exists (Some None).
  exact (crash_in_acquire_blocks_forever hash hash_eqb HS now timeout g n dir None d eq_refl).
Qed.

(** (2), what holds: a second process started while the first one's lock is valid
    (tB < tA + TA) is refused, and the result is the first process's run alone. *)
Theorem C10_lock_concurrent_except :
  forall tA TA tB TB pt k n dir (d0 : db hash) o dA tr dc,
  (tB < tA + TA)%N ->
  apply_run hash hash_eqb HS TxNone n dir d0 = (o, dA, tr) ->
  crash_state hash tr pt k = Some dc ->
  concurrent_apply hash hash_eqb HS tA TA tB TB pt k n dir d0 = Some (CRan o, CLockTaken, (None, dA)).
Proof. exact (concurrent_excluded hash hash_eqb HS). Qed.

(** ... and the exact behaviour once the lock has expired while its holder is still running:
    the second process is a whole apply run from what the first has committed so far, the
    first continues blindly, and its unlock fails. *)
Theorem C10_lock_concurrent_expired :
  forall tA TA tB TB pt k n dir (d0 : db hash) o dA tr dc oB dB trB,
  (tA + TA <= tB)%N ->
  apply_run hash hash_eqb HS TxNone n dir d0 = (o, dA, tr) ->
  crash_state hash tr pt k = Some dc ->
  apply_run hash hash_eqb HS TxNone n dir dc = (oB, dB, trB) ->
  concurrent_apply hash hash_eqb HS tA TA tB TB pt k n dir d0
  = Some (CUnlockErr o, CRan oB, (None, interleave_none hash dA dc dB)).
Proof. exact (concurrent_expired hash hash_eqb HS). Qed.

End C10lock.

(** (2) refuted at full strength ("two concurrent `migrate apply` never interleave": the second
    is refused or runs after the first, every statement once): the lock's life time is
    --lock-timeout (default 10 s), not the life time of its holder. Witness: directory
    1 = [s1; s2], 2 = [s3], tx-mode none; A starts at 0 with timeout 1 and is suspended before
    its second statement; B starts at 5: it is NOT refused, runs s2 and s3; A resumes and runs
    s2 and s3 again; A's unlock fails (B removed the file). *)
Theorem C10_lock_concurrent_refuted :
  exists tA TA tB TB pt k n dir (d0 : db bytes) oA oB d,
  concurrent_apply bytes bytes_eqb (fun b => b) tA TA tB TB pt k n dir d0 = Some (oA, CRan oB, (None, d)) /\
  oA = CUnlockErr ADone /\ oB = ADone /\ ~ NoDup (d_journal d).
Proof.
  exists 0%N, 1%N, 5%N, 1%N, BeforeExec, 2, 0, ex_dir, ex_db0.
  eexists. eexists. eexists. split; [vm_compute; reflexivity|].
  split; [reflexivity|]. split; [reflexivity|].
  intro H. cbn in H. inversion H as [|x l _ H2]. inversion H2 as [|y l2 Hn _]. apply Hn. right. left. reflexivity.
Qed.

(** (1) also refuted for crash points of the run when the re-run comes BEFORE the dead process's lock
    expires (the known finding C10-stale-lock-after-crash): killed after the first statement at
    time 0 with a timeout of 3600000, re-run at 1000: refused, nothing changes, the migration is not completed. *)
Theorem C10_lock_rerun_stale_refuted :
  exists now timeout pt k g n dir (d0 : db bytes) now' s1,
  locked_apply bytes bytes_eqb (fun b => b) now timeout (CAt pt k) g n dir (None, d0) = (CCrashed, s1) /\
  (now < now')%N /\
  locked_apply bytes bytes_eqb (fun b => b) now' timeout CNo g n dir s1 = (CLockTaken, s1) /\
  d_journal (snd s1) = [s 1].
Proof.
  exists 0%N, 3600000%N, AfterExec, 1, TxNone, 0, ex_dir, ex_db0, 1000%N.
  eexists. split; [vm_compute; reflexivity|]. split; [reflexivity|]. split; vm_compute; reflexivity.
Qed.
Print Assumptions C10_lock_rerun_stale_refuted.
Print Assumptions C10_lock_excludes_while_valid.
Print Assumptions C10_lock_refused_changes_nothing.
Print Assumptions C10_lock_released_on_every_exit.
Print Assumptions C10_lock_crash_leaves_stale_lock.
Print Assumptions C10_lock_rerun_not_blocked_forever_except.
Print Assumptions C10_lock_rerun_refuted.
Print Assumptions C10_lock_concurrent_except.
Print Assumptions C10_lock_concurrent_expired.
Print Assumptions C10_lock_concurrent_refuted.

(** Non-vacuity: a crash after the 2nd statement (tx-mode none, started at 100 with timeout
    10000) leaves the lock file valid until 10100; the re-run at 200 is refused, the one at
    10100 completes and removes the file; an unkilled run leaves no file; a second process at
    50 while the first (timeout 100) is suspended is refused. *)
Example C10_lock_nonvacuous :
  let run := locked_apply bytes bytes_eqb (fun b => b) in
  let '(o1, s1) := run 100%N 10000%N (CAt AfterExec 2) TxNone 0 ex_dir (None, ex_db0) in
  o1 = CCrashed /\ fst s1 = Some (Some 10100%N) /\ d_journal (snd s1) = [s 1; s 2] /\
  run 200%N 10000%N CNo TxNone 0 ex_dir s1 = (CLockTaken, s1) /\
  (let '(o3, s3) := run 10100%N 10000%N CNo TxNone 0 ex_dir s1 in
   o3 = CRan ADone /\ fst s3 = None /\ d_journal (snd s3) = [s 1; s 2; s 2; s 3]) /\
  fst (snd (run 0%N 5%N CNo TxFile 0 ex_dir (None, ex_db0))) = None /\
  fst (run 0%N 5%N CInAcquire TxFile 0 ex_dir (None, ex_db0)) = CCrashed /\
  (match concurrent_apply bytes bytes_eqb (fun b => b) 0%N 100%N 50%N 100%N BeforeExec 2 0 ex_dir ex_db0 with
   | Some (oA, oB, (l, d)) => oA = CRan ADone /\ oB = CLockTaken /\ l = None /\ d_journal d = [s 1; s 2; s 3]
   | None => False end).
Proof. vm_compute. repeat split; reflexivity. Qed.

(** ** Round 5: --exec-order (Exec/TxOrderModel.v: the command with the order Pending uses as a parameter) *)
Section C10order.
Variable hash : Type.
Variable hash_eqb : hash -> hash -> bool.
Variable HS : bytes -> hash.

(** With the default order the command is the [apply_run] of all theorems above. *)
Theorem C10_order_linear_is_apply_run :
  forall g n dir (c : db hash),
  apply_run_ord hash hash_eqb HS Linear g n dir c = apply_run hash hash_eqb HS g n dir c.
Proof. exact (apply_run_ord_linear hash hash_eqb HS). Qed.

(** For EVERY execution order the command either stops in Pending (nothing touched, no crash
    point) or is the loop of migrateApplyRun over files of the directory -- those Pending chose
    under that order, cut to the count -- from the state it found, plus the final commit of an
    open `all` transaction: the crashed-state theorems stated on the loop
    (C10_file_never_half_applied, C10_none_prefix via run_direct) hold for linear-skip and
    non-linear as they are. NOT proved for these orders (partial): that the re-run completes
    (C10_rerun_completes assumes the linear resume invariant); tied on the real CLI instead. *)
Theorem C10_order_run_is_loop_partial :
  forall ord g n dir (c : db hash) o c' tr,
  apply_run_ord hash hash_eqb HS ord g n dir c = (o, c', tr) ->
  (exists p, o = APend p /\ c' = c /\ tr = [] /\
             fst (pending (mkCfg ord None true true) (map tf_file dir) (read_revisions hash (d_tbl c))) = p /\
             forall fs, p <> PFiles fs) \/
  (exists ps files o1 c1 w tr1,
     fst (pending (mkCfg ord None true true) (map tf_file dir) (read_revisions hash (d_tbl c))) = PFiles ps /\
     files = chosen_tfiles dir (if 0 <? n then firstn n ps else ps) /\ incl files dir /\
     apply_loop hash hash_eqb HS g files c None = (o1, c1, w, tr1) /\
     ((o1 = ADone /\ exists wd, w = Some wd /\ o = ADone /\ c' = wd /\
                                tr = tr1 ++ [(BeforeCommit, c1); (AfterCommit, wd)]) \/
      ((o1 <> ADone \/ w = None) /\ o = o1 /\ c' = c1 /\ tr = tr1))).
Proof. exact (apply_run_ord_is_loop hash hash_eqb HS). Qed.

End C10order.
Print Assumptions C10_order_linear_is_apply_run.
Print Assumptions C10_order_run_is_loop_partial.

(** Non-vacuity (the scenario of the c10ord cases): 1 and 3 applied, the older file 2 (three
    statements) and 4 added; non-linear, tx-mode none, killed after the 2nd statement of file 2:
    its revision is partial (1 of 3) without error; the re-run resumes it at statement 2 (the
    one in flight runs twice) and goes on with 4; linear-skip never runs file 2. *)
Definition ord_dir0 : list tfile :=
  [ mkTfile (mkFile [49%N] [s 1] false) None None; mkTfile (mkFile [51%N] [s 2] false) None None ].
Definition ord_dir : list tfile :=
  [ mkTfile (mkFile [49%N] [s 1] false) None None; mkTfile (mkFile [50%N] [s 3; s 4; s 5] false) None None;
    mkTfile (mkFile [51%N] [s 2] false) None None; mkTfile (mkFile [52%N] [s 6] false) None None ].
Example C10_order_nonvacuous :
  let '(_, d0, _) := apply_run bytes bytes_eqb (fun b => b) TxNone 0 ord_dir0 ex_db0 in
  let '(_, _, tr) := apply_run_ord bytes bytes_eqb (fun b => b) NonLinear TxNone 0 ord_dir d0 in
  match crash_state bytes tr AfterExec 2 with
  | Some d =>
      d_journal d = [s 1; s 2; s 3; s 4] /\
      map (fun r => (r_applied r, r_total r, r_err r)) (read_revisions bytes (d_tbl d)) = [(1, 1, false); (1, 3, false); (1, 1, false)] /\
      (let '(o2, c2, _) := apply_run_ord bytes bytes_eqb (fun b => b) NonLinear TxNone 0 ord_dir d in
       o2 = ADone /\ d_journal c2 = [s 1; s 2; s 3; s 4; s 4; s 5; s 6]) /\
      (let '(o3, c3, _) := apply_run_ord bytes bytes_eqb (fun b => b) LinearSkip TxNone 0 ord_dir d0 in
       o3 = ADone /\ d_journal c3 = [s 1; s 2; s 6])
  | None => False
  end.
Proof. vm_compute. repeat split; reflexivity. Qed.

(** ** Round 5: census of the crash hooks. gen/Gen_CrashPoints.v is regenerated on every run from
    the Go tree (every call verifPoint("<name>") outside test files). The model's crash-point
    type is enumerated by [all_points]; [point_name] (extracted, used by the driver to print and
    parse points) is injective; every hook call of the tree names a point of the model, and every
    point of the model is a hook call of the tree. A hook added to the tree without a point in
    the model (or a point removed from the tree) breaks this theorem. The finite side conditions
    over the generated list are checked by computation. *)
Theorem C10_crashpoints_covered :
  (forall p : point, In p all_points) /\
  (forall p : point, point_of_name (point_name p) = Some p) /\
  hooks_covered gen_crash_points = true /\
  points_hooked gen_crash_points = true.
Proof.
  split; [intros []; cbn; tauto|]. split; [intros []; reflexivity|].
  split; vm_compute; reflexivity.
Qed.
Print Assumptions C10_crashpoints_covered.

Example C10_crashpoints_nonvacuous :
  List.length gen_crash_points = 6 /\ hooks_covered example_unknown_hook = false /\
  points_hooked (tl gen_crash_points) = false.
Proof. vm_compute. repeat split; reflexivity. Qed.
