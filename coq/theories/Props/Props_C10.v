(** C10 -- `migrate apply` is crash-consistent at every point, per transaction
    mode (model M-TX: the run emits a trace of crash points, each paired with
    the committed state a crash at that instant leaves). Engine assumption
    (trusted base): transactions are atomic, and durable once Commit returned. *)
From Coq Require Import List NArith Bool Arith.
From Atlas Require Import Base.Bytes Exec.ExecModel Exec.PendingModel Exec.RunModel Exec.TxModel Exec.TxProofs.
Import ListNotations.

Section C10.
Variable hash : Type.
Variable hash_eqb : hash -> hash -> bool.
Variable HS : bytes -> hash.

(** all: a crash at any point leaves either the state before the command or
    (only at the point after the final commit of a successful run) its final
    state -- all or nothing. *)
Theorem C10_all_atomic :
  forall (n : nat) (dir : list tfile) (c : db hash) o c' tr pt k d,
  apply_run hash hash_eqb HS TxAll n dir c = (o, c', tr) ->
  crash_state hash tr pt k = Some d ->
  d = c \/ (pt = AfterCommit /\ d = c' /\ o = ADone).
Proof.
  intros n dir c o c' tr pt k d H Hc.
  destruct (apply_run_all_atomic hash hash_eqb HS n dir c o c' tr H) as [_ Ht].
  apply Ht. eapply crash_state_in; eauto.
Qed.

(** file: a crash at any point leaves the state after a whole number of
    files -- never a half applied file. *)
Theorem C10_file_never_half_applied :
  forall (files : list tfile) (c : db hash),
  no_directive files ->
  forall o c' w' tr pt k d,
  apply_loop hash hash_eqb HS TxFile files c None = (o, c', w', tr) ->
  crash_state hash tr pt k = Some d ->
  exists j, j <= length files /\ d = boundary hash hash_eqb HS files c j.
Proof.
  intros files c Hnd o c' w' tr pt k d H Hc.
  destruct (apply_loop_file hash hash_eqb HS files c Hnd o c' w' tr H) as (_ & _ & Ht).
  eapply Ht. eapply crash_state_in; eauto.
Qed.

(** none: a crash at any point leaves the effects of a prefix of the events
    (statements and revision writes in the order they were issued): nothing
    issued before the crash is lost, nothing later is present. *)
Theorem C10_none_prefix :
  forall (es : list (event hash)) (c : db hash) pt k d,
  crash_state hash (snd (run_direct hash es c)) pt k = Some d ->
  exists n, n <= length es /\ d = db_of_events hash (firstn n es) c.
Proof.
  intros es c pt k d Hc.
  destruct (run_direct_spec hash es c) as [_ Ht].
  eapply Ht. eapply crash_state_in; eauto.
Qed.

End C10.

Print Assumptions C10_all_atomic.
Print Assumptions C10_file_never_half_applied.
Print Assumptions C10_none_prefix.

Definition s (n : N) : bytes := [40%N; n; 41%N].
Definition ex_dir : list tfile :=
  [ mkTfile (mkFile [49%N] [s 1; s 2] false) None None;
    mkTfile (mkFile [50%N] [s 3] false) None None ].
Definition ex_db0 : db bytes := mkDb [] [].

(** Non-vacuity: the crash points exist and the states are what the theorems say. *)
Example C10_file_crash_nonvacuous :
  let '(_, _, tr) := apply_run bytes bytes_eqb (fun b => b) TxFile 0 ex_dir ex_db0 in
  option_map (@d_journal bytes) (crash_state bytes tr AfterExec 3) = Some [s 1; s 2] /\
  option_map (@d_journal bytes) (crash_state bytes tr BeforeCommit 1) = Some [] /\
  option_map (@d_journal bytes) (crash_state bytes tr AfterCommit 2) = Some [s 1; s 2; s 3].
Proof. vm_compute. repeat split; reflexivity. Qed.

Example C10_none_crash_nonvacuous :
  let '(_, _, tr) := apply_run bytes bytes_eqb (fun b => b) TxNone 0 ex_dir ex_db0 in
  option_map (@d_journal bytes) (crash_state bytes tr AfterExec 2) = Some [s 1; s 2] /\
  option_map (@d_journal bytes) (crash_state bytes tr BeforeExec 2) = Some [s 1].
Proof. vm_compute. repeat split; reflexivity. Qed.
