(** Types of the generated package-level state census (gen/Gen_PkgState.v, C20 round 5).
    One [pkg_var] per package-level [var] whose type is a map, a slice, a pointer, a type of package
    sync / sync/atomic, or a struct holding one of those, in the non-test files (build tag verif) of
    sql/mysql, sql/mysql/internal/mysqlversion, sql/postgres, sql/sqlite, sql/internal/sqlx,
    sql/internal/specutil, sql/migrate, schemahcl and cmd/atlas/internal/cmdapi; written by
    [h_det -mode census] (harness/cmd/det/pkgstate.go).  No proofs here. *)
From Coq Require Import String List Bool.
Import ListNotations.

(** - [Immutable] nothing in the package writes the variable after its declaration, outside func init():
                  no assignment to it / to an element / to a field, no incdec, delete, clear, copy, no
                  address taken, no pointer-receiver method called on it (Do, Store, Lock, ...);
    - [Mutable]   anything else: the variable is (or may be) written at run time, so that what one
                  differ / planner of the process does can be seen by the next one. *)
Inductive pvclass := Immutable | Mutable.

Record pkg_var := PV {
  pv_file  : string;     (* path relative to the repository root *)
  pv_name  : string;     (* the variable *)
  pv_kind  : string;     (* map | slice | pointer | sync.Once ... | struct (documentation only) *)
  pv_class : pvclass     (* the type cannot be called pv_class too *)
}.

Definition is_mutable (v : pkg_var) : bool :=
  match pv_class v with Mutable => true | Immutable => false end.

(** Same variable: same file and name (the kind is documentation). *)
Definition same_var (a b : pkg_var) : bool :=
  String.eqb (pv_file a) (pv_file b) && String.eqb (pv_name a) (pv_name b).

(** Every [Mutable] census entry is in the table of variables the history stage exercises, and every
    row of that table is a [Mutable] entry of the census (a variable that disappears or becomes
    [Immutable] makes the row stale). *)
Definition pkgstate_covered (census exercised : list pkg_var) : bool :=
  forallb (fun v => negb (is_mutable v) || existsb (same_var v) exercised) census
  && forallb (fun e => existsb (fun v => same_var v e && is_mutable v) census) exercised.
