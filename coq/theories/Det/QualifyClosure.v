(** C20 fix round -- specutil.QualifyObjects AFTER fix C20-qualify-pass3-not-closed: the last loop records
    the schema of every object it qualifies as a qualifier and repeats until nothing changes.

      for changed := true; changed; {
        changed = false
        for _, v := range specs {
          if v.QualifierLabel() == "" && schemas[v.Label()] {
            v.SetQualifier(schemaName)
            if !schemas[schemaName] { schemas[schemaName] = true; changed = true } } } }

    [pass3c_step] is one iteration of the inner loop (state, changed), [pass3_closure] the outer loop
    with fuel; [pass3_closure_fuel]: fuel = S (number of objects) always ends in an unchanged round. *)
From Coq Require Import List Bool Arith Permutation Lia.
From Atlas Require Import Det.OrderModel Det.QualifyModel Det.QualifyProofs.
Import ListNotations.

Definition pass3c_step (acc : qst * bool) (o : qobj) : qst * bool :=
  match lookupq o (quals (fst acc)) with
  | Some _ => acc
  | None =>
    if memn (q_label o) (schemas (fst acc)) then
      if memn (q_schema o) (schemas (fst acc))
      then (QSt ((o, q_schema o) :: quals (fst acc)) (schemas (fst acc)), snd acc)
      else (QSt ((o, q_schema o) :: quals (fst acc)) (q_schema o :: schemas (fst acc)), true)
    else acc
  end.

Definition pass3_round (specs : list qobj) (st : qst) : qst * bool := fold_left pass3c_step specs (st, false).

Fixpoint pass3_closure (fuel : nat) (specs : list qobj) (st : qst) : qst :=
  match fuel with
  | 0 => st
  | S f => let r := pass3_round specs st in
           if snd r then pass3_closure f specs (fst r) else fst r
  end.

Definition QualifyObjects_closed_over (bl : list (nat * list (nat * list qobj))) (specs : list qobj) : list (qobj * option nat) :=
  let st := pass3_closure (S (length specs)) specs (pass2 bl qst0) in
  map (fun o => (o, lookupq o (quals st))) specs.

Definition QualifyObjects_closed_go (specs : list qobj) : list (qobj * option nat) :=
  QualifyObjects_closed_over (byLabel specs) specs.

(** the names used as qualifiers: schemas of objects with a same-named object in another schema,
    closed under "an object labelled with a qualifier makes its own schema a qualifier" *)
Inductive usedP (specs : list qobj) : nat -> Prop :=
| used_conflict o : In o specs -> conflictb specs o = true -> usedP specs (q_schema o)
| used_label o : In o specs -> usedP specs (q_label o) -> usedP specs (q_schema o).

Definition qualifiedP (specs : list qobj) (o : qobj) : Prop :=
  conflictb specs o = true \/ usedP specs (q_label o).

Section Closure.
  Variable specs : list qobj.

  Record Inv (st : qst) : Prop := {
    inv_quals : forall o q, In (o, q) (quals st) ->
      q = q_schema o /\ In q (schemas st) /\ qualifiedP specs o /\ In o specs;
    inv_schemas : forall n, In n (schemas st) -> usedP specs n;
    inv_conflict : forall o, In o specs -> conflictb specs o = true -> In (o, q_schema o) (quals st)
  }.

  Lemma step_inv acc o : In o specs -> Inv (fst acc) -> Inv (fst (pass3c_step acc o)).
  Proof.
    intros Ho [I1 I2 I3]. unfold pass3c_step.
    destruct (lookupq o (quals (fst acc))) eqn:L; [constructor; assumption|].
    destruct (memn (q_label o) (schemas (fst acc))) eqn:M; [|constructor; assumption].
    apply memn_In in M.
    assert (Q : qualifiedP specs o) by (right; apply I2; exact M).
    destruct (memn (q_schema o) (schemas (fst acc))) eqn:M2; simpl; constructor; simpl.
    - intros o' q [E|H].
      + inversion E; subst. apply memn_In in M2. auto.
      + apply I1; exact H.
    - exact I2.
    - intros o' H1 H2. right. apply I3; assumption.
    - intros o' q [E|H].
      + inversion E; subst. auto.
      + destruct (I1 _ _ H) as [? [? [? ?]]]. auto.
    - intros n [<-|H]; [|apply I2; exact H].
      apply used_label; auto.
    - intros o' H1 H2. right. apply I3; assumption.
  Qed.

  Lemma fold_inv l : incl l specs -> forall acc, Inv (fst acc) -> Inv (fst (fold_left pass3c_step l acc)).
  Proof.
    induction l as [|a r IH]; intros Hl acc H; simpl; [exact H|].
    apply IH; [intros x Hx; apply Hl; right; exact Hx|].
    apply step_inv; [apply Hl; left; reflexivity | exact H].
  Qed.

  (* monotone *)
  Lemma step_schemas_incl acc o n : In n (schemas (fst acc)) -> In n (schemas (fst (pass3c_step acc o))).
  Proof.
    unfold pass3c_step. destruct (lookupq o (quals (fst acc))); auto.
    destruct (memn (q_label o) (schemas (fst acc))); auto.
    destruct (memn (q_schema o) (schemas (fst acc))); simpl; auto.
  Qed.

  Lemma step_lookup_mono acc o x : lookupq x (quals (fst acc)) <> None -> lookupq x (quals (fst (pass3c_step acc o))) <> None.
  Proof.
    unfold pass3c_step. destruct (lookupq o (quals (fst acc))); auto.
    destruct (memn (q_label o) (schemas (fst acc))); auto.
    destruct (memn (q_schema o) (schemas (fst acc))); simpl; intros H; destruct (qobj_eqb x o); auto; discriminate.
  Qed.

  Lemma fold_lookup_mono l : forall acc x, lookupq x (quals (fst acc)) <> None ->
    lookupq x (quals (fst (fold_left pass3c_step l acc))) <> None.
  Proof.
    induction l as [|a r IH]; intros acc x H; simpl; [exact H|]. apply IH. apply step_lookup_mono; exact H.
  Qed.

  Lemma fold_schemas_incl l : forall acc n, In n (schemas (fst acc)) -> In n (schemas (fst (fold_left pass3c_step l acc))).
  Proof.
    induction l as [|a r IH]; intros acc n H; simpl; [exact H|]. apply IH. apply step_schemas_incl; exact H.
  Qed.

  Lemma step_changed_sticky acc o : snd acc = true -> snd (pass3c_step acc o) = true.
  Proof.
    unfold pass3c_step. destruct (lookupq o (quals (fst acc))); auto.
    destruct (memn (q_label o) (schemas (fst acc))); auto.
    destruct (memn (q_schema o) (schemas (fst acc))); simpl; auto.
  Qed.

  Lemma fold_changed_sticky l : forall acc, snd acc = true -> snd (fold_left pass3c_step l acc) = true.
  Proof.
    induction l as [|a r IH]; intros acc H; simpl; [exact H|]. apply IH. apply step_changed_sticky; exact H.
  Qed.

  (* an unchanged round: the set of qualifiers is as before, and every object is qualified or its
     label is not a qualifier *)
  Lemma fold_unchanged l : forall acc, snd (fold_left pass3c_step l acc) = false ->
    snd acc = false /\
    schemas (fst (fold_left pass3c_step l acc)) = schemas (fst acc) /\
    (forall o, In o l -> lookupq o (quals (fst (fold_left pass3c_step l acc))) <> None
                         \/ memn (q_label o) (schemas (fst acc)) = false).
  Proof.
    induction l as [|a r IH]; intros acc H; simpl in *.
    - split; [reflexivity + assumption|split; [reflexivity|intros o []]].
    - destruct (IH _ H) as [H1 [H2 H3]].
      assert (Hs : snd acc = false).
      { destruct (snd acc) eqn:E; auto. rewrite (step_changed_sticky acc a E) in H1. discriminate. }
      assert (Hsch : schemas (fst (pass3c_step acc a)) = schemas (fst acc) /\
                     (lookupq a (quals (fst (pass3c_step acc a))) <> None \/ memn (q_label a) (schemas (fst acc)) = false)).
      { revert H1. unfold pass3c_step.
        destruct (lookupq a (quals (fst acc))) eqn:L.
        - intros _. split; auto. left. rewrite L. discriminate.
        - destruct (memn (q_label a) (schemas (fst acc))) eqn:M; [|intros _; split; auto].
          destruct (memn (q_schema a) (schemas (fst acc))) eqn:M2; simpl.
          + intros _. split; auto. left. rewrite qobj_eqb_refl. discriminate.
          + discriminate. }
      destruct Hsch as [E1 E2].
      split; [exact Hs|]. split; [rewrite H2; exact E1|].
      intros o [<-|Ho].
      + destruct E2 as [E2|E2]; [left; apply fold_lookup_mono; exact E2 | right; exact E2].
      + destruct (H3 o Ho) as [H4|H4]; [left; exact H4 | right; rewrite <- E1; exact H4].
  Qed.

  (* a changed round adds a qualifier that is the schema of an object *)
  Lemma fold_changed l : forall acc, snd acc = false -> snd (fold_left pass3c_step l acc) = true ->
    exists o, In o l /\ ~ In (q_schema o) (schemas (fst acc)) /\ In (q_schema o) (schemas (fst (fold_left pass3c_step l acc))).
  Proof.
    induction l as [|a r IH]; intros acc H0 H; simpl in *; [congruence|].
    destruct (snd (pass3c_step acc a)) eqn:E.
    - exists a. split; [left; reflexivity|].
      revert E. unfold pass3c_step.
      destruct (lookupq a (quals (fst acc))); [congruence|].
      destruct (memn (q_label a) (schemas (fst acc))); [|congruence].
      destruct (memn (q_schema a) (schemas (fst acc))) eqn:M2; simpl; [congruence|]. intros _.
      split.
      + intros Hin. apply memn_In in Hin. congruence.
      + apply fold_schemas_incl. simpl. left; reflexivity.
    - destruct (IH _ E H) as [o [Ho [Hn Hi]]]. exists o. split; [right; exact Ho|]. split; [|exact Hi].
      intros Hin. apply Hn. apply step_schemas_incl. exact Hin.
  Qed.

  (** ** the fuel bound *)
  Definition unused (st : qst) : nat :=
    length (filter (fun o => negb (memn (q_schema o) (schemas st))) specs).

  Lemma filter_length_le {A} (f g : A -> bool) l :
    (forall x, In x l -> g x = true -> f x = true) -> length (filter g l) <= length (filter f l).
  Proof.
    induction l as [|a r IH]; intros H; simpl; [lia|].
    assert (IH' : length (filter g r) <= length (filter f r)) by (apply IH; intros; apply H; simpl; auto).
    destruct (g a) eqn:G.
    - rewrite (H a (or_introl eq_refl) G). simpl. lia.
    - destruct (f a); simpl; lia.
  Qed.

  Lemma filter_length_lt {A} (f g : A -> bool) l :
    (forall x, In x l -> g x = true -> f x = true) ->
    (exists x, In x l /\ f x = true /\ g x = false) -> length (filter g l) < length (filter f l).
  Proof.
    induction l as [|a r IH]; intros H [x [Hx [Fx Gx]]]; [destruct Hx|].
    assert (Hr : forall y, In y r -> g y = true -> f y = true) by (intros; apply H; simpl; auto).
    simpl. destruct Hx as [->|Hx].
    - rewrite Fx, Gx. simpl. pose proof (filter_length_le f g r Hr). lia.
    - assert (IH' : length (filter g r) < length (filter f r)) by (apply IH; eauto).
      destruct (g a) eqn:G.
      + rewrite (H a (or_introl eq_refl) G). simpl. lia.
      + destruct (f a); simpl; lia.
  Qed.

  Lemma round_decreases st : snd (pass3_round specs st) = true -> unused (fst (pass3_round specs st)) < unused st.
  Proof.
    intros H. unfold pass3_round in *. destruct (fold_changed specs (st, false) eq_refl H) as [o [Ho [Hn Hi]]].
    unfold unused. apply filter_length_lt.
    - intros x _ Hx. apply negb_true_iff in Hx. apply negb_true_iff.
      destruct (memn (q_schema x) (schemas st)) eqn:M; auto.
      apply memn_In in M. apply (fold_schemas_incl specs (st, false)) in M. apply memn_In in M. simpl in *. congruence.
    - exists o. split; [exact Ho|]. split.
      + apply negb_true_iff. destruct (memn (q_schema o) (schemas st)) eqn:M; auto. apply memn_In in M. contradiction.
      + apply negb_false_iff. apply memn_In. exact Hi.
  Qed.

  (* the result of the loop is the result of an unchanged round, whenever the fuel exceeds the
     number of objects whose schema is not yet a qualifier *)
  Lemma closure_ends fuel : forall st, unused st < fuel -> Inv st ->
    exists st0, Inv st0 /\ snd (pass3_round specs st0) = false /\ pass3_closure fuel specs st = fst (pass3_round specs st0).
  Proof.
    induction fuel as [|f IH]; intros st Hf HI; [lia|]. simpl.
    destruct (snd (pass3_round specs st)) eqn:E.
    - apply IH.
      + pose proof (round_decreases st E). lia.
      + apply (fold_inv specs (incl_refl _) (st, false)). exact HI.
    - exists st. auto.
  Qed.

  Lemma unused_le st : unused st <= length specs.
  Proof.
    unfold unused. generalize (fun o => negb (memn (q_schema o) (schemas st))). intros f.
    induction specs as [|a r IH]; simpl; [lia|]. destruct (f a); simpl; lia.
  Qed.

  Theorem pass3_closure_fuel st : Inv st ->
    exists st0, Inv st0 /\ snd (pass3_round specs st0) = false /\
                pass3_closure (S (length specs)) specs st = fst (pass3_round specs st0).
  Proof. intros H. apply closure_ends; [pose proof (unused_le st); lia | exact H]. Qed.

  (** ** what the final state is *)
  Lemma used_in_schemas st0 : Inv st0 -> snd (pass3_round specs st0) = false ->
    forall n, usedP specs n -> In n (schemas st0).
  Proof.
    intros HI Hs n U. induction U as [o Ho Hc|o Ho U IH].
    - destruct (inv_quals _ HI _ _ (inv_conflict _ HI o Ho Hc)) as [_ [H _]]. exact H.
    - unfold pass3_round in Hs. destruct (fold_unchanged specs (st0, false) Hs) as [_ [E H3]].
      destruct (H3 o Ho) as [H|H].
      + destruct (lookupq o (quals (fst (fold_left pass3c_step specs (st0, false))))) as [q|] eqn:L; [|congruence].
        apply lookupq_some in L.
        pose proof (fold_inv specs (incl_refl _) (st0, false) HI) as HI'.
        destruct (inv_quals _ HI' _ _ L) as [-> [Hq _]]. rewrite E in Hq. exact Hq.
      + simpl in H. apply memn_In in IH. congruence.
  Qed.

  Theorem final_lookup st0 : Inv st0 -> snd (pass3_round specs st0) = false ->
    forall o, In o specs ->
      (qualifiedP specs o -> lookupq o (quals (fst (pass3_round specs st0))) = Some (q_schema o)) /\
      (~ qualifiedP specs o -> lookupq o (quals (fst (pass3_round specs st0))) = None).
  Proof.
    intros HI Hs o Ho.
    pose proof (fold_inv specs (incl_refl _) (st0, false) HI) as HI'. fold (pass3_round specs st0) in HI'.
    assert (Some_ok : forall q, lookupq o (quals (fst (pass3_round specs st0))) = Some q -> q = q_schema o /\ qualifiedP specs o).
    { intros q L. apply lookupq_some in L. destruct (inv_quals _ HI' _ _ L) as [? [_ [? _]]]. auto. }
    split.
    - intros Q.
      assert (NN : lookupq o (quals (fst (pass3_round specs st0))) <> None).
      { destruct Q as [Hc|U].
        - intros L. apply (lookupq_none _ _ L (q_schema o)).
          apply (inv_conflict _ HI'); assumption.
        - unfold pass3_round in *. destruct (fold_unchanged specs (st0, false) Hs) as [_ [_ H3]].
          destruct (H3 o Ho) as [H|H]; [exact H|].
          simpl in H. pose proof (used_in_schemas st0 HI Hs _ U) as Hin. apply memn_In in Hin. congruence. }
      destruct (lookupq o (quals (fst (pass3_round specs st0)))) as [q|] eqn:L; [|congruence].
      destruct (Some_ok q eq_refl) as [-> _]. reflexivity.
    - intros NQ. destruct (lookupq o (quals (fst (pass3_round specs st0)))) as [q|] eqn:L; [|reflexivity].
      destruct (Some_ok q eq_refl) as [_ Q]. contradiction.
  Qed.
End Closure.

(** ** pass 2 establishes the invariant, for any order of the maps *)
Lemma pass2_inv specs bl : map_order bl (byLabel specs) -> Inv specs (pass2 bl qst0).
Proof.
  intros MO. constructor.
  - intros o q H. apply pass2_quals in H. destruct H as [[]|H].
    apply (touchedQ_map_order _ _ _ _ MO), touchedQ_byLabel in H. destruct H as [-> [Hi Hc]].
    repeat split; auto.
    + apply pass2_schemas. right. exists o. apply (touchedQ_map_order _ _ _ _ MO), touchedQ_byLabel. auto.
    + left; exact Hc.
  - intros n H. apply pass2_schemas in H. destruct H as [[]|[o H]].
    apply (touchedQ_map_order _ _ _ _ MO), touchedQ_byLabel in H. destruct H as [-> [Hi Hc]].
    apply used_conflict; assumption.
  - intros o Hi Hc. apply pass2_quals. right. apply (touchedQ_map_order _ _ _ _ MO), touchedQ_byLabel. auto.
Qed.

(** ** the result, and its independence of every order *)
Theorem QualifyObjects_closed_spec specs bl : map_order bl (byLabel specs) ->
  forall o, In o specs ->
    (qualifiedP specs o -> In (o, Some (q_schema o)) (QualifyObjects_closed_over bl specs)) /\
    (~ qualifiedP specs o -> In (o, None) (QualifyObjects_closed_over bl specs)) /\
    (forall q, In (o, q) (QualifyObjects_closed_over bl specs) ->
       (qualifiedP specs o /\ q = Some (q_schema o)) \/ (~ qualifiedP specs o /\ q = None)).
Proof.
  intros MO o Ho. unfold QualifyObjects_closed_over.
  destruct (pass3_closure_fuel specs _ (pass2_inv specs bl MO)) as [st0 [HI [Hs ->]]].
  pose proof (final_lookup specs st0 HI Hs) as F.
  split; [|split].
  - intros Q. apply in_map_iff. exists o. split; auto. f_equal. apply (F o Ho); exact Q.
  - intros Q. apply in_map_iff. exists o. split; auto. f_equal. apply (F o Ho); exact Q.
  - intros q H. apply in_map_iff in H. destruct H as [x [E Hx]]. inversion E; subst x. clear E.
    destruct (lookupq o (quals (fst (pass3_round specs st0)))) as [q'|] eqn:L.
    + left. apply lookupq_some in L.
      pose proof (fold_inv specs specs (incl_refl _) (st0, false) HI) as HI'.
      destruct (inv_quals _ _ HI' _ _ L) as [-> [_ [Q _]]]. auto.
    + right. split; auto. intros Q. destruct (F o Ho) as [F1 _]. rewrite (F1 Q) in L. discriminate.
Qed.

Lemma usedP_perm specs specs' n : Permutation specs specs' -> usedP specs n -> usedP specs' n.
Proof.
  intros P U. induction U as [o Ho Hc|o Ho U IH].
  - apply used_conflict; [eapply Permutation_in; eauto | rewrite <- (conflictb_perm _ _ o P); exact Hc].
  - apply used_label; [eapply Permutation_in; eauto | exact IH].
Qed.

Lemma qualifiedP_perm specs specs' o : Permutation specs specs' -> (qualifiedP specs o <-> qualifiedP specs' o).
Proof.
  intros P. unfold qualifiedP. rewrite (conflictb_perm _ _ o P).
  split; intros [H|H]; auto; right.
  - exact (usedP_perm _ _ _ P H).
  - exact (usedP_perm _ _ _ (Permutation_sym P) H).
Qed.

(* the whole result as a function of the final lookup *)
Theorem QualifyObjects_closed_order_independent specs specs' bl bl' :
  Permutation specs specs' ->
  map_order bl (byLabel specs) -> map_order bl' (byLabel specs') ->
  Permutation (QualifyObjects_closed_over bl specs) (QualifyObjects_closed_over bl' specs').
Proof.
  intros P M M'.
  assert (E : forall o, In o specs ->
     lookupq o (quals (pass3_closure (S (length specs)) specs (pass2 bl qst0))) =
     lookupq o (quals (pass3_closure (S (length specs')) specs' (pass2 bl' qst0)))).
  { intros o Ho.
    assert (Ho' : In o specs') by (eapply Permutation_in; eauto).
    destruct (pass3_closure_fuel specs _ (pass2_inv specs bl M)) as [st0 [HI [Hs ->]]].
    destruct (pass3_closure_fuel specs' _ (pass2_inv specs' bl' M')) as [st1 [HI1 [Hs1 ->]]].
    destruct (final_lookup specs st0 HI Hs o Ho) as [A1 A2].
    destruct (final_lookup specs' st1 HI1 Hs1 o Ho') as [B1 B2].
    destruct (lookupq o (quals (fst (pass3_round specs st0)))) as [q|] eqn:L.
    - apply lookupq_some in L.
      pose proof (fold_inv specs specs (incl_refl _) (st0, false) HI) as HI'.
      destruct (inv_quals _ _ HI' _ _ L) as [-> [_ [Q _]]].
      symmetry. apply B1. apply (qualifiedP_perm _ _ o P). exact Q.
    - symmetry. apply B2. intros Q. apply (qualifiedP_perm _ _ o P) in Q. discriminate (A1 Q). }
  unfold QualifyObjects_closed_over.
  rewrite (map_ext_in _ (fun o => (o, lookupq o (quals (pass3_closure (S (length specs')) specs' (pass2 bl' qst0))))) specs).
  - apply Permutation_map; exact P.
  - intros o Ho. rewrite (E o Ho). reflexivity.
Qed.

(* no block written with one label carries a name that another block uses as its qualifier *)
Theorem QualifyObjects_closed_unambiguous specs bl : map_order bl (byLabel specs) ->
  forall o o' q, In (o, None) (QualifyObjects_closed_over bl specs) ->
                 In (o', Some q) (QualifyObjects_closed_over bl specs) -> q_label o <> q.
Proof.
  intros MO o o' q H H' E.
  assert (Ho : In o specs) by (unfold QualifyObjects_closed_over in H; apply in_map_iff in H; destruct H as [x [Ex Hx]]; inversion Ex; subst; exact Hx).
  assert (Ho' : In o' specs) by (unfold QualifyObjects_closed_over in H'; apply in_map_iff in H'; destruct H' as [x [Ex Hx]]; inversion Ex; subst; exact Hx).
  destruct (QualifyObjects_closed_spec specs bl MO o Ho) as [_ [_ C]].
  destruct (QualifyObjects_closed_spec specs bl MO o' Ho') as [_ [_ C']].
  destruct (C _ H) as [[_ D]|[NQ _]]; [discriminate|].
  destruct (C' _ H') as [[Q D]|[_ D]]; [|discriminate]. inversion D as [Eq].
  apply NQ. right. rewrite E, Eq. destruct Q as [Hc|U]; [apply used_conflict | apply used_label]; assumption.
Qed.

(** ** QualifyReferences on the result of the fixed QualifyObjects *)
Lemma closed_in_specs specs bl o q : In (o, q) (QualifyObjects_closed_over bl specs) -> In o specs.
Proof.
  unfold QualifyObjects_closed_over. intros H. apply in_map_iff in H.
  destruct H as [x [E Hx]]. inversion E; subst. exact Hx.
Qed.

Theorem QualifyReferences_closed_ref_spec specs bl target :
  map_order bl (byLabel specs) -> In target specs ->
  (qualifiedP specs target ->
     QualifyReferences_ref (QualifyObjects_closed_over bl specs) target = RefQualified (q_schema target) (q_label target)) /\
  (~ qualifiedP specs target ->
     QualifyReferences_ref (QualifyObjects_closed_over bl specs) target = RefPlain (q_label target)).
Proof.
  intros MO Ht. destruct (QualifyObjects_closed_spec specs bl MO target Ht) as [C1 [C2 _]].
  unfold QualifyReferences_ref. split.
  - intros Q. replace (byRef_has (QualifyObjects_closed_over bl specs) (Some (q_schema target)) (q_label target)) with true; [reflexivity|].
    symmetry. apply byRef_has_iff. exists target. auto.
  - intros NQ.
    replace (byRef_has (QualifyObjects_closed_over bl specs) (Some (q_schema target)) (q_label target)) with false.
    + replace (byRef_has (QualifyObjects_closed_over bl specs) None (q_label target)) with true; [reflexivity|].
      symmetry. apply byRef_has_iff. exists target. auto.
    + symmetry. apply not_true_is_false. intros H. apply byRef_has_iff in H. destruct H as [o [Hi Hl]].
      pose proof (closed_in_specs _ _ _ _ Hi) as Ho.
      destruct (QualifyObjects_closed_spec specs bl MO o Ho) as [_ [_ C]].
      destruct (C _ Hi) as [[Q E]|[_ E]]; [|discriminate]. inversion E as [Es].
      assert (o = target) by (destruct o, target; simpl in *; subst; reflexivity). subst o. contradiction.
Qed.

Theorem QualifyReferences_closed_no_duplicate specs bl :
  map_order bl (byLabel specs) -> NoDup specs ->
  NoDup (map byRef_key (QualifyObjects_closed_over bl specs)).
Proof.
  intros MO ND.
  assert (Inj : forall a qa b qb, In (a, qa) (QualifyObjects_closed_over bl specs) -> In (b, qb) (QualifyObjects_closed_over bl specs) ->
            byRef_key (a, qa) = byRef_key (b, qb) -> a = b).
  { intros a qa b qb Ha Hb E. unfold byRef_key in E; simpl in E. inversion E as [[Eq El]].
    pose proof (closed_in_specs _ _ _ _ Ha) as Hia. pose proof (closed_in_specs _ _ _ _ Hb) as Hib.
    destruct (Nat.eq_dec (q_schema a) (q_schema b)) as [Es|Ns].
    - destruct a, b; simpl in *; subst; reflexivity.
    - exfalso.
      assert (Ca : qualifiedP specs a).
      { left. unfold conflictb. apply existsb_exists. exists b. split; auto.
        rewrite El, Nat.eqb_refl. simpl. apply negb_true_iff, Nat.eqb_neq. auto. }
      assert (Cb : qualifiedP specs b).
      { left. unfold conflictb. apply existsb_exists. exists a. split; auto.
        rewrite El, Nat.eqb_refl. simpl. apply negb_true_iff, Nat.eqb_neq. auto. }
      destruct (QualifyObjects_closed_spec specs bl MO a Hia) as [_ [_ C]].
      destruct (QualifyObjects_closed_spec specs bl MO b Hib) as [_ [_ C']].
      destruct (C _ Ha) as [[_ Ea]|[N _]]; [|contradiction].
      destruct (C' _ Hb) as [[_ Eb]|[N _]]; [|contradiction].
      congruence. }
  set (f := fun o => lookupq o (quals (pass3_closure (S (length specs)) specs (pass2 bl qst0)))).
  assert (EQ : QualifyObjects_closed_over bl specs = map (fun o => (o, f o)) specs) by reflexivity.
  rewrite EQ in Inj |- *. clearbody f. clear EQ MO. revert Inj.
  induction ND as [|x l Hx ND IH]; intros Inj; simpl; constructor.
  - intros H. apply in_map_iff in H. destruct H as [[y qy] [E Hy]].
    assert (y = x).
    { apply (Inj y qy x (f x)); simpl; auto. }
    subst y. apply in_map_iff in Hy. destruct Hy as [z [Ez Hz]]. inversion Ez; subst. contradiction.
  - apply IH. intros a qa b qb Ha Hb. apply Inj; simpl; auto.
Qed.
