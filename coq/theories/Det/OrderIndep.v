(** C20 -- what does not depend on the order in which a Go map delivers its entries.
    Models: Det/OrderModel.v.  Generic lemmas first, then one section per site. *)
From Coq Require Import List Bool Arith NArith Permutation Lia.
From Coq Require Sorting.Sorted.
From Atlas Require Import Base.Bytes Plan.SortModel Dir.DirModel Det.OrderModel.
Import ListNotations.

(** * Generic lemmas *)

(** ** folds with commuting steps *)
Lemma fold_left_perm {S E : Type} (eff : S -> E -> S) (l l' : list E) :
  Permutation l l' ->
  (forall a b s, In a l -> In b l -> eff (eff s a) b = eff (eff s b) a) ->
  forall s, fold_left eff l s = fold_left eff l' s.
Proof.
  induction 1 as [|x l l' P IH|x y l|l l1 l2 P1 IH1 P2 IH2]; intros C s; simpl.
  - reflexivity.
  - apply IH. intros a b s' Ha Hb. apply C; right; assumption.
  - f_equal. apply C; simpl; auto.
  - rewrite IH1 by exact C. apply IH2.
    intros a b s' Ha Hb. apply C; eapply Permutation_in; try eassumption; apply Permutation_sym; exact P1.
Qed.

Definition bindo {S : Type} (o : option S) (f : S -> option S) : option S :=
  match o with None => None | Some s => f s end.

Lemma foldM_perm {S E : Type} (step : S -> E -> option S) (l l' : list E) :
  Permutation l l' ->
  (forall a b s, In a l -> In b l ->
     bindo (step s a) (fun s' => step s' b) = bindo (step s b) (fun s' => step s' a)) ->
  forall s, foldM step l s = foldM step l' s.
Proof.
  induction 1 as [|x l l' P IH|x y l|l l1 l2 P1 IH1 P2 IH2]; intros C s; simpl.
  - reflexivity.
  - destruct (step s x); [|reflexivity]. apply IH. intros a b s' Ha Hb. apply C; right; assumption.
  - assert (H := C y x s (or_introl eq_refl) (or_intror (or_introl eq_refl))). unfold bindo in H.
    destruct (step s y) as [sy|], (step s x) as [sx|]; simpl in *.
    + rewrite H. reflexivity.
    + destruct (step sy x); [discriminate|reflexivity].
    + destruct (step sx y); [discriminate|reflexivity].
    + reflexivity.
  - rewrite IH1 by exact C. apply IH2.
    intros a b s' Ha Hb. apply C; eapply Permutation_in; try eassumption; apply Permutation_sym; exact P1.
Qed.

Lemma foldM_checked {S E : Type} (check : E -> bool) (eff : S -> E -> S) (l : list E) (s : S) :
  foldM (checked check eff) l s = if forallb check l then Some (fold_left eff l s) else None.
Proof.
  revert s; induction l as [|e l IH]; intros s; simpl; [reflexivity|].
  unfold checked at 1. destruct (check e); simpl; [apply IH|reflexivity].
Qed.

Lemma existsb_perm {A : Type} (f : A -> bool) (l l' : list A) :
  Permutation l l' -> existsb f l = existsb f l'.
Proof.
  induction 1; simpl; try congruence.
  - destruct (f x), (f y); reflexivity.
Qed.

Lemma forallb_perm {A : Type} (f : A -> bool) (l l' : list A) :
  Permutation l l' -> forallb f l = forallb f l'.
Proof.
  induction 1; simpl; try congruence.
  - destruct (f x), (f y); reflexivity.
Qed.

Lemma filter_perm {A : Type} (f : A -> bool) (l l' : list A) :
  Permutation l l' -> Permutation (filter f l) (filter f l').
Proof.
  induction 1; simpl.
  - constructor.
  - destruct (f x); [constructor|]; assumption.
  - destruct (f x), (f y); try apply perm_swap; apply Permutation_refl.
  - eapply Permutation_trans; eassumption.
Qed.

Lemma flat_map_perm {A B : Type} (f : A -> list B) (l l' : list A) :
  Permutation l l' -> Permutation (flat_map f l) (flat_map f l').
Proof.
  induction 1; simpl.
  - constructor.
  - apply Permutation_app_head. assumption.
  - rewrite !app_assoc. apply Permutation_app_tail. apply Permutation_app_comm.
  - eapply Permutation_trans; eassumption.
Qed.

Lemma NoDup_map_filter {A B : Type} (g : A -> B) (f : A -> bool) (l : list A) :
  NoDup (map g l) -> NoDup (map g (filter f l)).
Proof.
  induction l as [|x l IH]; simpl; intros H; [constructor|].
  inversion H as [|? ? Hn Hd]; subst.
  destruct (f x); simpl; [constructor|]; auto.
  intros Hin. apply Hn. apply in_map_iff in Hin as [y [E Hy]]. apply filter_In in Hy as [Hy _].
  apply in_map_iff. exists y. auto.
Qed.

Lemma NoDup_map_perm {A B : Type} (g : A -> B) (l l' : list A) :
  Permutation l l' -> NoDup (map g l) -> NoDup (map g l').
Proof. intros P H. eapply Permutation_NoDup; [apply Permutation_map; exact P|exact H]. Qed.

(* two entries of a list with pairwise distinct keys are the same entry or have different keys *)
Lemma NoDup_keys_in {A B : Type} (g : A -> B) (l : list A) a b :
  NoDup (map g l) -> In a l -> In b l -> a = b \/ g a <> g b.
Proof.
  induction l as [|x l IH]; simpl; intros H Ha Hb; [contradiction|].
  inversion H as [|? ? Hn Hd]; subst.
  destruct Ha as [->|Ha], Hb as [->|Hb]; auto.
  - right. intros E. apply Hn. rewrite E. apply in_map. exact Hb.
  - right. intros E. apply Hn. rewrite <- E. apply in_map. exact Ha.
Qed.

(** ** sorting by a key under a strict total order *)
Section SortProofs.
  Context {A K : Type}.
  Variable key : A -> K.
  Variable ltb : K -> K -> bool.
  Hypothesis ltb_trans : forall a b c, ltb a b = true -> ltb b c = true -> ltb a c = true.
  Hypothesis ltb_irrefl : forall a, ltb a a = false.
  Hypothesis ltb_total : forall a b, a <> b -> ltb a b = true \/ ltb b a = true.

  Let ins := insert_by key ltb.
  Let srt := isort key ltb.
  Definition klt (a b : A) : Prop := ltb (key a) (key b) = true.

  Lemma ltb_asym a b : ltb a b = true -> ltb b a = false.
  Proof.
    intros H. destruct (ltb b a) eqn:E; [|reflexivity].
    pose proof (ltb_trans _ _ _ H E) as T. rewrite ltb_irrefl in T. discriminate.
  Qed.

  Lemma insert_by_comm x y l : key x <> key y -> ins x (ins y l) = ins y (ins x l).
  Proof.
    intros N. induction l as [|z r IH]; unfold ins in *; simpl.
    - destruct (ltb_total _ _ N) as [H|H]; rewrite H, (ltb_asym _ _ H); reflexivity.
    - destruct (ltb (key y) (key z)) eqn:Eyz, (ltb (key x) (key z)) eqn:Exz; simpl; rewrite ?Eyz, ?Exz.
      + destruct (ltb_total _ _ N) as [H|H]; rewrite H, (ltb_asym _ _ H); simpl; rewrite ?Eyz, ?Exz; reflexivity.
      + destruct (ltb (key x) (key y)) eqn:Exy.
        * rewrite (ltb_trans _ _ _ Exy Eyz) in Exz. discriminate.
        * simpl; rewrite ?Exz, ?Eyz; reflexivity.
      + destruct (ltb (key y) (key x)) eqn:Eyx.
        * rewrite (ltb_trans _ _ _ Eyx Exz) in Eyz. discriminate.
        * simpl; rewrite ?Exz, ?Eyz; reflexivity.
      + f_equal. exact IH.
  Qed.

  Lemma insert_by_perm x l : Permutation (ins x l) (x :: l).
  Proof.
    induction l as [|y r IH]; unfold ins in *; simpl; [apply Permutation_refl|].
    destruct (ltb (key x) (key y)); [apply Permutation_refl|].
    eapply Permutation_trans; [apply perm_skip; exact IH|apply perm_swap].
  Qed.

  Lemma isort_perm l : Permutation (srt l) l.
  Proof.
    induction l as [|x r IH]; unfold srt in *; simpl; [constructor|].
    eapply Permutation_trans; [apply insert_by_perm|apply perm_skip; exact IH].
  Qed.

  Lemma insert_by_sorted x l :
    Sorted.StronglySorted klt l -> (forall y, In y l -> key y <> key x) ->
    Sorted.StronglySorted klt (ins x l).
  Proof.
    induction 1 as [|y r Hs IH Hf]; intros D; unfold ins in *; simpl.
    - constructor; constructor.
    - destruct (ltb (key x) (key y)) eqn:E.
      + constructor; [constructor; assumption|]. constructor; [exact E|].
        rewrite Forall_forall in *. intros z Hz. unfold klt. eapply ltb_trans; [exact E|apply Hf; exact Hz].
      + constructor.
        * apply IH. intros z Hz. apply D. right; exact Hz.
        * rewrite Forall_forall in *. intros z Hz.
          apply (Permutation_in _ (insert_by_perm x r)) in Hz. destruct Hz as [<-|Hz]; [|apply Hf; exact Hz].
          unfold klt. assert (Nk : key y <> key x) by (apply D; left; reflexivity).
          destruct (ltb_total _ _ Nk) as [H|H]; [exact H|congruence].
  Qed.

  Lemma isort_sorted l : NoDup (map key l) -> Sorted.StronglySorted klt (srt l).
  Proof.
    induction l as [|x r IH]; unfold srt in *; simpl; intros H; [constructor|].
    inversion H as [|? ? Hn Hd]; subst. apply insert_by_sorted; [apply IH; exact Hd|].
    intros y Hy E. apply Hn. rewrite <- E. apply in_map.
    eapply Permutation_in; [apply isort_perm|exact Hy].
  Qed.

  (** every sorted permutation is THE sorted permutation: sort.Slice need not be stable *)
  Lemma sorted_perm_unique l1 : forall l2,
    Sorted.StronglySorted klt l1 -> Sorted.StronglySorted klt l2 -> Permutation l1 l2 -> l1 = l2.
  Proof.
    induction l1 as [|a t1 IH]; intros l2 S1 S2 P.
    - apply Permutation_nil in P. congruence.
    - destruct l2 as [|b t2]; [apply Permutation_sym, Permutation_nil in P; discriminate|].
      inversion S1 as [|? ? S1' F1]; inversion S2 as [|? ? S2' F2]; subst.
      assert (a = b) as ->.
      { assert (Ha : In a (b :: t2)) by (eapply Permutation_in; [exact P|left; reflexivity]).
        assert (Hb : In b (a :: t1)) by (eapply Permutation_in; [apply Permutation_sym; exact P|left; reflexivity]).
        destruct Ha as [->|Ha]; [reflexivity|]. destruct Hb as [->|Hb]; [reflexivity|].
        rewrite Forall_forall in F1, F2. pose proof (F1 _ Hb) as L1. pose proof (F2 _ Ha) as L2.
        unfold klt in *. rewrite (ltb_asym _ _ L1) in L2. discriminate. }
      f_equal. apply IH; try assumption. eapply Permutation_cons_inv; exact P.
  Qed.

  Theorem isort_perm_eq l l' : Permutation l l' -> NoDup (map key l) -> srt l = srt l'.
  Proof.
    intros P H. apply sorted_perm_unique.
    - apply isort_sorted; exact H.
    - apply isort_sorted. eapply NoDup_map_perm; eassumption.
    - eapply Permutation_trans; [apply isort_perm|].
      eapply Permutation_trans; [exact P|apply Permutation_sym, isort_perm].
  Qed.

  Theorem isort_unique l out :
    NoDup (map key l) -> Permutation out l -> Sorted.StronglySorted klt out -> out = srt l.
  Proof.
    intros H P S. apply sorted_perm_unique; [exact S|apply isort_sorted; exact H|].
    eapply Permutation_trans; [exact P|apply Permutation_sym, isort_perm].
  Qed.

  Lemma sorted_keys_NoDup l : Sorted.StronglySorted klt l -> NoDup (map key l).
  Proof.
    induction 1 as [|a r Hs IH Hf]; simpl; constructor; [|exact IH].
    intros Hin. apply in_map_iff in Hin as [b [E Hb]]. rewrite Forall_forall in Hf.
    pose proof (Hf _ Hb) as L. unfold klt in L. rewrite E, ltb_irrefl in L. discriminate.
  Qed.

  (* inserting the entries of a map one by one into a key-sorted result *)
  Lemma fold_insert_perm l l' acc :
    Permutation l l' -> NoDup (map key l) ->
    fold_left (fun s e => ins e s) l acc = fold_left (fun s e => ins e s) l' acc.
  Proof.
    intros P H. apply fold_left_perm; [exact P|].
    intros a b s Ha Hb. destruct (NoDup_keys_in key l a b H Ha Hb) as [->|N]; [reflexivity|].
    apply insert_by_comm. congruence.
  Qed.
End SortProofs.

(** the two orders in use: Go string comparison on byte strings, [<] on table ids *)
Lemma bytes_ltb_total a b : a <> b -> bytes_ltb a b = true \/ bytes_ltb b a = true.
Proof. intros N. destruct (bytes_trichotomy a b) as [H|[H|H]]; auto; contradiction. Qed.

Lemma nat_ltb_trans a b c : (a <? b) = true -> (b <? c) = true -> (a <? c) = true.
Proof. rewrite !Nat.ltb_lt. lia. Qed.
Lemma nat_ltb_total (a b : nat) : a <> b -> (a <? b) = true \/ (b <? a) = true.
Proof. rewrite !Nat.ltb_lt. lia. Qed.

Definition bsort_eq {A} (key : A -> bytes) :=
  isort_perm_eq key bytes_ltb bytes_ltb_trans bytes_ltb_irrefl bytes_ltb_total.
Definition bsort_unique {A} (key : A -> bytes) :=
  isort_unique key bytes_ltb bytes_ltb_trans bytes_ltb_irrefl bytes_ltb_total.
Definition binsert_comm {A} (key : A -> bytes) :=
  insert_by_comm key bytes_ltb bytes_ltb_trans bytes_ltb_irrefl bytes_ltb_total.
Definition nsort_eq {A} (key : A -> nat) :=
  isort_perm_eq key Nat.ltb nat_ltb_trans Nat.ltb_irrefl nat_ltb_total.
Definition nsort_unique {A} (key : A -> nat) :=
  isort_unique key Nat.ltb nat_ltb_trans Nat.ltb_irrefl nat_ltb_total.

(** * sql/internal/sqlx/plan.go: byKeys, sortMap, CheckChangesScope *)

Theorem byKeys_perm {V : Type} (m m' : list (bytes * V)) :
  Permutation m m' -> NoDup (map fst m) -> byKeys m = byKeys m'.
Proof. intros P H. unfold byKeys. apply bsort_eq; assumption. Qed.

(* whatever sort.Slice does, a result that is a permutation sorted by key is this one *)
Theorem byKeys_any_sort {V : Type} (m out : list (bytes * V)) :
  NoDup (map fst m) -> Permutation out m -> Sorted.StronglySorted (klt fst bytes_ltb) out -> out = byKeys m.
Proof. intros H P S. unfold byKeys. apply bsort_unique; assumption. Qed.

Definition keys_sorted (d : deps_t) : Prop := Sorted.StronglySorted (klt fst Nat.ltb) d.

Lemma deps_add_in k v d e : In e (deps_add k v d) -> fst e = k \/ exists e', In e' d /\ fst e' = fst e.
Proof.
  induction d as [|[k' vs] d IH]; simpl.
  - intros [<-|[]]. left; reflexivity.
  - destruct (k =? k') eqn:E1.
    + intros [<-|H]; right; [exists (k', vs)|exists e]; simpl; auto.
    + destruct (k <? k').
      * intros [<-|H]; [left; reflexivity|right; exists e; auto].
      * intros [<-|H]; [right; exists (k', vs); simpl; auto|].
        destruct (IH H) as [->|[e' [He' Ee']]]; [left; reflexivity|right; exists e'; auto].
Qed.

Lemma deps_add_sorted k v d : keys_sorted d -> keys_sorted (deps_add k v d).
Proof.
  induction 1 as [|[k' vs] r Hs IH Hf]; simpl.
  - constructor; constructor.
  - destruct (k =? k') eqn:E1; [|destruct (k <? k') eqn:E2].
    + constructor; [exact Hs|exact Hf].
    + constructor; [constructor; assumption|]. constructor; [exact E2|].
      rewrite Forall_forall in *. intros z Hz. pose proof (Hf z Hz) as L. unfold klt in *; simpl in *.
      eapply nat_ltb_trans; eassumption.
    + constructor; [exact IH|]. rewrite Forall_forall in *. intros z Hz. unfold klt; simpl.
      destruct (deps_add_in _ _ _ _ Hz) as [->|[e' [He' Ee']]].
      * apply Nat.eqb_neq in E1. apply Nat.ltb_ge in E2. apply Nat.ltb_lt. lia.
      * rewrite <- Ee'. apply (Hf e' He').
Qed.

Lemma fold_left_inv {S E : Type} (P : S -> Prop) (f : S -> E -> S) (l : list E) :
  (forall s e, P s -> P (f s e)) -> forall s, P s -> P (fold_left f l s).
Proof. intros H. induction l as [|e l IH]; simpl; intros s Hs; [exact Hs|]. apply IH, H, Hs. Qed.

Lemma dependencies_sorted cs : keys_sorted (dependencies cs).
Proof.
  unfold dependencies. apply fold_left_inv; [|constructor].
  intros d c Hd. destruct c as [t fks|t fks|t tcs]; simpl.
  - apply fold_left_inv; [|exact Hd]. intros d' f Hd'. unfold dep_addfk.
    destruct (negb _); [apply deps_add_sorted|]; exact Hd'.
  - apply fold_left_inv; [|exact Hd]. intros d' f Hd'. unfold dep_dropfk.
    destruct (isDropped _ _); [apply deps_add_sorted|]; exact Hd'.
  - apply fold_left_inv; [|exact Hd]. intros d' tc Hd'.
    destruct tc; unfold dep_addfk, dep_dropfk;
      try (destruct (negb _); [apply deps_add_sorted|]; exact Hd');
      try (destruct (isDropped _ _); [apply deps_add_sorted|]; exact Hd'); exact Hd'.
Qed.

Lemma deps_get_perm k (m d : deps_t) :
  Permutation m d -> NoDup (map fst m) -> deps_get k m = deps_get k d.
Proof.
  induction 1 as [|[k' vs] l l' P IH|[k1 v1] [k2 v2] l|l l1 l2 P1 IH1 P2 IH2]; simpl; intros H.
  - reflexivity.
  - inversion H; subst. destruct (k =? k'); [reflexivity|auto].
  - destruct (k =? k1) eqn:E1, (k =? k2) eqn:E2; try reflexivity.
    apply Nat.eqb_eq in E1, E2. subst. inversion H as [|? ? Hn _]; subst. exfalso. apply Hn. left. reflexivity.
  - rewrite IH1 by exact H. apply IH2. eapply NoDup_map_perm; eassumption.
Qed.

Lemma visit_refs_ext v1 v2 refs :
  (forall r s p, v1 r s p = v2 r s p) -> forall s p, visit_refs v1 refs s p = visit_refs v2 refs s p.
Proof.
  intros H. induction refs as [|r refs IH]; intros s p; simpl; [reflexivity|].
  rewrite H. destruct (v2 r s p) as [|[|] s' p']; auto.
Qed.

Lemma visit_ext d d' : (forall k, deps_get k d = deps_get k d') ->
  forall f n s p, visit d f n s p = visit d' f n s p.
Proof.
  intros H. induction f as [|f IH]; intros n s p; simpl; [reflexivity|].
  destruct (mem n s); [reflexivity|]. destruct (mem n p); [reflexivity|].
  rewrite H. rewrite (visit_refs_ext (visit d f) (visit d' f)) by exact IH. reflexivity.
Qed.

Lemma universe_length m d : Permutation m d -> length (universe m) = length (universe d).
Proof.
  intros P. unfold universe. rewrite !app_length, !map_length, <- !flat_map_concat_map.
  rewrite (Permutation_length P). f_equal. apply Permutation_length, flat_map_perm, P.
Qed.

(* the Go map [deps] in any order: sortMap returns what the key-sorted M-SORT model returns *)
Theorem sortMap_perm cs m : Permutation m (dependencies cs) -> sortMap_over m = sortMap cs.
Proof.
  intros P. pose proof (dependencies_sorted cs) as HS.
  assert (N : NoDup (map fst m)).
  { eapply NoDup_map_perm; [apply Permutation_sym; exact P|].
    apply (sorted_keys_NoDup fst Nat.ltb Nat.ltb_irrefl). exact HS. }
  assert (B : byKeys_nat m = dependencies cs).
  { symmetry. unfold byKeys_nat. apply nsort_unique; [exact N|apply Permutation_sym; exact P|exact HS]. }
  unfold sortMap_over, sortMap, sortMap_fuel. rewrite B, (universe_length _ _ P).
  rewrite (visit_refs_ext _ (visit (dependencies cs) (S (length (universe (dependencies cs)))))).
  - reflexivity.
  - intros r s p. apply visit_ext. intros k. apply deps_get_perm; assumption.
Qed.

Theorem DetachCycles_over_perm cs m :
  Permutation m (dependencies cs) -> DetachCycles_over m cs = DetachCycles cs.
Proof. intros P. unfold DetachCycles_over, DetachCycles. rewrite (sortMap_perm cs m P). reflexivity. Qed.

Theorem CheckChangesScope_names_perm (names names' : list bytes) :
  Permutation names names' -> NoDup names ->
  CheckChangesScope_names names = CheckChangesScope_names names'.
Proof.
  intros P H. unfold CheckChangesScope_names. rewrite (Permutation_length P).
  destruct (1 <? length names'); [|reflexivity]. f_equal. apply bsort_eq; [exact P|]. rewrite map_id. exact H.
Qed.

(** * sql/migrate/dir.go *)

Lemma insert_file_insert_by f l : insert_file f l = insert_by fst bytes_ltb f l.
Proof. induction l as [|g r IH]; simpl; [reflexivity|]. rewrite IH. reflexivity. Qed.

Lemma sort_files_isort l : sort_files l = isort fst bytes_ltb l.
Proof. induction l as [|f r IH]; simpl; [reflexivity|]. rewrite IH. apply insert_file_insert_by. Qed.

(* MemDir.Files (range over d.fs) and LocalDir.Files (fs.Glob names, any order) *)
Theorem files_of_perm (st st' : store) :
  Permutation st st' -> NoDup (map fst st) -> files_of st = files_of st'.
Proof.
  intros P H. unfold files_of. rewrite !sort_files_isort. apply bsort_eq.
  - apply filter_perm. exact P.
  - apply NoDup_map_filter. exact H.
Qed.

(* any sort of the *.sql files by name gives Files() *)
Theorem files_of_any_sort (st : store) (out : list file) :
  NoDup (map fst st) -> Permutation out (filter (fun f => is_sql (fst f)) st) ->
  Sorted.StronglySorted (klt fst bytes_ltb) out -> out = files_of st.
Proof.
  intros H P S. unfold files_of. rewrite sort_files_isort. apply bsort_unique; try assumption.
  apply NoDup_map_filter. exact H.
Qed.

Theorem Checksum_perm HS (st st' : store) :
  Permutation st st' -> NoDup (map fst st) -> ChecksumText HS st = ChecksumText HS st'.
Proof. intros P H. unfold ChecksumText, Checksum. rewrite (files_of_perm _ _ P H). reflexivity. Qed.

Lemma close_step_comm d (a b : memdir) s : fst a <> fst b ->
  bindo (close_step d s a) (fun s' => close_step d s' b) = bindo (close_step d s b) (fun s' => close_step d s' a).
Proof.
  intros N. destruct a as [na [da ca]], b as [nb [db cb]], s as [o l]. simpl in N. unfold close_step; simpl.
  destruct (da =? d), (db =? d); simpl.
  - destruct o; reflexivity.
  - destruct o; simpl; [reflexivity|]. destruct (pred ca =? 0); [reflexivity|].
    rewrite (binsert_comm fst); [reflexivity|simpl; congruence].
  - destruct o; simpl; [reflexivity|]. destruct (pred cb =? 0); [reflexivity|].
    rewrite (binsert_comm fst); [reflexivity|simpl; congruence].
  - rewrite (binsert_comm fst); [reflexivity|simpl; congruence].
Qed.

Theorem MemDir_Close_perm d (opened opened' : list memdir) :
  Permutation opened opened' -> NoDup (map fst opened) -> MemDir_Close d opened = MemDir_Close d opened'.
Proof.
  intros P H. unfold MemDir_Close. f_equal. apply foldM_perm; [exact P|].
  intros a b s Ha Hb. destruct (NoDup_keys_in fst _ a b H Ha Hb) as [->|N]; [reflexivity|].
  apply close_step_comm. exact N.
Qed.

(** * cmd/atlas/internal/cmdapi/cmdapi.go: resetFromEnv *)

Lemma upd_comm {V : Type} k1 k2 (g1 g2 : V -> V) st : k1 <> k2 ->
  upd k1 g1 (upd k2 g2 st) = upd k2 g2 (upd k1 g1 st).
Proof.
  intros N. unfold upd. rewrite !map_map. apply map_ext. intros [k v]; simpl.
  destruct (k =? k2) eqn:E2, (k =? k1) eqn:E1; simpl; rewrite ?E1, ?E2; try reflexivity.
  apply Nat.eqb_eq in E1, E2. congruence.
Qed.

Theorem resetFromEnv_perm flags (m m' : list (nat * nat)) :
  Permutation m m' -> NoDup (map fst m) -> resetFromEnv flags m = resetFromEnv flags m'.
Proof.
  intros P H. unfold resetFromEnv. apply fold_left_perm; [exact P|].
  intros a b s Ha Hb. destruct (NoDup_keys_in fst _ a b H Ha Hb) as [->|N]; [reflexivity|].
  apply upd_comm. congruence.
Qed.

(** * schemahcl/context.go *)

(* bodyVars: the slice itself follows the iteration order; it is a permutation *)
Theorem bodyVars_perm {T : Type} (attrs attrs' : list (bytes * list T)) :
  Permutation attrs attrs' -> Permutation (bodyVars attrs) (bodyVars attrs').
Proof. apply flat_map_perm. Qed.

Theorem bodyVars_order_leaks :
  exists attrs attrs' : list (bytes * list nat),
    Permutation attrs attrs' /\ NoDup (map fst attrs) /\ bodyVars attrs <> bodyVars attrs'.
Proof.
  exists [([97%N], [1]); ([98%N], [2])], [([98%N], [2]); ([97%N], [1])].
  split; [apply perm_swap|]. split; [|vm_compute; discriminate].
  constructor; [simpl; intros [E|[]]; discriminate|]. constructor; [intros []|constructor].
Qed.

(* typeRefs is only asked whether some reference matches *)
Theorem typeRefs_exists_perm {T : Type} (isroot matches : T -> bool) (attrs attrs' : list (bytes * list T)) :
  Permutation attrs attrs' -> typeRefs_exists isroot matches attrs = typeRefs_exists isroot matches attrs'.
Proof.
  intros P. unfold typeRefs_exists, typeRefs. apply existsb_perm, filter_perm, bodyVars_perm, P.
Qed.

Section EvalProofs.
  Variables (Node Val : Type).

  Variable blockVal : bytes -> Node -> option Val.

  Lemma blockVars_step_comm a b s : fst a <> fst b ->
    bindo (blockVars_step Node Val blockVal s a) (fun s' => blockVars_step Node Val blockVal s' b)
    = bindo (blockVars_step Node Val blockVal s b) (fun s' => blockVars_step Node Val blockVal s' a).
  Proof.
    intros N. unfold blockVars_step.
    destruct (blockVal (fst a) (snd a)) as [va|] eqn:Ea, (blockVal (fst b) (snd b)) as [vb|] eqn:Eb;
      simpl; rewrite ?Ea, ?Eb; try reflexivity.
    rewrite (binsert_comm fst); [reflexivity|simpl; congruence].
  Qed.

  Theorem blockVars_perm (children children' : list (bytes * Node)) :
    Permutation children children' -> NoDup (map fst children) ->
    blockVars Node Val blockVal children = blockVars Node Val blockVal children'.
  Proof.
    intros P H. unfold blockVars. apply foldM_perm; [exact P|].
    intros a b s Ha Hb. destruct (NoDup_keys_in fst _ a b H Ha Hb) as [->|N]; [reflexivity|].
    apply blockVars_step_comm, N.
  Qed.

  Theorem copyBlock_attrs_perm (attrs attrs' : list (bytes * Node)) :
    Permutation attrs attrs' -> NoDup (map fst attrs) ->
    copyBlock_attrs Node Val blockVal attrs = copyBlock_attrs Node Val blockVal attrs'.
  Proof. apply blockVars_perm. Qed.

  Variable attrVal : bytes -> Node -> attr_res Val.

  Definition attr_err (e : bytes * Node) : bool :=
    match attrVal (fst e) (snd e) with AErr _ => true | _ => false end.
  Definition attr_vals (e : bytes * Node) : list (bytes * Val) :=
    match attrVal (fst e) (snd e) with AVal _ v => [(fst e, v)] | _ => [] end.

  Lemma toAttrs_foldM l : forall acc,
    foldM (toAttrs_step Node Val attrVal) l acc
    = if existsb attr_err l then None else Some (acc ++ flat_map attr_vals l).
  Proof.
    induction l as [|e l IH]; intros acc; simpl; [rewrite app_nil_r; reflexivity|].
    unfold toAttrs_step at 1, attr_err at 1, attr_vals at 1.
    destruct (attrVal (fst e) (snd e)); simpl; [reflexivity|apply IH|].
    rewrite IH. rewrite <- app_assoc. reflexivity.
  Qed.

  Lemma attr_vals_keys l : NoDup (map fst l) -> NoDup (map fst (flat_map attr_vals l)).
  Proof.
    induction l as [|e l IH]; simpl; intros H; [constructor|]. inversion H as [|? ? Hn Hd]; subst.
    unfold attr_vals at 1. destruct (attrVal (fst e) (snd e)); simpl; auto.
    constructor; [|auto]. intros Hin. apply Hn. apply in_map_iff in Hin as [x [E Hx]].
    apply in_flat_map in Hx as [y [Hy Hxy]]. unfold attr_vals in Hxy.
    destruct (attrVal (fst y) (snd y)); simpl in Hxy; try contradiction.
    destruct Hxy as [<-|[]]. simpl in E. rewrite <- E. apply in_map. exact Hy.
  Qed.

  (* State.toAttrs: sorted by K after the loop *)
  Theorem toAttrs_perm (hclAttrs hclAttrs' : list (bytes * Node)) :
    Permutation hclAttrs hclAttrs' -> NoDup (map fst hclAttrs) ->
    toAttrs Node Val attrVal hclAttrs = toAttrs Node Val attrVal hclAttrs'.
  Proof.
    intros P H. unfold toAttrs. rewrite !toAttrs_foldM, (existsb_perm _ _ _ P).
    destruct (existsb attr_err hclAttrs'); simpl; [reflexivity|]. f_equal. apply bsort_eq.
    - apply flat_map_perm, P.
    - apply attr_vals_keys, H.
  Qed.
End EvalProofs.

(** ** State.EvalOptions #1 (fixed): files are evaluated in the order of their sorted names *)
Definition ex_a : bytes := [97%N].
Definition ex_b : bytes := [98%N].
Definition ex_x : bytes := [120%N].
Definition ex_y : bytes := [121%N].

Theorem EvalOptions_files_perm (files files' : list hclfile) :
  Permutation files files' -> NoDup (map fst files) ->
  EvalOptions_files files = EvalOptions_files files'.
Proof. intros P H. unfold EvalOptions_files. rewrite (bsort_eq fst _ _ P H). reflexivity. Qed.

(** * schemahcl/extension.go *)

Lemma bmem_perm x (l l' : list bytes) : Permutation l l' -> bmem x l = bmem x l'.
Proof. apply existsb_perm. Qed.

(* Resource.as (fixed): existingAttrs / existingChildren are only looked up *)
Theorem as_extra_attrs_perm {V : Type} (rattrs : list (bytes * V)) : forall (ex ex' : list bytes) extra,
  Permutation ex ex' -> as_extra_attrs rattrs ex extra = as_extra_attrs rattrs ex' extra.
Proof.
  induction rattrs as [|a r IH]; intros ex ex' extra P; simpl; [reflexivity|].
  rewrite (bmem_perm _ _ _ P). destruct (bmem (fst a) ex'); apply IH; [apply filter_perm|]; exact P.
Qed.

Theorem as_extra_children_perm {C : Type} (ctype : C -> bytes) children (ex ex' : list bytes) extra :
  Permutation ex ex' -> as_extra_children ctype children ex extra = as_extra_children ctype children ex' extra.
Proof.
  intros P. unfold as_extra_children. f_equal. apply filter_ext. intros c. apply bmem_perm, P.
Qed.

(* registry.implementers feeds childrenOfType only: which children are selected, and in which
   order, does not depend on the order of the names *)
Lemma const_map_perm {A B : Type} (c : B) (l l' : list A) :
  Permutation l l' -> map (fun _ => c) l = map (fun _ => c) l'.
Proof. induction 1; simpl; congruence. Qed.

Lemma childrenOfType_inner {C : Type} (ctype : C -> bytes) (c : C) types :
  flat_map (fun t => if bytes_eqb (ctype c) t then [c] else []) types
  = map (fun _ => c) (filter (bytes_eqb (ctype c)) types).
Proof.
  induction types as [|t r IH]; simpl; [reflexivity|].
  destruct (bytes_eqb (ctype c) t); simpl; rewrite IH; reflexivity.
Qed.

Lemma childrenOfType_perm {C : Type} (ctype : C -> bytes) children types types' :
  Permutation types types' -> childrenOfType ctype children types = childrenOfType ctype children types'.
Proof.
  intros P. unfold childrenOfType. induction children as [|c r IH]; simpl; [reflexivity|].
  rewrite IH. f_equal. rewrite !childrenOfType_inner. apply const_map_perm, filter_perm, P.
Qed.

Theorem implementers_children_perm {T C : Type} (implements : T -> bool) (ctype : C -> bytes) children
  (r r' : list (bytes * T)) :
  Permutation r r' ->
  implementers_children implements ctype children r = implementers_children implements ctype children r'.
Proof.
  intros P. unfold implementers_children, implementers.
  apply childrenOfType_perm, Permutation_map, filter_perm, P.
Qed.

(* registry.lookup (fixed): names in registration order, the map is only looked up *)
Lemma bassoc_perm {T : Type} k (r r' : list (bytes * T)) :
  Permutation r r' -> NoDup (map fst r) -> bassoc k r = bassoc k r'.
Proof.
  induction 1 as [|[k' v] l l' P IH|[k1 v1] [k2 v2] l|l l1 l2 P1 IH1 P2 IH2]; simpl; intros H.
  - reflexivity.
  - inversion H; subst. destruct (bytes_eqb k k'); [reflexivity|auto].
  - destruct (bytes_eqb k k1) eqn:E1, (bytes_eqb k k2) eqn:E2; try reflexivity.
    apply bytes_eqb_eq in E1, E2. subst. inversion H as [|? ? Hn _]; subst. exfalso. apply Hn. left. reflexivity.
  - rewrite IH1 by exact H. apply IH2. eapply NoDup_map_perm; eassumption.
Qed.

Theorem lookup_perm {T : Type} (same : T -> bool) (names : list bytes) (r r' : list (bytes * T)) :
  Permutation r r' -> NoDup (map fst r) -> lookup same names r = lookup same names r'.
Proof.
  intros P H. unfold lookup. induction names as [|k ks IH]; simpl; [reflexivity|].
  rewrite (bassoc_perm k _ _ P H). rewrite IH. reflexivity.
Qed.

(** * sql/internal/specutil *)

Section SpecutilProofs.
  Variables (Obj Payload : Type).
  Variable link_ok : nat * Payload -> bool.
  Variable link : Payload -> Obj -> Obj.

  (* Scan #1 (linkForeignKeys per table) and #2 (fromDependsOn per object) *)
  Theorem Scan_link_perm objs (m m' : list (nat * Payload)) :
    Permutation m m' -> NoDup (map fst m) ->
    Scan_link Obj Payload link_ok link objs m = Scan_link Obj Payload link_ok link objs m'.
  Proof.
    intros P H. unfold Scan_link. rewrite !foldM_checked, (forallb_perm _ _ _ P).
    destruct (forallb link_ok m'); [|reflexivity]. f_equal. apply fold_left_perm; [exact P|].
    intros a b s Ha Hb. destruct (NoDup_keys_in fst _ a b H Ha Hb) as [->|N]; [reflexivity|].
    apply upd_comm. congruence.
  Qed.

  (* PARTIAL: the effect of one (schema, objects) bucket is abstract; premise [bucket_comm]:
     two different buckets commute (they qualify disjoint sets of objects and add to a set). *)
  Variables (QSt Bucket : Type).
  Variable qualify_bucket : QSt -> nat * Bucket -> QSt.
  Hypothesis bucket_comm : forall a b s, qualify_bucket (qualify_bucket s a) b = qualify_bucket (qualify_bucket s b) a.

  Lemma qual_inner_perm v v' st : Permutation v v' ->
    qual_inner QSt Bucket qualify_bucket v st = qual_inner QSt Bucket qualify_bucket v' st.
  Proof. intros P. unfold qual_inner. apply fold_left_perm; [exact P|]. intros; apply bucket_comm. Qed.

  Lemma qual_inner_comm v w st :
    qual_inner QSt Bucket qualify_bucket w (qual_inner QSt Bucket qualify_bucket v st)
    = qual_inner QSt Bucket qualify_bucket v (qual_inner QSt Bucket qualify_bucket w st).
  Proof.
    unfold qual_inner. rewrite <- !fold_left_app. apply fold_left_perm; [apply Permutation_app_comm|].
    intros; apply bucket_comm.
  Qed.

  Lemma qual_outer_comm a b st :
    qual_outer QSt Bucket qualify_bucket (qual_outer QSt Bucket qualify_bucket st a) b
    = qual_outer QSt Bucket qualify_bucket (qual_outer QSt Bucket qualify_bucket st b) a.
  Proof.
    unfold qual_outer.
    destruct (snd a) as [|a1 [|a2 ar]], (snd b) as [|b1 [|b2 br]]; try reflexivity; apply qual_inner_comm.
  Qed.

  Theorem QualifyObjects_outer_perm_partial (byLabel byLabel' : list (nat * list (nat * Bucket))) st :
    Permutation byLabel byLabel' ->
    QualifyObjects QSt Bucket qualify_bucket byLabel st = QualifyObjects QSt Bucket qualify_bucket byLabel' st.
  Proof.
    intros P. unfold QualifyObjects. apply fold_left_perm; [exact P|]. intros; apply qual_outer_comm.
  Qed.

  Theorem QualifyObjects_inner_perm_partial (l : nat) (v v' : list (nat * Bucket)) st :
    Permutation v v' ->
    qual_outer QSt Bucket qualify_bucket st (l, v) = qual_outer QSt Bucket qualify_bucket st (l, v').
  Proof.
    intros P. unfold qual_outer; simpl. pose proof (Permutation_length P) as L.
    destruct v as [|x [|y r]], v' as [|x' [|y' r']]; simpl in L; try discriminate; try reflexivity;
      exact (qual_inner_perm _ _ st P).
  Qed.
End SpecutilProofs.

(** * sql/postgres *)

Lemma addIndexes_eq {V : Type} (m : list (bytes * V)) : forall attrs, addIndexes_constraints attrs m = attrs ++ m.
Proof.
  unfold addIndexes_constraints. induction m as [|c m IH]; intros attrs; simpl; [rewrite app_nil_r; reflexivity|].
  rewrite IH, <- app_assoc. reflexivity.
Qed.

(* inspect.addIndexes: the Constraint attributes of an index follow the iteration order; the same
   list for at most one constraint per index (what PostgreSQL produces), a permutation otherwise *)
Theorem addIndexes_constraints_perm_except {V : Type} (attrs m m' : list (bytes * V)) :
  Permutation m m' ->
  Permutation (addIndexes_constraints attrs m) (addIndexes_constraints attrs m')
  /\ (length m <= 1 -> addIndexes_constraints attrs m = addIndexes_constraints attrs m').
Proof.
  intros P. rewrite !addIndexes_eq. split; [apply Permutation_app_head, P|].
  intros L. f_equal. destruct m as [|a [|b r]]; simpl in L; try lia.
  - apply Permutation_nil in P. congruence.
  - apply Permutation_length_1_inv in P. congruence.
Qed.

Theorem addIndexes_constraints_order_leaks :
  exists m m' : list (bytes * nat),
    Permutation m m' /\ NoDup (map fst m) /\ addIndexes_constraints [] m <> addIndexes_constraints [] m'.
Proof.
  exists [(ex_a, 1); (ex_b, 2)], [(ex_b, 2); (ex_a, 1)].
  split; [apply perm_swap|]. split; [|vm_compute; discriminate].
  constructor; [simpl; intros [E|[]]; discriminate|]. constructor; [intros []|constructor].
Qed.

Theorem alterEnum_check_perm toV (fromV fromV' : list (bytes * nat)) :
  Permutation fromV fromV' -> alterEnum_check toV fromV = alterEnum_check toV fromV'.
Proof.
  intros P. unfold alterEnum_check. rewrite !foldM_checked, (forallb_perm _ _ _ P).
  destruct (forallb _ fromV'); [|reflexivity]. f_equal.
  clear P. generalize tt. induction fromV as [|? ? IH]; intros u; simpl.
  - induction fromV' as [|? ? IH']; simpl; auto.
  - apply IH.
Qed.

(** * Declaration order (M-SORT): DetachCycles maps a permuted change set to a permuted result *)

Lemma detachReferences_perm cs cs' :
  Permutation cs cs' -> Permutation (detachReferences cs) (detachReferences cs').
Proof. intros P. unfold detachReferences. apply Permutation_app; apply flat_map_perm, P. Qed.

Lemma sm_insert_by_perm key c l : Permutation (SortModel.insert_by key c l) (c :: l).
Proof.
  induction l as [|x r IH]; simpl; [apply Permutation_refl|].
  destruct (key c <? key x); [apply Permutation_refl|].
  eapply Permutation_trans; [apply perm_skip; exact IH|apply perm_swap].
Qed.

Lemma sort_by_perm key l : Permutation (sort_by key l) l.
Proof.
  unfold sort_by. change l with ([] ++ l) at 2. generalize (@nil change).
  induction l as [|c l IH]; intros acc; simpl; [rewrite app_nil_r; apply Permutation_refl|].
  eapply Permutation_trans; [apply IH|].
  eapply Permutation_trans; [apply Permutation_app_tail, sm_insert_by_perm|]. simpl. apply Permutation_middle.
Qed.

Lemma partition_changes_perm cs : Permutation (partition_changes cs) cs.
Proof.
  unfold partition_changes. induction cs as [|c cs IH]; simpl; [constructor|].
  destruct (is_drop c); simpl.
  - eapply Permutation_trans; [apply Permutation_sym, Permutation_middle|]. apply perm_skip, IH.
  - apply perm_skip, IH.
Qed.

(* PARTIAL (see Props_C20.v): the premise says that both orders agree on whether the FK graph has a
   cycle (sortMap's DFS is not proved to be order-independent here) *)
Theorem DetachCycles_decl_order cs cs' p p' :
  Permutation cs cs' ->
  (sortMap cs = SMCycle <-> sortMap cs' = SMCycle) ->
  DetachCycles cs = DCOk p -> DetachCycles cs' = DCOk p' -> Permutation p p'.
Proof.
  intros P [C1 C2]. unfold DetachCycles.
  destruct (sortMap cs) as [| |s] eqn:E, (sortMap cs') as [| |s'] eqn:E'; intros H H'; try discriminate;
    inversion H; inversion H'; subst.
  - apply detachReferences_perm, P.
  - specialize (C1 eq_refl). discriminate.
  - specialize (C2 eq_refl). discriminate.
  - eapply Permutation_trans; [apply sort_by_perm|].
    eapply Permutation_trans; [exact P|apply Permutation_sym, sort_by_perm].
Qed.
