(** C20 round 5 -- concrete model of specutil.QualifyObjects (sql/internal/specutil/spec.go), the step of
    MarshalSpec that decides which top-level objects of a multi-schema realm are written with a
    qualifier ([table "s1" "users"]).  No proofs in this file (Det/QualifyProofs.v).

    Names (schema names and object labels live in ONE namespace: pass 3 looks a label up in the set
    of schema names) are interned as [nat] by the harness.  An object spec is the pair
    (schema name, label); [specs] is the slice d.Tables / d.Views / ... in realm order, i.e. the
    concatenation of the schemas' objects in the DECLARATION ORDER of the schemas and of the objects
    inside each schema.

    func QualifyObjects[T SchemaObject](specs []T) error {
      schemas := map[string]bool{} ; byLabel := map[string]map[string][]T{}
      for _, v := range specs { byLabel[v.Label()][SchemaName(v)] = append(..., v) }        // pass 1
      for _, v := range byLabel {                                    // map range #1 (census: Sens)
        if len(v) == 1 { continue }
        for q, sv := range v {                                       // map range #2 (census: Sens)
          for _, s := range sv { s.SetQualifier(q); schemas[q] = true } } }
      for _, v := range specs {                                                             // pass 3
        if v.QualifierLabel() == "" && schemas[v.Label()] { v.SetQualifier(SchemaName(v)) } }
    }

    A Go map is its content (key set, value per key); the order in which [range] delivers it is a
    parameter: [QualifyObjects_over bl specs] takes the entries of byLabel (and of every inner map)
    in the order [bl].  [byLabel specs] is the content pass 1 builds: per label, per schema name, the
    objects in slice order. *)
From Coq Require Import List Bool Arith Permutation.
From Atlas Require Import Det.OrderModel.
Import ListNotations.

Record qobj := QO { q_schema : nat; q_label : nat }.

Definition qobj_eqb (a b : qobj) : bool :=
  Nat.eqb (q_schema a) (q_schema b) && Nat.eqb (q_label a) (q_label b).

Definition memn (n : nat) (l : list nat) : bool := existsb (Nat.eqb n) l.

(** ** pass 1: the content of byLabel *)
Definition with_label (specs : list qobj) (l : nat) : list qobj :=
  filter (fun o => Nat.eqb (q_label o) l) specs.
Definition bucket (specs : list qobj) (l q : nat) : list qobj :=
  filter (fun o => Nat.eqb (q_schema o) q) (with_label specs l).
Definition byLabel_entry (specs : list qobj) (l : nat) : nat * list (nat * list qobj) :=
  (l, map (fun q => (q, bucket specs l q)) (nodup Nat.eq_dec (map q_schema (with_label specs l)))).
Definition byLabel (specs : list qobj) : list (nat * list (nat * list qobj)) :=
  map (byLabel_entry specs) (nodup Nat.eq_dec (map q_label specs)).

(** ** state: the Qualifier fields written so far (latest first) and the set [schemas] *)
Record qst := QSt { quals : list (qobj * nat); schemas : list nat }.
Definition qst0 : qst := QSt [] [].

Fixpoint lookupq (o : qobj) (l : list (qobj * nat)) : option nat :=
  match l with
  | [] => None
  | (o', q) :: r => if qobj_eqb o o' then Some q else lookupq o r
  end.

(** ** pass 2: the two nested map ranges (OrderModel.QualifyObjects with the concrete bucket effect) *)
Definition qualify_bucket (st : qst) (e : nat * list qobj) : qst :=
  fold_left (fun st s => QSt ((s, fst e) :: quals st) (fst e :: schemas st)) (snd e) st.
Definition pass2 (bl : list (nat * list (nat * list qobj))) (st : qst) : qst :=
  QualifyObjects qst (list qobj) qualify_bucket bl st.

(** ** pass 3: objects labelled like a schema whose name became a qualifier *)
Definition pass3_step (st : qst) (o : qobj) : qst :=
  match lookupq o (quals st) with
  | Some _ => st                                          (* QualifierLabel() != "" *)
  | None => if memn (q_label o) (schemas st) then QSt ((o, q_schema o) :: quals st) (schemas st) else st
  end.

(** The result: per object of the slice, its Qualifier (None = "", block written with one label). *)
Definition QualifyObjects_over (bl : list (nat * list (nat * list qobj))) (specs : list qobj) : list (qobj * option nat) :=
  let st := fold_left pass3_step specs (pass2 bl qst0) in
  map (fun o => (o, lookupq o (quals st))) specs.

(** The map delivered in the order pass 1 created its keys (what the extracted model runs when the
    harness gives no explicit order). *)
Definition QualifyObjects_go (specs : list qobj) : list (qobj * option nat) :=
  QualifyObjects_over (byLabel specs) specs.

(** ** what the result is (declarative): a function of the multiset of (schema, label) pairs *)
Definition conflictb (specs : list qobj) (o : qobj) : bool :=
  existsb (fun o' => Nat.eqb (q_label o') (q_label o) && negb (Nat.eqb (q_schema o') (q_schema o))) specs.
Definition schema_used (specs : list qobj) (n : nat) : bool :=
  existsb (fun o => Nat.eqb (q_schema o) n && conflictb specs o) specs.
Definition qualifier_spec (specs : list qobj) (o : qobj) : option nat :=
  if conflictb specs o || schema_used specs (q_label o) then Some (q_schema o) else None.

(** [bl] is the map [bl0] delivered in some order: same keys with the same inner maps, outer and
    inner entries in any order (a permutation is one instance: QualifyProofs.map_order_perm). *)
Definition map_order {B : Type} (bl bl0 : list (nat * list B)) : Prop :=
  (forall l v, In (l, v) bl -> exists v0, In (l, v0) bl0 /\ Permutation v v0) /\
  (forall l v0, In (l, v0) bl0 -> exists v, In (l, v) bl /\ Permutation v v0).

(** specutil.ObjectRef (spec.go), AFTER fix C20-qualify-objectref-schema-named: the REFERENCE to an
    object (column type [enum.s1.status]) is qualified iff another schema of the realm holds an
    object of the same type and name (objectConflict), or the object's name is the name of a schema
    that holds such an object (qualifierSchema) -- the two conditions of QualifyObjects.
    Before the fix only the first condition was applied ([ObjectRef_qualified_before_fix]; still the
    shape of TableSpecRef / ViewSpecRef, which the OSS marshalers do not reach). *)
Definition ObjectRef_qualified_before_fix (specs : list qobj) (o : qobj) : bool := conflictb specs o.
Definition ObjectRef_qualified (specs : list qobj) (o : qobj) : bool :=
  conflictb specs o || schema_used specs (q_label o).

(** specutil.QualifyReferences (spec.go), after QualifyObjects on d.Tables:
      byRef[cref{s: t.Qualifier, t: t.Name}] = t          // error "duplicate references" if taken
      for every foreign key: r, ok := byRef[{RefTable.Schema.Name, RefTable.Name}]; ok && r.Qualifier != ""
                               -> table.<qualifier>.<name>.column.c
                             else r, ok := byRef[{"", RefTable.Name}]; ok && r.Qualifier == ""
                               -> table.<name>.column.c
                             else error "missing reference"
    [res] is the result of QualifyObjects (object, Qualifier). *)
Inductive qref := RefQualified (q name : nat) | RefPlain (name : nat) | RefMissing.

Definition opt_nat_eqb (a b : option nat) : bool :=
  match a, b with Some x, Some y => Nat.eqb x y | None, None => true | _, _ => false end.
Definition byRef_has (res : list (qobj * option nat)) (q : option nat) (name : nat) : bool :=
  existsb (fun e => Nat.eqb (q_label (fst e)) name && opt_nat_eqb (snd e) q) res.
Definition QualifyReferences_ref (res : list (qobj * option nat)) (target : qobj) : qref :=
  if byRef_has res (Some (q_schema target)) (q_label target) then RefQualified (q_schema target) (q_label target)
  else if byRef_has res None (q_label target) then RefPlain (q_label target)
  else RefMissing.
(* the key of a table spec in byRef *)
Definition byRef_key (e : qobj * option nat) : option nat * nat := (snd e, q_label (fst e)).

(** The document is ambiguous when a block written with one label ([table "s2"]) carries the name
    that another block of the same kind uses as its qualifier ([table "s2" "s1"]): [table.s2.s1] is
    then both a table and an attribute of a table. *)
Definition ambiguousb (res : list (qobj * option nat)) : bool :=
  existsb (fun e => match snd e with
                    | None => existsb (fun e' => opt_nat_eqb (snd e') (Some (q_label (fst e)))) res
                    | Some _ => false
                    end) res.
