(** C20 -- sortMap's cycle detection (sql/internal/sqlx/plan.go, model Plan/SortModel.v) does not
    depend on the order of the change set.

    1. [sortMap_spec]: with the fuel the model gives it, the DFS never runs out of fuel, answers
       "cycle" only if the reference graph [deps] has a cycle, and answers with an index list only
       if it has none (the list is a topological order of the graph).
    2. the edge SET of [dependencies cs] is the same for every permutation of [cs].
    Hence [sortMap cs = SMCycle <-> sortMap cs' = SMCycle] and DetachCycles of a permuted change set
    is a permutation of DetachCycles of the original one, without any premise. *)
From Coq Require Import List Bool Arith Lia Permutation Relations.
From Coq Require Sorting.Sorted.
From Atlas Require Import Plan.SortModel Det.OrderModel Det.OrderIndep.
Import ListNotations.

Definition edge (d : deps_t) (a b : nat) : Prop := In b (deps_get a d).
Definition has_cycle (d : deps_t) : Prop := exists a, clos_trans nat (edge d) a a.

(** * small facts *)
Lemma mem_In x l : mem x l = true <-> In x l.
Proof.
  unfold mem. rewrite existsb_exists. split.
  - intros [y [Hy E]]. apply Nat.eqb_eq in E. subst. exact Hy.
  - intros H. exists x. split; [exact H|apply Nat.eqb_refl].
Qed.

Lemma mem_false x l : mem x l = false -> ~ In x l.
Proof. intros E H. apply mem_In in H. congruence. Qed.

Lemma remove_nat_notin x l : ~ In x l -> remove_nat x l = l.
Proof.
  induction l as [|y l IH]; simpl; intros H; [reflexivity|].
  destruct (x =? y) eqn:E.
  - apply Nat.eqb_eq in E. subst. exfalso. apply H. left. reflexivity.
  - f_equal. apply IH. intros Hin. apply H. right. exact Hin.
Qed.

(* position of the first occurrence *)
Fixpoint idx (x : nat) (l : list nat) : nat :=
  match l with [] => 0 | y :: r => if x =? y then 0 else S (idx x r) end.

Lemma idx_app_in x l t : In x l -> idx x (l ++ t) = idx x l.
Proof.
  induction l as [|y l IH]; simpl; intros H; [contradiction|].
  destruct (x =? y) eqn:E; [reflexivity|]. f_equal. apply IH.
  destruct H as [->|H]; [rewrite Nat.eqb_refl in E; discriminate|exact H].
Qed.

Lemma idx_app_notin x l : ~ In x l -> idx x (l ++ [x]) = length l.
Proof.
  induction l as [|y l IH]; simpl; intros H; [rewrite Nat.eqb_refl; reflexivity|].
  destruct (x =? y) eqn:E.
  - apply Nat.eqb_eq in E. subst. exfalso. apply H. left. reflexivity.
  - f_equal. apply IH. intros Hin. apply H. right. exact Hin.
Qed.

Lemma idx_lt x l : In x l -> idx x l < length l.
Proof.
  induction l as [|y l IH]; simpl; intros H; [contradiction|].
  destruct (x =? y) eqn:E; [lia|]. apply -> Nat.succ_lt_mono. apply IH.
  destruct H as [->|H]; [rewrite Nat.eqb_refl in E; discriminate|exact H].
Qed.

Lemma deps_get_universe k r (d : deps_t) : In r (deps_get k d) -> In r (universe d).
Proof.
  unfold universe. intros H. apply in_or_app. right.
  induction d as [|[k' vs] d IH]; simpl in *; [contradiction|].
  apply in_or_app. destruct (k =? k'); [left; exact H|right; apply IH; exact H].
Qed.

Lemma deps_get_key k r (d : deps_t) : In r (deps_get k d) -> In k (map fst d).
Proof.
  induction d as [|[k' vs] d IH]; simpl; [contradiction|].
  destruct (k =? k') eqn:E; intros H.
  - left. apply Nat.eqb_eq in E. auto.
  - right. apply IH. exact H.
Qed.

(** * the DFS *)
Section DFS.
  Variable d : deps_t.
  Let U := universe d.

  (* every node has its successors strictly earlier in the list *)
  Definition Topo (s : list nat) : Prop :=
    forall n r, In n s -> edge d n r -> In r s /\ idx r s < idx n s.

  Definition res_ok (s p must : list nat) (r : vres) : Prop :=
    match r with
    | VOut => False
    | VRet true _ _ => has_cycle d
    | VRet false s' p' =>
        p' = p /\ (exists ext, s' = s ++ ext /\ forall x, In x ext -> ~ In x p)
        /\ Topo s' /\ forall x, In x must -> In x s'
    end.

  Definition visit_pre (f name : nat) (s p : list nat) : Prop :=
    NoDup p /\ incl p U /\ In name U /\ length U < f + length p
    /\ (forall x, In x p -> clos_trans nat (edge d) x name) /\ Topo s.

  Lemma refs_ok f :
    (forall name s p, visit_pre f name s p -> res_ok s p [name] (visit d f name s p)) ->
    forall refs s q,
      NoDup q -> incl q U -> incl refs U -> length U < f + length q ->
      (forall r x, In r refs -> In x q -> clos_trans nat (edge d) x r) -> Topo s ->
      res_ok s q refs (visit_refs (visit d f) refs s q).
  Proof.
    intros IHv. induction refs as [|r refs IH]; intros s q Nq Iq Ir Hf St Ts; simpl.
    - split; [reflexivity|]. split; [exists []; rewrite app_nil_r; split; [reflexivity|intros x []]|].
      split; [exact Ts|intros x []].
    - assert (Pre : visit_pre f r s q).
      { refine (conj Nq (conj Iq (conj _ (conj Hf (conj _ Ts))))).
        - apply Ir. left. reflexivity.
        - intros x Hx. apply St; [left; reflexivity|exact Hx]. }
      specialize (IHv r s q Pre). destruct (visit d f r s q) as [|[|] s1 p1]; simpl in IHv; try exact IHv.
      destruct IHv as [-> [[e1 [-> N1]] [T1 M1]]].
      assert (R : res_ok (s ++ e1) q refs (visit_refs (visit d f) refs (s ++ e1) q)).
      { apply IH; try assumption.
        - intros x Hx. apply Ir. right. exact Hx.
        - intros r' x Hr' Hx. apply St; [right; exact Hr'|exact Hx]. }
      destruct (visit_refs (visit d f) refs (s ++ e1) q) as [|[|] s2 p2]; simpl in R |- *; try exact R.
      destruct R as [-> [[e2 [-> N2]] [T2 M2]]].
      split; [reflexivity|]. split.
      + exists (e1 ++ e2). split; [rewrite app_assoc; reflexivity|].
        intros x Hx. apply in_app_or in Hx as [Hx|Hx]; [apply N1|apply N2]; exact Hx.
      + split; [exact T2|]. intros x [<-|Hx]; [|apply M2; exact Hx].
        apply in_or_app. left. apply M1. left. reflexivity.
  Qed.

  Lemma Topo_snoc s name :
    Topo s -> ~ In name s -> (forall r, edge d name r -> In r s) -> Topo (s ++ [name]).
  Proof.
    intros Ts Nn Hr n r Hn He. apply in_app_or in Hn as [Hn|[<-|[]]].
    - destruct (Ts n r Hn He) as [Hin Hlt]. split; [apply in_or_app; left; exact Hin|].
      rewrite !idx_app_in by assumption. exact Hlt.
    - pose proof (Hr r He) as Hin. split; [apply in_or_app; left; exact Hin|].
      rewrite (idx_app_in r s [name] Hin), (idx_app_notin name s Nn). apply idx_lt. exact Hin.
  Qed.

  Lemma visit_ok : forall f name s p, visit_pre f name s p -> res_ok s p [name] (visit d f name s p).
  Proof.
    induction f as [|f IH]; intros name s p (Np & Ip & Hn & Hf & St & Ts).
    - exfalso. pose proof (NoDup_incl_length Np Ip). simpl in Hf. lia.
    - simpl. destruct (mem name s) eqn:Es.
      { apply mem_In in Es. split; [reflexivity|].
        split; [exists []; rewrite app_nil_r; split; [reflexivity|intros x []]|].
        split; [exact Ts|]. intros x [<-|[]]. exact Es. }
      destruct (mem name p) eqn:Ep.
      { apply mem_In in Ep. exists name. apply St. exact Ep. }
      apply mem_false in Es. apply mem_false in Ep.
      assert (R : res_ok s (name :: p) (deps_get name d) (visit_refs (visit d f) (deps_get name d) s (name :: p))).
      { apply refs_ok; try assumption.
        - constructor; assumption.
        - intros x [<-|Hx]; [exact Hn|apply Ip; exact Hx].
        - intros r Hr. apply (deps_get_universe name). exact Hr.
        - simpl. lia.
        - intros r x Hr [<-|Hx].
          + apply t_step. exact Hr.
          + eapply t_trans; [apply St; exact Hx|apply t_step; exact Hr]. }
      destruct (visit_refs (visit d f) (deps_get name d) s (name :: p)) as [|[|] s' p']; simpl in R |- *; try exact R.
      destruct R as [-> [[ext [-> Ne]] [T' M']]].
      assert (Nn : ~ In name (s ++ ext)).
      { intros Hin. apply in_app_or in Hin as [Hin|Hin]; [exact (Es Hin)|]. apply (Ne _ Hin). left. reflexivity. }
      split; [simpl; rewrite Nat.eqb_refl; apply remove_nat_notin; exact Ep|].
      split.
      + exists (ext ++ [name]). split; [rewrite app_assoc; reflexivity|].
        intros x Hx. apply in_app_or in Hx as [Hx|[<-|[]]]; [|exact Ep].
        intros Hp. apply (Ne _ Hx). right. exact Hp.
      + split; [apply Topo_snoc; assumption|].
        intros x [<-|[]]. apply in_or_app. right. left. reflexivity.
  Qed.

  Lemma clos_first a b : clos_trans nat (edge d) a b -> exists c, edge d a c.
  Proof. induction 1 as [a b H|a b c _ IH1 _ _]; [exists b; exact H|exact IH1]. Qed.

  Lemma Topo_descends s a b : Topo s -> clos_trans nat (edge d) a b -> In a s -> In b s /\ idx b s < idx a s.
  Proof.
    intros Ts. induction 1 as [a b H|a b c _ IH1 _ IH2]; intros Ha.
    - apply Ts; assumption.
    - destruct (IH1 Ha) as [Hb L1]. destruct (IH2 Hb) as [Hc L2]. split; [exact Hc|lia].
  Qed.

  (* never out of fuel; "cycle" only when there is one; an index list only when there is none *)
  Theorem sortMap_dfs_spec :
    match visit_refs (visit d (sortMap_fuel d)) (map fst d) [] [] with
    | VOut => False
    | VRet true _ _ => has_cycle d
    | VRet false s _ => ~ has_cycle d
    end.
  Proof.
    assert (R : res_ok [] [] (map fst d) (visit_refs (visit d (sortMap_fuel d)) (map fst d) [] [])).
    { apply refs_ok.
      - intros name s p. apply visit_ok.
      - constructor.
      - intros x [].
      - intros x Hx. unfold U, universe. apply in_or_app. left. exact Hx.
      - unfold sortMap_fuel. fold U. simpl. lia.
      - intros r x _ [].
      - intros n r []. }
    destruct (visit_refs (visit d (sortMap_fuel d)) (map fst d) [] []) as [|[|] s p]; simpl in R; try exact R.
    destruct R as [_ [_ [Ts M]]]. intros [a Ca].
    destruct (clos_first _ _ Ca) as [c Hc].
    assert (Ha : In a s) by (apply M; eapply deps_get_key; exact Hc).
    destruct (Topo_descends s a a Ts Ca Ha) as [_ L]. lia.
  Qed.
End DFS.

Theorem sortMap_cycle_iff cs : sortMap cs = SMCycle <-> has_cycle (dependencies cs).
Proof.
  unfold sortMap. pose proof (sortMap_dfs_spec (dependencies cs)) as H.
  destruct (visit_refs _ _ _ _) as [|[|] s p]; split; intros X; try discriminate; try contradiction; auto.
Qed.

Theorem sortMap_never_out cs : sortMap cs <> SMOut.
Proof.
  unfold sortMap. pose proof (sortMap_dfs_spec (dependencies cs)) as H.
  destruct (visit_refs _ _ _ _) as [|[|] s p]; try discriminate. contradiction.
Qed.

(** * the edge set of [dependencies] *)
Definition add1 (d : deps_t) (kv : nat * nat) : deps_t := deps_add (fst kv) (snd kv) d.

Definition fk_add_pairs (t : table) (f : fkey) : list (nat * nat) :=
  if negb (ptr_eqb (f_ref f) t) then [(t_name t, t_name (f_ref f))] else [].
Definition fk_drop_pairs (cs0 : list change) (f : fkey) : list (nat * nat) :=
  if isDropped cs0 (f_ref f) then [(t_name (f_ref f), t_name (f_tab f))] else [].
Definition tc_pairs (cs0 : list change) (t : table) (c : tchange) : list (nat * nat) :=
  match c with
  | AddFK f => fk_add_pairs t f
  | ModifyFK _ to => fk_add_pairs t to
  | DropFK f => fk_drop_pairs cs0 f
  | Other _ => []
  end.
(* the deps[k] = append(deps[k], v) calls one change makes *)
Definition pairs (cs0 : list change) (c : change) : list (nat * nat) :=
  match c with
  | AddTable t fks => flat_map (fk_add_pairs t) fks
  | DropTable t fks => flat_map (fk_drop_pairs cs0) fks
  | ModifyTable t tcs => flat_map (tc_pairs cs0 t) tcs
  end.

Lemma fold_left_flat_map {A B S : Type} (f : S -> B -> S) (g : A -> list B) (l : list A) : forall s,
  fold_left f (flat_map g l) s = fold_left (fun s x => fold_left f (g x) s) l s.
Proof. induction l as [|x l IH]; intros s; simpl; [reflexivity|]. rewrite fold_left_app. apply IH. Qed.

Lemma fold_left_ext_in {A S : Type} (f g : S -> A -> S) (l : list A) :
  (forall s x, f s x = g s x) -> forall s, fold_left f l s = fold_left g l s.
Proof. intros H. induction l as [|x l IH]; intros s; simpl; [reflexivity|]. rewrite H. apply IH. Qed.

Lemma dep_change_pairs cs0 d c : dep_change cs0 d c = fold_left add1 (pairs cs0 c) d.
Proof.
  destruct c as [t fks|t fks|t tcs]; simpl; rewrite fold_left_flat_map; apply fold_left_ext_in; intros s x.
  - unfold dep_addfk, fk_add_pairs. destruct (negb _); reflexivity.
  - unfold dep_dropfk, fk_drop_pairs. destruct (isDropped _ _); reflexivity.
  - destruct x; simpl; unfold dep_addfk, dep_dropfk, fk_add_pairs, fk_drop_pairs;
      try (destruct (negb _); reflexivity); try (destruct (isDropped _ _); reflexivity); reflexivity.
Qed.

Lemma dependencies_pairs cs : dependencies cs = fold_left add1 (flat_map (pairs cs) cs) [].
Proof.
  unfold dependencies. rewrite fold_left_flat_map. apply fold_left_ext_in. intros s x. apply dep_change_pairs.
Qed.

Lemma deps_get_small k (d : deps_t) :
  Forall (fun e => (k <? fst e) = true) d -> deps_get k d = [].
Proof.
  induction 1 as [|[k' vs] r H _ IH]; simpl; [reflexivity|].
  simpl in H. apply Nat.ltb_lt in H. destruct (k =? k') eqn:E; [apply Nat.eqb_eq in E; lia|exact IH].
Qed.

Lemma deps_get_add a b k v d : keys_sorted d ->
  In b (deps_get a (deps_add k v d)) <-> (a = k /\ b = v) \/ In b (deps_get a d).
Proof.
  induction 1 as [|[k' vs] r Hs IH Hf]; simpl.
  - destruct (a =? k) eqn:E; simpl.
    + apply Nat.eqb_eq in E. subst. intuition.
    + apply Nat.eqb_neq in E. intuition congruence.
  - destruct (k =? k') eqn:E1; [|destruct (k <? k') eqn:E2]; simpl.
    + apply Nat.eqb_eq in E1. subst k'. destruct (a =? k) eqn:E.
      * apply Nat.eqb_eq in E. subst. rewrite in_app_iff. simpl. intuition.
      * apply Nat.eqb_neq in E. intuition congruence.
    + apply Nat.ltb_lt in E2. destruct (a =? k) eqn:E.
      * apply Nat.eqb_eq in E. subst a.
        assert (k =? k' = false) as -> by (apply Nat.eqb_neq; lia).
        rewrite (deps_get_small k r).
        { simpl. intuition. }
        rewrite Forall_forall in *. intros e He. pose proof (Hf e He) as L. unfold klt in L. simpl in L.
        apply Nat.ltb_lt in L. apply Nat.ltb_lt. lia.
      * apply Nat.eqb_neq in E. intuition congruence.
    + destruct (a =? k') eqn:E.
      * apply Nat.eqb_eq in E. subst a. apply Nat.eqb_neq in E1. intuition congruence.
      * exact IH.
Qed.

Lemma add1_sorted d kv : keys_sorted d -> keys_sorted (add1 d kv).
Proof. apply deps_add_sorted. Qed.

Lemma edges_fold a b (l : list (nat * nat)) : forall d, keys_sorted d ->
  In b (deps_get a (fold_left add1 l d)) <-> In (a, b) l \/ In b (deps_get a d).
Proof.
  induction l as [|[k v] l IH]; intros d Hd; simpl; [intuition|].
  rewrite IH by (apply add1_sorted; exact Hd). unfold add1 at 1; simpl. rewrite deps_get_add by exact Hd.
  split; intros H.
  - destruct H as [H|[[-> ->]|H]]; auto.
  - destruct H as [[H|H]|H]; auto. inversion H; subst. auto.
Qed.

Lemma edge_dependencies cs a b : edge (dependencies cs) a b <-> In (a, b) (flat_map (pairs cs) cs).
Proof.
  unfold edge. rewrite dependencies_pairs, edges_fold by constructor. simpl. intuition.
Qed.

Lemma isDropped_perm cs cs' t : Permutation cs cs' -> isDropped cs t = isDropped cs' t.
Proof. apply existsb_perm. Qed.

Lemma pairs_perm cs cs' c : Permutation cs cs' -> pairs cs c = pairs cs' c.
Proof.
  intros P. destruct c as [t fks|t fks|t tcs]; simpl; [reflexivity| |].
  - apply flat_map_ext. intros f. unfold fk_drop_pairs. rewrite (isDropped_perm _ _ _ P). reflexivity.
  - apply flat_map_ext. intros c. destruct c; simpl; try reflexivity.
    unfold fk_drop_pairs. rewrite (isDropped_perm _ _ _ P). reflexivity.
Qed.

(* the reference graph is the same SET of edges for every order of the change set *)
Theorem edge_dependencies_perm cs cs' a b :
  Permutation cs cs' -> (edge (dependencies cs) a b <-> edge (dependencies cs') a b).
Proof.
  intros P. rewrite !edge_dependencies.
  rewrite (flat_map_ext (pairs cs) (pairs cs') (fun c => pairs_perm cs cs' c P)).
  split; apply Permutation_in; [|apply Permutation_sym]; apply flat_map_perm, P.
Qed.

Lemma has_cycle_edges d d' : (forall a b, edge d a b -> edge d' a b) -> has_cycle d -> has_cycle d'.
Proof.
  intros H [a C]. exists a.
  assert (G : forall x y, clos_trans nat (edge d) x y -> clos_trans nat (edge d') x y).
  { intros x y T. induction T as [x y E|x y z _ IH1 _ IH2]; [apply t_step, H, E|eapply t_trans; eassumption]. }
  apply G, C.
Qed.

Theorem sortMap_cycle_perm cs cs' :
  Permutation cs cs' -> (sortMap cs = SMCycle <-> sortMap cs' = SMCycle).
Proof.
  intros P. rewrite !sortMap_cycle_iff.
  split; apply has_cycle_edges; intros a b; apply edge_dependencies_perm; [apply Permutation_sym|]; exact P.
Qed.

(** * declaration order, DetachCycles stage, no premise *)
Theorem DetachCycles_never_out cs : DetachCycles cs <> DCOut.
Proof.
  unfold DetachCycles. pose proof (sortMap_never_out cs). destruct (sortMap cs); congruence.
Qed.

Theorem DetachCycles_decl_order_full cs cs' :
  Permutation cs cs' ->
  exists p p', DetachCycles cs = DCOk p /\ DetachCycles cs' = DCOk p' /\ Permutation p p'.
Proof.
  intros P.
  destruct (DetachCycles cs) as [|p] eqn:E; [exfalso; exact (DetachCycles_never_out cs E)|].
  destruct (DetachCycles cs') as [|p'] eqn:E'; [exfalso; exact (DetachCycles_never_out cs' E')|].
  exists p, p'. repeat split. eapply DetachCycles_decl_order; eauto. apply sortMap_cycle_perm, P.
Qed.
