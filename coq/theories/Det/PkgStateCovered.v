(** C20 (round 5) -- the generated census of package-level variables that can carry state from one
    differ / planner of the process to the next (gen/Gen_PkgState.v) against the table of [Mutable]
    variables that the harness stage `history` (harness/cmd/det/history.go) reaches.

    A package-level map / slice / pointer / sync value that the tree starts to write at run time (a
    cache of charset tables shared by all server versions, a sync.Once around a collation table, ...)
    appears in the regenerated census as a new [Mutable] row and [pkgstate_is_covered] stops
    compiling until the row is added here -- with the scenario of the history stage that shows the
    variable does not leak one flavour's defaults into another's output.  Rows marked
    "not exercised" are Mutable variables the history stage cannot reach; they are listed so that the
    obligation is about NEW state, and the reason is given. *)
From Coq Require Import String List Bool.
From Atlas Require Import Det.PkgState gen.Gen_PkgState.
Import ListNotations.
Local Open Scope string_scope.

Definition exercised_state : list pkg_var := [
  (* not exercised: the CLI's flag block (--env, --var, --config), written by cobra while it parses the
     command line of `atlas`; no differ / planner reads it.  Process-per-command state; the CLI
     properties (C10, C12, C13) start one process per command. *)
  PV "cmd/atlas/internal/cmdapi/cmdapi.go" "GlobalFlags" "struct" Mutable;
  (* history: every case ends with MarshalSpec (mysql.MarshalHCL / postgres.MarshalHCL) of the desired schema, which reads the
     extension registry (implementers / lookup under extensionsMu.RLock).  The registry is written
     by schemahcl.Register only, called from the init() of the spec packages. *)
  PV "schemahcl/extension.go" "extensionNames" "slice" Mutable;
  PV "schemahcl/extension.go" "extensions" "map" Mutable;
  PV "schemahcl/extension.go" "extensionsMu" "sync.RWMutex" Mutable;
  (* history: the per-Go-type cache of `spec:"..."` field tags, filled on the first MarshalSpec of the
     process (flavour A's case) and read by every later one (flavour B's); keyed by reflect.Type only. *)
  PV "schemahcl/extension.go" "specCache" "sync.Map" Mutable;
  (* history: every case with a non-empty plan writes it with the default formatter into
     migrate.OpenMemDir("hist/<input>") -- the same name for every flavour and scenario -- and closes
     it; a directory that survived flavour A would show as "DIR not empty on open" / other files and
     another atlas.sum in flavour B's output (MySQL and PostgreSQL flavours alike). *)
  PV "sql/migrate/dir.go" "memDirs" "struct" Mutable;
  (* not exercised: the framework's own crash-point table (build tag verif, notes/patches), used by
     the executor properties only; empty and never consulted by a differ / planner / formatter. *)
  PV "sql/migrate/verif_on.go" "verifPoints" "struct" Mutable;
  (* history: the set of default PostgreSQL operator classes, built on first use (opsOnce) by
     IndexOpClass.DefaultFor from the constant table postgresop.Classes.  Inputs pg/index-opclass-default,
     -pattern, -varchar make the differ of every PostgreSQL flavour (DefaultDiff, 15, 10, CockroachDB)
     consult it, first in the process or after any other flavour did. *)
  PV "sql/postgres/inspect_oss.go" "defaultOps" "map" Mutable;
  PV "sql/postgres/inspect_oss.go" "opsOnce" "sync.Once" Mutable
].

(* finite, re-checked against the regenerated census on every run *)
Lemma pkgstate_is_covered : pkgstate_covered pkg_state exercised_state = true.
Proof. vm_compute. reflexivity. Qed.
