(** C20 -- models of the places where the Go code iterates a map (or a directory listing).

    A Go map is given to every model as the list of its entries in the order the [range]
    statement happened to deliver them: an ARBITRARY permutation, keys pairwise distinct.
    The theorems (Det/OrderIndep.v) say what does not depend on that order.

    Conventions.
    * [sort.Slice]/[sort.Strings] is modelled by the insertion sort [isort]; OrderIndep proves that
      *every* sorted permutation of a list with distinct keys equals it, so Go's unstable pdqsort
      need not be modelled.
    * A loop that returns the first error it meets is [foldM]: [None] is "some error" (the error
      *text* names the element met first and is outside the canonical observables).
    * Per-element functions that are not order-relevant (evaluating an HCL expression, converting a
      foreign key ...) are [Section] variables.  No proofs in this file.

    Site by site (file: function #ordinal as in gen/Gen_MapRanges.v):
      sql/internal/sqlx/plan.go        byKeys #1, CheckChangesScope #1 (+ sortMap over byKeys)
      sql/migrate/dir.go               MemDir.Files #1 (= DirModel.files_of; LocalDir.Files has the
                                       same shape over fs.Glob names), MemDir.Close #1
      cmd/atlas/internal/cmdapi/cmdapi.go   resetFromEnv #1
      schemahcl/context.go             State.evalReferences #3, blockVars #1, bodyVars #1, typeRefs #1
      schemahcl/extension.go           registry.implementers #1; Resource.as and registry.lookup no longer range over a
                                       map after the fixes notes/fixes/C20-hcl-remain-order, -scan-type (models kept)
      schemahcl/schemahcl.go           State.EvalOptions #1 (after fix C20-hcl-multifile-locals), State.copyBlock #1, State.toAttrs #1
      sql/internal/specutil/convert.go Scan #1 #2;  spec.go QualifyObjects #1 #2
      sql/postgres/inspect_oss.go      inspect.addIndexes #1;  migrate_oss.go state.alterEnum #1 *)
From Coq Require Import List Bool Arith NArith.
From Atlas Require Import Base.Bytes Plan.SortModel Dir.DirModel.
Import ListNotations.

(** * Generic pieces *)

Section Sort.
  Context {A K : Type}.
  Variable key : A -> K.
  Variable ltb : K -> K -> bool.

  (* the shape of DirModel.insert_file / SortModel.insert_by *)
  Fixpoint insert_by (x : A) (l : list A) : list A :=
    match l with
    | [] => [x]
    | y :: r => if ltb (key x) (key y) then x :: l else y :: insert_by x r
    end.

  Fixpoint isort (l : list A) : list A :=
    match l with
    | [] => []
    | x :: r => insert_by x (isort r)
    end.
End Sort.

(* for _, e := range l { s, err = step(s, e); if err != nil { return err } } *)
Fixpoint foldM {S E : Type} (step : S -> E -> option S) (l : list E) (s : S) : option S :=
  match l with
  | [] => Some s
  | e :: r => match step s e with None => None | Some s' => foldM step r s' end
  end.

(* the loop body [if err := check(e); err != nil { return err }; effect(e)] *)
Definition checked {S E : Type} (check : E -> bool) (eff : S -> E -> S) (s : S) (e : E) : option S :=
  if check e then Some (eff s e) else None.

(* a table with a fixed order of rows (a slice of objects, the flag set ...): update the rows with key k *)
Definition upd {V : Type} (k : nat) (g : V -> V) (st : list (nat * V)) : list (nat * V) :=
  map (fun kv => if fst kv =? k then (fst kv, g (snd kv)) else kv) st.

Definition bmem (x : bytes) (l : list bytes) : bool := existsb (bytes_eqb x) l.

(** * sql/internal/sqlx/plan.go *)

(* byKeys: collect the entries, sort.Slice by K *)
Definition byKeys {V : Type} (m : list (bytes * V)) : list (bytes * V) := isort fst bytes_ltb m.
(* the same over M-SORT's table names (nat) *)
Definition byKeys_nat {V : Type} (m : list (nat * V)) : list (nat * V) := isort fst Nat.ltb m.

(* sortMap with [deps] as a Go map: iterate byKeys(deps), look references up in the map.
   SortModel.sortMap is the instance where the entry list is already key-sorted. *)
Definition sortMap_over (deps : deps_t) : smres :=
  match visit_refs (visit deps (sortMap_fuel deps)) (map fst (byKeys_nat deps)) [] [] with
  | VOut => SMOut
  | VRet true _ _ => SMCycle
  | VRet false s _ => SMOk s
  end.

(* DetachCycles over the Go map: what the tie runs against verifx.DetachCycles *)
Definition DetachCycles_over (deps : deps_t) (changes : list change) : dcres :=
  match sortMap_over deps with
  | SMOut => DCOut
  | SMCycle => DCOk (detachReferences changes)
  | SMOk sorted => DCOk (sort_by (sort_key sorted) changes)
  end.

(* CheckChangesScope, after the set [names] is built:
   if len(names) > 1 { ks := keys(names); sort.Strings(ks); return fmt.Errorf("... %q", ks) }
   Some ks = the error (its text lists ks), None = nil *)
Definition CheckChangesScope_names (names : list bytes) : option (list bytes) :=
  if 1 <? length names then Some (isort (fun x => x) bytes_ltb names) else None.

(** * sql/migrate/dir.go *)

(* MemDir.Files / LocalDir.Files = DirModel.files_of; Dir.Checksum = NewHashFile(Files()),
   HashFile.MarshalText *)
Definition Checksum (HS : bytes -> bytes) (st : store) : list entry := newhash HS (files_of st).
Definition ChecksumText (HS : bytes -> bytes) (st : store) : bytes := marshal HS (Checksum HS st).

(* MemDir.Close over memDirs.opened : name -> (dir, numUse).  State = (opened, the entries that
   stay in the map, as a key-sorted list). *)
Definition memdir := (bytes * (nat * nat))%type.
Definition close_step (d : nat) (st : option bytes * list memdir) (e : memdir) : option (option bytes * list memdir) :=
  let '(name, (dir, n)) := e in
  if negb (dir =? d) then Some (fst st, insert_by fst bytes_ltb e (snd st))
  else match fst st with
       | Some _ => None                                     (* "dir was opened with different names" *)
       | None => Some (Some name, if pred n =? 0 then snd st
                                  else insert_by fst bytes_ltb (name, (dir, pred n)) (snd st))
       end.
Definition MemDir_Close (d : nat) (opened : list memdir) : option (list memdir) :=
  option_map snd (foldM (close_step d) opened (None, [])).

(** * cmd/atlas/internal/cmdapi/cmdapi.go: resetFromEnv
   flags: name -> (Changed, value); mayReset: name -> saved value.
   if f := cmd.Flag(name); f != nil && f.Changed { f.Changed = false; reset() } *)
Definition flag := (bool * nat)%type.
Definition reset_flag (saved : nat) (f : flag) : flag := if fst f then (false, saved) else f.
Definition resetFromEnv (flags : list (nat * flag)) (mayReset : list (nat * nat)) : list (nat * flag) :=
  fold_left (fun st e => upd (fst e) (reset_flag (snd e)) st) mayReset flags.

(** * schemahcl/context.go *)

(* bodyVars / typeRefs: for _, a := range b.Attributes { vars = append(vars, Variables(a.Expr)...) } *)
Definition bodyVars {T : Type} (attrs : list (bytes * list T)) : list T := flat_map snd attrs.
(* typeRefs filters by root name; its only consumer (evalReferences) asks whether some reference
   matches the node: [exists] *)
Definition typeRefs {T : Type} (isroot : T -> bool) (attrs : list (bytes * list T)) : list T :=
  filter isroot (bodyVars attrs).
Definition typeRefs_exists {T : Type} (isroot matches : T -> bool) (attrs : list (bytes * list T)) : bool :=
  existsb matches (typeRefs isroot attrs).

(** ** State.evalReferences #3 with its closure [visit] (schemahcl/context.go)
    nodes : map[addr]*node, a node = (addr, edges(), value()).  Here: an address is a [nat]; the table
    [nodes] gives for every node the addresses its expression refers to, in the order edges()
    delivered them (for data/typed blocks that is bodyVars: itself a map order); ctx.Variables
    restricted to node addresses is a key-sorted list [ectx]; n.value() is [valueOf n ctx].

      visit = func(n) error {
        if visited[n] { return nil }            // never true: visited is read but never written
        if progress[n] { return "cyclic reference" }
        progress[n] = true
        for _, e := range n.edges() { if nodes[addr(e)] == nil { continue }; if err := visit(nodes[addr(e)]); err != nil { return err } }
        delete(progress, n)
        v, err := n.value(); if err != nil { return err }
        ctx.Variables[...] = v; return nil }
      for _, n := range nodes { if typeref says n is not referenced { continue }; if err := visit(n); err != nil { return err } } *)
Section EvalRefs.
  Variable Val : Type.
  Definition ectx := list (nat * Val).
  Fixpoint mget (k : nat) (c : ectx) : option Val :=
    match c with
    | [] => None
    | (k', v) :: r => if k =? k' then Some v else mget k r
    end.
  Fixpoint mset (k : nat) (v : Val) (c : ectx) : ectx :=
    match c with
    | [] => [(k, v)]
    | (k', v') :: r => if k =? k' then (k, v) :: r else if k <? k' then (k, v) :: c else (k', v') :: mset k v r
    end.

  Variable valueOf : nat -> ectx -> option Val.      (* None = evaluation error *)
  Variable nodes : deps_t.
  Definition is_node (a : nat) : bool := mem a (map fst nodes).
  Definition edges_of (n : nat) : list nat := filter is_node (deps_get n nodes).

  Inductive eres := EOut | EErr | EOk (c : ectx).     (* out of fuel | error | nil *)

  Fixpoint evisit_edges (visit1 : nat -> ectx -> eres) (es : list nat) (c : ectx) : eres :=
    match es with
    | [] => EOk c
    | e :: r => match visit1 e c with EOk c' => evisit_edges visit1 r c' | x => x end
    end.

  Fixpoint evisit (fuel n : nat) (progress : list nat) (c : ectx) : eres :=
    match fuel with
    | 0 => EOut
    | S f =>
        if mem n progress then EErr
        else match evisit_edges (fun e c => evisit f e (n :: progress) c) (edges_of n) c with
             | EOk c' => match valueOf n c' with None => EErr | Some v => EOk (mset n v c') end
             | x => x
             end
    end.

  Definition evisit_fuel : nat := S (length nodes).

  Variable referenced : nat -> bool.
  Fixpoint evalReferences_loop (l : list (nat * list nat)) (c : ectx) : eres :=
    match l with
    | [] => EOk c
    | r :: l' =>
        if referenced (fst r)
        then match evisit evisit_fuel (fst r) [] c with EOk c' => evalReferences_loop l' c' | x => x end
        else evalReferences_loop l' c
    end.
End EvalRefs.

Section Eval.
  (* evaluation context, node / block / file payloads *)
  Variables (Ctx Node Val : Type).

  (* blockVars #1: for name, def := range defs.children { vars[name] = f(name, def) or return err }
     the result map is kept as a key-sorted list *)
  Variable blockVal : bytes -> Node -> option Val.
  Definition blockVars_step (vars : list (bytes * Val)) (e : bytes * Node) : option (list (bytes * Val)) :=
    match blockVal (fst e) (snd e) with
    | None => None
    | Some v => Some (insert_by fst bytes_ltb (fst e, v) vars)
    end.
  Definition blockVars (children : list (bytes * Node)) : option (list (bytes * Val)) :=
    foldM blockVars_step children [].

  (* State.copyBlock #1: for k, v := range b.Body.Attributes { x, diags := v.Expr.Value(ctx); ...
     nb.Body.Attributes[k] = literal(x) }  -- same shape *)
  Definition copyBlock_attrs := blockVars.

  (* State.toAttrs #1: per attribute: error | null (omitted) | an Attr; then sort.Slice by K *)
  Inductive attr_res := AErr | ANull | AVal (v : Val).
  Variable attrVal : bytes -> Node -> attr_res.
  Definition toAttrs_step (acc : list (bytes * Val)) (e : bytes * Node) : option (list (bytes * Val)) :=
    match attrVal (fst e) (snd e) with
    | AErr => None
    | ANull => Some acc
    | AVal v => Some (acc ++ [(fst e, v)])
    end.
  Definition toAttrs (hclAttrs : list (bytes * Node)) : option (list (bytes * Val)) :=
    option_map (isort fst bytes_ltb) (foldM toAttrs_step hclAttrs []).

End Eval.

(* State.EvalOptions #1 (after fix C20-hcl-multifile-locals):
     for name := range files { fileNames = append(fileNames, name) }; sort.Strings(fileNames)
     for _, name := range fileNames { file := files[name]; setInputVals; evalReferences(ctx, body) ... }
   (the for_each blocks of State.EvalOptions are visited through the same sorted fileNames: the
   former map range #3 is gone).
   evalReferences of one file evaluates its locals in ctx: a local that refers to a local of
   ANOTHER file is not an edge of this file's graph (nodes[addr] == nil), so its expression is
   evaluated against whatever earlier files -- now: files with smaller names -- left in ctx.
   file = (locals it defines, locals of other files its locals refer to) *)
Definition hclfile := (bytes * (list bytes * list bytes))%type.
Definition evalfile_step (ctx : list bytes) (f : hclfile) : option (list bytes) :=
  if forallb (fun x => bmem x ctx) (snd (snd f)) then Some (fst (snd f) ++ ctx) else None.
(* None = the diagnostic "Unknown variable: There is no variable named local"; Some = sorted fileNames *)
Definition EvalOptions_files (files : list hclfile) : option (list bytes) :=
  let sorted := isort fst bytes_ltb files in
  match foldM evalfile_step sorted [] with
  | None => None
  | Some _ => Some (map fst sorted)
  end.

(** * schemahcl/extension.go *)

(* Extra.SetAttr replaces the attribute with the same key or appends *)
Fixpoint SetAttr {V : Type} (a : bytes * V) (attrs : list (bytes * V)) : list (bytes * V) :=
  match attrs with
  | [] => [a]
  | b :: r => if bytes_eqb (fst a) (fst b) then a :: r else b :: SetAttr a r
  end.
(* Resource.as, remainder attributes (after fix C20-hcl-remain-order): the map existingAttrs is
   only looked up and deleted from, the iteration is over the slice r.Attrs:
     for _, attr := range r.Attrs { if _, ok := existingAttrs[attr.K]; ok { extras.SetAttr(attr); delete(existingAttrs, attr.K) } }
   existingAttrs (a set) is given as the list of its keys in any order *)
Fixpoint as_extra_attrs {V : Type} (rattrs : list (bytes * V)) (existingAttrs : list bytes) (extra : list (bytes * V)) : list (bytes * V) :=
  match rattrs with
  | [] => extra
  | a :: r =>
      if bmem (fst a) existingAttrs
      then as_extra_attrs r (filter (fun k => negb (bytes_eqb (fst a) k)) existingAttrs) (SetAttr a extra)
      else as_extra_attrs r existingAttrs extra
  end.

(* childrenOfType(r, types...) *)
Definition childrenOfType {C : Type} (ctype : C -> bytes) (children : list C) (types : list bytes) : list C :=
  flat_map (fun c => flat_map (fun t => if bytes_eqb (ctype c) t then [c] else []) types) children.

(* Resource.as, remainder blocks (after the fix):
     for _, c := range r.Children { if _, ok := existingChildren[c.Type]; ok { extras.Children = append(extras.Children, c) } } *)
Definition as_extra_children {C : Type} (ctype : C -> bytes) (children : list C) (existingChildren : list bytes) (extra : list C) : list C :=
  extra ++ filter (fun c => bmem (ctype c) existingChildren) children.

(* registry.implementers #1 and its two consumers in Resource.as: childrenOfType(r, impls...) *)
Definition implementers {T : Type} (implements : T -> bool) (r : list (bytes * T)) : list bytes :=
  map fst (filter (fun e => implements (snd e)) r).
Definition implementers_children {T C : Type} (implements : T -> bool) (ctype : C -> bytes) (children : list C) (r : list (bytes * T)) : list C :=
  childrenOfType ctype children (implementers implements r).

(* registry.lookup (after fix C20-hcl-scan-type): the names in registration order are a slice,
   the map is only looked up:
     for _, k := range extensionNames { if v, ok := r[k]; ok && TypeOf(ext) == TypeOf(v) { return k, true } } *)
Fixpoint bassoc {T : Type} (k : bytes) (r : list (bytes * T)) : option T :=
  match r with
  | [] => None
  | (k', v) :: r' => if bytes_eqb k k' then Some v else bassoc k r'
  end.
Definition lookup {T : Type} (same : T -> bool) (extensionNames : list bytes) (r : list (bytes * T)) : option bytes :=
  find (fun k => match bassoc k r with Some v => same v | None => false end) extensionNames.

(** * sql/internal/specutil *)

Section Specutil.
  Variable Obj : Type.
  (* Scan #1: for t, fks := range fks { if err := linkForeignKeys(funcs, t, fks); err != nil { return err } }
     linkForeignKeys reads columns (fixed before the loop) and appends to t.ForeignKeys only.
     Scan #2: for o, refs := range deps { fromDependsOn(..., o, ...) } -- o.AddDeps only.
     tables/objects: a slice in declaration order; an entry of the map: (object id, payload). *)
  Variable Payload : Type.
  Variable link_ok : nat * Payload -> bool.
  Variable link : Payload -> Obj -> Obj.
  Definition Scan_link (objs : list (nat * Obj)) (m : list (nat * Payload)) : option (list (nat * Obj)) :=
    foldM (checked link_ok (fun st e => upd (fst e) (link (snd e)) st)) m objs.

  (* QualifyObjects: byLabel : label -> (schema -> objects).
     #1 for _, v := range byLabel { if len(v) == 1 { continue };
     #2   for q, sv := range v { for _, s := range sv { s.SetQualifier(q); schemas[q] = true } } }
     One bucket (q, sv) touches only its own objects (every spec is in exactly one bucket) and adds
     q to the set [schemas]; the bucket effect is kept abstract (see OrderIndep: partial). *)
  Variables (QSt Bucket : Type).
  Variable qualify_bucket : QSt -> nat * Bucket -> QSt.
  Definition qual_inner (v : list (nat * Bucket)) (st : QSt) : QSt := fold_left qualify_bucket v st.
  Definition qual_outer (st : QSt) (e : nat * list (nat * Bucket)) : QSt :=
    match snd e with
    | [_] => st                                  (* len(v) == 1 *)
    | v => qual_inner v st
    end.
  Definition QualifyObjects (byLabel : list (nat * list (nat * Bucket))) (st : QSt) : QSt :=
    fold_left qual_outer byLabel st.
End Specutil.

(** * sql/postgres *)

(* inspect.addIndexes #1: for n, t := range m { idx.AddAttrs(&Constraint{N: n, T: t}) } *)
Definition addIndexes_constraints {V : Type} (attrs : list (bytes * V)) (m : list (bytes * V)) : list (bytes * V) :=
  fold_left (fun a c => a ++ [c]) m attrs.

(* state.alterEnum #1: for v := range fromV { if _, ok := toV[v]; !ok { return error } } *)
Definition alterEnum_check (toV : list bytes) (fromV : list (bytes * nat)) : option unit :=
  foldM (checked (fun e => bmem (fst e) toV) (fun s _ => s)) fromV tt.
