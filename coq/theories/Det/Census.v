(** Types of the generated map-range census (gen/Gen_MapRanges.v, DESIGN.md 2.4 / C20).
    One [map_range] per [range] statement over a map-typed expression in the Go tree;
    written by [h_det -mode census] (harness/cmd/det/census.go).  No proofs here. *)
From Coq Require Import String List Bool Arith.
Import ListNotations.

(** Syntactic class of the loop body:
    - [Comm]   only map/set inserts, deletes, commutative accumulation (numeric +=, ++, |=,
               boolean or/and, constant stores), per-element stores through the loop variables,
               early exits that do not carry the element;
    - [SortedAfter] additionally appends to slices, each of which is passed to a sort call later in
               the same function;
    - [Sens]   anything else (calls for effect, element-dependent returns, unsorted appends,
               stores to variables that outlive the iteration). *)
Inductive range_class := Comm | SortedAfter | Sens.

Record map_range := MR {
  mr_file  : string;       (* path relative to the repository root *)
  mr_func  : string;       (* enclosing declaration: Recv.Name | Name | var Name *)
  mr_ord   : nat;          (* 1-based ordinal of the map range inside the declaration *)
  mr_expr  : string;       (* the ranged expression (census) / the model's name (site table) *)
  mr_class : range_class;
  mr_app   : nat;          (* slices declared outside the loop that the body appends to *)
  mr_srt   : nat           (* ... of which are passed to a sort call later in the same declaration *)
}.

Definition class_eqb (a b : range_class) : bool :=
  match a, b with
  | Comm, Comm | SortedAfter, SortedAfter | Sens, Sens => true
  | _, _ => false
  end.

(** Same site, same class, same appended/sorted counts (the ranged expression is documentation only):
    removing the sort after a loop, or adding an unsorted append, changes the entry. *)
Definition same_site (a b : map_range) : bool :=
  String.eqb (mr_file a) (mr_file b) && String.eqb (mr_func a) (mr_func b)
  && Nat.eqb (mr_ord a) (mr_ord b) && class_eqb (mr_class a) (mr_class b)
  && Nat.eqb (mr_app a) (mr_app b) && Nat.eqb (mr_srt a) (mr_srt b).

Definition needs_model (r : map_range) : bool :=
  match mr_class r with Comm => false | _ => true end.

(** Every census entry that is not [Comm] is in the table of modelled sites (with the class the
    model was written for), and every modelled site still exists in the census. *)
Definition census_covered (census modelled : list map_range) : bool :=
  forallb (fun r => negb (needs_model r) || existsb (same_site r) modelled) census
  && forallb (fun m => existsb (fun r => same_site r m) census) modelled.
