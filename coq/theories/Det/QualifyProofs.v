(** C20 round 5 -- specutil.QualifyObjects: the qualifiers do not depend on the order in which the two
    map ranges deliver byLabel, nor on the order of the objects (schemas of the realm, tables of a
    schema): they are a function of the multiset of (schema, label) pairs. *)
From Coq Require Import List Bool Arith Permutation Lia.
From Atlas Require Import Det.OrderModel Det.QualifyModel.
Import ListNotations.

Lemma qobj_eqb_eq a b : qobj_eqb a b = true <-> a = b.
Proof.
  destruct a as [s1 l1], b as [s2 l2]; unfold qobj_eqb; simpl.
  rewrite andb_true_iff, !Nat.eqb_eq. split; [intros [-> ->]; reflexivity | intros H; inversion H; auto].
Qed.

Lemma qobj_eqb_refl a : qobj_eqb a a = true.
Proof. apply qobj_eqb_eq; reflexivity. Qed.

Lemma memn_In n l : memn n l = true <-> In n l.
Proof.
  unfold memn. rewrite existsb_exists. split.
  - intros [x [H E]]. apply Nat.eqb_eq in E. subst; auto.
  - intros H; exists n; split; auto. apply Nat.eqb_refl.
Qed.

Lemma fold_left_or {S E : Type} (f : S -> E -> S) (P : S -> Prop) (R : E -> Prop) :
  (forall s e, P (f s e) <-> P s \/ R e) ->
  forall l s, P (fold_left f l s) <-> P s \/ exists e, In e l /\ R e.
Proof.
  intros H l; induction l as [|a l IH]; simpl; intros s.
  - split; [auto | intros [?|[e [[] _]]]; auto].
  - rewrite IH, H. split.
    + intros [[?|?]|[e [? ?]]]; eauto.
    + intros [?|[e [[->|?] ?]]]; eauto.
Qed.

(** ** pass 2: what the nested ranges write, for any list of entries *)
Definition touchedQ (bl : list (nat * list (nat * list qobj))) (o : qobj) (q : nat) : Prop :=
  exists l v sv, In (l, v) bl /\ length v <> 1 /\ In (q, sv) v /\ In o sv.

Lemma qualify_bucket_quals st e o q :
  In (o, q) (quals (qualify_bucket st e)) <-> In (o, q) (quals st) \/ (q = fst e /\ In o (snd e)).
Proof.
  unfold qualify_bucket.
  rewrite (fold_left_or _ (fun s => In (o, q) (quals s)) (fun s => q = fst e /\ o = s)).
  - split; intros [?|H]; auto; right.
    + destruct H as [x [? [? ->]]]; auto.
    + destruct H; eauto.
  - intros s x; simpl. split.
    + intros [H|?]; auto. inversion H; auto.
    + intros [?|[-> ->]]; auto.
Qed.

Lemma qualify_bucket_schemas st e n :
  In n (schemas (qualify_bucket st e)) <-> In n (schemas st) \/ (n = fst e /\ snd e <> []).
Proof.
  unfold qualify_bucket.
  rewrite (fold_left_or _ (fun s => In n (schemas s)) (fun _ => n = fst e)).
  - split; intros [?|H]; auto; right.
    + destruct H as [x [? ->]]. split; auto. intros E; rewrite E in *; contradiction.
    + destruct H as [-> H]. destruct (snd e) as [|x r]; [congruence|]. exists x; simpl; auto.
  - intros s x; simpl. split; intros [?|?]; auto.
Qed.

Lemma qual_outer_quals st e o q :
  In (o, q) (quals (qual_outer qst (list qobj) qualify_bucket st e)) <->
  In (o, q) (quals st) \/ (length (snd e) <> 1 /\ exists sv, In (q, sv) (snd e) /\ In o sv).
Proof.
  assert (G : forall v, In (o, q) (quals (qual_inner qst (list qobj) qualify_bucket v st)) <->
                        In (o, q) (quals st) \/ exists sv, In (q, sv) v /\ In o sv).
  { intros v. unfold qual_inner.
    rewrite (fold_left_or _ (fun s => In (o, q) (quals s)) (fun b => q = fst b /\ In o (snd b))).
    - split; intros [?|H]; auto; right.
      + destruct H as [[q' sv] [? [? ?]]]; simpl in *; subst; eauto.
      + destruct H as [sv [? ?]]. exists (q, sv); auto.
    - intros; apply qualify_bucket_quals. }
  destruct e as [l v]; unfold qual_outer; simpl.
  destruct v as [|a [|b r]].
  - simpl. split; auto. intros [?|[_ [? [[] _]]]]; auto.
  - simpl. split; auto. intros [?|[H _]]; auto. congruence.
  - etransitivity; [apply (G (a :: b :: r))|]. split; intros [?|H]; auto.
    + right; split; [simpl; lia | exact H].
    + right; apply H.
Qed.

Lemma qual_outer_schemas st e n :
  In n (schemas (qual_outer qst (list qobj) qualify_bucket st e)) <->
  In n (schemas st) \/ (length (snd e) <> 1 /\ exists sv, In (n, sv) (snd e) /\ sv <> []).
Proof.
  assert (G : forall v, In n (schemas (qual_inner qst (list qobj) qualify_bucket v st)) <->
                        In n (schemas st) \/ exists sv, In (n, sv) v /\ sv <> []).
  { intros v. unfold qual_inner.
    rewrite (fold_left_or _ (fun s => In n (schemas s)) (fun b => n = fst b /\ snd b <> [])).
    - split; intros [?|H]; auto; right.
      + destruct H as [[q' sv] [? [? ?]]]; simpl in *; subst; eauto.
      + destruct H as [sv [? ?]]. exists (n, sv); auto.
    - intros; apply qualify_bucket_schemas. }
  destruct e as [l v]; unfold qual_outer; simpl.
  destruct v as [|a [|b r]].
  - simpl. split; auto. intros [?|[_ [? [[] _]]]]; auto.
  - simpl. split; auto. intros [?|[H _]]; auto. congruence.
  - etransitivity; [apply (G (a :: b :: r))|]. split; intros [?|H]; auto.
    + right; split; [simpl; lia | exact H].
    + right; apply H.
Qed.

Lemma pass2_quals bl st o q :
  In (o, q) (quals (pass2 bl st)) <-> In (o, q) (quals st) \/ touchedQ bl o q.
Proof.
  unfold pass2, QualifyObjects.
  rewrite (fold_left_or _ (fun s => In (o, q) (quals s))
             (fun e => length (snd e) <> 1 /\ exists sv, In (q, sv) (snd e) /\ In o sv)).
  - unfold touchedQ. split; intros [?|H]; auto; right.
    + destruct H as [[l v] [? [? [sv [? ?]]]]]; simpl in *. exists l, v, sv; auto.
    + destruct H as [l [v [sv [? [? [? ?]]]]]]. exists (l, v); simpl; eauto.
  - intros; apply qual_outer_quals.
Qed.

Lemma pass2_schemas bl st n :
  In n (schemas (pass2 bl st)) <-> In n (schemas st) \/ exists o, touchedQ bl o n.
Proof.
  unfold pass2, QualifyObjects.
  rewrite (fold_left_or _ (fun s => In n (schemas s))
             (fun e => length (snd e) <> 1 /\ exists sv, In (n, sv) (snd e) /\ sv <> [])).
  - unfold touchedQ. split; intros [?|H]; auto; right.
    + destruct H as [[l v] [? [? [sv [? Hne]]]]]; simpl in *.
      destruct sv as [|o r]; [congruence|]. exists o, l, v, (o :: r); simpl; auto.
    + destruct H as [o [l [v [sv [? [? [? Ho]]]]]]]. exists (l, v); simpl. repeat split; auto.
      exists sv; split; auto. intros E; rewrite E in Ho; contradiction.
  - intros; apply qual_outer_schemas.
Qed.

(** ** the order of the map entries does not matter *)
Lemma touchedQ_mono (bl bl0 : list (nat * list (nat * list qobj))) o q :
  (forall l v, In (l, v) bl -> exists v0, In (l, v0) bl0 /\ Permutation v v0) ->
  touchedQ bl o q -> touchedQ bl0 o q.
Proof.
  intros H [l [v [sv [Hl [Hn [Hq Ho]]]]]]. destruct (H _ _ Hl) as [v0 [H0 P]].
  exists l, v0, sv. repeat split; auto.
  - rewrite <- (Permutation_length P); exact Hn.
  - eapply Permutation_in; eauto.
Qed.

Lemma touchedQ_map_order bl bl0 o q : map_order bl bl0 -> (touchedQ bl o q <-> touchedQ bl0 o q).
Proof.
  intros [H1 H2]. split; apply touchedQ_mono; auto.
  intros l v Hl. destruct (H2 _ _ Hl) as [v' [? P]]. exists v'; split; auto. apply Permutation_sym; exact P.
Qed.

Lemma map_order_refl {B} (bl : list (nat * list B)) : map_order bl bl.
Proof. split; intros l v H; exists v; split; auto. Qed.

Lemma map_order_perm {B} (bl bl0 : list (nat * list B)) : Permutation bl bl0 -> map_order bl bl0.
Proof.
  intros P. split; intros l v H; exists v; split; auto.
  - eapply Permutation_in; eauto.
  - eapply Permutation_in; [apply Permutation_sym|]; eauto.
Qed.

(** outer permutation and, per key, a permutation of the inner map *)
Lemma map_order_perm2 {B} (bl bl1 bl0 : list (nat * list B)) :
  Permutation bl bl1 -> Forall2 (fun a b => fst a = fst b /\ Permutation (snd a) (snd b)) bl1 bl0 ->
  map_order bl bl0.
Proof.
  intros P F. split.
  - intros l v H. apply (Permutation_in _ P) in H. clear P.
    induction F as [|a b r1 r0 [E Pv] F IH]; [destruct H|].
    destruct H as [->|H].
    + destruct b as [l0 v0]; simpl in *; subst. exists v0; auto.
    + destruct (IH H) as [v0 [? ?]]. exists v0; simpl; auto.
  - intros l v0 H.
    assert (G : exists v, In (l, v) bl1 /\ Permutation v v0).
    { clear P. induction F as [|a b r1 r0 [E Pv] F IH]; [destruct H|].
      destruct H as [->|H].
      - destruct a as [l1 v1]; simpl in *; subst. exists v1; auto.
      - destruct (IH H) as [v [? ?]]. exists v; simpl; auto. }
    destruct G as [v [Hv Pv]]. exists v; split; auto.
    eapply Permutation_in; [apply Permutation_sym; exact P | exact Hv].
Qed.

(** ** the content of byLabel *)
Lemma nodup_len_ne1 (L : list nat) x :
  In x L -> (length (nodup Nat.eq_dec L) <> 1 <-> exists y, In y L /\ y <> x).
Proof.
  intros Hx. pose proof (NoDup_nodup Nat.eq_dec L) as ND.
  pose proof (fun y => nodup_In Nat.eq_dec L y) as HI.
  destruct (nodup Nat.eq_dec L) as [|a [|b r]] eqn:E.
  - apply HI in Hx. destruct Hx.
  - split; [intros H; exfalso; apply H; reflexivity|].
    intros [y [Hy Hne]]. apply HI in Hy. apply HI in Hx. simpl in *.
    destruct Hy as [Hy|[]], Hx as [Hx|[]]. congruence.
  - split; [|intros _; simpl; lia]. intros _. inversion ND as [|? ? N1 N2]; subst.
    destruct (Nat.eq_dec a x) as [->|Hne].
    + exists b. split; [apply HI; right; left; reflexivity|].
      intros ->. apply N1. left; reflexivity.
    + exists a. split; [apply HI; left; reflexivity | exact Hne].
Qed.

Lemma with_label_In specs l o : In o (with_label specs l) <-> In o specs /\ q_label o = l.
Proof. unfold with_label. rewrite filter_In, Nat.eqb_eq. tauto. Qed.

Lemma bucket_In specs l q o : In o (bucket specs l q) <-> In o specs /\ q_label o = l /\ q_schema o = q.
Proof. unfold bucket. rewrite filter_In, with_label_In, Nat.eqb_eq. tauto. Qed.

Lemma conflictb_iff specs o :
  conflictb specs o = true <-> exists y, In y (map q_schema (with_label specs (q_label o))) /\ y <> q_schema o.
Proof.
  unfold conflictb. rewrite existsb_exists. split.
  - intros [o' [Hi H]]. apply andb_true_iff in H. destruct H as [H1 H2].
    apply Nat.eqb_eq in H1. apply negb_true_iff, Nat.eqb_neq in H2.
    exists (q_schema o'). split; auto. apply in_map. apply with_label_In; auto.
  - intros [y [Hy Hne]]. apply in_map_iff in Hy. destruct Hy as [o' [<- Hi]].
    apply with_label_In in Hi. destruct Hi as [Hi Hl]. exists o'. split; auto.
    apply andb_true_iff. split; [apply Nat.eqb_eq; auto | apply negb_true_iff, Nat.eqb_neq; auto].
Qed.

Lemma touchedQ_byLabel specs o q :
  touchedQ (byLabel specs) o q <-> q = q_schema o /\ In o specs /\ conflictb specs o = true.
Proof.
  split.
  - intros [l [v [sv [Hl [Hn [Hq Ho]]]]]].
    unfold byLabel in Hl. apply in_map_iff in Hl. destruct Hl as [l0 [E _]].
    unfold byLabel_entry in E. inversion E; subst l0 v; clear E.
    apply in_map_iff in Hq. destruct Hq as [q0 [E _]]. inversion E; subst q0 sv; clear E.
    apply bucket_In in Ho. destruct Ho as [Hi [Hlab Hs]]. subst l q.
    repeat split; auto. rewrite map_length in Hn.
    apply conflictb_iff. apply (nodup_len_ne1 _ (q_schema o)); auto.
    apply in_map. apply with_label_In; auto.
  - intros [-> [Hi Hc]].
    exists (q_label o), (snd (byLabel_entry specs (q_label o))), (bucket specs (q_label o) (q_schema o)).
    assert (Hin : In (q_schema o) (map q_schema (with_label specs (q_label o)))).
    { apply in_map. apply with_label_In; auto. }
    repeat split.
    + unfold byLabel. apply in_map_iff. exists (q_label o). split; [reflexivity|].
      apply nodup_In. apply in_map; exact Hi.
    + simpl. rewrite map_length. apply (nodup_len_ne1 _ (q_schema o)); auto. apply conflictb_iff; exact Hc.
    + simpl. apply in_map_iff. exists (q_schema o). split; [reflexivity|]. apply nodup_In; exact Hin.
    + apply bucket_In; auto.
Qed.

Lemma schema_used_iff specs n :
  schema_used specs n = true <-> exists o, n = q_schema o /\ In o specs /\ conflictb specs o = true.
Proof.
  unfold schema_used. rewrite existsb_exists. split.
  - intros [o [Hi H]]. apply andb_true_iff in H. destruct H as [H1 H2]. apply Nat.eqb_eq in H1. exists o; auto.
  - intros [o [-> [Hi Hc]]]. exists o. split; auto. rewrite Nat.eqb_refl, Hc; reflexivity.
Qed.

(** ** pass 3 *)
Lemma pass3_schemas specs : forall st, schemas (fold_left pass3_step specs st) = schemas st.
Proof.
  induction specs as [|a r IH]; intros st; simpl; [reflexivity|]. rewrite IH.
  unfold pass3_step. destruct (lookupq a (quals st)); [reflexivity|].
  destruct (memn (q_label a) (schemas st)); reflexivity.
Qed.

Lemma pass3_lookup specs : forall st o,
  lookupq o (quals (fold_left pass3_step specs st)) =
  match lookupq o (quals st) with
  | Some q => Some q
  | None => if existsb (qobj_eqb o) specs && memn (q_label o) (schemas st) then Some (q_schema o) else None
  end.
Proof.
  induction specs as [|a r IH]; intros st o; simpl.
  - destruct (lookupq o (quals st)); reflexivity.
  - rewrite IH. unfold pass3_step. destruct (lookupq a (quals st)) eqn:La.
    + destruct (lookupq o (quals st)) eqn:Lo; auto.
      destruct (qobj_eqb o a) eqn:E; simpl; auto. apply qobj_eqb_eq in E; subst; congruence.
    + destruct (memn (q_label a) (schemas st)) eqn:M; simpl.
      * destruct (qobj_eqb o a) eqn:E; simpl; auto.
        apply qobj_eqb_eq in E; subst o. rewrite La, M. reflexivity.
      * destruct (lookupq o (quals st)) eqn:Lo; auto.
        destruct (qobj_eqb o a) eqn:E; simpl; auto. apply qobj_eqb_eq in E; subst o.
        rewrite M, andb_false_r. reflexivity.
Qed.

Lemma lookupq_some o l q : lookupq o l = Some q -> In (o, q) l.
Proof.
  induction l as [|[o' q'] r IH]; simpl; [discriminate|].
  destruct (qobj_eqb o o') eqn:E; auto. apply qobj_eqb_eq in E; subst. intros H; inversion H; auto.
Qed.

Lemma lookupq_none o l : lookupq o l = None -> forall q, ~ In (o, q) l.
Proof.
  induction l as [|[o' q'] r IH]; simpl; [tauto|].
  destruct (qobj_eqb o o') eqn:E; [discriminate|]. intros H q [H1|H1].
  - inversion H1; subst. rewrite qobj_eqb_refl in E; discriminate.
  - exact (IH H q H1).
Qed.

(** ** the result of QualifyObjects for any order of the two map ranges *)
Theorem QualifyObjects_over_spec bl specs :
  map_order bl (byLabel specs) ->
  QualifyObjects_over bl specs = map (fun o => (o, qualifier_spec specs o)) specs.
Proof.
  intros MO. unfold QualifyObjects_over. apply map_ext_in. intros o Ho. f_equal.
  rewrite pass3_lookup.
  assert (Hex : existsb (qobj_eqb o) specs = true).
  { apply existsb_exists. exists o; split; auto. apply qobj_eqb_refl. }
  rewrite Hex; simpl. unfold qualifier_spec.
  assert (HQ : forall q, In (o, q) (quals (pass2 bl qst0)) <-> q = q_schema o /\ conflictb specs o = true).
  { intros q. rewrite pass2_quals, (touchedQ_map_order _ _ _ _ MO), touchedQ_byLabel. simpl. tauto. }
  assert (HS : memn (q_label o) (schemas (pass2 bl qst0)) = schema_used specs (q_label o)).
  { apply eq_true_iff_eq. rewrite memn_In, pass2_schemas, schema_used_iff. simpl.
    split.
    - intros [[]|[x Hx]]. apply (touchedQ_map_order _ _ _ _ MO) in Hx. apply touchedQ_byLabel in Hx. eauto.
    - intros [x Hx]. right. exists x. apply (touchedQ_map_order _ _ _ _ MO). apply touchedQ_byLabel. exact Hx. }
  destruct (lookupq o (quals (pass2 bl qst0))) as [q|] eqn:L.
  - apply lookupq_some, HQ in L. destruct L as [-> Hc]. rewrite Hc; reflexivity.
  - assert (Hc : conflictb specs o = false).
    { destruct (conflictb specs o) eqn:C; auto. exfalso.
      apply (lookupq_none _ _ L (q_schema o)). apply HQ; auto. }
    rewrite Hc, HS; simpl. reflexivity.
Qed.

(** ** the declarative result only depends on the multiset of objects *)
Lemma existsb_perm {A} (f : A -> bool) l l' : Permutation l l' -> existsb f l = existsb f l'.
Proof.
  intros P. apply eq_true_iff_eq. rewrite !existsb_exists.
  split; intros [x [? ?]]; exists x; split; auto.
  - eapply Permutation_in; eauto.
  - eapply Permutation_in; [apply Permutation_sym; exact P | assumption].
Qed.

Lemma conflictb_perm specs specs' o : Permutation specs specs' -> conflictb specs o = conflictb specs' o.
Proof. intros P; apply existsb_perm; exact P. Qed.

Lemma existsb_ext_all {A} (f g : A -> bool) l : (forall x, f x = g x) -> existsb f l = existsb g l.
Proof. intros H; induction l as [|a r IH]; simpl; [reflexivity|]. rewrite H, IH; reflexivity. Qed.

Lemma qualifier_spec_perm specs specs' o :
  Permutation specs specs' -> qualifier_spec specs o = qualifier_spec specs' o.
Proof.
  intros P. unfold qualifier_spec, schema_used. rewrite (conflictb_perm _ _ o P).
  rewrite (existsb_perm _ _ _ P).
  rewrite (existsb_ext_all _ (fun o0 => Nat.eqb (q_schema o0) (q_label o) && conflictb specs' o0)); [reflexivity|].
  intros x. rewrite (conflictb_perm _ _ x P). reflexivity.
Qed.

Theorem QualifyObjects_order_independent specs specs' bl bl' :
  Permutation specs specs' ->
  map_order bl (byLabel specs) -> map_order bl' (byLabel specs') ->
  QualifyObjects_over bl' specs' = map (fun o => (o, qualifier_spec specs o)) specs' /\
  Permutation (QualifyObjects_over bl specs) (QualifyObjects_over bl' specs').
Proof.
  intros P M M'. rewrite (QualifyObjects_over_spec _ _ M), (QualifyObjects_over_spec _ _ M').
  assert (E : map (fun o => (o, qualifier_spec specs' o)) specs' = map (fun o => (o, qualifier_spec specs o)) specs').
  { apply map_ext. intros o. rewrite (qualifier_spec_perm _ _ o P). reflexivity. }
  rewrite E. split; [reflexivity|]. apply Permutation_map; exact P.
Qed.

(** ** references (ObjectRef) against block labels (QualifyObjects) *)
(* after fix C20-qualify-objectref-schema-named *)
Lemma ObjectRef_qualified_matches specs o :
  (ObjectRef_qualified specs o = true <-> qualifier_spec specs o = Some (q_schema o)) /\
  (ObjectRef_qualified specs o = false <-> qualifier_spec specs o = None).
Proof.
  unfold ObjectRef_qualified, qualifier_spec.
  destruct (conflictb specs o || schema_used specs (q_label o)); split; split; congruence.
Qed.

(* the code before the fix *)
Lemma ObjectRef_qualified_before_fix_sound specs o :
  ObjectRef_qualified_before_fix specs o = true -> qualifier_spec specs o = Some (q_schema o).
Proof. unfold ObjectRef_qualified_before_fix, qualifier_spec. intros ->. reflexivity. Qed.

Lemma ObjectRef_qualified_before_fix_except specs o :
  schema_used specs (q_label o) = false ->
  (ObjectRef_qualified_before_fix specs o = true <-> qualifier_spec specs o <> None).
Proof.
  unfold ObjectRef_qualified_before_fix, qualifier_spec. intros ->. rewrite orb_false_r.
  destruct (conflictb specs o); split; congruence.
Qed.

Lemma ObjectRef_qualified_before_fix_refuted :
  exists specs o, In o specs /\ ObjectRef_qualified_before_fix specs o = false /\ qualifier_spec specs o = Some (q_schema o).
Proof. exists [QO 1 10; QO 2 10; QO 3 1], (QO 3 1). vm_compute. intuition. Qed.

(** ** QualifyReferences *)
Lemma opt_nat_eqb_eq a b : opt_nat_eqb a b = true <-> a = b.
Proof.
  destruct a, b; simpl; try (split; congruence).
  rewrite Nat.eqb_eq. split; congruence.
Qed.

Lemma byRef_has_iff res q name :
  byRef_has res q name = true <-> exists o, In (o, q) res /\ q_label o = name.
Proof.
  unfold byRef_has. rewrite existsb_exists. split.
  - intros [[o q'] [Hi H]]. simpl in H. apply andb_true_iff in H. destruct H as [H1 H2].
    apply Nat.eqb_eq in H1. apply opt_nat_eqb_eq in H2. subst. eauto.
  - intros [o [Hi <-]]. exists (o, q). split; auto. simpl. rewrite Nat.eqb_refl. apply opt_nat_eqb_eq. reflexivity.
Qed.

(* what the reference to a table of the realm is: qualified exactly when the table's block is *)
Theorem QualifyReferences_ref_spec specs target :
  In target specs ->
  QualifyReferences_ref (map (fun o => (o, qualifier_spec specs o)) specs) target =
  match qualifier_spec specs target with
  | Some q => RefQualified q (q_label target)
  | None => RefPlain (q_label target)
  end.
Proof.
  intros Hin. unfold QualifyReferences_ref.
  set (res := map (fun o => (o, qualifier_spec specs o)) specs).
  assert (Hres : forall o q, In (o, q) res <-> In o specs /\ q = qualifier_spec specs o).
  { intros o q. unfold res. rewrite in_map_iff. split.
    - intros [x [E Hx]]. inversion E; subst. auto.
    - intros [Hx ->]. exists o; auto. }
  assert (Hq : forall o, qualifier_spec specs o = Some (q_schema o) \/ qualifier_spec specs o = None).
  { intros o. unfold qualifier_spec. destruct (conflictb specs o || schema_used specs (q_label o)); auto. }
  destruct (qualifier_spec specs target) as [q|] eqn:E.
  - destruct (Hq target) as [H|H]; [|congruence]. rewrite E in H. inversion H; subst q.
    replace (byRef_has res (Some (q_schema target)) (q_label target)) with true; [reflexivity|].
    symmetry. apply byRef_has_iff. exists target. split; auto. apply Hres. split; auto.
  - replace (byRef_has res (Some (q_schema target)) (q_label target)) with false.
    + replace (byRef_has res None (q_label target)) with true; [reflexivity|].
      symmetry. apply byRef_has_iff. exists target. split; auto. apply Hres. split; auto.
    + symmetry. apply not_true_is_false. intros H. apply byRef_has_iff in H.
      destruct H as [o [Hi Hl]]. apply Hres in Hi. destruct Hi as [Ho Hs].
      destruct (Hq o) as [H1|H1]; rewrite H1 in Hs; [|discriminate].
      inversion Hs as [Hs']. assert (o = target).
      { destruct o, target; simpl in *; subst; reflexivity. }
      subst o. congruence.
Qed.

(* the keys of byRef are pairwise distinct: "duplicate references" cannot be returned for a realm
   whose (schema, label) pairs are distinct *)
Theorem QualifyReferences_no_duplicate specs :
  NoDup specs -> NoDup (map byRef_key (map (fun o => (o, qualifier_spec specs o)) specs)).
Proof.
  intros ND. rewrite map_map. unfold byRef_key; simpl.
  set (f := fun o => (qualifier_spec specs o, q_label o)).
  assert (Inj : forall a b, In a specs -> In b specs -> f a = f b -> a = b).
  { intros a b Ha Hb E. unfold f in E. inversion E as [[Eq El]].
    destruct (Nat.eq_dec (q_schema a) (q_schema b)) as [Es|Ns].
    - destruct a, b; simpl in *; subst; reflexivity.
    - exfalso. assert (Ca : conflictb specs a = true).
      { unfold conflictb. apply existsb_exists. exists b. split; auto.
        rewrite El, Nat.eqb_refl. simpl. apply negb_true_iff, Nat.eqb_neq. auto. }
      assert (Cb : conflictb specs b = true).
      { unfold conflictb. apply existsb_exists. exists a. split; auto.
        rewrite El, Nat.eqb_refl. simpl. apply negb_true_iff, Nat.eqb_neq. auto. }
      unfold qualifier_spec in Eq. rewrite Ca, Cb in Eq. simpl in Eq. inversion Eq. auto. }
  clearbody f. revert Inj.
  induction ND as [|x l Hx ND IH]; intros Inj; simpl; constructor.
  - intros H. apply in_map_iff in H. destruct H as [y [E Hy]].
    assert (y = x) by (apply Inj; simpl; auto). subst. contradiction.
  - apply IH. intros a b Ha Hb. apply Inj; simpl; auto.
Qed.

Lemma byRef_has_perm res res' q name : Permutation res res' -> byRef_has res q name = byRef_has res' q name.
Proof. intros P. apply existsb_perm; exact P. Qed.

Theorem QualifyReferences_order_independent specs specs' bl bl' target :
  Permutation specs specs' ->
  map_order bl (byLabel specs) -> map_order bl' (byLabel specs') ->
  QualifyReferences_ref (QualifyObjects_over bl specs) target =
  QualifyReferences_ref (QualifyObjects_over bl' specs') target.
Proof.
  intros P M M'. destruct (QualifyObjects_order_independent _ _ _ _ P M M') as [_ PQ].
  unfold QualifyReferences_ref. rewrite !(byRef_has_perm _ _ _ _ PQ). reflexivity.
Qed.

(** ** ambiguity left by pass 3 *)
Lemma qualify_unambiguous_refuted :
  exists specs, NoDup specs /\ ambiguousb (QualifyObjects_go specs) = true.
Proof.
  exists [QO 1 10; QO 2 1; QO 2 2; QO 3 10]. split; [|vm_compute; reflexivity].
  repeat constructor; simpl; intuition discriminate.
Qed.

(* what pass 3 does guarantee: no unqualified object is labelled like the schema of an object that
   pass 2 qualified (same label in another schema) *)
Lemma qualify_unambiguous_except specs o o' :
  qualifier_spec specs o = None -> In o' specs -> conflictb specs o' = true -> q_label o <> q_schema o'.
Proof.
  unfold qualifier_spec. intros H Hi Hc E.
  assert (U : schema_used specs (q_label o) = true).
  { apply schema_used_iff. exists o'. auto. }
  rewrite U, orb_true_r in H. discriminate.
Qed.
