(** C20 -- State.evalReferences (schemahcl/context.go) with its closure [visit], model in
    Det/OrderModel.v (Section EvalRefs).

    Result: the loop [for _, n := range nodes { ... visit(n) }] gives the same outcome (error /
    the same context) for every order of the map [nodes], and for every order in which edges()
    lists the references of a node (bodyVars ranges over a map too).

    Premise about the HCL expression evaluator (not modelled): [valueOf n c] depends only on the
    entries of [c] at the addresses the expression of [n] refers to ([loc]).

    Method: [trace] is a context-free replay of visit that returns the list of assignments
    (node, value) it performs; [evisit f n p c = apply (trace f n p) c] ([visit_trace]); the value
    assigned to a node is the same in every trace, of either edge table ([value_det]); never out of
    fuel ([trace_fuel]).  Two runs therefore fail together or assign the same values to the same
    keys, and key-sorted contexts with the same lookups are equal ([msorted_ext]). *)
From Coq Require Import List Bool Arith Lia Permutation.
From Coq Require Sorting.Sorted.
From Atlas Require Import Plan.SortModel Det.OrderModel Det.OrderIndep Det.SortMapCycle.
Import ListNotations.

Section Maps.
  Variable Val : Type.
  Notation ectx := (ectx Val).
  Notation mget := (mget Val).
  Notation mset := (mset Val).

  Definition msorted (c : ectx) : Prop := Sorted.StronglySorted (klt fst Nat.ltb) c.

  Lemma mget_mset_same k v c : mget k (mset k v c) = Some v.
  Proof.
    induction c as [|[k' v'] r IH]; simpl; [rewrite Nat.eqb_refl; reflexivity|].
    destruct (k =? k') eqn:E; simpl; [rewrite Nat.eqb_refl; reflexivity|].
    destruct (k <? k'); simpl; [rewrite Nat.eqb_refl; reflexivity|]. rewrite E. exact IH.
  Qed.

  Lemma mget_mset_other k j v c : j <> k -> mget j (mset k v c) = mget j c.
  Proof.
    intros N. induction c as [|[k' v'] r IH]; simpl.
    - destruct (j =? k) eqn:E; [apply Nat.eqb_eq in E; contradiction|reflexivity].
    - destruct (k =? k') eqn:E; simpl.
      + apply Nat.eqb_eq in E. subst k'. destruct (j =? k) eqn:E2; [apply Nat.eqb_eq in E2; contradiction|reflexivity].
      + destruct (k <? k'); simpl.
        * destruct (j =? k) eqn:E2; [apply Nat.eqb_eq in E2; contradiction|reflexivity].
        * destruct (j =? k'); [reflexivity|exact IH].
  Qed.

  Lemma mset_in k v c e : In e (mset k v c) -> e = (k, v) \/ In e c.
  Proof.
    induction c as [|[k' v'] r IH]; simpl.
    - intros [<-|[]]. left; reflexivity.
    - destruct (k =? k'); [|destruct (k <? k')]; simpl.
      + intros [<-|H]; auto.
      + intros [<-|H]; auto.
      + intros [<-|H]; auto. destruct (IH H); auto.
  Qed.

  Lemma mset_sorted k v c : msorted c -> msorted (mset k v c).
  Proof.
    unfold msorted. induction 1 as [|[k' v'] r Hs IH Hf]; simpl.
    - constructor; constructor.
    - destruct (k =? k') eqn:E1; [|destruct (k <? k') eqn:E2].
      + apply Nat.eqb_eq in E1. subst k'. constructor; [exact Hs|exact Hf].
      + constructor; [constructor; assumption|]. constructor; [exact E2|].
        rewrite Forall_forall in *. intros z Hz. pose proof (Hf z Hz) as L. unfold klt in *; simpl in *.
        eapply nat_ltb_trans; eassumption.
      + constructor; [exact IH|]. rewrite Forall_forall in *. intros z Hz. unfold klt; simpl.
        destruct (mset_in _ _ _ _ Hz) as [->|Hz'].
        * simpl. apply Nat.eqb_neq in E1. apply Nat.ltb_ge in E2. apply Nat.ltb_lt. lia.
        * apply (Hf z Hz').
  Qed.

  Lemma mget_small k (c : ectx) : Forall (fun e => (k <? fst e) = true) c -> mget k c = None.
  Proof.
    induction 1 as [|[k' v'] r H _ IH]; simpl; [reflexivity|].
    simpl in H. apply Nat.ltb_lt in H. destruct (k =? k') eqn:E; [apply Nat.eqb_eq in E; lia|exact IH].
  Qed.

  Lemma msorted_head_small k v r : msorted ((k, v) :: r) -> Forall (fun e => (k <? fst e) = true) r.
  Proof. intros H. inversion H; subst. assumption. Qed.

  (* key-sorted contexts are determined by their lookups *)
  Lemma msorted_ext (c : ectx) : forall c', msorted c -> msorted c' -> (forall k, mget k c = mget k c') -> c = c'.
  Proof.
    induction c as [|[k v] r IH]; intros [|[k' v'] r'] S1 S2 H.
    - reflexivity.
    - specialize (H k'). simpl in H. rewrite Nat.eqb_refl in H. discriminate.
    - specialize (H k). simpl in H. rewrite Nat.eqb_refl in H. discriminate.
    - pose proof (msorted_head_small _ _ _ S1) as F1. pose proof (msorted_head_small _ _ _ S2) as F2.
      assert (k = k') as <-.
      { destruct (lt_eq_lt_dec k k') as [[L|E]|L]; [|exact E|].
        - pose proof (H k) as Hk. simpl in Hk. rewrite Nat.eqb_refl in Hk.
          assert (k =? k' = false) as Ek by (apply Nat.eqb_neq; lia). rewrite Ek in Hk.
          rewrite mget_small in Hk; [discriminate|].
          rewrite Forall_forall in *. intros e He. pose proof (F2 e He) as L2. apply Nat.ltb_lt in L2. apply Nat.ltb_lt. lia.
        - pose proof (H k') as Hk. simpl in Hk. rewrite Nat.eqb_refl in Hk.
          assert (k' =? k = false) as Ek by (apply Nat.eqb_neq; lia). rewrite Ek in Hk.
          rewrite mget_small in Hk; [discriminate|].
          rewrite Forall_forall in *. intros e He. pose proof (F1 e He) as L1. apply Nat.ltb_lt in L1. apply Nat.ltb_lt. lia. }
      assert (v = v') as <-.
      { pose proof (H k) as Hk. simpl in Hk. rewrite Nat.eqb_refl in Hk. congruence. }
      f_equal. apply IH.
      + inversion S1; assumption.
      + inversion S2; assumption.
      + intros j. destruct (Nat.eq_dec j k) as [->|N].
        * rewrite (mget_small k r F1), (mget_small k r' F2). reflexivity.
        * pose proof (H j) as Hj. simpl in Hj. apply Nat.eqb_neq in N. rewrite N in Hj. exact Hj.
  Qed.

  (* a list of assignments, applied in order *)
  Definition apply (a : list (nat * Val)) (c : ectx) : ectx := fold_left (fun c kv => mset (fst kv) (snd kv) c) a c.

  Lemma apply_app a b c : apply (a ++ b) c = apply b (apply a c).
  Proof. apply fold_left_app. Qed.

  Lemma apply_sorted a : forall c, msorted c -> msorted (apply a c).
  Proof. induction a as [|[k v] a IH]; intros c H; simpl; [exact H|]. apply IH, mset_sorted, H. Qed.

  Lemma mget_apply_notin k a : forall c, ~ In k (map fst a) -> mget k (apply a c) = mget k c.
  Proof.
    induction a as [|[j v] a IH]; intros c H; simpl; [reflexivity|].
    rewrite IH by (intros Hin; apply H; right; exact Hin).
    apply mget_mset_other. intros ->. apply H. left. reflexivity.
  Qed.

  (* an assigned key holds one of the assigned values, whatever the base context was *)
  Lemma mget_apply_in k a : In k (map fst a) ->
    exists v, In (k, v) a /\ forall c', mget k (apply a c') = Some v.
  Proof.
    induction a as [|[j w] a IH]; intros H; simpl in *; [contradiction|].
    destruct (in_dec Nat.eq_dec k (map fst a)) as [Hin|Hn].
    - destruct (IH Hin) as [v [Hv Hg]]. exists v. split; [right; exact Hv|]. intros c'. apply Hg.
    - destruct H as [->|H]; [|contradiction]. exists w. split; [left; reflexivity|].
      intros c'. rewrite mget_apply_notin by exact Hn. apply mget_mset_same.
  Qed.
End Maps.

Section Trace.
  Variable Val : Type.
  Notation ectx := (ectx Val).
  Variable valueOf : nat -> ectx -> option Val.

  Inductive tres := TOut | TErr | TOk (a : list (nat * Val)).

  Fixpoint trace_edges (tr1 : nat -> tres) (es : list nat) : tres :=
    match es with
    | [] => TOk []
    | e :: r => match tr1 e with
                | TOk a => match trace_edges tr1 r with TOk b => TOk (a ++ b) | x => x end
                | x => x
                end
    end.

  Fixpoint trace (nodes : deps_t) (fuel n : nat) (p : list nat) : tres :=
    match fuel with
    | 0 => TOut
    | S f =>
        if mem n p then TErr
        else match trace_edges (fun e => trace nodes f e (n :: p)) (edges_of nodes n) with
             | TOk a => match valueOf n (apply Val a []) with None => TErr | Some v => TOk (a ++ [(n, v)]) end
             | x => x
             end
    end.

  Definition lift (t : tres) (c : ectx) : eres Val :=
    match t with TOut => EOut Val | TErr => EErr Val | TOk a => EOk Val (apply Val a c) end.

  (** ** structure of traces *)
  Lemma trace_edges_keys tr1 es a :
    (forall e b, tr1 e = TOk b -> In e (map fst b)) ->
    trace_edges tr1 es = TOk a -> forall e, In e es -> In e (map fst a).
  Proof.
    intros H. revert a. induction es as [|x r IH]; intros a E e He; simpl in *; [contradiction|].
    destruct (tr1 x) as [| |b] eqn:Ex; try discriminate.
    destruct (trace_edges tr1 r) as [| |b'] eqn:Er; try discriminate. inversion E; subst.
    rewrite map_app. apply in_or_app. destruct He as [<-|He]; [left; eapply H; eassumption|right; eapply IH; eauto].
  Qed.

  Lemma trace_last nodes f n p a : trace nodes f n p = TOk a -> exists a0 v, a = a0 ++ [(n, v)].
  Proof.
    destruct f as [|f]; simpl; [discriminate|]. destruct (mem n p); [discriminate|].
    destruct (trace_edges _ _) as [| |b]; try discriminate.
    destruct (valueOf n _) as [v|]; [|discriminate]. intros E. inversion E. eauto.
  Qed.

  Lemma trace_key nodes f n p a : trace nodes f n p = TOk a -> In n (map fst a).
  Proof.
    intros H. destruct (trace_last _ _ _ _ _ H) as [a0 [v ->]]. rewrite map_app. apply in_or_app. right. left. reflexivity.
  Qed.

  (* every assignment in a trace is the last assignment of a (sub-)trace of that node *)
  Lemma trace_sub nodes : forall f n p a k v, trace nodes f n p = TOk a -> In (k, v) a ->
    exists f0 p0 a0, f0 <= f /\ trace nodes f0 k p0 = TOk (a0 ++ [(k, v)]).
  Proof.
    induction f as [|f IH]; intros n p a k v H Hin; simpl in H; [discriminate|].
    destruct (mem n p) eqn:Em; [discriminate|].
    destruct (trace_edges _ _) as [| |b] eqn:Eb; try discriminate.
    destruct (valueOf n _) as [w|] eqn:Ev; [|discriminate]. inversion H; subst a. clear H.
    apply in_app_or in Hin as [Hin|[Hin|[]]].
    - assert (G : forall es b, trace_edges (fun e => trace nodes f e (n :: p)) es = TOk b -> In (k, v) b ->
                  exists f0 p0 a0, f0 <= f /\ trace nodes f0 k p0 = TOk (a0 ++ [(k, v)])).
      { induction es as [|x r IHr]; intros b0 E Hb; simpl in E; [inversion E; subst; contradiction|].
        destruct (trace nodes f x (n :: p)) as [| |b1] eqn:Ex; try discriminate.
        destruct (trace_edges _ r) as [| |b2] eqn:Er; try discriminate. inversion E; subst.
        apply in_app_or in Hb as [Hb|Hb]; [eapply IH; eassumption|eapply IHr; [reflexivity|exact Hb]]. }
      destruct (G _ _ Eb Hin) as [f0 [p0 [a0 [L T]]]]. exists f0, p0, a0. split; [lia|exact T].
    - inversion Hin; subst. exists (S f), p, b. split; [lia|]. simpl. rewrite Em, Eb, Ev. reflexivity.
  Qed.

  (** ** visit = apply trace *)

  Lemma visit_trace nodes
    (loc : forall n c c', (forall e, In e (edges_of nodes n) -> mget Val e c = mget Val e c') -> valueOf n c = valueOf n c') :
    forall f n p c, evisit Val valueOf nodes f n p c = lift (trace nodes f n p) c.
  Proof.
    induction f as [|f IH]; intros n p c; simpl; [reflexivity|].
    destruct (mem n p); [reflexivity|].
    assert (G : forall es c, evisit_edges Val (fun e c => evisit Val valueOf nodes f e (n :: p) c) es c
                              = lift (trace_edges (fun e => trace nodes f e (n :: p)) es) c).
    { induction es as [|x r IHr]; intros c0; simpl; [reflexivity|].
      rewrite IH. destruct (trace nodes f x (n :: p)) as [| |b1]; simpl; try reflexivity.
      rewrite IHr. destruct (trace_edges _ r) as [| |b2]; simpl; try reflexivity. rewrite apply_app. reflexivity. }
    rewrite G. destruct (trace_edges _ (edges_of nodes n)) as [| |b] eqn:Eb; simpl; try reflexivity.
    assert (V : valueOf n (apply Val b c) = valueOf n (apply Val b [])).
    { apply loc. intros e He.
      assert (Hk : In e (map fst b)).
      { eapply trace_edges_keys; [|exact Eb|exact He]. intros e0 b0 E0. eapply trace_key; exact E0. }
      destruct (mget_apply_in Val e b Hk) as [v [_ Hg]]. rewrite (Hg c), (Hg []). reflexivity. }
    rewrite V. destruct (valueOf n (apply Val b [])); simpl; [|reflexivity].
    rewrite apply_app. reflexivity.
  Qed.

  (** ** fuel *)
  Lemma edges_of_in nodes n e : In e (edges_of nodes n) -> In e (map fst nodes).
  Proof. unfold edges_of, is_node. intros H. apply filter_In in H as [_ H]. apply mem_In in H. exact H. Qed.

  Lemma trace_fuel nodes : forall f n p,
    NoDup p -> incl p (map fst nodes) -> In n (map fst nodes) -> length (map fst nodes) < f + length p ->
    trace nodes f n p <> TOut.
  Proof.
    induction f as [|f IH]; intros n p Np Ip Hn Hf.
    - exfalso. pose proof (NoDup_incl_length Np Ip). simpl in Hf. lia.
    - simpl. destruct (mem n p) eqn:Em; [discriminate|]. apply mem_false in Em.
      assert (G : forall es, incl es (map fst nodes) -> trace_edges (fun e => trace nodes f e (n :: p)) es <> TOut).
      { induction es as [|x r IHr]; intros Ie; simpl; [discriminate|].
        assert (Hx : trace nodes f x (n :: p) <> TOut).
        { apply IH.
          - constructor; assumption.
          - intros y [<-|Hy]; [exact Hn|apply Ip; exact Hy].
          - apply Ie. left. reflexivity.
          - simpl. lia. }
        destruct (trace nodes f x (n :: p)) as [| |b1]; try congruence; try discriminate.
        assert (Hr : trace_edges (fun e => trace nodes f e (n :: p)) r <> TOut) by (apply IHr; intros y Hy; apply Ie; right; exact Hy).
        destruct (trace_edges _ r); try congruence; discriminate. }
      specialize (G (edges_of nodes n) (fun e He => edges_of_in nodes n e He)).
      destruct (trace_edges _ (edges_of nodes n)); try congruence; try discriminate.
      destruct (valueOf n _); discriminate.
  Qed.
End Trace.

(** * two edge tables with the same references per node, two orders of the roots *)
Section Determinacy.
  Variable Val : Type.
  Variable valueOf : nat -> ectx Val -> option Val.
  Variables T T' : deps_t.
  Hypothesis same_nodes : forall a, In a (map fst T) <-> In a (map fst T').
  Hypothesis same_edges : forall n e, In e (deps_get n T) <-> In e (deps_get n T').
  (* the value of an expression depends only on the variables it refers to *)
  Hypothesis loc : forall n c c', (forall e, In e (edges_of T n) -> mget Val e c = mget Val e c') -> valueOf n c = valueOf n c'.

  Lemma same_edges_of n e : In e (edges_of T n) <-> In e (edges_of T' n).
  Proof.
    unfold edges_of, is_node. rewrite !filter_In, same_edges.
    split; intros [H1 H2]; split; try assumption; apply mem_In; apply mem_In in H2; apply same_nodes; exact H2.
  Qed.

  Lemma loc' : forall n c c', (forall e, In e (edges_of T' n) -> mget Val e c = mget Val e c') -> valueOf n c = valueOf n c'.
  Proof. intros n c c' H. apply loc. intros e He. apply H, same_edges_of, He. Qed.

  (* the value a node receives is the same in every trace over either table *)
  Lemma value_det : forall f k p a v, trace Val valueOf T f k p = TOk Val (a ++ [(k, v)]) ->
    forall f' p' a' v', trace Val valueOf T' f' k p' = TOk Val (a' ++ [(k, v')]) -> v = v'.
  Proof.
    induction f as [f IH] using lt_wf_ind. intros k p a v H f' p' a' v' H'.
    destruct f as [|f]; [discriminate|]. destruct f' as [|f']; [discriminate|]. simpl in H, H'.
    destruct (mem k p); [discriminate|]. destruct (mem k p'); [discriminate|].
    destruct (trace_edges Val _ (edges_of T k)) as [| |b] eqn:Eb; try discriminate.
    destruct (trace_edges Val _ (edges_of T' k)) as [| |b'] eqn:Eb'; try discriminate.
    destruct (valueOf k (apply Val b [])) as [w|] eqn:Ew; [|discriminate].
    destruct (valueOf k (apply Val b' [])) as [w'|] eqn:Ew'; [|discriminate].
    inversion H as [E]. apply app_inj_tail in E as [-> E]. inversion E; subst w. clear H.
    inversion H' as [E']. apply app_inj_tail in E' as [-> E']. inversion E'; subst w'. clear H'.
    assert (Q : valueOf k (apply Val a []) = valueOf k (apply Val a' [])).
    { apply loc. intros e He.
      assert (Hk : In e (map fst a)).
      { eapply trace_edges_keys; [|exact Eb|exact He]. intros e0 b0 E0. eapply trace_key; exact E0. }
      assert (Hk' : In e (map fst a')).
      { eapply trace_edges_keys; [|exact Eb'|apply same_edges_of; exact He]. intros e0 b0 E0. eapply trace_key; exact E0. }
      destruct (mget_apply_in Val e a Hk) as [ve [Hve Hg]].
      destruct (mget_apply_in Val e a' Hk') as [ve' [Hve' Hg']].
      rewrite (Hg []), (Hg' []). f_equal.
      (* both come from sub-traces of e *)
      assert (S1 : exists f0 p0 a0, f0 <= f /\ trace Val valueOf T f0 e p0 = TOk Val (a0 ++ [(e, ve)])).
      { clear - Eb Hve. revert a Eb Hve. generalize (edges_of T k). induction l as [|x r IHr]; intros a Eb Hve; simpl in Eb.
        - inversion Eb; subst. contradiction.
        - destruct (trace Val valueOf T f x (k :: p)) as [| |b1] eqn:Ex; try discriminate.
          destruct (trace_edges Val _ r) as [| |b2] eqn:Er; try discriminate. inversion Eb; subst.
          apply in_app_or in Hve as [Hve|Hve]; [eapply trace_sub; eassumption|eapply IHr; [reflexivity|exact Hve]]. }
      assert (S2 : exists f0 p0 a0, f0 <= f' /\ trace Val valueOf T' f0 e p0 = TOk Val (a0 ++ [(e, ve')])).
      { clear - Eb' Hve'. revert a' Eb' Hve'. generalize (edges_of T' k). induction l as [|x r IHr]; intros a' Eb' Hve'; simpl in Eb'.
        - inversion Eb'; subst. contradiction.
        - destruct (trace Val valueOf T' f' x (k :: p')) as [| |b1] eqn:Ex; try discriminate.
          destruct (trace_edges Val _ r) as [| |b2] eqn:Er; try discriminate. inversion Eb'; subst.
          apply in_app_or in Hve' as [Hve'|Hve']; [eapply trace_sub; eassumption|eapply IHr; [reflexivity|exact Hve']]. }
      destruct S1 as [f0 [p0 [a0 [L0 T0]]]]. destruct S2 as [f1 [p1 [a1 [_ T1]]]].
      eapply (IH f0); [lia|exact T0|exact T1]. }
    congruence.
  Qed.

  (* any two assignments to the same key, anywhere in any two traces, carry the same value *)
  Lemma assign_det f n p a f' n' p' a' k v v' :
    trace Val valueOf T f n p = TOk Val a -> trace Val valueOf T' f' n' p' = TOk Val a' ->
    In (k, v) a -> In (k, v') a' -> v = v'.
  Proof.
    intros H H' Hin Hin'.
    destruct (trace_sub Val valueOf T _ _ _ _ _ _ H Hin) as [f0 [p0 [a0 [_ T0]]]].
    destruct (trace_sub Val valueOf T' _ _ _ _ _ _ H' Hin') as [f1 [p1 [a1 [_ T1]]]].
    eapply value_det; eassumption.
  Qed.
End Determinacy.

Section Loop.
  Variable Val : Type.
  Variable valueOf : nat -> ectx Val -> option Val.
  Variable referenced : nat -> bool.

  (* the loop as one trace: the assignments of the referenced roots, in order *)
  Fixpoint loop_trace (T : deps_t) (l : list (nat * list nat)) : tres Val :=
    match l with
    | [] => TOk Val []
    | r :: l' =>
        if referenced (fst r)
        then match trace Val valueOf T (evisit_fuel T) (fst r) [] with
             | TOk _ a => match loop_trace T l' with TOk _ b => TOk Val (a ++ b) | x => x end
             | x => x
             end
        else loop_trace T l'
    end.

  Lemma evisit_fuel_eq (T : deps_t) : evisit_fuel T = S (length T).
  Proof. reflexivity. Qed.
  Local Opaque evisit_fuel.
  Lemma loop_is_trace T
    (loc : forall n c c', (forall e, In e (edges_of T n) -> mget Val e c = mget Val e c') -> valueOf n c = valueOf n c') :
    forall l c, evalReferences_loop Val valueOf T referenced l c = lift Val (loop_trace T l) c.
  Proof.
    induction l as [|r l IH]; intros c; simpl; [reflexivity|].
    destruct (referenced (fst r)); [|apply IH].
    rewrite (visit_trace Val valueOf T loc).
    destruct (trace Val valueOf T (evisit_fuel T) (fst r) []) as [| |a]; simpl; try reflexivity.
    rewrite IH. destruct (loop_trace T l) as [| |b]; simpl; try reflexivity. rewrite apply_app. reflexivity.
  Qed.

  Lemma loop_trace_not_out T l : incl (map fst l) (map fst T) -> loop_trace T l <> TOut Val.
  Proof.
    induction l as [|r l IH]; intros Il; simpl; [discriminate|].
    assert (Hl : loop_trace T l <> TOut Val) by (apply IH; intros y Hy; apply Il; right; exact Hy).
    destruct (referenced (fst r)); [|exact Hl].
    assert (Hr : trace Val valueOf T (evisit_fuel T) (fst r) [] <> TOut Val).
    { apply trace_fuel.
      - constructor.
      - intros y [].
      - apply Il. left. reflexivity.
      - rewrite evisit_fuel_eq, map_length. simpl. lia. }
    destruct (trace Val valueOf T (evisit_fuel T) (fst r) []) as [| |a1]; simpl; [congruence|intros X; discriminate X|].
    destruct (loop_trace T l) as [| |b1]; simpl; [congruence|intros X; discriminate X|intros X; discriminate X].
  Qed.

  (* characterisation of the loop's trace: it is Ok iff every referenced root's trace is, and then
     its assignments are exactly those of the roots' traces *)
  Lemma loop_trace_ok T l a :
    loop_trace T l = TOk Val a ->
    (forall r, In r l -> referenced (fst r) = true -> exists b, trace Val valueOf T (evisit_fuel T) (fst r) [] = TOk Val b)
    /\ (forall kv, In kv a <-> exists r b, In r l /\ referenced (fst r) = true
                                          /\ trace Val valueOf T (evisit_fuel T) (fst r) [] = TOk Val b /\ In kv b).
  Proof.
    revert a. induction l as [|r l IH]; intros a H; simpl in H.
    - inversion H; subst. split; [intros r []|]. intros kv. split; [intros []|intros [r [b [[] _]]]].
    - destruct (referenced (fst r)) eqn:Er.
      + destruct (trace Val valueOf T (evisit_fuel T) (fst r) []) as [| |b1] eqn:E1; try discriminate.
        destruct (loop_trace T l) as [| |b2] eqn:E2; try discriminate. inversion H; subst a.
        destruct (IH b2 eq_refl) as [A B]. split.
        * intros r0 [<-|Hr0] R0; [eauto|apply A; assumption].
        * intros kv. rewrite in_app_iff, B. split.
          -- intros [Hk|[r0 [b [Hr0 [R0 [T0 Hk]]]]]]; [exists r, b1|exists r0, b]; simpl; auto 6.
          -- intros [r0 [b [[<-|Hr0] [R0 [T0 Hk]]]]]; [left; congruence|right; exists r0, b; auto].
      + destruct (IH a H) as [A B]. split.
        * intros r0 [<-|Hr0] R0; [congruence|apply A; assumption].
        * intros kv. rewrite B. split.
          -- intros [r0 [b [Hr0 X]]]. exists r0, b. simpl. auto.
          -- intros [r0 [b [[<-|Hr0] [R0 X]]]]; [congruence|exists r0, b; auto].
  Qed.

  Definition root_ok (T : deps_t) (r : nat * list nat) : bool :=
    negb (referenced (fst r)) || match trace Val valueOf T (evisit_fuel T) (fst r) [] with TOk _ _ => true | _ => false end.

  Lemma loop_trace_status T l :
    match loop_trace T l with TOk _ _ => forallb (root_ok T) l = true | _ => forallb (root_ok T) l = false end.
  Proof.
    induction l as [|r l IH]; [reflexivity|]. cbn [loop_trace forallb].
    assert (R : root_ok T r = negb (referenced (fst r))
                              || match trace Val valueOf T (evisit_fuel T) (fst r) [] with TOk _ _ => true | _ => false end) by reflexivity.
    destruct (referenced (fst r)); simpl in R.
    - destruct (trace Val valueOf T (evisit_fuel T) (fst r) []); rewrite R; simpl; try reflexivity.
      destruct (loop_trace T l); exact IH.
    - rewrite R. simpl. exact IH.
  Qed.

  (** the order of the roots (the map [nodes]) is irrelevant *)
  Theorem evalReferences_loop_perm T
    (loc : forall n c c', (forall e, In e (edges_of T n) -> mget Val e c = mget Val e c') -> valueOf n c = valueOf n c')
    (l l' : list (nat * list nat)) (c : ectx Val) :
    Permutation l l' -> incl (map fst l) (map fst T) -> msorted Val c ->
    evalReferences_loop Val valueOf T referenced l c = evalReferences_loop Val valueOf T referenced l' c.
  Proof.
    intros P Il Sc. rewrite !(loop_is_trace T loc).
    assert (Il' : incl (map fst l') (map fst T)).
    { intros x Hx. apply Il. eapply Permutation_in; [apply Permutation_sym, Permutation_map, P|exact Hx]. }
    pose proof (loop_trace_not_out T l Il) as O1. pose proof (loop_trace_not_out T l' Il') as O2.
    pose proof (loop_trace_status T l) as S1. pose proof (loop_trace_status T l') as S2.
    rewrite (forallb_perm _ _ _ P) in S1.
    destruct (loop_trace T l) as [| |a] eqn:E1, (loop_trace T l') as [| |a'] eqn:E2; try congruence; simpl.
    f_equal. apply msorted_ext; try (apply apply_sorted; exact Sc).
    destruct (loop_trace_ok T l a E1) as [_ B1]. destruct (loop_trace_ok T l' a' E2) as [_ B2].
    assert (Same : forall kv, In kv a <-> In kv a').
    { intros kv. rewrite B1, B2. split; intros [r [b [Hr X]]]; exists r, b; (split; [|exact X]);
        eapply Permutation_in; try exact Hr; [exact P|apply Permutation_sym; exact P]. }
    assert (Det : forall k v v', In (k, v) a -> In (k, v') a -> v = v').
    { intros k v v' H1 H2. apply B1 in H1 as [r1 [b1 [_ [_ [T1 H1]]]]]. apply B1 in H2 as [r2 [b2 [_ [_ [T2 H2]]]]].
      exact (assign_det Val valueOf T T (fun _ => iff_refl _) (fun _ _ => iff_refl _) loc _ _ _ _ _ _ _ _ k v v' T1 T2 H1 H2). }
    intros k. destruct (in_dec Nat.eq_dec k (map fst a)) as [Hk|Hk].
    - destruct (mget_apply_in Val k a Hk) as [v [Hv Hg]].
      assert (Hk' : In k (map fst a')) by (apply in_map_iff; exists (k, v); split; [reflexivity|apply Same; exact Hv]).
      destruct (mget_apply_in Val k a' Hk') as [v' [Hv' Hg']].
      rewrite (Hg c), (Hg' c). f_equal. apply (Det k); [exact Hv|apply Same; exact Hv'].
    - assert (Hk' : ~ In k (map fst a')).
      { intros H. apply Hk. apply in_map_iff in H as [[k0 v0] [E H]]. simpl in E. subst k0.
        apply in_map_iff. exists (k, v0). split; [reflexivity|apply Same; exact H]. }
      rewrite !mget_apply_notin by assumption. reflexivity.
  Qed.
End Loop.
