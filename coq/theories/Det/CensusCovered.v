(** The table below follows the tree WITH the fixes notes/fixes/C20-hcl-{multifile-locals,remain-order,scan-type}.diff:
    Resource.as #1 #2, registry.lookup #1 and State.EvalOptions #3 no longer range over a map. *)
(** C20 -- the generated map-range census (gen/Gen_MapRanges.v) against the table of sites that
    Det/OrderModel.v models.  [mr_expr] of a table row names the lemma of Det/OrderIndep.v. *)
From Coq Require Import String List Bool.
From Atlas Require Import Det.Census gen.Gen_MapRanges.
Import ListNotations.
Local Open Scope string_scope.

Definition modelled_sites : list map_range := [
  MR "cmd/atlas/internal/cmdapi/cmdapi.go" "resetFromEnv" 1 "resetFromEnv_perm" Sens 0 0;
  MR "schemahcl/context.go" "State.evalReferences" 3 "EvalRefs.evalReferences_loop_perm" Sens 0 0;
  MR "schemahcl/context.go" "blockVars" 1 "blockVars_perm" Sens 0 0;
  MR "schemahcl/context.go" "bodyVars" 1 "bodyVars_perm; consumer: EvalRefs.value_det" Sens 1 0;
  MR "schemahcl/context.go" "typeRefs" 1 "typeRefs_exists_perm" Sens 1 0;
  MR "schemahcl/extension.go" "registry.implementers" 1 "implementers_children_perm" Sens 1 0;
  MR "schemahcl/schemahcl.go" "State.EvalOptions" 1 "EvalOptions_files_perm (after fix C20-hcl-multifile-locals)" SortedAfter 1 1;
  MR "schemahcl/schemahcl.go" "State.copyBlock" 1 "copyBlock_attrs_perm" Sens 0 0;
  MR "schemahcl/schemahcl.go" "State.toAttrs" 1 "toAttrs_perm" Sens 1 1;
  MR "sql/internal/specutil/convert.go" "Scan" 1 "Scan_link_perm" Sens 0 0;
  MR "sql/internal/specutil/convert.go" "Scan" 2 "Scan_link_perm" Sens 0 0;
  MR "sql/internal/specutil/spec.go" "QualifyObjects" 1 "QualifyProofs.QualifyObjects_over_spec (outer); QualifyObjects_outer_perm_partial" Sens 0 0;
  MR "sql/internal/specutil/spec.go" "QualifyObjects" 2 "QualifyProofs.QualifyObjects_over_spec (inner); QualifyObjects_inner_perm_partial" Sens 0 0;
  MR "sql/internal/sqlx/plan.go" "CheckChangesScope" 1 "CheckChangesScope_names_perm" SortedAfter 1 1;
  MR "sql/internal/sqlx/plan.go" "byKeys" 1 "byKeys_perm, sortMap_perm" SortedAfter 1 1;
  MR "sql/migrate/dir.go" "MemDir.Close" 1 "MemDir_Close_perm" Sens 0 0;
  MR "sql/migrate/dir.go" "MemDir.Files" 1 "files_of_perm, Checksum_perm" SortedAfter 1 1;
  MR "sql/postgres/inspect_oss.go" "inspect.addIndexes" 1 "addIndexes_constraints_perm_except / _order_leaks" Sens 0 0;
  MR "sql/postgres/migrate_oss.go" "state.alterEnum" 1 "alterEnum_check_perm" Sens 0 0
].

(* finite, re-checked against the regenerated census on every run *)
Lemma census_is_covered : census_covered map_ranges modelled_sites = true.
Proof. vm_compute. reflexivity. Qed.
