(** Proofs about M-LINT, part 8 (round 5): the destructive analyzer of the SQLite-derived model (LintModel.Analyze,
    rounds 1-4) IS the engine-free analyzer (LintGenModel.Analyze_g) on the single schema "main". *)
From Coq Require Import List NArith Bool Arith Lia.
From Atlas Require Import Base.Bytes Lint.LintModel Lint.LintSpec Lint.LintProofs Lint.LintFileProofs
  Lint.LintGenModel Lint.LintGenSpec Lint.LintGenProofs Lint.LintHistProofs.
Import ListNotations.

(** "main" *)
Definition s_main : name := [109; 97; 105; 110]%N.
Definition ecol (c : column) : gcolumn := mkGCol (c_name c) (if c_virtual c then Some s_VIRTUAL else None).
Definition etab (T : table) : gtable := mkGTab (Some s_main) (t_name T) (map ecol (t_cols T)).
Definition etch (tc : tchange) : gtchange :=
  match tc with
  | AddColumnC c => GAddColumn (ecol c)
  | DropColumnC c => GDropColumn (ecol c)
  | _ => GOtherT 0 []
  end.
Definition ech (c : change) : gchange :=
  match c with
  | AddTableC T => GAddTable (etab T)
  | DropTableC T => GDropTable (etab T)
  | ModifyTableC T cs => GModifyTable (etab T) (map etch cs)
  | RenameTableC a b => GRenameTable (etab a) (etab b)
  end.
Definition esc (sc : schange) : gschange := mkGSC (sc_pos sc) (map ech (sc_changes sc)).
Definition ediag (d : diag) : gdiag :=
  mkGD (match d_code d with DS102 => GDS102 | DS103 => GDS103 end) (d_pos d) (d_names d) 0%N.

Lemma all_gchanges_embed cl : all_gchanges (map esc cl) = map ech (all_changes cl).
Proof.
  unfold all_gchanges, all_changes. induction cl as [|sc cl IH]; [reflexivity|].
  simpl. rewrite map_app, IH. reflexivity.
Qed.

Lemma flat_map_map {A B C} (f : A -> B) (g : B -> list C) l : flat_map g (map f l) = flat_map (fun x => g (f x)) l.
Proof. induction l as [|x l IH]; simpl; [reflexivity|]. rewrite IH. reflexivity. Qed.

Lemma tab_is_etab T n : tab_is (etab T) s_main n = name_eqb (t_name T) n.
Proof. unfold tab_is. simpl. reflexivity. Qed.

Lemma schema_hist_embed cl s : schema_hist (map esc cl) s = [].
Proof.
  unfold schema_hist. rewrite all_gchanges_embed, flat_map_map.
  induction (all_changes cl) as [|c l IH]; [reflexivity|]. simpl. rewrite IH. destruct c; reflexivity.
Qed.

Lemma table_hist_embed cl n : table_hist (map esc cl) s_main n = tab_hist cl n.
Proof.
  unfold table_hist, tab_hist. rewrite all_gchanges_embed, flat_map_map. apply flat_map_ext.
  intros c. destruct c as [T|T|T cs|a b]; simpl; try reflexivity; rewrite tab_is_etab; reflexivity.
Qed.

Lemma existsb_ecol c cols :
  existsb (fun col => name_eqb (gc_name col) c) (map ecol cols) = existsb (fun col => name_eqb (c_name col) c) cols.
Proof. induction cols as [|x l IH]; simpl; [reflexivity|]. rewrite IH. reflexivity. Qed.

Lemma cev_t_embed c cs : flat_map (cev_t c) (map etch cs) = flat_map (ocev_t c) cs.
Proof.
  rewrite flat_map_map. apply flat_map_ext. intros tc. destruct tc; reflexivity.
Qed.

Lemma column_hist_embed cl t c : column_hist (map esc cl) s_main t c = col_hist cl t c.
Proof.
  unfold column_hist, col_hist. rewrite all_gchanges_embed, flat_map_map. apply flat_map_ext.
  intros ch. destruct ch as [T|T|T cs|a b]; simpl; try reflexivity; rewrite tab_is_etab.
  - rewrite existsb_ecol. reflexivity.
  - destruct (name_eqb (t_name T) t); [apply cev_t_embed|reflexivity].
Qed.

(** lists without RenameTableC (the only lists nextStmts produces in the OSS build: mayFix is the identity).  The
    RenameTableC arm of LintModel.span_change is unreachable there and still the one BEFORE fix C18-loadspans-rename. *)
Definition no_rename_c (cl : list schange) : Prop :=
  forallb (fun c => match c with RenameTableC _ _ => false | _ => true end) (all_changes cl) = true.

Lemma etch_no_rename cs : existsb is_rename_t (map etch cs) = false.
Proof. induction cs as [|x cs IH]; [reflexivity|]. simpl. rewrite IH. destruct x; reflexivity. Qed.

Lemma rename_free_embed cl : no_rename_c cl -> rename_free (map esc cl).
Proof.
  unfold no_rename_c, rename_free. rewrite all_gchanges_embed. intros H.
  induction (all_changes cl) as [|c l IH]; [reflexivity|]. simpl in *.
  apply andb_true_iff in H as [H1 H2]. rewrite (IH H2), andb_true_r.
  destruct c; simpl; try reflexivity; [rewrite etch_no_rename; reflexivity|discriminate].
Qed.

Lemma is_virtual_ecol d : is_virtual (ecol d) = c_virtual d.
Proof. unfold is_virtual, ecol. simpl. destruct (c_virtual d); reflexivity. Qed.

Lemma dropped_names_embed cl T cs : no_rename_c cl ->
  gdropped_names (loadSpans_g (map esc cl)) s_main (etab T) (map etch cs) = dropped_names (loadSpans cl) T cs.
Proof.
  intros NR. unfold gdropped_names, dropped_names. rewrite flat_map_map. apply flat_map_ext.
  intros tc. destruct tc as [c1|d|? ?|?|?|? ?]; simpl; try reflexivity.
  rewrite ColumnSpan_hist by (apply rename_free_embed; exact NR). rewrite column_hist_embed. unfold ColumnSpan. rewrite loadSpans_cols.
  rewrite (proj2 (states_are_histories cl)). rewrite is_virtual_ecol. reflexivity.
Qed.

Lemma analyze_change_embed cl pos c : no_rename_c cl ->
  analyze_gchange (loadSpans_g (map esc cl)) pos (ech c) = map ediag (analyze_change (loadSpans cl) pos c).
Proof.
  intros NR. destruct c as [T|T|T cs|a b]; simpl; try reflexivity.
  - rewrite SchemaSpan_hist, schema_hist_embed, TableSpan_hist by (apply rename_free_embed; exact NR).
    rewrite table_hist_embed. simpl.
    unfold TableSpan. rewrite loadSpans_state, (proj1 (states_are_histories cl)).
    destruct (span_eqb (state_of (tab_hist cl (t_name T))) SpanTemporary); reflexivity.
  - rewrite dropped_names_embed by exact NR. destruct (dropped_names (loadSpans cl) T cs); reflexivity.
Qed.

Lemma nil_schema_embed l : existsb nil_schema (map ech l) = false.
Proof. induction l as [|c l IH]; [reflexivity|]. simpl. rewrite IH. destruct c; reflexivity. Qed.

Lemma gdiags_embed cl : no_rename_c cl -> gdiags (map esc cl) = map ediag (Analyze cl).
Proof.
  intros NR. unfold gdiags, Analyze.
  generalize (loadSpans_g (map esc cl)) (loadSpans cl) (fun pos c => analyze_change_embed cl pos c NR).
  intros sp sp' H. clear NR. induction cl as [|sc cl IH]; [reflexivity|].
  simpl. rewrite map_app, IH. f_equal.
  rewrite flat_map_map.
  induction (sc_changes sc) as [|c l IHl]; [reflexivity|]. simpl. rewrite map_app, IHl, H. reflexivity.
Qed.

(** the SQLite-derived analyzer is the single-schema instance of the engine-free one *)
Lemma Analyze_refines error cl : no_rename_c cl ->
  Analyze_g error (map esc cl) =
  GDone (map ediag (Analyze cl)) (nonempty (Analyze cl)) (nonempty (Analyze cl) && error).
Proof.
  intros NR. unfold Analyze_g. rewrite all_gchanges_embed, nil_schema_embed, andb_false_r.
  fold (gdiags (map esc cl)). rewrite gdiags_embed by exact NR.
  destruct (Analyze cl); reflexivity.
Qed.
