(** M-LINT-GEN -- the destructive analyzer itself, engine-free: arbitrary [sqlcheck.Pass] values
    (multi-schema change lists as MySQL/PostgreSQL files produce them), no database, no SQLite.
    No proofs in this file.

    Go code followed, function by function (names kept):
      sql/sqlcheck/sqlcheck.go   File.loadSpans (AFTER fix C18-loadspans-rename: RenameTable / RenameColumn carry the
                                 life-span to the new name) / schemaSpan / tableSpan / SchemaSpan / TableSpan / ColumnSpan
                                 (spans: schema name -> state + table name -> state + column name -> state;
                                 Go maps with lazily created zero entries = total functions with a default)
      sql/sqlcheck/destructive/destructive.go   New (option `error`, default true; the only option of
                                 sqlcheck.Options in this tree), Analyzer.Analyze (DS101, DS102, DS103; one
                                 report iff a diagnostic; error iff a diagnostic and `error`)
      sql/sqlcheck/destructive/destructive_oss.go   hasEmptyTableCheck / hasEmptyColumnCheck = false,
                                 emptyTableCheckStmt / emptyColumnCheckStmt = error, withSuggestion = identity
      schemahcl  Resource.Resource (first child of the type) / Resource.As for the one field `error`
                                 (first attribute of that key; a missing attribute leaves the default)

    A table whose [Schema] pointer is nil makes [schemaSpan] dereference nil: [GPanic]. *)
From Coq Require Import List NArith Bool Arith.
From Atlas Require Import Base.Bytes Lint.LintModel.
Import ListNotations.

(** ** The part of schema.* the analyzer and loadSpans read *)
Record gcolumn := mkGCol {
  gc_name : name;
  gc_gen : option name      (* Type of the first schema.GeneratedExpr in C.Attrs, None = no such attribute *)
}.
Record gschema := mkGSch {
  gs_name : name;
  gs_ntables : N            (* len(S.Tables) *)
}.
Record gtable := mkGTab {
  gt_schema : option name;  (* T.Schema.Name; None = T.Schema is nil *)
  gt_name : name;
  gt_cols : list gcolumn    (* T.Columns (read by loadSpans for AddTable) *)
}.

(** schema.Change values inside a ModifyTable.  [GOtherT]: AddIndex, DropIndex, AddForeignKey, DropForeignKey,
    ModifyColumn, AddCheck, ... -- they touch index / foreign-key spans only, which this analyzer never reads. *)
Inductive gtchange :=
| GAddColumn (c : gcolumn)
| GDropColumn (c : gcolumn)
| GRenameColumn (from to : gcolumn)
| GOtherT (kind : N) (n : name).

(** [GOther]: ModifySchema, AddView, DropView, AddFunc, ... *)
Inductive gchange :=
| GAddSchema (s : gschema)
| GDropSchema (s : gschema)
| GAddTable (t : gtable)
| GDropTable (t : gtable)
| GModifyTable (t : gtable) (cs : list gtchange)
| GRenameTable (from to : gtable)
| GOther (kind : N).

(** sqlcheck.Change *)
Record gschange := mkGSC { gsc_pos : N; gsc_changes : list gchange }.

Definition all_gchanges (cl : list gschange) : list gchange := flat_map gsc_changes cl.

(** ** sqlcheck.go: spans *)
Record sspan := mkSS { ss_state : span; ss_tabs : name -> tspan }.
Definition gspans := name -> sspan.
Definition empty_sspan : sspan := mkSS SpanUnknown (fun _ => empty_tspan).
Definition empty_gspans : gspans := fun _ => empty_sspan.

(** f.tableSpan(T) followed by an update of that entry (T.Schema non-nil). *)
Definition on_tab (sp : gspans) (T : gtable) (f : tspan -> tspan) : gspans :=
  match gt_schema T with
  | None => sp
  | Some s =>
      let ss := sp s in
      upd sp s (mkSS (ss_state ss) (upd (ss_tabs ss) (gt_name T) (f (ss_tabs ss (gt_name T)))))
  end.

(** the inner switch of loadSpans *)
Definition span_gtchange (cols : name -> span) (c : gtchange) : name -> span :=
  match c with
  | GAddColumn c1 => upd cols (gc_name c1) SpanAdded
  | GDropColumn c1 => upd cols (gc_name c1) (or_dropped (cols (gc_name c1)))
  (* fix C18-loadspans-rename: columns[To] = columns[From]; delete(columns, From) *)
  | GRenameColumn a b => upd (upd cols (gc_name b) (cols (gc_name a))) (gc_name a) SpanUnknown
  | GOtherT _ _ => cols
  end.

(** the outer switch of loadSpans *)
Definition span_gchange (sp : gspans) (c : gchange) : gspans :=
  match c with
  | GAddSchema sc => upd sp (gs_name sc) (mkSS SpanAdded (ss_tabs (sp (gs_name sc))))
  | GDropSchema sc => upd sp (gs_name sc) (mkSS (or_dropped (ss_state (sp (gs_name sc)))) (ss_tabs (sp (gs_name sc))))
  | GAddTable T =>
      on_tab sp T (fun ts => mkTS SpanAdded
        (fold_left (fun m col => upd m (gc_name col) SpanAdded) (gt_cols T) (ts_cols ts)))
  | GDropTable T => on_tab sp T (fun ts => mkTS (or_dropped (ts_state ts)) (ts_cols ts))
  | GModifyTable T cs => on_tab sp T (fun ts => mkTS (ts_state ts) (fold_left span_gtchange cs (ts_cols ts)))
  (* fix C18-loadspans-rename: from, to := tableSpan(From), tableSpan(To); to.state = from.state;
     to.columns = a copy of from.columns (a nil Schema of either table panics, see [nil_schema]) *)
  | GRenameTable F T =>
      match gt_schema F with
      | None => sp
      | Some sf =>
          let fs := ss_tabs (sp sf) (gt_name F) in
          on_tab sp T (fun _ => mkTS (ts_state fs) (ts_cols fs))
      end
  | GOther _ => sp
  end.

(** sqlcheck.go: File.loadSpans *)
Definition loadSpans_g (cl : list gschange) : gspans :=
  fold_left (fun sp sc => fold_left span_gchange (gsc_changes sc) sp) cl empty_gspans.

(** File.SchemaSpan / TableSpan / ColumnSpan on names *)
Definition SchemaSpan_g (sp : gspans) (s : name) : span := ss_state (sp s).
Definition TableSpan_g (sp : gspans) (s t : name) : span := ts_state (ss_tabs (sp s) t).
Definition ColumnSpan_g (sp : gspans) (s t c : name) : span := ts_cols (ss_tabs (sp s) t) c.

(** ** destructive.go *)
(** strings.ToUpper on ASCII bytes (bytes >= 128 are left alone: the harness writes ASCII types only) *)
Definition to_upper (b : name) : name :=
  map (fun x => if (N.leb 97 x && N.leb x 122)%bool then (x - 32)%N else x) b.
(** "VIRTUAL" *)
Definition s_VIRTUAL : name := [86; 73; 82; 84; 85; 65; 76]%N.
(** [sqlx.Has(d.C.Attrs, &g) && strings.ToUpper(g.Type) == "VIRTUAL"] *)
Definition is_virtual (c : gcolumn) : bool :=
  match gc_gen c with
  | None => false
  | Some ty => name_eqb (to_upper ty) s_VIRTUAL
  end.

Inductive gcode := GDS101 | GDS102 | GDS103.
(** Diagnostic: Code, Pos, the quoted names of Text, and the table count of the DS101 text *)
Record gdiag := mkGD { gd_code : gcode; gd_pos : N; gd_names : list name; gd_ntables : N }.

(** the loop over c.Changes of the ModifyTable case *)
Definition gdropped_names (sp : gspans) (s : name) (T : gtable) (cs : list gtchange) : list name :=
  flat_map (fun c =>
      match c with
      | GDropColumn d =>
          if span_eqb (ColumnSpan_g sp s (gt_name T) (gc_name d)) SpanTemporary then []
          else if is_virtual d then [] else [gc_name d]
      | _ => []
      end) cs.

(** one iteration of the inner loop of Analyze (T.Schema non-nil) *)
Definition analyze_gchange (sp : gspans) (pos : N) (c : gchange) : list gdiag :=
  match c with
  | GDropSchema sc =>
      if span_eqb (SchemaSpan_g sp (gs_name sc)) SpanTemporary then []
      else [mkGD GDS101 pos [gs_name sc] (gs_ntables sc)]
  | GDropTable T =>
      match gt_schema T with
      | None => []
      | Some s =>
          if negb (span_eqb (SchemaSpan_g sp s) SpanDropped)
             && negb (span_eqb (TableSpan_g sp s (gt_name T)) SpanTemporary)
          then [mkGD GDS102 pos [gt_name T] 0%N] else []
      end
  | GModifyTable T cs =>
      match gt_schema T with
      | None => []
      | Some s =>
          match gdropped_names sp s T cs with
          | [] => []
          | ns => [mkGD GDS103 pos ns 0%N]
          end
      end
  | _ => []
  end.

Definition is_dropcol (c : gtchange) : bool := match c with GDropColumn _ => true | _ => false end.

(** the change makes Analyze ask for a span (the first such call runs loadSpans) *)
Definition queries (c : gchange) : bool :=
  match c with
  | GDropSchema _ | GDropTable _ => true
  | GModifyTable _ cs => existsb is_dropcol cs
  | _ => false
  end.

(** loadSpans calls tableSpan(c.T) (after the fix also tableSpan(c.From) / tableSpan(c.To)) with a nil Schema *)
Definition nil_schema (c : gchange) : bool :=
  match c with
  | GAddTable T | GDropTable T | GModifyTable T _ =>
      match gt_schema T with None => true | Some _ => false end
  | GRenameTable F T =>
      match gt_schema F, gt_schema T with Some _, Some _ => false | _, _ => true end
  | _ => false
  end.

Inductive goutcome :=
| GPanic
| GDone (ds : list gdiag) (reported : bool) (err : bool).

Definition nonempty {A} (l : list A) : bool := match l with [] => false | _ => true end.

(** destructive.go: Analyzer.Analyze with a.Error = [error]. *)
Definition Analyze_g (error : bool) (cl : list gschange) : goutcome :=
  let chs := all_gchanges cl in
  if existsb queries chs && existsb nil_schema chs then GPanic else
  let sp := loadSpans_g cl in
  let ds := flat_map (fun sc => flat_map (analyze_gchange sp (gsc_pos sc)) (gsc_changes sc)) cl in
  GDone ds (nonempty ds) (nonempty ds && error).

(** ** destructive.New: decoding of the `destructive { error = ... }` block *)
(** a child resource: its type and its boolean attributes in order *)
Definition gblock := (name * list (name * bool))%type.
(** "destructive", "error" *)
Definition s_destructive : name := [100; 101; 115; 116; 114; 117; 99; 116; 105; 118; 101]%N.
Definition s_error : name := [101; 114; 114; 111; 114]%N.

Definition New_error (children : list gblock) : bool :=
  match find (fun b => name_eqb (fst b) s_destructive) children with
  | None => true
  | Some b =>
      match find (fun a => name_eqb (fst a) s_error) (snd b) with
      | None => true
      | Some a => snd a
      end
  end.

(** New + Analyze *)
Definition destructive_run (children : list gblock) (cl : list gschange) : goutcome :=
  Analyze_g (New_error children) cl.
