(** Witnesses for the `atlas:nolint` findings (round 3); all by computation on the model. *)
From Coq Require Import List NArith Bool Arith String Ascii.
From Atlas Require Import Base.Bytes Lint.LintModel Lint.LintNolintModel.
Import ListNotations.

Definition b (s : string) : bytes := map N_of_ascii (list_ascii_of_string s).
Definition tab : bytes := [9%N].
Definition nl : bytes := [10%N].

(** `-- atlas:nolint<TAB>incompatible\n` above a statement *)
Definition w_tab : bytes := b "-- atlas:nolint" ++ tab ++ b "incompatible" ++ nl.
(** `-- atlas:nolint <TAB>naming\n` *)
Definition w_blank_tab : bytes := b "-- atlas:nolint " ++ tab ++ b "naming" ++ nl.
(** `-- atlas:nolint incompatible<TAB>DS102\n` *)
Definition w_inner_tab : bytes := b "-- atlas:nolint incompatible" ++ tab ++ b "DS102" ++ nl.
(** header line `-- do not add atlas:nolint` *)
Definition w_mention : bytes := b "-- do not add atlas:nolint".
(** the documented spellings *)
Definition w_plain : bytes := b "-- atlas:nolint incompatible" ++ nl.
Definition w_bare : bytes := b "-- atlas:nolint" ++ nl.

Definition rules_of (comments : list bytes) : list bytes :=
  flat_map split_sp (Stmt_Directive comments nolint_name).

Lemma tab_is_bare :
  Stmt_Directive [w_tab] nolint_name = [[]] /\ silences (rules_of [w_tab]) DS102 = true
  /\ silences (rules_of [w_tab]) DS103 = true
  /\ Stmt_Directive [w_blank_tab] nolint_name = [[]]
  /\ LocalFile_Directive [b "-- atlas:nolint" ++ tab ++ b "incompatible"] nolint_name = [[]].
Proof. vm_compute. repeat split; reflexivity. Qed.

Lemma plain_is_not : rules_of [w_plain] = [b "incompatible"] /\ silences (rules_of [w_plain]) DS102 = false.
Proof. vm_compute. split; reflexivity. Qed.

Lemma mention_ignores_file :
  file_ignored (mkNL [w_mention] []) = true /\ Stmt_Directive [w_mention ++ nl] nolint_name = [].
Proof. vm_compute. split; reflexivity. Qed.

Lemma two_bare_not_honoured :
  rules_of [w_bare; w_bare] = [[]; []] /\ silences (rules_of [w_bare; w_bare]) DS102 = false
  /\ silences (rules_of [w_bare]) DS102 = true.
Proof. vm_compute. repeat split; reflexivity. Qed.

Lemma inner_tab_drops_names :
  rules_of [w_inner_tab] = [b "incompatible"] /\ silences (rules_of [w_inner_tab]) DS102 = false.
Proof. vm_compute. split; reflexivity. Qed.

(** spellings of a directive naming other checks: trailing blank, two blanks, block comment *)
Lemma spellings :
  rules_of [b "-- atlas:nolint incompatible " ++ nl] = [b "incompatible"; []]
  /\ rules_of [b "-- atlas:nolint  incompatible  naming" ++ nl] = [b "incompatible"; []; b "naming"]
  /\ rules_of [b "/*atlas:nolint incompatible */"] = [b "incompatible"; []]
  /\ rules_of [b "/*atlas:nolint */"] = [[]]
  /\ rules_of [b "/* atlas:nolint */"] = []
  /\ rules_of [b "--atlas:nolint DS102 destructive" ++ nl] = [b "DS102"; b "destructive"]
  /\ silences [b "DS1"] DS102 = false
  /\ silences [b "incompatible"; []] DS102 = false
  /\ silences [b "naming"; b "destructive"] DS103 = true.
Proof. vm_compute. repeat split; reflexivity. Qed.

(** the whole pipeline: file 1 creates t(id,a,b); file 2 is `<comment>DROP TABLE t;` *)
Definition n_t : name := [116]%N.
Definition cols_t := [mkCol [105; 100]%N false 1; mkCol [97]%N false 2; mkCol [98]%N false 2].
Definition dir_with (comment : bytes) : list mfile * list (N * nlfile) :=
  let p := N.of_nat (List.length comment) in
  ([mkFile 1 false [(0%N, CreateTable n_t cols_t)]; mkFile 2 false [(p, DropTable n_t)]],
   [(2%N, mkNL [] [(p, [comment])])]).

Lemma lint_nl_examples :
  lint_nl (fst (dir_with w_plain)) (snd (dir_with w_plain)) 1 = LintReport [(2%N, [mkDiag DS102 29 [n_t]])] true
  /\ lint_nl (fst (dir_with w_tab)) (snd (dir_with w_tab)) 1 = LintReport [(2%N, [])] false
  /\ lint_nl (fst (dir_with w_bare)) (snd (dir_with w_bare)) 1 = LintReport [(2%N, [])] false
  /\ lint_nl (fst (dir_with w_plain)) [(2%N, mkNL [w_mention] [])] 1 = LintReport [] false.
Proof. vm_compute. repeat split; reflexivity. Qed.

(** other bytes after the name that are neither a blank nor a word character: colon, no-break space (C2 A0);
    a comma between names keeps them in one element *)
Lemma nonblank_is_bare :
  rules_of [b "-- atlas:nolint: incompatible" ++ nl] = [[]]
  /\ rules_of [b "-- atlas:nolint" ++ [194; 160]%N ++ b "incompatible" ++ nl] = [[]]
  /\ rules_of [b "-- atlas:nolint incompatible,DS102" ++ nl] = [b "incompatible,DS102"]
  /\ silences (rules_of [b "-- atlas:nolint incompatible,DS102" ++ nl]) DS102 = false.
Proof. vm_compute. repeat split; reflexivity. Qed.
