(** Proofs about M-LINT, part 2: changes derived statement by statement (nextStmts) and the
    file-level completeness of the destructive analyzer. *)
From Coq Require Import List NArith Bool Arith Lia.
From Atlas Require Import Base.Bytes Lint.LintModel Lint.LintSpec Lint.LintProofs.
Import ListNotations.

(** ** find *)
Lemma find_table_some r n T : find_table r n = Some T -> In T r /\ t_name T = n.
Proof. unfold find_table. intros H. apply find_some in H as [H1 H2]. apply name_eqb_eq in H2. auto. Qed.

Lemma find_table_none r n : find_table r n = None -> forall T, In T r -> t_name T <> n.
Proof.
  unfold find_table. intros H T HT E. apply (find_none _ _ H) in HT. simpl in HT.
  rewrite E, name_eqb_refl in HT. discriminate.
Qed.

Lemma find_table_in r T : In T r -> find_table r (t_name T) <> None.
Proof.
  intros H E. apply (find_table_none _ _ E T H). reflexivity.
Qed.

Lemma find_col_some cs n c : find_col cs n = Some c -> In c cs /\ c_name c = n.
Proof. unfold find_col. intros H. apply find_some in H as [H1 H2]. apply name_eqb_eq in H2. auto. Qed.

Lemma find_col_none cs n : find_col cs n = None -> forall c, In c cs -> c_name c <> n.
Proof.
  unfold find_col. intros H c Hc E. apply (find_none _ _ H) in Hc. simpl in Hc.
  rewrite E, name_eqb_refl in Hc. discriminate.
Qed.

Lemma find_table_nodup r T : NoDup (map t_name r) -> In T r -> find_table r (t_name T) = Some T.
Proof.
  induction r as [|x r IH]; intros ND H; [contradiction|].
  simpl in ND. inversion ND as [|? ? Hx ND']; subst.
  unfold find_table. simpl. destruct (name_eqb (t_name x) (t_name T)) eqn:E.
  - destruct H as [H|H]; [subst; reflexivity|].
    apply name_eqb_eq in E. exfalso. apply Hx. rewrite E. apply in_map. assumption.
  - destruct H as [H|H]; [subst; rewrite name_eqb_refl in E; discriminate|].
    apply IH; assumption.
Qed.

Lemma has_table_dec r n : {has_table r n} + {~ has_table r n}.
Proof.
  unfold has_table. destruct (find_table r n); [left; discriminate|right; intros H; apply H; reflexivity].
Qed.

Lemma has_col_dec r t c : {has_col r t c} + {~ has_col r t c}.
Proof.
  unfold has_col. destruct (find_table r t) as [T|] eqn:E.
  - destruct (find_col (t_cols T) c) eqn:F.
    + left. exists T. split; [reflexivity|]. rewrite F. discriminate.
    + right. intros [T' [H1 H2]]. inversion H1; subst. apply H2. assumption.
  - right. intros [T' [H1 _]]. discriminate.
Qed.

(** ** What realmDiff contains *)
Lemma in_realmDiff_drop R R' T :
  In (DropTableC T) (realmDiff R R') <-> In T R /\ find_table R' (t_name T) = None.
Proof.
  unfold realmDiff. rewrite in_app_iff, !in_flat_map. split.
  - intros [[t1 [H1 H2]]|[t1 [H1 H2]]].
    + destruct (find_table R' (t_name t1)) as [t2|] eqn:E.
      * destruct (tableDiff t1 t2); simpl in H2; [contradiction|]. destruct H2 as [H2|[]]; discriminate.
      * destruct H2 as [H2|[]]. inversion H2; subst. auto.
    + destruct (find_table R (t_name t1)); simpl in H2; [contradiction|]. destruct H2 as [H2|[]]; discriminate.
  - intros [H1 H2]. left. exists T. split; [assumption|]. rewrite H2. left; reflexivity.
Qed.

Lemma in_realmDiff_add R R' T :
  In (AddTableC T) (realmDiff R R') <-> In T R' /\ find_table R (t_name T) = None.
Proof.
  unfold realmDiff. rewrite in_app_iff, !in_flat_map. split.
  - intros [[t1 [H1 H2]]|[t1 [H1 H2]]].
    + destruct (find_table R' (t_name t1)) as [t2|] eqn:E.
      * destruct (tableDiff t1 t2); simpl in H2; [contradiction|]. destruct H2 as [H2|[]]; discriminate.
      * destruct H2 as [H2|[]]. discriminate.
    + destruct (find_table R (t_name t1)) eqn:E; simpl in H2; [contradiction|].
      destruct H2 as [H2|[]]. inversion H2; subst. auto.
  - intros [H1 H2]. right. exists T. split; [assumption|]. rewrite H2. left; reflexivity.
Qed.

Lemma in_realmDiff_mod R R' T2 cs :
  In (ModifyTableC T2 cs) (realmDiff R R') <->
  exists T1, In T1 R /\ find_table R' (t_name T1) = Some T2 /\ cs = tableDiff T1 T2 /\ cs <> [].
Proof.
  unfold realmDiff. rewrite in_app_iff, !in_flat_map. split.
  - intros [[t1 [H1 H2]]|[t1 [H1 H2]]].
    + destruct (find_table R' (t_name t1)) as [t2|] eqn:E.
      * destruct (tableDiff t1 t2) eqn:D; simpl in H2; [contradiction|].
        destruct H2 as [H2|[]]. inversion H2; subst. exists t1. rewrite D. repeat split; auto. discriminate.
      * destruct H2 as [H2|[]]. discriminate.
    + destruct (find_table R (t_name t1)); simpl in H2; [contradiction|]. destruct H2 as [H2|[]]; discriminate.
  - intros [T1 [H1 [H2 [H3 H4]]]]. left. exists T1. split; [assumption|]. rewrite H2.
    rewrite <- H3. destruct cs; [contradiction|]. left; reflexivity.
Qed.

Lemma in_tableDiff_dropcol T1 T2 d :
  In (DropColumnC d) (tableDiff T1 T2) <-> In d (t_cols T1) /\ find_col (t_cols T2) (c_name d) = None.
Proof.
  unfold tableDiff, columnDiff, indexDiffT. rewrite !in_app_iff, !in_flat_map. split.
  - intros [[[c1 [H1 H2]]|[c1 [H1 H2]]]|[[i1 [H1 H2]]|[i1 [H1 H2]]]].
    + destruct (find_col (t_cols T2) (c_name c1)) as [c2|] eqn:E.
      * destruct (col_eqb c1 c2); simpl in H2; [contradiction|]. destruct H2 as [H2|[]]; discriminate.
      * destruct H2 as [H2|[]]. inversion H2; subst. auto.
    + destruct (find_col (t_cols T1) (c_name c1)); simpl in H2; [contradiction|]. destruct H2 as [H2|[]]; discriminate.
    + destruct (find_idx (t_idxs T2) (i_name i1)) as [i2|].
      * destruct (names_eqb (i_cols i1) (i_cols i2)); simpl in H2; [contradiction|]. destruct H2 as [H2|[]]; discriminate.
      * destruct H2 as [H2|[]]; discriminate.
    + destruct (find_idx (t_idxs T1) (i_name i1)); simpl in H2; [contradiction|]. destruct H2 as [H2|[]]; discriminate.
  - intros [H1 H2]. left. left. exists d. split; [assumption|]. rewrite H2. left; reflexivity.
Qed.

Lemma in_tableDiff_addcol T1 T2 d :
  In (AddColumnC d) (tableDiff T1 T2) <-> In d (t_cols T2) /\ find_col (t_cols T1) (c_name d) = None.
Proof.
  unfold tableDiff, columnDiff, indexDiffT. rewrite !in_app_iff, !in_flat_map. split.
  - intros [[[c1 [H1 H2]]|[c1 [H1 H2]]]|[[i1 [H1 H2]]|[i1 [H1 H2]]]].
    + destruct (find_col (t_cols T2) (c_name c1)) as [c2|] eqn:E.
      * destruct (col_eqb c1 c2); simpl in H2; [contradiction|]. destruct H2 as [H2|[]]; discriminate.
      * destruct H2 as [H2|[]]. discriminate.
    + destruct (find_col (t_cols T1) (c_name c1)) eqn:E; simpl in H2; [contradiction|].
      destruct H2 as [H2|[]]. inversion H2; subst. auto.
    + destruct (find_idx (t_idxs T2) (i_name i1)) as [i2|].
      * destruct (names_eqb (i_cols i1) (i_cols i2)); simpl in H2; [contradiction|]. destruct H2 as [H2|[]]; discriminate.
      * destruct H2 as [H2|[]]; discriminate.
    + destruct (find_idx (t_idxs T1) (i_name i1)); simpl in H2; [contradiction|]. destruct H2 as [H2|[]]; discriminate.
  - intros [H1 H2]. left. right. exists d. split; [assumption|]. rewrite H2. left; reflexivity.
Qed.

Lemma last_indep {A} (l : list A) : forall x d d', last (x :: l) d = last (x :: l) d'.
Proof. induction l as [|y l IH]; intros x d d'; [reflexivity|]. change (last (y :: l) d = last (y :: l) d'). apply IH. Qed.
Lemma last_cons {A} (x : A) l d : last (x :: l) d = last l x.
Proof. destruct l as [|y l]; [reflexivity|]. change (last (y :: l) d = last (y :: l) x). apply last_indep. Qed.

(** ** nextStmts = a run plus the per-statement diffs *)
Fixpoint changes_of (r : realm) (stmts : list pstmt) (rs : list realm) : list schange :=
  match stmts, rs with
  | (p, _) :: stmts', r' :: rs' => mkSC p (realmDiff r r') :: changes_of r' stmts' rs'
  | _, _ => []
  end.

Lemma nextStmts_run stmts : forall r cl rf,
  nextStmts r stmts = inr (cl, rf) ->
  exists rs, run r stmts rs /\ cl = changes_of r stmts rs /\ rf = last rs r.
Proof.
  induction stmts as [|[p s] stmts IH]; intros r cl rf H; simpl in H.
  - inversion H; subst. exists []. simpl. auto.
  - destruct (exec r s) as [next|] eqn:E; [|discriminate].
    destruct (nextStmts next stmts) as [e|[cs fin]] eqn:N; [discriminate|].
    inversion H; subst. destruct (IH _ _ _ N) as [rs [H1 [H2 H3]]].
    exists (next :: rs). simpl. repeat split; auto.
    + subst; reflexivity.
    + subst. symmetry. apply last_cons.
Qed.

Lemma run_nextStmts stmts : forall r rs,
  run r stmts rs -> nextStmts r stmts = inr (changes_of r stmts rs, last rs r).
Proof.
  induction stmts as [|[p s] stmts IH]; intros r rs H; destruct rs as [|r' rs]; simpl in H; try contradiction.
  - reflexivity.
  - destruct H as [E H]. cbn [nextStmts changes_of]. rewrite E. rewrite (IH _ _ H). rewrite last_cons. reflexivity.
Qed.

Lemma step_at_S r0 p s stmts r1 rs j q b a :
  step_at r1 stmts rs j q b a -> step_at r0 ((p, s) :: stmts) (r1 :: rs) (S j) q b a.
Proof. intros [s' [H1 [H2 H3]]]. exists s'. simpl. auto. Qed.

Lemma step_at_0 r0 p s stmts r1 rs : step_at r0 ((p, s) :: stmts) (r1 :: rs) 0 p r0 r1.
Proof. exists s. simpl. auto. Qed.

(** A property that holds before the file and not after it is lost at some statement. *)
Lemma first_loss (P : realm -> Prop) (Pdec : forall r, {P r} + {~ P r}) stmts : forall r0 rs,
  run r0 stmts rs -> P r0 -> ~ P (last rs r0) ->
  exists j p b a, step_at r0 stmts rs j p b a /\ P b /\ ~ P a.
Proof.
  induction stmts as [|[p s] stmts IH]; intros r0 rs H H0 Hn; destruct rs as [|r1 rs]; simpl in H;
    [simpl in Hn; contradiction | contradiction | contradiction | ].
  - destruct H as [E H]. destruct (Pdec r1) as [P1|P1].
    + assert (Hl : last (r1 :: rs) r0 = last rs r1) by apply last_cons.
      rewrite Hl in Hn. destruct (IH _ _ H P1 Hn) as [j [q [b [a [S1 [S2 S3]]]]]].
      exists (S j), q, b, a. split; [apply step_at_S; assumption|auto].
    + exists 0, p, r0, r1. split; [apply step_at_0|auto].
Qed.

(** A property that no statement establishes, and that holds at the end, held all along. *)
Lemma never_gained (P : realm -> Prop) (Pdec : forall r, {P r} + {~ P r}) stmts : forall r0 rs,
  run r0 stmts rs ->
  (forall j p b a, step_at r0 stmts rs j p b a -> P a -> P b) ->
  P (last rs r0) ->
  forall j p b a, step_at r0 stmts rs j p b a -> P b /\ P a.
Proof.
  induction stmts as [|[p s] stmts IH]; intros r0 rs H Hng Hl j q b a St; destruct rs as [|r1 rs]; simpl in H; try contradiction.
  - destruct St as [s' [H1 _]]. destruct j; discriminate.
  - destruct H as [E H].
    assert (Hl' : last (r1 :: rs) r0 = last rs r1) by apply last_cons.
    rewrite Hl' in Hl.
    assert (Hng' : forall j p b a, step_at r1 stmts rs j p b a -> P a -> P b).
    { intros j' p' b' a' S'. apply (Hng (S j') p' b' a'). apply step_at_S. assumption. }
    assert (P1 : P r1).
    { destruct stmts as [|[p2 s2] stmts']; destruct rs as [|r2 rs'].
      - simpl in Hl. assumption.
      - simpl in H. contradiction.
      - simpl in H. contradiction.
      - destruct (IH _ _ H Hng' Hl 0 p2 r1 r2 (step_at_0 _ _ _ _ _ _)) as [X _]. assumption. }
    destruct j as [|j].
    + destruct St as [s' [H1 [H2 H3]]]. simpl in *. inversion H1; inversion H2; inversion H3; subst.
      split; [|assumption]. apply (Hng 0 q b a (step_at_0 _ _ _ _ _ _)). assumption.
    + destruct St as [s' [H1 [H2 H3]]]. simpl in *.
      apply (IH _ _ H Hng' Hl j q b a). exists s'. auto.
Qed.

Lemma step_at_in_changes stmts : forall r0 rs j p b a,
  run r0 stmts rs -> step_at r0 stmts rs j p b a ->
  In (mkSC p (realmDiff b a)) (changes_of r0 stmts rs).
Proof.
  induction stmts as [|[q s] stmts IH]; intros r0 rs j p b a H St; destruct rs as [|r1 rs]; simpl in H; try contradiction.
  - destruct St as [s' [H1 _]]. destruct j; discriminate.
  - destruct H as [E H]. destruct j as [|j].
    + destruct St as [s' [H1 [H2 H3]]]. simpl in *. inversion H1; inversion H2; inversion H3; subst. left; reflexivity.
    + right. apply (IH r1 rs j). assumption. destruct St as [s' [H1 [H2 H3]]]. exists s'. simpl in *. auto.
Qed.

Lemma in_changes_step stmts : forall r0 rs sc,
  run r0 stmts rs -> In sc (changes_of r0 stmts rs) ->
  exists j b a, step_at r0 stmts rs j (sc_pos sc) b a /\ sc_changes sc = realmDiff b a.
Proof.
  induction stmts as [|[q s] stmts IH]; intros r0 rs sc H Hin; destruct rs as [|r1 rs]; simpl in H, Hin; try contradiction.
  destruct H as [E H]. destruct Hin as [Hin|Hin].
  - subst. exists 0, r0, r1. simpl. split; [apply step_at_0|reflexivity].
  - destruct (IH _ _ _ H Hin) as [j [b [a [S1 S2]]]]. exists (S j), b, a. split; [apply step_at_S; assumption|assumption].
Qed.

Lemma in_all_changes cl c : In c (all_changes cl) <-> exists sc, In sc cl /\ In c (sc_changes sc).
Proof. unfold all_changes. apply in_flat_map. Qed.

(** ** States of a run stay well-formed (table names are unique) *)
Lemma names_replace_same r n f :
  (forall T, t_name (f T) = t_name T) -> map t_name (replace_table r n f) = map t_name r.
Proof.
  intros Hf. unfold replace_table. rewrite map_map. apply map_ext. intros T.
  destruct (name_eqb (t_name T) n); [apply Hf|reflexivity].
Qed.

Lemma nodup_filter_names r g : NoDup (map t_name r) -> NoDup (map t_name (filter g r)).
Proof.
  induction r as [|x r IH]; intros H; simpl; [constructor|].
  inversion H as [|? ? Hx ND]; subst. destruct (g x); simpl; [|apply IH; assumption].
  constructor; [|apply IH; assumption]. intros Hin. apply Hx.
  apply in_map_iff in Hin as [y [E Hy]]. apply filter_In in Hy as [Hy _]. rewrite <- E. apply in_map. assumption.
Qed.

Lemma nodup_rename r t u :
  NoDup (map t_name r) -> find_table r u = None ->
  NoDup (map t_name (replace_table r t (fun T => mkTab u (t_cols T) (t_idxs T)))).
Proof.
  intros ND Hu. unfold replace_table.
  induction r as [|x r IH]; simpl; [constructor|].
  inversion ND as [|? ? Hx ND']; subst.
  assert (Hu' : find_table r u = None).
  { unfold find_table in *. simpl in Hu. destruct (name_eqb (t_name x) u); [discriminate|assumption]. }
  assert (Hxu : t_name x <> u).
  { apply (find_table_none _ _ Hu x). left; reflexivity. }
  constructor; [|apply IH; assumption].
  intros Hin. apply in_map_iff in Hin as [y [E Hy]]. apply in_map_iff in Hy as [z [E2 Hz]]. subst y.
  destruct (name_eqb (t_name x) t) eqn:Ex; simpl in E.
  - destruct (name_eqb (t_name z) t) eqn:Ez; simpl in E.
    + apply name_eqb_eq in Ex, Ez. apply Hx. rewrite Ex, <- Ez. apply in_map. assumption.
    + apply (find_table_none _ _ Hu' z Hz). assumption.
  - destruct (name_eqb (t_name z) t) eqn:Ez; simpl in E.
    + congruence.
    + apply Hx. rewrite <- E. apply in_map. assumption.
Qed.

Lemma NoDup_app_one {A} (l : list A) x : NoDup l -> ~ In x l -> NoDup (l ++ [x]).
Proof.
  induction l as [|y l IH]; intros ND Hx; simpl.
  - constructor; [intros []|constructor].
  - inversion ND as [|? ? Hy ND']; subst. constructor.
    + intros Hin. apply in_app_or in Hin as [Hin|[Hin|[]]]; [contradiction|]. subst. apply Hx. left; reflexivity.
    + apply IH; [assumption|]. intros Hin. apply Hx. right; assumption.
Qed.

Lemma exec_wf r s r' : wf_realm r -> exec r s = Some r' -> wf_realm r'.
Proof.
  unfold wf_realm. intros ND H. destruct s; simpl in H.
  - destruct (find_table r t) eqn:F; [discriminate|].
    destruct (mem_name t (all_idx_names r)); [discriminate|].
    destruct (negb (nodup_names (map c_name cols))); [discriminate|].
    destruct (negb (existsb _ cols)); [discriminate|]. inversion H; subst.
    rewrite map_app. simpl. apply NoDup_app_one; [assumption|].
    intros Hin. apply in_map_iff in Hin as [T [E HT]]. apply (find_table_none _ _ F T HT). assumption.
  - destruct (find_table r t); [|discriminate]. inversion H; subst. apply nodup_filter_names. assumption.
  - destruct (find_table r t) as [T|]; [|discriminate].
    destruct (find_col (t_cols T) (c_name c)); [discriminate|]. inversion H; subst.
    rewrite names_replace_same; [assumption|reflexivity].
  - destruct (find_table r t) as [T|]; [|discriminate].
    destruct (find_col (t_cols T) c); [|discriminate].
    destruct (existsb _ (t_idxs T)); [discriminate|].
    destruct (negb (existsb _ _)); [discriminate|]. inversion H; subst.
    rewrite names_replace_same; [assumption|reflexivity].
  - destruct (find_table r t); [|discriminate].
    destruct (find_table r u) eqn:F; [discriminate|].
    destruct (mem_name u (all_idx_names r)); [discriminate|]. inversion H; subst.
    apply nodup_rename; assumption.
  - destruct (find_table r t) as [T|]; [|discriminate].
    destruct (find_col (t_cols T) c); [|discriminate].
    destruct (find_col (t_cols T) d); [discriminate|]. inversion H; subst.
    rewrite names_replace_same; [assumption|reflexivity].
  - destruct (find_table r t) as [T|]; [|discriminate].
    destruct (mem_name i (all_idx_names r)); [discriminate|].
    destruct (find_table r i); [discriminate|].
    destruct (forallb _ cols); [|discriminate]. inversion H; subst.
    rewrite names_replace_same; [assumption|reflexivity].
  - destruct (mem_name i (all_idx_names r)); [|discriminate]. inversion H; subst.
    rewrite map_map. simpl. assumption.
  - destruct (find_table r dst); [|discriminate]. destruct (find_table r src); [|discriminate].
    inversion H; subst; assumption.
  - destruct ok; [|discriminate]. inversion H; subst; assumption.
Qed.

Lemma run_wf stmts : forall r0 rs, wf_realm r0 -> run r0 stmts rs ->
  forall j p b a, step_at r0 stmts rs j p b a -> wf_realm b /\ wf_realm a.
Proof.
  induction stmts as [|[q s] stmts IH]; intros r0 rs W H j p b a St; destruct rs as [|r1 rs]; simpl in H; try contradiction.
  - destruct St as [s' [H1 _]]. destruct j; discriminate.
  - destruct H as [E H]. pose proof (exec_wf _ _ _ W E) as W1. destruct j as [|j].
    + destruct St as [s' [H1 [H2 H3]]]. simpl in *. inversion H2; inversion H3; subst. auto.
    + destruct St as [s' [H1 [H2 H3]]]. simpl in *. apply (IH r1 rs W1 H j p). exists s'. auto.
Qed.

(** ** The pre-pass is the identity when no created table carries the new_ prefix *)
Definition no_new_prefix (cl : list schange) : Prop :=
  forall T, In (AddTableC T) (all_changes cl) -> has_prefix (t_name T) new_prefix = false.

Lemma modifyUsingTemp_none c0 c2 c3 :
  (forall T, In (AddTableC T) (sc_changes c0) -> has_prefix (t_name T) new_prefix = false) ->
  modifyUsingTemp c0 c2 c3 = None.
Proof.
  intros H. unfold modifyUsingTemp. destruct (sc_changes c0) as [|c [|? ?]]; try reflexivity.
  - destruct c; try reflexivity. rewrite (H t); [reflexivity|left; reflexivity].
  - destruct c; reflexivity.
Qed.

Lemma rewriteTemp_id cl : no_new_prefix cl -> rewriteTemp cl = cl.
Proof.
  induction cl as [|c0 tl IH]; intros H; [reflexivity|].
  assert (Htl : rewriteTemp tl = tl).
  { apply IH. intros T HT. apply H. unfold all_changes in *. simpl. apply in_or_app. right. assumption. }
  simpl. destruct tl as [|c1 [|c2 [|c3 rest]]]; try reflexivity.
  rewrite modifyUsingTemp_none.
  - rewrite Htl. destruct (sc_changes c1); reflexivity.
  - intros T HT. apply H. unfold all_changes. simpl. apply in_or_app. left. assumption.
Qed.

(** ** Completeness: tables (files on which the pre-pass does not fire) *)
Lemma complete_tables r0 stmts rs n :
  run r0 stmts rs ->
  let cl := changes_of r0 stmts rs in
  rewriteTemp cl = cl ->
  has_table r0 n -> ~ has_table (last rs r0) n ->
  (forall j p b a, step_at r0 stmts rs j p b a -> has_table a n -> has_table b n) ->
  exists j p b a, step_at r0 stmts rs j p b a /\ removes_table b a n /\
                  In (mkDiag DS102 p [n]) (analyze_file cl).
Proof.
  intros H cl Hid H0 Hn Hnc.
  destruct (first_loss (fun r => has_table r n) (fun r => has_table_dec r n) stmts r0 rs H H0 Hn)
    as [j [p [b [a [St [Pb Pa]]]]]].
  exists j, p, b, a. split; [assumption|]. split; [split; assumption|].
  unfold analyze_file. rewrite Hid. apply Analyze_DS102.
  unfold has_table in Pb. destruct (find_table b n) as [T|] eqn:F; [|contradiction Pb; reflexivity].
  apply find_table_some in F as [F1 F2].
  exists (mkSC p (realmDiff b a)), T. split; [apply (step_at_in_changes stmts r0 rs j); assumption|].
  split; [reflexivity|]. split.
  - simpl. apply in_realmDiff_drop. split; [assumption|]. rewrite F2.
    unfold has_table in Pa. destruct (find_table a n); [exfalso; apply Pa; discriminate|reflexivity].
  - split; [rewrite F2; reflexivity|]. rewrite F2. apply table_state_not_temp_no_add.
    intros [T' [HT' En]]. apply in_all_changes in HT' as [sc [Hsc Hc]].
    destruct (in_changes_step stmts r0 rs sc H Hsc) as [j' [b' [a' [St' Ech]]]].
    rewrite Ech in Hc. apply in_realmDiff_add in Hc as [Ha Hb].
    assert (Ha' : has_table a' n). { rewrite <- En. apply find_table_in. assumption. }
    apply (Hnc _ _ _ _ St') in Ha'. rewrite <- En in Ha'. apply Ha'. assumption.
Qed.

(** ** Completeness: columns of a surviving table *)
Lemma complete_columns r0 stmts rs t c :
  wf_realm r0 -> run r0 stmts rs ->
  let cl := changes_of r0 stmts rs in
  rewriteTemp cl = cl ->
  has_col r0 t c -> has_table (last rs r0) t -> ~ has_col (last rs r0) t c ->
  (forall j p b a, step_at r0 stmts rs j p b a -> has_table a t -> has_table b t) ->
  (forall j p b a, step_at r0 stmts rs j p b a -> has_col a t c -> has_col b t c) ->
  exists j p b a T d, step_at r0 stmts rs j p b a /\
     find_table b t = Some T /\ find_col (t_cols T) c = Some d /\ has_table a t /\ ~ has_col a t c /\
     (c_virtual d = false -> exists ns, In (mkDiag DS103 p ns) (analyze_file cl) /\ In c ns).
Proof.
  intros W H cl Hid H0 Ht Hn Hnt Hnc.
  destruct (first_loss (fun r => has_col r t c) (fun r => has_col_dec r t c) stmts r0 rs H H0 Hn)
    as [j [p [b [a [St [Pb Pa]]]]]].
  destruct (never_gained (fun r => has_table r t) (fun r => has_table_dec r t) stmts r0 rs H Hnt Ht j p b a St) as [Tb Ta].
  destruct Pb as [T1 [F1 F2]].
  destruct (find_col (t_cols T1) c) as [d|] eqn:Fd; [|contradiction F2; reflexivity].
  exists j, p, b, a, T1, d. repeat split; try assumption.
  intros V. unfold analyze_file. rewrite Hid.
  unfold has_table in Ta. destruct (find_table a t) as [T2|] eqn:F3; [|contradiction Ta; reflexivity].
  assert (Fc : find_col (t_cols T2) c = None).
  { destruct (find_col (t_cols T2) c) eqn:X; [|reflexivity]. exfalso. apply Pa. exists T2. split; [exact F3|]. rewrite X; discriminate. }
  apply find_table_some in F1 as [I1 N1]. apply find_col_some in Fd as [Id Nd].
  pose proof (find_table_some _ _ _ F3) as [I2 N2].
  apply Analyze_DS103.
  exists (mkSC p (realmDiff b a)), T2, (tableDiff T1 T2), d.
  assert (Hdrop : In (DropColumnC d) (tableDiff T1 T2)).
  { apply in_tableDiff_dropcol. split; [assumption|]. rewrite Nd. assumption. }
  split; [apply (step_at_in_changes stmts r0 rs j); assumption|].
  split; [reflexivity|]. split.
  { simpl. apply in_realmDiff_mod. exists T1. rewrite N1. repeat split; auto.
    intros E. rewrite E in Hdrop. contradiction. }
  split; [assumption|]. split; [assumption|]. split; [assumption|].
  rewrite N2, Nd. apply column_state_not_temp_no_add.
  intros [[T' [col [HT' [En [Hcol Ecol]]]]]|[T' [cs [col [HT' [En [Hcol Ecol]]]]]]].
  - (* a statement created table t *)
    apply in_all_changes in HT' as [sc [Hsc Hc]].
    destruct (in_changes_step stmts r0 rs sc H Hsc) as [j' [b' [a' [St' Ech]]]].
    rewrite Ech in Hc. apply in_realmDiff_add in Hc as [Ha Hb].
    assert (Ha' : has_table a' t). { rewrite <- En. apply find_table_in. assumption. }
    apply (Hnt _ _ _ _ St') in Ha'. rewrite <- En in Ha'. apply Ha'. assumption.
  - (* a statement added column t.c *)
    apply in_all_changes in HT' as [sc [Hsc Hc]].
    destruct (in_changes_step stmts r0 rs sc H Hsc) as [j' [b' [a' [St' Ech]]]].
    rewrite Ech in Hc. apply in_realmDiff_mod in Hc as [T0 [I0 [F0 [Ecs _]]]].
    rewrite Ecs in Hcol. apply in_tableDiff_addcol in Hcol as [Hc1 Hc2].
    destruct (run_wf stmts r0 rs W H j' _ b' a' St') as [Wb' Wa'].
    pose proof (find_table_some _ _ _ F0) as [_ N0].
    assert (Hac : has_col a' t c).
    { exists T'. split; [rewrite <- En, N0; assumption|].
      intros X. apply (find_col_none _ _ X col Hc1). assumption. }
    apply (Hnc _ _ _ _ St') in Hac. destruct Hac as [T0' [G1 G2]].
    assert (T0' = T0).
    { pose proof (find_table_nodup b' T0 Wb' I0) as X. rewrite <- N0, En in X. congruence. }
    subst T0'. apply G2. rewrite <- Ecol. assumption.
Qed.

Lemma nextStmts_iff_run stmts r cl rf :
  nextStmts r stmts = inr (cl, rf) <-> exists rs, run r stmts rs /\ cl = changes_of r stmts rs /\ rf = last rs r.
Proof.
  split; [apply nextStmts_run|]. intros [rs [H1 [H2 H3]]]. subst. apply run_nextStmts. assumption.
Qed.

Lemma lint_exit_status dir latest files failed :
  lint dir latest = LintReport files failed ->
  (failed = true <-> exists f ds, In (f, ds) files /\ ds <> []).
Proof.
  unfold lint. destruct (DetectChanges dir latest) as [base feat].
  destruct (LoadChanges base feat) as [f p|fs]; [discriminate|].
  intros H. inversion H; subst. clear H. rewrite existsb_exists. split.
  - intros [[f ds] [H1 H2]]. exists f, ds. split; [assumption|]. unfold has_diag in H2. simpl in H2.
    destruct ds; [discriminate|discriminate].
  - intros [f [ds [H1 H2]]]. exists (f, ds). split; [assumption|]. unfold has_diag. simpl.
    destruct ds; [contradiction|reflexivity].
Qed.
