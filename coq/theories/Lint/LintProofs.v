(** Proofs about M-LINT (Lint/LintModel.v). *)
From Coq Require Import List NArith Bool Arith Lia.
From Atlas Require Import Base.Bytes Lint.LintModel.
Import ListNotations.

Lemma name_eqb_eq a b : name_eqb a b = true <-> a = b.
Proof. apply bytes_eqb_eq. Qed.
