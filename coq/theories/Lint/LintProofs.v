(** Proofs about M-LINT, part 1: spans and the destructive analyzer (any change list). *)
From Coq Require Import List NArith Bool Arith Lia.
From Atlas Require Import Base.Bytes Lint.LintModel Lint.LintSpec.
Import ListNotations.

Lemma name_eqb_eq a b : name_eqb a b = true <-> a = b.
Proof. apply bytes_eqb_eq. Qed.
Lemma name_eqb_refl a : name_eqb a a = true.
Proof. apply bytes_eqb_refl. Qed.
Lemma name_eqb_neq a b : name_eqb a b = false <-> a <> b.
Proof. apply bytes_eqb_neq. Qed.

Lemma span_eqb_eq a b : span_eqb a b = true <-> a = b.
Proof. destruct a, b; simpl; split; intros H; try discriminate; reflexivity. Qed.
Lemma span_eqb_neq a b : span_eqb a b = false <-> a <> b.
Proof. destruct a, b; simpl; split; intros H; try discriminate; try reflexivity; congruence. Qed.

Lemma fold_left_flat_map {A B C} (f : A -> B -> A) (g : C -> list B) l a :
  fold_left f (flat_map g l) a = fold_left (fun a x => fold_left f (g x) a) l a.
Proof.
  revert a; induction l as [|x l IH]; intros a; simpl; [reflexivity|].
  rewrite fold_left_app. apply IH.
Qed.

Lemma upd_same {A} (m : name -> A) k v : upd m k v k = v.
Proof. unfold upd. rewrite name_eqb_refl. reflexivity. Qed.
Lemma upd_other {A} (m : name -> A) k v k' : k <> k' -> upd m k v k' = m k'.
Proof. intros H. unfold upd. apply name_eqb_neq in H. rewrite H. reflexivity. Qed.

(** ** loadSpans computes the per-name folds of LintSpec *)
Lemma loadSpans_unfold cl : loadSpans cl = fold_left span_change (all_changes cl) empty_spans.
Proof. unfold loadSpans, all_changes. symmetry. apply fold_left_flat_map. Qed.

Lemma span_change_state sp c n :
  ts_state (span_change sp c n) = tstep n (ts_state (sp n)) c.
Proof.
  destruct c as [T|T|T cs|f t]; simpl; try reflexivity.
  - destruct (name_eqb (t_name T) n) eqn:E.
    + apply name_eqb_eq in E; subst. rewrite upd_same. reflexivity.
    + apply name_eqb_neq in E. rewrite upd_other by assumption. reflexivity.
  - destruct (name_eqb (t_name T) n) eqn:E.
    + apply name_eqb_eq in E; subst. rewrite upd_same. reflexivity.
    + apply name_eqb_neq in E. rewrite upd_other by assumption. reflexivity.
  - destruct (name_eqb (t_name T) n) eqn:E.
    + apply name_eqb_eq in E; subst. rewrite upd_same. reflexivity.
    + apply name_eqb_neq in E. rewrite upd_other by assumption. reflexivity.
Qed.

Lemma fold_state cs : forall sp n,
  ts_state (fold_left span_change cs sp n) = fold_left (tstep n) cs (ts_state (sp n)).
Proof.
  induction cs as [|c cs IH]; intros sp n; simpl; [reflexivity|].
  rewrite IH. rewrite span_change_state. reflexivity.
Qed.

Lemma loadSpans_state cl n : ts_state (loadSpans cl n) = table_state cl n.
Proof. rewrite loadSpans_unfold. rewrite fold_state. reflexivity. Qed.

Lemma fold_addcols cols : forall (m : name -> span) c,
  fold_left (fun m col => upd m (c_name col) SpanAdded) cols m c =
  if existsb (fun col => name_eqb (c_name col) c) cols then SpanAdded else m c.
Proof.
  induction cols as [|x cols IH]; intros m c; simpl; [reflexivity|].
  rewrite IH. destruct (existsb _ cols); [rewrite orb_true_r; reflexivity|].
  rewrite orb_false_r. unfold upd. destruct (name_eqb (c_name x) c); reflexivity.
Qed.

Lemma span_tchange_col m tc c : span_tchange m tc c = cstep_t c (m c) tc.
Proof.
  destruct tc as [c1|c1|? ?|?|?|? ?]; simpl; try reflexivity.
  unfold upd. destruct (name_eqb (c_name c1) c) eqn:E; [|reflexivity].
  apply name_eqb_eq in E; subst. reflexivity.
Qed.

Lemma fold_tchange cs : forall m c,
  fold_left span_tchange cs m c = fold_left (cstep_t c) cs (m c).
Proof.
  induction cs as [|x cs IH]; intros m c; simpl; [reflexivity|].
  rewrite IH. rewrite span_tchange_col. reflexivity.
Qed.

Lemma span_change_col sp ch t c :
  ts_cols (span_change sp ch t) c = cstep t c (ts_cols (sp t) c) ch.
Proof.
  destruct ch as [T|T|T cs|f u]; simpl; try reflexivity.
  - destruct (name_eqb (t_name T) t) eqn:E.
    + apply name_eqb_eq in E; subst. rewrite upd_same. simpl. apply fold_addcols.
    + apply name_eqb_neq in E. rewrite upd_other by assumption. reflexivity.
  - destruct (name_eqb (t_name T) t) eqn:E.
    + apply name_eqb_eq in E; subst. rewrite upd_same. reflexivity.
    + apply name_eqb_neq in E. rewrite upd_other by assumption. reflexivity.
  - destruct (name_eqb (t_name T) t) eqn:E.
    + apply name_eqb_eq in E; subst. rewrite upd_same. simpl. apply fold_tchange.
    + apply name_eqb_neq in E. rewrite upd_other by assumption. reflexivity.
Qed.

Lemma fold_cols chs : forall sp t c,
  ts_cols (fold_left span_change chs sp t) c = fold_left (cstep t c) chs (ts_cols (sp t) c).
Proof.
  induction chs as [|x chs IH]; intros sp t c; simpl; [reflexivity|].
  rewrite IH. rewrite span_change_col. reflexivity.
Qed.

Lemma loadSpans_cols cl t c : ts_cols (loadSpans cl t) c = column_state cl t c.
Proof. rewrite loadSpans_unfold. rewrite fold_cols. reflexivity. Qed.

(** ** Exact characterisation of the diagnostics of destructive.Analyze *)
Lemma in_dropped_names sp T cs n :
  In n (dropped_names sp T cs) <->
  exists d, In (DropColumnC d) cs /\ c_name d = n /\ c_virtual d = false /\ ColumnSpan sp T d <> SpanTemporary.
Proof.
  unfold dropped_names. rewrite in_flat_map. split.
  - intros [tc [Hin Hn]]. destruct tc as [c1|d|? ?|?|?|? ?]; simpl in Hn; try contradiction.
    destruct (span_eqb (ColumnSpan sp T d) SpanTemporary) eqn:E; [contradiction|].
    destruct (c_virtual d) eqn:V; [contradiction|].
    destruct Hn as [Hn|[]]. exists d. apply span_eqb_neq in E. auto.
  - intros [d [Hin [Hn [V E]]]]. exists (DropColumnC d). split; [assumption|]. simpl.
    apply span_eqb_neq in E. rewrite E, V. left; assumption.
Qed.

Lemma Analyze_in cl d :
  In d (Analyze cl) <->
  exists sc c, In sc cl /\ In c (sc_changes sc) /\ In d (analyze_change (loadSpans cl) (sc_pos sc) c).
Proof.
  unfold Analyze. rewrite in_flat_map. split.
  - intros [sc [H1 H2]]. apply in_flat_map in H2 as [c [H2 H3]]. eauto.
  - intros [sc [c [H1 [H2 H3]]]]. exists sc. split; [assumption|]. apply in_flat_map. eauto.
Qed.

(** DS102 at [p] naming [n]  <->  some statement at [p] carries DropTable n and the span of n is not temporary. *)
Lemma Analyze_DS102 cl p ns :
  In (mkDiag DS102 p ns) (Analyze cl) <->
  exists sc T, In sc cl /\ sc_pos sc = p /\ In (DropTableC T) (sc_changes sc) /\ ns = [t_name T] /\
               table_state cl (t_name T) <> SpanTemporary.
Proof.
  rewrite Analyze_in. split.
  - intros [sc [c [H1 [H2 H3]]]]. destruct c as [T|T|T cs|f t]; simpl in H3; try contradiction.
    + destruct (span_eqb (TableSpan (loadSpans cl) T) SpanTemporary) eqn:E; [contradiction|].
      destruct H3 as [H3|[]]. inversion H3; subst. exists sc, T.
      apply span_eqb_neq in E. unfold TableSpan in E. rewrite loadSpans_state in E. auto.
    + destruct (dropped_names (loadSpans cl) T cs); [contradiction|].
      destruct H3 as [H3|[]]. discriminate.
  - intros [sc [T [H1 [H2 [H3 [H4 H5]]]]]]. exists sc, (DropTableC T). split; [assumption|]. split; [assumption|].
    simpl. unfold TableSpan. rewrite loadSpans_state. apply span_eqb_neq in H5. rewrite H5. subst. left; reflexivity.
Qed.

(** DS103 at [p] naming column [n]  <->  some statement at [p] carries ModifyTable T with DropColumn n,
    n non-virtual, and the span of T.n is not temporary. *)
Lemma Analyze_DS103 cl p n :
  (exists ns, In (mkDiag DS103 p ns) (Analyze cl) /\ In n ns) <->
  exists sc T cs d, In sc cl /\ sc_pos sc = p /\ In (ModifyTableC T cs) (sc_changes sc) /\
                    In (DropColumnC d) cs /\ c_name d = n /\ c_virtual d = false /\
                    column_state cl (t_name T) (c_name d) <> SpanTemporary.
Proof.
  split.
  - intros [ns [H Hn]]. apply Analyze_in in H as [sc [c [H1 [H2 H3]]]].
    destruct c as [T|T|T cs|f t]; simpl in H3; try contradiction.
    + destruct (span_eqb (TableSpan (loadSpans cl) T) SpanTemporary); [contradiction|].
      destruct H3 as [H3|[]]. discriminate.
    + destruct (dropped_names (loadSpans cl) T cs) eqn:E; [contradiction|].
      destruct H3 as [H3|[]]. inversion H3; subst. rewrite <- E in Hn.
      apply in_dropped_names in Hn as [d [Hd [Hdn [V S]]]].
      exists sc, T, cs, d. unfold ColumnSpan in S. rewrite loadSpans_cols in S. auto 10.
  - intros [sc [T [cs [d [H1 [H2 [H3 [H4 [H5 [H6 H7]]]]]]]]]].
    assert (Hn : In n (dropped_names (loadSpans cl) T cs)).
    { apply in_dropped_names. exists d. unfold ColumnSpan. rewrite loadSpans_cols. auto. }
    exists (dropped_names (loadSpans cl) T cs). split; [|assumption].
    apply Analyze_in. exists sc, (ModifyTableC T cs). split; [assumption|]. split; [assumption|].
    simpl. destruct (dropped_names (loadSpans cl) T cs) eqn:E; [contradiction|]. subst. left; reflexivity.
Qed.

(** Every diagnostic sits on the position of one of the analysed statements. *)
Lemma Analyze_pos cl d : In d (Analyze cl) -> exists sc, In sc cl /\ sc_pos sc = d_pos d.
Proof.
  intros H. apply Analyze_in in H as [sc [c [H1 [H2 H3]]]]. exists sc. split; [assumption|].
  destruct c as [T|T|T cs|f t]; simpl in H3; try contradiction.
  - destruct (span_eqb _ _); [contradiction|]. destruct H3 as [H3|[]]; subst; reflexivity.
  - destruct (dropped_names _ _ _); [contradiction|]. destruct H3 as [H3|[]]; subst; reflexivity.
Qed.

(** ** Span states as summaries of the add/drop history of a name *)
Lemma table_state_no_add chs n : forall s,
  (forall T, In (AddTableC T) chs -> t_name T <> n) ->
  (s = SpanUnknown \/ s = SpanDropped) ->
  fold_left (tstep n) chs s = SpanUnknown \/ fold_left (tstep n) chs s = SpanDropped.
Proof.
  induction chs as [|c chs IH]; intros s Hno Hs; simpl; [assumption|].
  apply IH; [intros T HT; apply Hno; right; assumption|].
  destruct c as [T|T|T cs|f t]; simpl; try assumption.
  - destruct (name_eqb (t_name T) n) eqn:E; [|assumption].
    apply name_eqb_eq in E. exfalso. apply (Hno T); [left; reflexivity|assumption].
  - destruct (name_eqb (t_name T) n); [|assumption]. destruct Hs; subst; simpl; auto.
Qed.

Lemma table_state_not_temp_no_add cl n :
  ~ adds_table cl n -> table_state cl n <> SpanTemporary.
Proof.
  intros H. unfold table_state.
  destruct (table_state_no_add (all_changes cl) n SpanUnknown) as [E|E]; auto.
  - intros T HT E. apply H. exists T. auto.
  - rewrite E; discriminate.
  - rewrite E; discriminate.
Qed.

Lemma cstep_t_no_add cs c : forall s,
  (forall col, In (AddColumnC col) cs -> c_name col <> c) ->
  (s = SpanUnknown \/ s = SpanDropped) ->
  fold_left (cstep_t c) cs s = SpanUnknown \/ fold_left (cstep_t c) cs s = SpanDropped.
Proof.
  induction cs as [|x cs IH]; intros s Hno Hs; simpl; [assumption|].
  apply IH; [intros col Hc; apply Hno; right; assumption|].
  destruct x as [c1|c1|? ?|?|?|? ?]; simpl; try assumption.
  - destruct (name_eqb (c_name c1) c) eqn:E; [|assumption].
    apply name_eqb_eq in E. exfalso. apply (Hno c1); [left; reflexivity|assumption].
  - destruct (name_eqb (c_name c1) c); [|assumption]. destruct Hs; subst; simpl; auto.
Qed.

Lemma column_state_no_add chs t c : forall s,
  (forall T col, In (AddTableC T) chs -> t_name T = t -> In col (t_cols T) -> c_name col <> c) ->
  (forall T cs col, In (ModifyTableC T cs) chs -> t_name T = t -> In (AddColumnC col) cs -> c_name col <> c) ->
  (s = SpanUnknown \/ s = SpanDropped) ->
  fold_left (cstep t c) chs s = SpanUnknown \/ fold_left (cstep t c) chs s = SpanDropped.
Proof.
  induction chs as [|x chs IH]; intros s H1 H2 Hs; simpl; [assumption|].
  apply IH.
  - intros T col HT. apply H1. right; assumption.
  - intros T cs col HT. apply (H2 T cs col). right; assumption.
  - destruct x as [T|T|T cs|f u]; simpl; try assumption.
    + destruct (name_eqb (t_name T) t) eqn:E; [|assumption].
      apply name_eqb_eq in E.
      destruct (existsb (fun col => name_eqb (c_name col) c) (t_cols T)) eqn:X; [|assumption].
      apply existsb_exists in X as [col [Hc Hn]]. apply name_eqb_eq in Hn.
      exfalso. apply (H1 T col); auto. left; reflexivity.
    + destruct (name_eqb (t_name T) t) eqn:E; [|assumption].
      apply name_eqb_eq in E. apply cstep_t_no_add; [|assumption].
      intros col Hc. apply (H2 T cs col); auto. left; reflexivity.
Qed.

Lemma column_state_not_temp_no_add cl t c :
  ~ adds_col cl t c -> column_state cl t c <> SpanTemporary.
Proof.
  intros H. unfold column_state.
  destruct (column_state_no_add (all_changes cl) t c SpanUnknown) as [E|E]; auto.
  - intros T col HT Hn Hc E. apply H. left. exists T, col. auto.
  - intros T cs col HT Hn Hc E. apply H. right. exists T, cs, col. auto.
  - rewrite E; discriminate.
  - rewrite E; discriminate.
Qed.
