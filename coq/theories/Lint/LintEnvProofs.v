(** Proofs about M-LINT-ENV: an explicit flag beats the project file, and which files `--latest N` analyses. *)
From Coq Require Import List NArith Bool Arith Lia.
From Atlas Require Import Base.Bytes Lint.LintModel Lint.LintGenModel Lint.LintEnvModel.
Import ListNotations.

Lemma eff_latest_flag fl cfg n : fl_latest fl = Some n -> eff_latest fl cfg = n.
Proof. intros H. unfold eff_latest, maySetFlag. rewrite H. reflexivity. Qed.

Lemma eff_latest_config fl cfg : fl_latest fl = None -> eff_latest fl cfg = ec_latest cfg.
Proof. intros H. unfold eff_latest, maySetFlag. rewrite H. reflexivity. Qed.

Lemma eff_git_flag fl cfg b : fl_git_base fl = Some b -> eff_git_base fl cfg = b.
Proof. intros H. unfold eff_git_base, maySetFlag. rewrite H. reflexivity. Qed.

Lemma eff_git_config fl cfg : fl_git_base fl = None -> eff_git_base fl cfg = ec_git_base cfg.
Proof.
  intros H. unfold eff_git_base, maySetFlag. rewrite H.
  destruct (ec_git_base cfg); reflexivity.
Qed.

(** the project file's `latest` has no influence once --latest is given *)
Lemma window_flag_wins dir fl cfg cfg' n :
  fl_latest fl = Some n ->
  ec_git_base cfg = ec_git_base cfg' -> ec_children cfg = ec_children cfg' ->
  lint_env dir fl cfg = lint_env dir fl cfg' /\
  (n <> 0%N -> eff_git_base fl cfg = [] ->
   lint_env dir fl cfg = EnvLint (apply_error (New_error (ec_children cfg)) (lint dir (N.to_nat n)))).
Proof.
  intros Hf Hg Hc. split.
  - unfold lint_env. rewrite !(eff_latest_flag _ _ n Hf). unfold eff_git_base. rewrite Hg, Hc. reflexivity.
  - intros Hn Hb. unfold lint_env. rewrite (eff_latest_flag _ _ n Hf), Hb.
    apply N.eqb_neq in Hn. rewrite Hn. reflexivity.
Qed.

Lemma window_config_used dir fl cfg :
  fl_latest fl = None -> fl_git_base fl = None -> ec_git_base cfg = [] -> ec_latest cfg <> 0%N ->
  lint_env dir fl cfg = EnvLint (apply_error (New_error (ec_children cfg)) (lint dir (N.to_nat (ec_latest cfg)))).
Proof.
  intros Hf Hg Hb Hn. unfold lint_env. rewrite (eff_latest_config _ _ Hf), (eff_git_config _ _ Hg), Hb.
  apply N.eqb_neq in Hn. rewrite Hn. reflexivity.
Qed.

(** ** which files are analysed *)
Lemma load_loop_ids files : forall b cur l, load_loop b cur files = inr l -> map fst l = map f_id files.
Proof.
  induction files as [|f files IH]; intros b cur l H; simpl in H.
  - inversion H. reflexivity.
  - destruct (f_ckpt f).
    + destruct (load_loop false cur files) as [e|l'] eqn:E; [discriminate|].
      inversion H; subst. simpl. f_equal. eapply IH; eassumption.
    + destruct (if b then first cur (f_stmts f) else nextStmts cur (f_stmts f)) as [p|[cs next]]; [discriminate|].
      destruct (load_loop false next files) as [e|l'] eqn:E; [discriminate|].
      inversion H; subst. simpl. f_equal. eapply IH; eassumption.
Qed.

Lemma load_ckpts_ids clean files : forall acc l,
  map fst acc = map f_id files -> load_ckpts clean files acc = inr l -> map fst l = map f_id files.
Proof.
  induction files as [|f files IH]; intros acc l Hm H.
  - destruct acc; [|discriminate]. simpl in H. inversion H. reflexivity.
  - destruct acc as [|[id cs] acc']; [discriminate|]. simpl in Hm. inversion Hm as [[Hid Hrest]].
    simpl in H. destruct (f_ckpt f).
    + destruct (nextStmts clean (f_stmts f)) as [p|[cs' r]]; [discriminate|].
      destruct (load_ckpts clean files acc') as [e|l'] eqn:E; [discriminate|].
      inversion H; subst. simpl. f_equal. eapply IH; eassumption.
    + destruct (load_ckpts clean files acc') as [e|l'] eqn:E; [discriminate|].
      inversion H; subst. simpl. f_equal. eapply IH; eassumption.
Qed.

Lemma LoadChanges_ids base files l : LoadChanges base files = Loaded l -> map fst l = map f_id files.
Proof.
  unfold LoadChanges. destruct (base_exec [] (from_last_ckpt base)) as [[f p]|cur]; [discriminate|].
  destruct (load_loop _ cur files) as [[f p]|l1] eqn:E1; [discriminate|].
  destruct (load_ckpts [] files l1) as [[f p]|l2] eqn:E2; [discriminate|].
  intros H. inversion H; subst. eapply load_ckpts_ids; [|eassumption]. eapply load_loop_ids; eassumption.
Qed.

Lemma DetectChanges_window files n :
  DetectChanges files n = (firstn (length files - n) files, skipn (length files - n) files).
Proof.
  unfold DetectChanges. destruct (Nat.leb (length files) n) eqn:E; [|reflexivity].
  apply Nat.leb_le in E. replace (length files - n) with 0 by lia. reflexivity.
Qed.

(** `--latest n`: the analysed files are exactly the last n of the directory, in order *)
Lemma lint_window dir n files failed :
  lint dir n = LintReport files failed ->
  map fst files = map f_id (skipn (length dir - n) dir).
Proof.
  unfold lint. rewrite DetectChanges_window.
  destruct (LoadChanges _ _) as [f p|l] eqn:E; [discriminate|].
  intros H. inversion H; subst. rewrite map_map. simpl.
  apply LoadChanges_ids in E. exact E.
Qed.

Lemma lint_window_in dir n files failed f :
  lint dir n = LintReport files failed ->
  (In (f_id f) (map fst files) <-> In (f_id f) (map f_id (skipn (length dir - n) dir))).
Proof. intros H. rewrite (lint_window _ _ _ _ H). tauto. Qed.
