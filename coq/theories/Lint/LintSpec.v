(** Declarative vocabulary for the C18 theorems (no proofs): what "exists", "a statement
    removes a name", and the span state of a name mean, independently of the Go-shaped
    functions of LintModel.v. *)
From Coq Require Import List NArith Bool Arith.
From Atlas Require Import Base.Bytes Lint.LintModel.
Import ListNotations.

(** ** Presence of names in a catalogue *)
Definition has_table (r : realm) (t : name) : Prop := find_table r t <> None.
Definition has_col (r : realm) (t c : name) : Prop :=
  exists T, find_table r t = Some T /\ find_col (t_cols T) c <> None.
(** a non-virtual column *)
Definition has_real_col (r : realm) (t c : name) : Prop :=
  exists T col, find_table r t = Some T /\ find_col (t_cols T) c = Some col /\ c_virtual col = false.

Definition wf_realm (r : realm) : Prop := NoDup (map t_name r).

(** ** Span state of a name, as a fold over all changes of the analysed list *)
Definition all_changes (cl : list schange) : list change := flat_map sc_changes cl.

Definition tstep (n : name) (s : span) (c : change) : span :=
  match c with
  | AddTableC T => if name_eqb (t_name T) n then SpanAdded else s
  | DropTableC T => if name_eqb (t_name T) n then or_dropped s else s
  | _ => s
  end.
Definition table_state (cl : list schange) (n : name) : span :=
  fold_left (tstep n) (all_changes cl) SpanUnknown.

Definition cstep_t (c : name) (s : span) (tc : tchange) : span :=
  match tc with
  | AddColumnC c1 => if name_eqb (c_name c1) c then SpanAdded else s
  | DropColumnC c1 => if name_eqb (c_name c1) c then or_dropped s else s
  | _ => s
  end.
Definition cstep (t c : name) (s : span) (ch : change) : span :=
  match ch with
  | AddTableC T =>
      if name_eqb (t_name T) t
      then (if existsb (fun col => name_eqb (c_name col) c) (t_cols T) then SpanAdded else s)
      else s
  | ModifyTableC T cs => if name_eqb (t_name T) t then fold_left (cstep_t c) cs s else s
  | _ => s
  end.
Definition column_state (cl : list schange) (t c : name) : span :=
  fold_left (cstep t c) (all_changes cl) SpanUnknown.

(** The change list adds table name [n] / column [t].[c] somewhere. *)
Definition adds_table (cl : list schange) (n : name) : Prop :=
  exists T, In (AddTableC T) (all_changes cl) /\ t_name T = n.
Definition adds_col (cl : list schange) (t c : name) : Prop :=
  (exists T col, In (AddTableC T) (all_changes cl) /\ t_name T = t /\ In col (t_cols T) /\ c_name col = c)
  \/ (exists T cs col, In (ModifyTableC T cs) (all_changes cl) /\ t_name T = t /\ In (AddColumnC col) cs /\ c_name col = c).

(** ** Runs of a file, statement by statement *)
(** [run r0 stmts rs]: the statements execute from [r0]; [rs] lists the catalogue after each one. *)
Fixpoint run (r : realm) (stmts : list pstmt) (rs : list realm) : Prop :=
  match stmts, rs with
  | [], [] => True
  | (p, s) :: stmts', r' :: rs' => exec r s = Some r' /\ run r' stmts' rs'
  | _, _ => False
  end.

(** Statement [j] (0-based) of a run: position, catalogue before and after. *)
Definition step_at (r0 : realm) (stmts : list pstmt) (rs : list realm) (j : nat) (p : N) (before after : realm) : Prop :=
  exists s, nth_error stmts j = Some (p, s) /\ nth_error (r0 :: rs) j = Some before /\ nth_error rs j = Some after.

Definition removes_table (before after : realm) (t : name) : Prop :=
  has_table before t /\ ~ has_table after t.
(** column [t].[c] disappears: with its table, or from the surviving table *)
Definition removes_col (before after : realm) (t c : name) : Prop :=
  has_col before t c /\ ~ has_col after t c.

Definition final (r0 : realm) (rs : list realm) : realm := last rs r0.

Definition diag_names (d : diag) : list name := d_names d.
Definition is_ds (c : code) (d : diag) : Prop := d_code d = c.
