(** Proofs about M-LINT, part 4: the statement that drops a pre-existing table / column is reported
    even when the name is created again later in the file -- unless it is dropped a second time. *)
From Coq Require Import List NArith Bool Arith Lia.
From Atlas Require Import Base.Bytes Lint.LintModel Lint.LintSpec Lint.LintProofs Lint.LintFileProofs Lint.LintSoundProofs.
Import ListNotations.

Lemma all_changes_cons sc cl : all_changes (sc :: cl) = sc_changes sc ++ all_changes cl.
Proof. reflexivity. Qed.

(** ** Tables *)
Lemma tstep_no_drop chs n : forall s,
  (forall T, In (DropTableC T) chs -> t_name T <> n) ->
  s <> SpanTemporary -> fold_left (tstep n) chs s <> SpanTemporary.
Proof.
  induction chs as [|c chs IH]; intros s H Hs; simpl; [assumption|].
  apply IH; [intros T HT; apply H; right; assumption|].
  destruct c as [T|T|T cs|f u]; simpl; try assumption.
  - destruct (name_eqb (t_name T) n); [discriminate|assumption].
  - destruct (name_eqb (t_name T) n) eqn:E; [|assumption].
    apply name_eqb_eq in E. exfalso. apply (H T); [left; reflexivity|assumption].
Qed.

Definition single_table_removal (r : realm) (stmts : list pstmt) (rs : list realm) (n : name) : Prop :=
  forall j1 j2 p1 p2 b1 a1 b2 a2,
    step_at r stmts rs j1 p1 b1 a1 -> removes_table b1 a1 n ->
    step_at r stmts rs j2 p2 b2 a2 -> removes_table b2 a2 n -> j1 = j2.

Lemma table_state_single_drop stmts : forall r rs n,
  run r stmts rs -> has_table r n -> single_table_removal r stmts rs n ->
  fold_left (tstep n) (all_changes (changes_of r stmts rs)) SpanUnknown <> SpanTemporary.
Proof.
  induction stmts as [|[p s] stmts IH]; intros r rs n H Hn U; destruct rs as [|r1 rs]; simpl in H; try contradiction.
  - simpl. discriminate.
  - destruct H as [E H]. cbn [changes_of]. rewrite all_changes_cons. simpl sc_changes. rewrite fold_left_app.
    assert (NoAdd : forall T, In (AddTableC T) (realmDiff r r1) -> t_name T <> n).
    { intros T HT En. apply in_realmDiff_add in HT as [_ HT]. rewrite En in HT. apply Hn. assumption. }
    destruct (has_table_dec r1 n) as [H1|H1].
    + rewrite (fold_tstep_untouched (realmDiff r r1) n SpanUnknown); [|assumption|].
      * apply IH; [assumption|assumption|].
        intros j1 j2 p1 p2 b1 a1 b2 a2 S1 R1 S2 R2.
        assert (X : S j1 = S j2).
        { apply (U (S j1) (S j2) p1 p2 b1 a1 b2 a2); auto using step_at_S. }
        inversion X; reflexivity.
      * intros T HT En. apply in_realmDiff_drop in HT as [_ HT]. rewrite En in HT. apply H1. assumption.
    + apply tstep_no_drop.
      * intros T HT En. apply in_all_changes in HT as [sc [Hsc Hc]].
        destruct (in_changes_step stmts r1 rs sc H Hsc) as [j' [b' [a' [St' Ech]]]].
        rewrite Ech in Hc. apply in_realmDiff_drop in Hc as [I1 I2].
        assert (R' : removes_table b' a' n).
        { split; [rewrite <- En; apply find_table_in; assumption|]. intros X. apply X. rewrite <- En. assumption. }
        assert (X : S j' = 0).
        { apply (U (S j') 0 (sc_pos sc) p b' a' r r1); auto using step_at_S, step_at_0. split; assumption. }
        discriminate.
      * destruct (table_state_no_add (realmDiff r r1) n SpanUnknown NoAdd (or_introl eq_refl)) as [X|X];
          rewrite X; discriminate.
Qed.

Lemma complete_tables_dropped r0 stmts rs n j p b a :
  run r0 stmts rs ->
  let cl := changes_of r0 stmts rs in
  rewriteTemp cl = cl ->
  has_table r0 n ->
  step_at r0 stmts rs j p b a -> removes_table b a n ->
  single_table_removal r0 stmts rs n ->
  In (mkDiag DS102 p [n]) (analyze_file cl).
Proof.
  intros H cl Hid H0 St [Pb Pa] U.
  unfold analyze_file. rewrite Hid. apply Analyze_DS102.
  unfold has_table in Pb. destruct (find_table b n) as [T|] eqn:F; [|contradiction Pb; reflexivity].
  apply find_table_some in F as [F1 F2].
  exists (mkSC p (realmDiff b a)), T. split; [apply (step_at_in_changes stmts r0 rs j); assumption|].
  split; [reflexivity|]. split.
  - simpl. apply in_realmDiff_drop. split; [assumption|]. rewrite F2.
    unfold has_table in Pa. destruct (find_table a n); [exfalso; apply Pa; discriminate|reflexivity].
  - split; [rewrite F2; reflexivity|]. rewrite F2. unfold table_state.
    apply table_state_single_drop; assumption.
Qed.

(** ** Columns *)
Lemma cstep_t_no_drop cs c : forall s,
  (forall d, In (DropColumnC d) cs -> c_name d <> c) ->
  s <> SpanTemporary -> fold_left (cstep_t c) cs s <> SpanTemporary.
Proof.
  induction cs as [|x cs IH]; intros s H Hs; simpl; [assumption|].
  apply IH; [intros d Hd; apply H; right; assumption|].
  destruct x as [c1|c1|? ?|?|?|? ?]; simpl; try assumption.
  - destruct (name_eqb (c_name c1) c); [discriminate|assumption].
  - destruct (name_eqb (c_name c1) c) eqn:E; [|assumption].
    apply name_eqb_eq in E. exfalso. apply (H c1); [left; reflexivity|assumption].
Qed.

Lemma cstep_no_drop chs t c : forall s,
  (forall T cs d, In (ModifyTableC T cs) chs -> t_name T = t -> In (DropColumnC d) cs -> c_name d <> c) ->
  s <> SpanTemporary -> fold_left (cstep t c) chs s <> SpanTemporary.
Proof.
  induction chs as [|x chs IH]; intros s H Hs; simpl; [assumption|].
  apply IH; [intros T cs d HT; apply (H T cs d); right; assumption|].
  destruct x as [T|T|T cs|f u]; simpl; try assumption.
  - destruct (name_eqb (t_name T) t); [|assumption].
    destruct (existsb _ (t_cols T)); [discriminate|assumption].
  - destruct (name_eqb (t_name T) t) eqn:E; [|assumption]. apply name_eqb_eq in E.
    apply cstep_t_no_drop; [|assumption]. intros d Hd. apply (H T cs d); auto. left; reflexivity.
Qed.

Lemma cstep_t_untouched cs c : forall s,
  (forall d, In (AddColumnC d) cs -> c_name d <> c) ->
  (forall d, In (DropColumnC d) cs -> c_name d <> c) ->
  fold_left (cstep_t c) cs s = s.
Proof.
  induction cs as [|x cs IH]; intros s H1 H2; [reflexivity|]. simpl.
  rewrite IH; [|intros d Hd; apply H1; right; assumption|intros d Hd; apply H2; right; assumption].
  destruct x as [c1|c1|? ?|?|?|? ?]; simpl; try reflexivity.
  - destruct (name_eqb (c_name c1) c) eqn:E; [|reflexivity]. apply name_eqb_eq in E.
    exfalso. apply (H1 c1); [left; reflexivity|assumption].
  - destruct (name_eqb (c_name c1) c) eqn:E; [|reflexivity]. apply name_eqb_eq in E.
    exfalso. apply (H2 c1); [left; reflexivity|assumption].
Qed.

Lemma cstep_untouched chs t c : forall s,
  (forall T col, In (AddTableC T) chs -> t_name T = t -> In col (t_cols T) -> c_name col <> c) ->
  (forall T cs d, In (ModifyTableC T cs) chs -> t_name T = t -> In (AddColumnC d) cs -> c_name d <> c) ->
  (forall T cs d, In (ModifyTableC T cs) chs -> t_name T = t -> In (DropColumnC d) cs -> c_name d <> c) ->
  fold_left (cstep t c) chs s = s.
Proof.
  induction chs as [|x chs IH]; intros s H1 H2 H3; [reflexivity|]. simpl.
  rewrite IH.
  - destruct x as [T|T|T cs|f u]; simpl; try reflexivity.
    + destruct (name_eqb (t_name T) t) eqn:E; [|reflexivity]. apply name_eqb_eq in E.
      destruct (existsb (fun col => name_eqb (c_name col) c) (t_cols T)) eqn:X; [|reflexivity].
      apply existsb_exists in X as [col [Hc Hn]]. apply name_eqb_eq in Hn.
      exfalso. apply (H1 T col); auto. left; reflexivity.
    + destruct (name_eqb (t_name T) t) eqn:E; [|reflexivity]. apply name_eqb_eq in E.
      apply cstep_t_untouched.
      * intros d Hd. apply (H2 T cs d); auto. left; reflexivity.
      * intros d Hd. apply (H3 T cs d); auto. left; reflexivity.
  - intros T col HT. apply H1. right; assumption.
  - intros T cs d HT. apply (H2 T cs d). right; assumption.
  - intros T cs d HT. apply (H3 T cs d). right; assumption.
Qed.

(** what the diff of one statement can say about column t.c *)
Lemma diff_no_addtable_col r r1 t c T col :
  has_col r t c -> In (AddTableC T) (realmDiff r r1) -> t_name T = t -> In col (t_cols T) -> c_name col <> c.
Proof.
  intros [T0 [F0 _]] HT En _ _. apply in_realmDiff_add in HT as [_ HT]. rewrite En in HT. congruence.
Qed.

Lemma diff_no_addcol r r1 t c T cs d :
  wf_realm r -> has_col r t c ->
  In (ModifyTableC T cs) (realmDiff r r1) -> t_name T = t -> In (AddColumnC d) cs -> c_name d <> c.
Proof.
  intros W [T0 [F0 G0]] HT En Hd Ec.
  apply in_realmDiff_mod in HT as [T1 [I1 [F1 [Ecs _]]]]. rewrite Ecs in Hd.
  apply in_tableDiff_addcol in Hd as [_ Hd]. pose proof (find_table_some _ _ _ F1) as [_ N1].
  pose proof (find_table_nodup r T1 W I1) as X. rewrite <- N1, En in X. rewrite X in F0. inversion F0; subst T0.
  apply G0. rewrite <- Ec. assumption.
Qed.

Lemma diff_dropcol_removes r r1 t c T cs d :
  wf_realm r ->
  In (ModifyTableC T cs) (realmDiff r r1) -> t_name T = t -> In (DropColumnC d) cs -> c_name d = c ->
  removes_col r r1 t c.
Proof.
  intros W HT En Hd Ec.
  apply in_realmDiff_mod in HT as [T1 [I1 [F1 [Ecs _]]]]. rewrite Ecs in Hd.
  apply in_tableDiff_dropcol in Hd as [D1 D2]. pose proof (find_table_some _ _ _ F1) as [_ N1].
  split.
  - exists T1. split; [rewrite <- En, N1; apply find_table_nodup; assumption|].
    intros X. apply (find_col_none _ _ X d D1). assumption.
  - intros [T2 [G1 G2]]. rewrite <- En, N1 in G1. rewrite F1 in G1. inversion G1; subst T2.
    apply G2. rewrite <- Ec. assumption.
Qed.

Definition single_col_removal (r : realm) (stmts : list pstmt) (rs : list realm) (t c : name) : Prop :=
  forall j1 j2 p1 p2 b1 a1 b2 a2,
    step_at r stmts rs j1 p1 b1 a1 -> removes_col b1 a1 t c ->
    step_at r stmts rs j2 p2 b2 a2 -> removes_col b2 a2 t c -> j1 = j2.

Lemma column_state_single_drop stmts : forall r rs t c,
  wf_realm r -> run r stmts rs -> has_col r t c -> single_col_removal r stmts rs t c ->
  fold_left (cstep t c) (all_changes (changes_of r stmts rs)) SpanUnknown <> SpanTemporary.
Proof.
  induction stmts as [|[p s] stmts IH]; intros r rs t c W H Hc U; destruct rs as [|r1 rs]; simpl in H; try contradiction.
  - simpl. discriminate.
  - destruct H as [E H]. pose proof (exec_wf _ _ _ W E) as W1.
    cbn [changes_of]. rewrite all_changes_cons. simpl sc_changes. rewrite fold_left_app.
    destruct (has_col_dec r1 t c) as [H1|H1].
    + rewrite (cstep_untouched (realmDiff r r1) t c SpanUnknown).
      * apply IH; try assumption.
        intros j1 j2 p1 p2 b1 a1 b2 a2 S1 R1 S2 R2.
        assert (X : S j1 = S j2).
        { apply (U (S j1) (S j2) p1 p2 b1 a1 b2 a2); auto using step_at_S. }
        inversion X; reflexivity.
      * intros T col HT En Hcol. apply (diff_no_addtable_col r r1 t c T col); assumption.
      * intros T cs d HT En Hd. apply (diff_no_addcol r r1 t c T cs d); assumption.
      * intros T cs d HT En Hd Ec.
        destruct (diff_dropcol_removes r r1 t c T cs d W HT En Hd Ec) as [_ X]. apply X. assumption.
    + apply cstep_no_drop.
      * intros T cs d HT En Hd Ec. apply in_all_changes in HT as [sc [Hsc Hch]].
        destruct (in_changes_step stmts r1 rs sc H Hsc) as [j' [b' [a' [St' Ech]]]].
        rewrite Ech in Hch.
        destruct (run_wf stmts r1 rs W1 H j' _ b' a' St') as [Wb' _].
        pose proof (diff_dropcol_removes b' a' t c T cs d Wb' Hch En Hd Ec) as R'.
        assert (X : S j' = 0).
        { apply (U (S j') 0 (sc_pos sc) p b' a' r r1); auto using step_at_S, step_at_0. split; assumption. }
        discriminate.
      * destruct (column_state_no_add (realmDiff r r1) t c SpanUnknown) as [X|X]; try (rewrite X; discriminate).
        -- intros T col HT En Hcol. apply (diff_no_addtable_col r r1 t c T col); assumption.
        -- intros T cs d HT En Hd. apply (diff_no_addcol r r1 t c T cs d); assumption.
        -- left; reflexivity.
Qed.

Lemma complete_columns_dropped r0 stmts rs t c j p b a T d :
  wf_realm r0 -> run r0 stmts rs ->
  let cl := changes_of r0 stmts rs in
  rewriteTemp cl = cl ->
  has_col r0 t c ->
  step_at r0 stmts rs j p b a ->
  find_table b t = Some T -> find_col (t_cols T) c = Some d -> has_table a t -> ~ has_col a t c ->
  single_col_removal r0 stmts rs t c ->
  c_virtual d = false ->
  exists ns, In (mkDiag DS103 p ns) (analyze_file cl) /\ In c ns.
Proof.
  intros W H cl Hid H0 St F1 Fd Ta Pa U V.
  unfold analyze_file. rewrite Hid.
  unfold has_table in Ta. destruct (find_table a t) as [T2|] eqn:F3; [|contradiction Ta; reflexivity].
  assert (Fc : find_col (t_cols T2) c = None).
  { destruct (find_col (t_cols T2) c) eqn:X; [|reflexivity]. exfalso. apply Pa. exists T2. split; [exact F3|]. rewrite X; discriminate. }
  apply find_table_some in F1 as [I1 N1]. apply find_col_some in Fd as [Id Nd].
  pose proof (find_table_some _ _ _ F3) as [I2 N2].
  apply Analyze_DS103.
  exists (mkSC p (realmDiff b a)), T2, (tableDiff T (T2)), d.
  assert (Hdrop : In (DropColumnC d) (tableDiff T T2)).
  { apply in_tableDiff_dropcol. split; [assumption|]. rewrite Nd. assumption. }
  split; [apply (step_at_in_changes stmts r0 rs j); assumption|].
  split; [reflexivity|]. split.
  { simpl. apply in_realmDiff_mod. exists T. rewrite N1. repeat split; auto.
    intros E. rewrite E in Hdrop. contradiction. }
  split; [assumption|]. split; [assumption|]. split; [assumption|].
  rewrite N2, Nd. unfold column_state. apply column_state_single_drop; assumption.
Qed.
