(** Proofs about M-LINT-GEN: spans of arbitrary multi-schema change lists are the end states of the
    add/drop histories of the names; exact characterisation, completeness and soundness of destructive.Analyze. *)
From Coq Require Import List NArith Bool Arith Lia.
From Atlas Require Import Base.Bytes Lint.LintModel Lint.LintSpec Lint.LintProofs Lint.LintGenModel Lint.LintGenSpec.
Import ListNotations.

(** ** Histories and their end states *)
Lemma state_of_snoc h b : state_of (h ++ [b]) = hstep (state_of h) b.
Proof. unfold state_of. rewrite fold_left_app. reflexivity. Qed.

Lemma fold_drops h : forall s, forallb negb h = true -> h <> [] ->
  (s = SpanAdded \/ s = SpanTemporary) -> fold_left hstep h s = SpanTemporary.
Proof.
  induction h as [|b h IH]; intros s Hall Hne Hs; [congruence|].
  simpl in Hall. apply andb_true_iff in Hall as [Hb Hall]. destruct b; [discriminate|]. simpl.
  destruct h as [|b' h'].
  - simpl. destruct Hs; subst; reflexivity.
  - apply IH; [assumption|discriminate|]. destruct Hs; subst; simpl; auto.
Qed.

Lemma temp_history_state h : temp_history h -> state_of h = SpanTemporary.
Proof.
  intros [h1 [h2 [E [Hne Hall]]]]. subst. unfold state_of. rewrite fold_left_app. simpl.
  apply fold_drops; auto.
Qed.

(** the full classification of a history by its end state *)
Lemma state_of_spec h :
  match state_of h with
  | SpanUnknown => h = []
  | SpanDropped => dropped_history h
  | SpanAdded => exists h1, h = h1 ++ [true]
  | SpanTemporary => temp_history h
  end.
Proof.
  induction h as [|b h IH] using rev_ind; [reflexivity|].
  rewrite state_of_snoc. destruct b; simpl.
  - exists h. reflexivity.
  - destruct (state_of h); simpl.
    + subst. split; [discriminate|reflexivity].
    + destruct IH as [h1 E]. subst. exists h1, [false]. rewrite <- app_assoc. simpl.
      split; [reflexivity|]. split; [discriminate|reflexivity].
    + destruct IH as [Hne Hall]. split; [destruct h; discriminate|].
      rewrite forallb_app. rewrite Hall. reflexivity.
    + destruct IH as [h1 [h2 [E [Hne Hall]]]]. subst. exists h1, (h2 ++ [false]).
      rewrite <- app_assoc. simpl. split; [reflexivity|]. split; [destruct h2; discriminate|].
      rewrite forallb_app. rewrite Hall. reflexivity.
Qed.

Lemma state_temp_iff h : state_of h = SpanTemporary <-> temp_history h.
Proof.
  split; [|apply temp_history_state].
  intros E. pose proof (state_of_spec h) as S. rewrite E in S. exact S.
Qed.

Lemma state_dropped_history h : state_of h = SpanDropped -> dropped_history h.
Proof. intros E. pose proof (state_of_spec h) as S. rewrite E in S. exact S. Qed.

Lemma temp_history_has_add h : temp_history h -> In true h.
Proof. intros [h1 [h2 [E _]]]. subst. apply in_or_app. right. left. reflexivity. Qed.

Lemma dropped_history_has_drop h : dropped_history h -> In false h.
Proof.
  intros [Hne Hall]. destruct h as [|b h]; [congruence|]. simpl in Hall.
  apply andb_true_iff in Hall as [Hb _]. destruct b; [discriminate|]. left; reflexivity.
Qed.

(** ** loadSpans_g computes the end states of the histories *)
Lemma loadSpans_g_unfold cl : loadSpans_g cl = fold_left span_gchange (all_gchanges cl) empty_gspans.
Proof. unfold loadSpans_g, all_gchanges. symmetry. apply fold_left_flat_map. Qed.

Lemma on_tab_state sp T f n : ss_state (on_tab sp T f n) = ss_state (sp n).
Proof.
  unfold on_tab. destruct (gt_schema T) as [s|]; [|reflexivity].
  destruct (name_eqb s n) eqn:E.
  - apply name_eqb_eq in E; subst. rewrite upd_same. reflexivity.
  - apply name_eqb_neq in E. rewrite upd_other by assumption. reflexivity.
Qed.

Lemma on_tab_tabs sp T f s t :
  ss_tabs (on_tab sp T f s) t = if tab_is T s t then f (ss_tabs (sp s) t) else ss_tabs (sp s) t.
Proof.
  unfold on_tab, tab_is. destruct (gt_schema T) as [s'|]; [|reflexivity].
  destruct (name_eqb s' s) eqn:E; simpl.
  - apply name_eqb_eq in E; subst. rewrite upd_same. simpl.
    destruct (name_eqb (gt_name T) t) eqn:E2.
    + apply name_eqb_eq in E2; subst. rewrite upd_same. reflexivity.
    + apply name_eqb_neq in E2. rewrite upd_other by assumption. reflexivity.
  - apply name_eqb_neq in E. rewrite upd_other by assumption. reflexivity.
Qed.

Lemma gchange_sstate sp c n :
  ss_state (span_gchange sp c n) = fold_left hstep (sev n c) (ss_state (sp n)).
Proof.
  destruct c as [sc|sc|T|T|T cs|a b|k]; simpl; try (rewrite on_tab_state); try reflexivity.
  3: { destruct (gt_schema a); [rewrite on_tab_state|]; reflexivity. }
  - destruct (name_eqb (gs_name sc) n) eqn:E.
    + apply name_eqb_eq in E; subst. rewrite upd_same. reflexivity.
    + apply name_eqb_neq in E. rewrite upd_other by assumption. reflexivity.
  - destruct (name_eqb (gs_name sc) n) eqn:E.
    + apply name_eqb_eq in E; subst. rewrite upd_same. reflexivity.
    + apply name_eqb_neq in E. rewrite upd_other by assumption. reflexivity.
Qed.

Lemma schema_change_tabs sp n st s :
  ss_tabs (upd sp n (mkSS st (ss_tabs (sp n))) s) = ss_tabs (sp s).
Proof.
  destruct (name_eqb n s) eqn:E.
  - apply name_eqb_eq in E; subst. rewrite upd_same. reflexivity.
  - apply name_eqb_neq in E. rewrite upd_other by assumption. reflexivity.
Qed.

Lemma gchange_tstate sp c s t :
  is_rename c = false \/ (exists T cs, c = GModifyTable T cs) ->
  ts_state (ss_tabs (span_gchange sp c s) t) = fold_left hstep (tev s t c) (ts_state (ss_tabs (sp s) t)).
Proof.
  intros NR. destruct c as [sc|sc|T|T|T cs|a b|k]; simpl; try reflexivity.
  6: { destruct NR as [NR|[T [cs NR]]]; discriminate. }
  - rewrite schema_change_tabs. reflexivity.
  - rewrite schema_change_tabs. reflexivity.
  - rewrite on_tab_tabs. destruct (tab_is T s t); reflexivity.
  - rewrite on_tab_tabs. destruct (tab_is T s t); reflexivity.
  - rewrite on_tab_tabs. destruct (tab_is T s t); reflexivity.
Qed.

Lemma fold_gaddcols cols : forall (m : name -> span) c,
  fold_left (fun m col => upd m (gc_name col) SpanAdded) cols m c =
  if existsb (fun col => name_eqb (gc_name col) c) cols then SpanAdded else m c.
Proof.
  induction cols as [|x cols IH]; intros m c; simpl; [reflexivity|].
  rewrite IH. destruct (existsb _ cols); [rewrite orb_true_r; reflexivity|].
  rewrite orb_false_r. unfold upd. destruct (name_eqb (gc_name x) c); reflexivity.
Qed.

Lemma gtchange_col m tc c : is_rename_t tc = false -> span_gtchange m tc c = fold_left hstep (cev_t c tc) (m c).
Proof.
  intros NR. destruct tc as [c1|c1|a b|k n]; simpl; try reflexivity; try discriminate.
  - unfold upd. destruct (name_eqb (gc_name c1) c); reflexivity.
  - unfold upd. destruct (name_eqb (gc_name c1) c) eqn:E; [|reflexivity].
    apply name_eqb_eq in E; subst. reflexivity.
Qed.

Lemma fold_gtchange cs : forall m c, existsb is_rename_t cs = false ->
  fold_left span_gtchange cs m c = fold_left hstep (flat_map (cev_t c) cs) (m c).
Proof.
  induction cs as [|x cs IH]; intros m c NR; simpl; [reflexivity|].
  simpl in NR. apply orb_false_iff in NR as [N1 N2].
  rewrite IH by assumption. rewrite fold_left_app. rewrite gtchange_col by assumption. reflexivity.
Qed.

Lemma gchange_cstate sp ch s t c :
  is_rename ch = false ->
  ts_cols (ss_tabs (span_gchange sp ch s) t) c =
  fold_left hstep (cev s t c ch) (ts_cols (ss_tabs (sp s) t) c).
Proof.
  intros NR. destruct ch as [sc|sc|T|T|T cs|a b|k]; simpl; try reflexivity; try discriminate.
  - rewrite schema_change_tabs. reflexivity.
  - rewrite schema_change_tabs. reflexivity.
  - rewrite on_tab_tabs. destruct (tab_is T s t); simpl; [|reflexivity].
    rewrite fold_gaddcols. destruct (existsb _ (gt_cols T)); reflexivity.
  - rewrite on_tab_tabs. destruct (tab_is T s t); reflexivity.
  - rewrite on_tab_tabs. destruct (tab_is T s t); simpl; [|reflexivity].
    apply fold_gtchange. exact NR.
Qed.

Lemma fold_sstate chs : forall sp n,
  ss_state (fold_left span_gchange chs sp n) = fold_left hstep (flat_map (sev n) chs) (ss_state (sp n)).
Proof.
  induction chs as [|c chs IH]; intros sp n; simpl; [reflexivity|].
  rewrite IH, fold_left_app, gchange_sstate. reflexivity.
Qed.
Lemma fold_tstate chs : forall sp s t,
  forallb (fun c => negb (is_rename c)) chs = true ->
  ts_state (ss_tabs (fold_left span_gchange chs sp s) t) =
  fold_left hstep (flat_map (tev s t) chs) (ts_state (ss_tabs (sp s) t)).
Proof.
  induction chs as [|c chs IH]; intros sp s t NR; simpl; [reflexivity|].
  simpl in NR. apply andb_true_iff in NR as [N1 N2]. apply negb_true_iff in N1.
  rewrite IH by assumption. rewrite fold_left_app, gchange_tstate by (left; assumption). reflexivity.
Qed.
Lemma fold_cstate chs : forall sp s t c,
  forallb (fun c => negb (is_rename c)) chs = true ->
  ts_cols (ss_tabs (fold_left span_gchange chs sp s) t) c =
  fold_left hstep (flat_map (cev s t c) chs) (ts_cols (ss_tabs (sp s) t) c).
Proof.
  induction chs as [|x chs IH]; intros sp s t c NR; simpl; [reflexivity|].
  simpl in NR. apply andb_true_iff in NR as [N1 N2]. apply negb_true_iff in N1.
  rewrite IH by assumption. rewrite fold_left_app, gchange_cstate by assumption. reflexivity.
Qed.

Lemma SchemaSpan_hist cl s : SchemaSpan_g (loadSpans_g cl) s = state_of (schema_hist cl s).
Proof. unfold SchemaSpan_g. rewrite loadSpans_g_unfold, fold_sstate. reflexivity. Qed.
Lemma TableSpan_hist cl s t : rename_free cl -> TableSpan_g (loadSpans_g cl) s t = state_of (table_hist cl s t).
Proof. intros NR. unfold TableSpan_g. rewrite loadSpans_g_unfold, fold_tstate by exact NR. reflexivity. Qed.
Lemma ColumnSpan_hist cl s t c : rename_free cl -> ColumnSpan_g (loadSpans_g cl) s t c = state_of (column_hist cl s t c).
Proof. intros NR. unfold ColumnSpan_g. rewrite loadSpans_g_unfold, fold_cstate by exact NR. reflexivity. Qed.

Lemma spans_are_histories cl s t c :
  SchemaSpan_g (loadSpans_g cl) s = state_of (schema_hist cl s) /\
  (rename_free cl ->
   TableSpan_g (loadSpans_g cl) s t = state_of (table_hist cl s t) /\
   ColumnSpan_g (loadSpans_g cl) s t c = state_of (column_hist cl s t c)).
Proof. split; [apply SchemaSpan_hist|]. intros NR. split; [apply TableSpan_hist|apply ColumnSpan_hist]; exact NR. Qed.

(** ** The diagnostics, exactly *)
Lemma gdropped_reported cl s T cs : rename_free cl ->
  gdropped_names (loadSpans_g cl) s T cs = reported_cols cl s T cs.
Proof.
  intros NR. unfold gdropped_names, reported_cols. apply flat_map_ext. intros c.
  destruct c; try reflexivity. rewrite ColumnSpan_hist by exact NR. reflexivity.
Qed.

Lemma in_reported_cols cl s T cs n :
  In n (reported_cols cl s T cs) <->
  exists d, In (GDropColumn d) cs /\ gc_name d = n /\ is_virtual d = false /\
            ~ temp_history (column_hist cl s (gt_name T) (gc_name d)).
Proof.
  unfold reported_cols. rewrite in_flat_map. split.
  - intros [tc [Hin Hn]]. destruct tc as [c1|d|a b|k m]; simpl in Hn; try contradiction.
    destruct (span_eqb _ SpanTemporary) eqn:E; [contradiction|].
    destruct (is_virtual d) eqn:V; [contradiction|]. destruct Hn as [Hn|[]].
    exists d. apply span_eqb_neq in E. rewrite state_temp_iff in E. auto.
  - intros [d [Hin [Hn [V E]]]]. exists (GDropColumn d). split; [assumption|]. simpl.
    rewrite <- state_temp_iff in E. apply span_eqb_neq in E. rewrite E, V. left; assumption.
Qed.

Definition gdiags (cl : list gschange) : list gdiag :=
  flat_map (fun sc => flat_map (analyze_gchange (loadSpans_g cl) (gsc_pos sc)) (gsc_changes sc)) cl.

Lemma Analyze_g_done error cl ds rep err :
  Analyze_g error cl = GDone ds rep err ->
  ds = gdiags cl /\ rep = nonempty ds /\ err = (nonempty ds && error)%bool.
Proof.
  unfold Analyze_g. destruct (existsb queries (all_gchanges cl) && existsb nil_schema (all_gchanges cl))%bool;
    [discriminate|].
  intros H. inversion H; subst. auto.
Qed.

Lemma gdiags_in cl d :
  In d (gdiags cl) <->
  exists sc c, In sc cl /\ In c (gsc_changes sc) /\ In d (analyze_gchange (loadSpans_g cl) (gsc_pos sc) c).
Proof.
  unfold gdiags. rewrite in_flat_map. split.
  - intros [sc [H1 H2]]. apply in_flat_map in H2 as [c [H2 H3]]. eauto.
  - intros [sc [c [H1 [H2 H3]]]]. exists sc. split; [assumption|]. apply in_flat_map. eauto.
Qed.

(** one change, in terms of histories *)
Definition diag_of (cl : list gschange) (pos : N) (c : gchange) (d : gdiag) : Prop :=
  match c with
  | GDropSchema S0 =>
      d = mkGD GDS101 pos [gs_name S0] (gs_ntables S0) /\ ~ temp_history (schema_hist cl (gs_name S0))
  | GDropTable T =>
      exists s, gt_schema T = Some s /\ d = mkGD GDS102 pos [gt_name T] 0%N /\
                ~ dropped_history (schema_hist cl s) /\ ~ temp_history (table_hist cl s (gt_name T))
  | GModifyTable T cs =>
      exists s, gt_schema T = Some s /\ d = mkGD GDS103 pos (reported_cols cl s T cs) 0%N /\
                reported_cols cl s T cs <> []
  | _ => False
  end.

Lemma dropped_state_iff h : state_of h = SpanDropped <-> dropped_history h.
Proof.
  split; [apply state_dropped_history|].
  intros [Hne Hall]. pose proof (state_of_spec h) as S. destruct (state_of h) eqn:E; try reflexivity.
  - congruence.
  - destruct S as [h1 E1]. subst. rewrite forallb_app in Hall. simpl in Hall.
    rewrite andb_false_r in Hall. discriminate.
  - apply temp_history_has_add in S. rewrite forallb_forall in Hall. apply Hall in S. discriminate.
Qed.

Lemma analyze_gchange_spec cl pos c d : rename_free cl ->
  In d (analyze_gchange (loadSpans_g cl) pos c) <-> diag_of cl pos c d.
Proof.
  intros NR. destruct c as [sc|sc|T|T|T cs|a b|k]; simpl; try tauto.
  - rewrite SchemaSpan_hist. destruct (span_eqb _ SpanTemporary) eqn:E.
    + apply span_eqb_eq in E. rewrite state_temp_iff in E. simpl. tauto.
    + apply span_eqb_neq in E. rewrite state_temp_iff in E. simpl. split.
      * intros [H|[]]. auto.
      * intros [H _]. auto.
  - destruct (gt_schema T) as [s|]; [|simpl; split; [tauto|intros [s [H _]]; discriminate]].
    rewrite SchemaSpan_hist, TableSpan_hist by exact NR.
    destruct (span_eqb (state_of (schema_hist cl s)) SpanDropped) eqn:E1; simpl.
    + apply span_eqb_eq in E1. rewrite dropped_state_iff in E1. split; [tauto|].
      intros [s' [Hs [_ [H _]]]]. inversion Hs; subst. contradiction.
    + apply span_eqb_neq in E1. rewrite dropped_state_iff in E1.
      destruct (span_eqb (state_of (table_hist cl s (gt_name T))) SpanTemporary) eqn:E2; simpl.
      * apply span_eqb_eq in E2. rewrite state_temp_iff in E2. split; [tauto|].
        intros [s' [Hs [_ [_ H]]]]. inversion Hs; subst. contradiction.
      * apply span_eqb_neq in E2. rewrite state_temp_iff in E2. split.
        -- intros [H|[]]. exists s. auto.
        -- intros [s' [Hs [H _]]]. auto.
  - destruct (gt_schema T) as [s|]; [|simpl; split; [tauto|intros [s [H _]]; discriminate]].
    rewrite gdropped_reported by exact NR. destruct (reported_cols cl s T cs) eqn:E.
    + simpl. split; [tauto|]. intros [s' [Hs [_ Hne]]]. inversion Hs; subst s'. rewrite E in Hne. congruence.
    + split.
      * intros [H|[]]. exists s. rewrite E. split; [reflexivity|]. split; [auto|discriminate].
      * intros [s' [Hs [Hd _]]]. inversion Hs; subst s'. rewrite E in Hd. left. auto.
Qed.

(** exact characterisation of the report of Analyze on ANY change list *)
Lemma Analyze_g_exact error cl ds rep err :
  rename_free cl ->
  Analyze_g error cl = GDone ds rep err ->
  forall d, In d ds <-> exists sc c, In sc cl /\ In c (gsc_changes sc) /\ diag_of cl (gsc_pos sc) c d.
Proof.
  intros NR H d. apply Analyze_g_done in H as [E _]. subst. rewrite gdiags_in.
  split; intros [sc [c [H1 [H2 H3]]]]; exists sc, c; (split; [assumption|]); (split; [assumption|]);
    apply (analyze_gchange_spec _ _ _ _ NR); assumption.
Qed.

Lemma Analyze_g_exit error cl ds rep err :
  Analyze_g error cl = GDone ds rep err ->
  (rep = true <-> ds <> []) /\ (err = true <-> ds <> [] /\ error = true).
Proof.
  intros H. apply Analyze_g_done in H as [_ [R E]]. subst rep err.
  destruct ds as [|d ds]; simpl.
  - split; split; intro H; try discriminate; [congruence | destruct H; congruence].
  - split; split; intro H; [discriminate | reflexivity | split; [discriminate|assumption] | apply H].
Qed.

Lemma hist_drop_schema cl s :
  In false (schema_hist cl s) ->
  exists sc S0, In sc cl /\ In (GDropSchema S0) (gsc_changes sc) /\ gs_name S0 = s.
Proof.
  unfold schema_hist, all_gchanges. intros H. apply in_flat_map in H as [c [Hc Hs]].
  apply in_flat_map in Hc as [sc [H1 H2]].
  destruct c as [S0|S0|T|T|T cs|a b|k]; simpl in Hs; try contradiction.
  - destruct (name_eqb (gs_name S0) s); simpl in Hs; [destruct Hs as [Hs|[]]; discriminate|contradiction].
  - destruct (name_eqb (gs_name S0) s) eqn:E; simpl in Hs; [|contradiction].
    apply name_eqb_eq in E. exists sc, S0. auto.
Qed.

(** ** Completeness on arbitrary change lists *)
Lemma complete_generic error cl ds rep err :
  rename_free cl ->
  Analyze_g error cl = GDone ds rep err ->
  (forall sc S0, In sc cl -> In (GDropSchema S0) (gsc_changes sc) ->
     ~ temp_history (schema_hist cl (gs_name S0)) ->
     In (mkGD GDS101 (gsc_pos sc) [gs_name S0] (gs_ntables S0)) ds) /\
  (forall sc T s, In sc cl -> In (GDropTable T) (gsc_changes sc) -> gt_schema T = Some s ->
     ~ temp_history (table_hist cl s (gt_name T)) ->
     In (mkGD GDS102 (gsc_pos sc) [gt_name T] 0%N) ds \/
     exists sc' S0, In sc' cl /\ In (GDropSchema S0) (gsc_changes sc') /\ gs_name S0 = s /\
                   In (mkGD GDS101 (gsc_pos sc') [s] (gs_ntables S0)) ds) /\
  (forall sc T s cs d, In sc cl -> In (GModifyTable T cs) (gsc_changes sc) -> gt_schema T = Some s ->
     In (GDropColumn d) cs -> is_virtual d = false ->
     ~ temp_history (column_hist cl s (gt_name T) (gc_name d)) ->
     exists ns, In (mkGD GDS103 (gsc_pos sc) ns 0%N) ds /\ In (gc_name d) ns) /\
  (ds <> [] -> rep = true /\ err = error).
Proof.
  intros NR H. pose proof (Analyze_g_exact _ _ _ _ _ NR H) as X. split; [|split; [|split]].
  - intros sc S0 H1 H2 H3. apply X. exists sc, (GDropSchema S0). simpl. auto.
  - intros sc T s H1 H2 H3 H4.
    destruct (span_eqb (state_of (schema_hist cl s)) SpanDropped) eqn:E.
    + right. apply span_eqb_eq in E. pose proof E as E'. apply dropped_state_iff in E.
      apply dropped_history_has_drop in E. apply hist_drop_schema in E as [sc' [S0 [A [B C]]]].
      exists sc', S0. split; [assumption|]. split; [assumption|]. split; [assumption|].
      apply X. exists sc', (GDropSchema S0). split; [assumption|]. split; [assumption|]. simpl. subst s.
      split; [reflexivity|]. rewrite <- state_temp_iff. rewrite E'. discriminate.
    + left. apply span_eqb_neq in E. rewrite dropped_state_iff in E.
      apply X. exists sc, (GDropTable T). split; [assumption|]. split; [assumption|]. simpl.
      exists s. auto.
  - intros sc T s cs d H1 H2 H3 H4 H5 H6.
    assert (Hin : In (gc_name d) (reported_cols cl s T cs)).
    { apply in_reported_cols. exists d. auto. }
    exists (reported_cols cl s T cs). split; [|assumption].
    apply X. exists sc, (GModifyTable T cs). split; [assumption|]. split; [assumption|]. simpl.
    exists s. split; [assumption|]. split; [reflexivity|]. intros E. rewrite E in Hin. contradiction.
  - intros Hne. apply Analyze_g_done in H as [_ [R E]]. subst rep err.
    destruct ds; [congruence|]. simpl. auto.
Qed.

(** ** Soundness on arbitrary change lists *)
Definition sound_diag (cl : list gschange) (sc : gschange) (d : gdiag) : Prop :=
  match gd_code d with
  | GDS101 => exists S0, In (GDropSchema S0) (gsc_changes sc) /\ gd_names d = [gs_name S0] /\
                        gd_ntables d = gs_ntables S0 /\ ~ temp_history (schema_hist cl (gs_name S0))
  | GDS102 => exists T s, In (GDropTable T) (gsc_changes sc) /\ gt_schema T = Some s /\
                          gd_names d = [gt_name T] /\ ~ temp_history (table_hist cl s (gt_name T))
  | GDS103 => exists T s cs, In (GModifyTable T cs) (gsc_changes sc) /\ gt_schema T = Some s /\
                gd_names d <> [] /\
                forall n, In n (gd_names d) ->
                  exists c, In (GDropColumn c) cs /\ gc_name c = n /\ is_virtual c = false /\
                            ~ temp_history (column_hist cl s (gt_name T) n)
  end.

Lemma sound_generic error cl ds rep err :
  rename_free cl ->
  Analyze_g error cl = GDone ds rep err ->
  forall d, In d ds -> exists sc, In sc cl /\ gd_pos d = gsc_pos sc /\ sound_diag cl sc d.
Proof.
  intros NR H d Hd. apply (Analyze_g_exact _ _ _ _ _ NR H) in Hd as [sc [c [H1 [H2 H3]]]].
  exists sc. split; [assumption|].
  destruct c as [S0|S0|T|T|T cs|a b|k]; simpl in H3; try contradiction.
  - destruct H3 as [E Hn]. subst d. split; [reflexivity|]. unfold sound_diag; simpl. exists S0. auto.
  - destruct H3 as [s [Hs [E [_ Hn]]]]. subst d. split; [reflexivity|]. unfold sound_diag; simpl.
    exists T, s. auto.
  - destruct H3 as [s [Hs [E Hne]]]. subst d. split; [reflexivity|]. unfold sound_diag; simpl.
    exists T, s, cs. split; [assumption|]. split; [assumption|]. split; [assumption|].
    intros n Hn. apply in_reported_cols in Hn as [c [A [B [C D]]]]. exists c. subst n. auto.
Qed.

Lemma sound_generic_additive error cl :
  forallb (fun c => negb (is_drop c)) (all_gchanges cl) = true ->
  Analyze_g error cl = GDone [] false false.
Proof.
  intros Hno. unfold Analyze_g.
  assert (Q : existsb queries (all_gchanges cl) = false).
  { apply not_true_is_false. intros E. apply existsb_exists in E as [c [Hc Hq]].
    rewrite forallb_forall in Hno. apply Hno in Hc. change (is_drop c) with (queries c) in Hc.
    rewrite Hq in Hc. discriminate. }
  rewrite Q. simpl.
  assert (E : flat_map (fun sc => flat_map (analyze_gchange (loadSpans_g cl) (gsc_pos sc)) (gsc_changes sc)) cl = []).
  { destruct (flat_map _ cl) as [|d l] eqn:F; [reflexivity|].
    assert (Hd : In d (gdiags cl)) by (unfold gdiags; rewrite F; left; reflexivity).
    apply gdiags_in in Hd as [sc [c [H1 [H2 H3]]]].
    assert (Hc : In c (all_gchanges cl)) by (unfold all_gchanges; apply in_flat_map; eauto).
    rewrite forallb_forall in Hno. apply Hno in Hc.
    destruct c as [S0|S0|T|T|T cs|a b|k]; simpl in H3, Hc; try contradiction; try discriminate.
    destruct (gt_schema T); [|contradiction].
    destruct (gdropped_names (loadSpans_g cl) n T cs) eqn:G; [contradiction|].
    assert (Hn : In n0 (gdropped_names (loadSpans_g cl) n T cs)) by (rewrite G; left; reflexivity).
    unfold gdropped_names in Hn. apply in_flat_map in Hn as [tc [Ht Hx]].
    apply negb_true_iff in Hc. exfalso.
    assert (existsb is_dropcol cs = true).
    { apply existsb_exists. exists tc. split; [assumption|]. destruct tc; simpl in Hx; try contradiction. reflexivity. }
    congruence. }
  rewrite E. reflexivity.
Qed.

Lemma Analyze_g_panic error cl :
  Analyze_g error cl = GPanic <->
  (exists c, In c (all_gchanges cl) /\ queries c = true) /\
  (exists c, In c (all_gchanges cl) /\ nil_schema c = true).
Proof.
  unfold Analyze_g. split.
  - destruct (existsb queries (all_gchanges cl)) eqn:Q; simpl; [|discriminate].
    destruct (existsb nil_schema (all_gchanges cl)) eqn:N; [|discriminate].
    intros _. apply existsb_exists in Q. apply existsb_exists in N. auto.
  - intros [Q N]. apply existsb_exists in Q. apply existsb_exists in N. rewrite Q, N. reflexivity.
Qed.

Lemma New_error_default children :
  (forall b, In b children -> fst b <> s_destructive) -> New_error children = true.
Proof.
  intros H. unfold New_error.
  destruct (find (fun b => name_eqb (fst b) s_destructive) children) eqn:F; [|reflexivity].
  apply find_some in F as [Hin E]. apply name_eqb_eq in E. exfalso. apply (H p); assumption.
Qed.

Lemma New_error_first ty attrs rest :
  ty = s_destructive ->
  New_error ((ty, attrs) :: rest) =
  match find (fun a => name_eqb (fst a) s_error) attrs with None => true | Some a => snd a end.
Proof. intros E. subst. unfold New_error. simpl. reflexivity. Qed.

(** ** fix C18-loadspans-rename: what a rename does to the spans (one loadSpans step) *)
Lemma rename_table_carries_span sp F T sf st :
  gt_schema F = Some sf -> gt_schema T = Some st ->
  let sp' := span_gchange sp (GRenameTable F T) in
  TableSpan_g sp' st (gt_name T) = TableSpan_g sp sf (gt_name F) /\
  (forall c, ColumnSpan_g sp' st (gt_name T) c = ColumnSpan_g sp sf (gt_name F) c) /\
  (forall s t, tab_is T s t = false -> ss_tabs (sp' s) t = ss_tabs (sp s) t) /\
  (forall s, SchemaSpan_g sp' s = SchemaSpan_g sp s).
Proof.
  intros HF HT. simpl. rewrite HF. unfold TableSpan_g, ColumnSpan_g, SchemaSpan_g.
  assert (X : tab_is T st (gt_name T) = true) by (unfold tab_is; rewrite HT, !name_eqb_refl; reflexivity).
  split; [rewrite on_tab_tabs, X; reflexivity|]. split; [intros c; rewrite on_tab_tabs, X; reflexivity|].
  split; [intros s t N; rewrite on_tab_tabs, N; reflexivity|intros s; apply on_tab_state].
Qed.

Lemma rename_column_carries_span cols a b c :
  let cols' := span_gtchange cols (GRenameColumn a b) in
  (gc_name a <> gc_name b -> cols' (gc_name b) = cols (gc_name a)) /\
  cols' (gc_name a) = SpanUnknown /\
  (c <> gc_name a -> c <> gc_name b -> cols' c = cols c).
Proof.
  simpl. split; [|split].
  - intros N. rewrite upd_other by assumption. apply upd_same.
  - apply upd_same.
  - intros N1 N2. rewrite upd_other by (intros E; apply N1; symmetry; assumption).
    apply upd_other. intros E; apply N2; symmetry; assumption.
Qed.
