(** Witnesses for the engine-free stage: the two defects of the span bookkeeping that show on arbitrary change lists. *)
From Coq Require Import List NArith Bool Arith.
From Atlas Require Import Base.Bytes Lint.LintModel Lint.LintGenModel Lint.LintGenSpec Lint.LintEnvModel.
Import ListNotations.

Definition g_s1 : name := [115; 49]%N.     (* "s1" *)
Definition g_t : name := [116]%N.          (* "t" *)
Definition g_u : name := [117]%N.          (* "u" *)
Definition g_a := mkGCol [97]%N None.      (* a *)
Definition g_b := mkGCol [98]%N None.      (* b *)
Definition g_S := mkGSch g_s1 0.
Definition g_T := mkGTab (Some g_s1) g_t [g_a].
Definition g_U := mkGTab (Some g_s1) g_u [g_a].

(** DROP SCHEMA s1; CREATE SCHEMA s1; DROP SCHEMA s1  (s1 existed before the file: its first event is a Drop) *)
Definition w_readd_schema : list gschange :=
  [mkGSC 0 [GDropSchema g_S]; mkGSC 8 [GAddSchema g_S]; mkGSC 18 [GDropSchema g_S]].

Lemma readded_schema_silent :
  schema_hist w_readd_schema g_s1 = [false; true; false] /\
  Analyze_g true w_readd_schema = GDone [] false false.
Proof. vm_compute. split; reflexivity. Qed.

(** CREATE TABLE s1.t (a); RENAME s1.t TO s1.u; DROP TABLE s1.u  -- nothing that existed before is touched *)
Definition w_renamed : list gschange :=
  [mkGSC 0 [GAddTable g_T]; mkGSC 8 [GRenameTable g_T g_U]; mkGSC 18 [GDropTable g_U]].
(** ALTER t ADD a; ALTER t RENAME a TO b; ALTER t DROP b *)
Definition w_renamed_col : list gschange :=
  [mkGSC 0 [GModifyTable g_T [GAddColumn g_a]]; mkGSC 8 [GModifyTable g_T [GRenameColumn g_a g_b]];
   mkGSC 18 [GModifyTable g_T [GDropColumn g_b]]].

(** after fix C18-loadspans-rename both are clean; before it they were reported (DS102 "u" / DS103 "b") *)
Lemma renamed_clean :
  Analyze_g true w_renamed = GDone [] false false /\
  Analyze_g true w_renamed_col = GDone [] false false.
Proof. vm_compute. split; reflexivity. Qed.

(** ... while a table / column that existed BEFORE the file, renamed and dropped under its new name, stays reported *)
Definition w_renamed_pre : list gschange :=
  [mkGSC 0 [GRenameTable g_T g_U]; mkGSC 8 [GModifyTable g_U [GRenameColumn g_a g_b]];
   mkGSC 18 [GModifyTable g_U [GDropColumn g_b]]; mkGSC 30 [GDropTable g_U]].
Lemma renamed_pre_reported :
  Analyze_g true w_renamed_pre = GDone [mkGD GDS103 18 [[98]%N] 0; mkGD GDS102 30 [g_u] 0] true true.
Proof. vm_compute. reflexivity. Qed.

(** non-vacuity material *)
Definition w_multi : list gschange :=
  [mkGSC 0 [GDropTable g_T; GDropTable (mkGTab (Some [115; 50]%N) g_t [])];
   mkGSC 8 [GModifyTable g_U [GDropColumn g_a; GOtherT 1 [97]%N; GDropColumn (mkGCol [103]%N (Some [118; 105; 114; 116; 117; 97; 108]%N)); GDropColumn g_b]];
   mkGSC 18 [GDropSchema (mkGSch [115; 51]%N 2)]].

Lemma multi_result :
  Analyze_g false w_multi =
  GDone [mkGD GDS102 0 [g_t] 0; mkGD GDS102 0 [g_t] 0; mkGD GDS103 8 [[97]%N; [98]%N] 0; mkGD GDS101 18 [[115; 51]%N] 2]
        true false.
Proof. vm_compute. reflexivity. Qed.

(** DROP TABLE s1.t; DROP TABLE s1.u; DROP SCHEMA s1: the tables are covered by the schema's DS101 *)
Definition w_drop_schema : list gschange :=
  [mkGSC 0 [GDropTable g_T]; mkGSC 8 [GDropTable g_U]; mkGSC 18 [GDropSchema g_S]].
Lemma drop_schema_result :
  Analyze_g true w_drop_schema = GDone [mkGD GDS101 18 [g_s1] 0] true true.
Proof. vm_compute. reflexivity. Qed.

(** temporary table in a temporary schema: nothing *)
Definition w_temp : list gschange :=
  [mkGSC 0 [GAddSchema g_S]; mkGSC 8 [GAddTable g_T]; mkGSC 18 [GModifyTable g_T [GDropColumn g_a]];
   mkGSC 30 [GDropTable g_T]; mkGSC 44 [GDropSchema g_S]].
Lemma temp_result : Analyze_g true w_temp = GDone [] false false.
Proof. vm_compute. reflexivity. Qed.

Definition w_nil : list gschange := [mkGSC 0 [GAddTable (mkGTab None g_t [])]].
Lemma nil_results :
  Analyze_g true w_nil = GDone [] false false /\
  Analyze_g true (w_nil ++ [mkGSC 8 [GDropSchema g_S]]) = GPanic.
Proof. vm_compute. split; reflexivity. Qed.
