(** M-LINT -- executable model of `atlas migrate lint` restricted to the
    destructive-change analyzer on SQLite.  No proofs in this file.

    Go code followed, function by function (names kept):
      sql/internal/sqlx/diff.go        RealmDiff / schemaDiff / tableDiff / columnDiff / indexDiffT
      cmd/atlas/internal/migratelint/lint.go
                                       latestChange.DetectChanges, DevLoader.LoadChanges / base /
                                       first / next / nextStmts  (mayFix = identity in the OSS build:
                                       sqliteparse.FixChange is unimplemented)
      cmd/atlas/internal/migratelint/lint_oss.go   Runner.Run / summary / analyze (exit status)
      sql/sqlcheck/sqlcheck.go         File.loadSpans / tableSpan / TableSpan / ColumnSpan
      sql/sqlite/sqlitecheck/sqlitecheck.go  the first AnalyzerFunc of analyzers() (rewrite of the
                                       new_/copy/drop/rename idiom) and modifyUsingTemp/isAddT/isDropT/
                                       isRenameT/isAddTNamed -- the code *after* fix 3711e87 (the new_ table is
                                       renamed only once the pattern is confirmed) and after the two C18 fixes
                                       notes/fixes/C18-rebuild-copy-slot.diff (Changes[i+1] must be empty) and
                                       notes/fixes/C18-rebuild-exact-rename.diff (re-added table compared by name)
      sql/sqlcheck/destructive/destructive.go  Analyzer.Analyze (DS102, DS103; DS101 cannot arise on
                                       SQLite's single schema "main")

    The SQL engine (SQLite) is modelled by [exec] on abstract statements; it is
    validated observationally by the tie, not verified. *)
From Coq Require Import List NArith Bool Arith.
From Atlas Require Import Base.Bytes.
Import ListNotations.

Definition name := bytes.
Definition name_eqb := bytes_eqb.

(** ** Schema (the part of schema.Realm that inspection of SQLite fills and the analyzers read) *)
Record column := mkCol {
  c_name : name;
  c_virtual : bool;   (* schema.GeneratedExpr{Type:"VIRTUAL"} present *)
  c_sig : N           (* everything else ColumnChange compares: type, null, default, STORED expr, pk *)
}.
Record index := mkIdx { i_name : name; i_cols : list name }.
Record table := mkTab { t_name : name; t_cols : list column; t_idxs : list index }.
(** One schema ("main"); tables in sqlite_master order (creation order; a rename keeps the slot). *)
Definition realm := list table.

Definition find_table (r : realm) (n : name) : option table :=
  find (fun t => name_eqb (t_name t) n) r.
Definition find_col (cs : list column) (n : name) : option column :=
  find (fun c => name_eqb (c_name c) n) cs.
Definition find_idx (is_ : list index) (n : name) : option index :=
  find (fun i => name_eqb (i_name i) n) is_.
Definition mem_name (n : name) (l : list name) : bool := existsb (name_eqb n) l.

(** ** Abstract SQLite statements and their schema effect *)
Inductive stmt :=
| CreateTable (t : name) (cols : list column)
| DropTable (t : name)
| AddColumn (t : name) (c : column)
| DropColumn (t c : name)
| RenameTable (t u : name)
| RenameColumn (t c d : name)
| CreateIndex (i t : name) (cols : list name)
| DropIndex (i : name)
| InsertSelect (dst src : name)   (* INSERT INTO dst (id) SELECT id FROM src: no schema effect *)
| Other (ok : bool).        (* PRAGMA/UPDATE/...: no schema effect; ok=false = a failing statement *)

Fixpoint nodup_names (l : list name) : bool :=
  match l with [] => true | x :: r => negb (mem_name x r) && nodup_names r end.

Definition all_idx_names (r : realm) : list name :=
  flat_map (fun t => map i_name (t_idxs t)) r.

Definition replace_table (r : realm) (n : name) (f : table -> table) : realm :=
  map (fun t => if name_eqb (t_name t) n then f t else t) r.
Definition remove_table (r : realm) (n : name) : realm :=
  filter (fun t => negb (name_eqb (t_name t) n)) r.

Definition rename_in (c d : name) (x : name) : name := if name_eqb x c then d else x.

(** [exec r s] = the catalogue after SQLite ran [s], [None] when SQLite rejects it. *)
Definition exec (r : realm) (s : stmt) : option realm :=
  match s with
  | CreateTable t cols =>
      match find_table r t with
      | Some _ => None
      | None =>
          if mem_name t (all_idx_names r) then None
          else if negb (nodup_names (map c_name cols)) then None
          else if negb (existsb (fun c => negb (c_virtual c)) cols) then None
          else Some (r ++ [mkTab t cols []])
      end
  | DropTable t =>
      match find_table r t with
      | None => None
      | Some _ => Some (remove_table r t)
      end
  | AddColumn t c =>
      match find_table r t with
      | None => None
      | Some T =>
          match find_col (t_cols T) (c_name c) with
          | Some _ => None
          | None => Some (replace_table r t (fun T => mkTab (t_name T) (t_cols T ++ [c]) (t_idxs T)))
          end
      end
  | DropColumn t c =>
      match find_table r t with
      | None => None
      | Some T =>
          match find_col (t_cols T) c with
          | None => None
          | Some _ =>
              let rest := filter (fun x => negb (name_eqb (c_name x) c)) (t_cols T) in
              if existsb (fun i => mem_name c (i_cols i)) (t_idxs T) then None
              else if negb (existsb (fun x => negb (c_virtual x)) rest) then None
              else Some (replace_table r t (fun T => mkTab (t_name T) rest (t_idxs T)))
          end
      end
  | RenameTable t u =>
      match find_table r t, find_table r u with
      | Some _, None =>
          if mem_name u (all_idx_names r) then None
          else Some (replace_table r t (fun T => mkTab u (t_cols T) (t_idxs T)))
      | _, _ => None
      end
  | RenameColumn t c d =>
      match find_table r t with
      | None => None
      | Some T =>
          match find_col (t_cols T) c, find_col (t_cols T) d with
          | Some _, None =>
              Some (replace_table r t (fun T =>
                mkTab (t_name T)
                      (map (fun x => mkCol (rename_in c d (c_name x)) (c_virtual x) (c_sig x)) (t_cols T))
                      (map (fun i => mkIdx (i_name i) (map (rename_in c d) (i_cols i))) (t_idxs T))))
          | _, _ => None
          end
      end
  | CreateIndex i t cols =>
      match find_table r t with
      | None => None
      | Some T =>
          if mem_name i (all_idx_names r) then None
          else match find_table r i with
               | Some _ => None
               | None =>
                   if forallb (fun c => match find_col (t_cols T) c with Some _ => true | None => false end) cols
                   then Some (replace_table r t (fun T => mkTab (t_name T) (t_cols T) (t_idxs T ++ [mkIdx i cols])))
                   else None
               end
      end
  | DropIndex i =>
      if mem_name i (all_idx_names r)
      then Some (map (fun T => mkTab (t_name T) (t_cols T)
                                     (filter (fun x => negb (name_eqb (i_name x) i)) (t_idxs T))) r)
      else None
  | InsertSelect dst src =>
      match find_table r dst, find_table r src with
      | Some _, Some _ => Some r
      | _, _ => None
      end
  | Other ok => if ok then Some r else None
  end.

(** ** schema.Change values the SQLite differ can produce (sqlx/diff.go) *)
Inductive tchange :=
| AddColumnC (c : column)
| DropColumnC (c : column)
| ModifyColumnC (from to : column)
| AddIndexC (i : index)
| DropIndexC (i : index)
| ModifyIndexC (from to : index).

Inductive change :=
| AddTableC (t : table)
| DropTableC (t : table)
| ModifyTableC (t : table) (cs : list tchange)
| RenameTableC (from to : table).   (* only a parser's FixChange produces it; never in the OSS build *)

Definition col_eqb (a b : column) : bool :=
  Bool.eqb (c_virtual a) (c_virtual b) && N.eqb (c_sig a) (c_sig b).

Fixpoint names_eqb (a b : list name) : bool :=
  match a, b with
  | [], [] => true
  | x :: a', y :: b' => name_eqb x y && names_eqb a' b'
  | _, _ => false
  end.

(** sqlx/diff.go: Diff.columnDiff -- drop or modify in [from] order, then add in [to] order. *)
Definition columnDiff (from to : table) : list tchange :=
  flat_map (fun c1 =>
      match find_col (t_cols to) (c_name c1) with
      | None => [DropColumnC c1]
      | Some c2 => if col_eqb c1 c2 then [] else [ModifyColumnC c1 c2]
      end) (t_cols from)
  ++ flat_map (fun c1 =>
      match find_col (t_cols from) (c_name c1) with
      | None => [AddColumnC c1]
      | Some _ => []
      end) (t_cols to).

(** sqlx/diff.go: Diff.indexDiffT (explicitly named indexes only). *)
Definition indexDiffT (from to : table) : list tchange :=
  flat_map (fun i1 =>
      match find_idx (t_idxs to) (i_name i1) with
      | None => [DropIndexC i1]
      | Some i2 => if names_eqb (i_cols i1) (i_cols i2) then [] else [ModifyIndexC i1 i2]
      end) (t_idxs from)
  ++ flat_map (fun i1 =>
      match find_idx (t_idxs from) (i_name i1) with
      | None => [AddIndexC i1]
      | Some _ => []
      end) (t_idxs to).

(** sqlx/diff.go: Diff.tableDiff (names are not compared here). *)
Definition tableDiff (from to : table) : list tchange :=
  columnDiff from to ++ indexDiffT from to.

(** sqlx/diff.go: RealmDiff/schemaDiff for the single schema:
    drop or modify tables in [from] order, then add tables in [to] order. *)
Definition realmDiff (from to : realm) : list change :=
  flat_map (fun t1 =>
      match find_table to (t_name t1) with
      | None => [DropTableC t1]
      | Some t2 => match tableDiff t1 t2 with [] => [] | cs => [ModifyTableC t2 cs] end
      end) from
  ++ flat_map (fun t1 =>
      match find_table from (t_name t1) with
      | None => [AddTableC t1]
      | Some _ => []
      end) to.

(** ** sqlcheck.Change: the changes one statement generated, with its position *)
Record schange := mkSC { sc_pos : N; sc_changes : list change }.

(** ** migratelint.DevLoader *)
Definition pstmt := (N * stmt)%type.    (* migrate.Stmt: Pos and (abstract) Text *)

(** lint.go: DevLoader.nextStmts.  [inl pos] = FileError at the statement at [pos]. *)
Fixpoint nextStmts (current : realm) (stmts : list pstmt) : N + (list schange * realm) :=
  match stmts with
  | [] => inr ([], current)
  | (p, s) :: rest =>
      match exec current s with
      | None => inl p
      | Some next =>
          match nextStmts next rest with
          | inl e => inl e
          | inr (cs, final) => inr (mkSC p (realmDiff current next) :: cs, final)
          end
      end
  end.

(** Executing statements without analysis (DevLoader.base, and the long-file path of first). *)
Fixpoint exec_all (current : realm) (stmts : list pstmt) : N + realm :=
  match stmts with
  | [] => inr current
  | (p, s) :: rest =>
      match exec current s with
      | None => inl p
      | Some next => exec_all next rest
      end
  end.

Definition maxStmtLoop : nat := 10.

(** lint.go: DevLoader.first. *)
Definition first (start : realm) (stmts : list pstmt) : N + (list schange * realm) :=
  if Nat.leb (length stmts) maxStmtLoop then nextStmts start stmts
  else match exec_all start stmts with
       | inl e => inl e
       | inr current => inr ([mkSC 0%N (realmDiff start current)], current)
       end.

Record mfile := mkFile { f_id : N; f_ckpt : bool; f_stmts : list pstmt }.

(** migrate.FilesLastIndex + base[i:] in DevLoader.base. *)
Fixpoint from_last_ckpt (base : list mfile) : list mfile :=
  match base with
  | [] => []
  | f :: rest =>
      if existsb f_ckpt rest then from_last_ckpt rest else f :: rest
  end.

Inductive load_result :=
| LoadErr (file : N) (pos : N)
| Loaded (files : list (N * list schange)).

(** lint.go: DevLoader.base. *)
Fixpoint base_exec (current : realm) (base : list mfile) : (N * N) + realm :=
  match base with
  | [] => inr current
  | f :: rest =>
      match exec_all current (f_stmts f) with
      | inl p => inl (f_id f, p)
      | inr next => base_exec next rest
      end
  end.

(** The main loop of LoadChanges over the new files; [i0] = "len(base) == 0 && i == 0" still possible.
    Checkpoint files are skipped here. *)
Fixpoint load_loop (isfirst : bool) (current : realm) (files : list mfile)
  : (N * N) + list (N * list schange) :=
  match files with
  | [] => inr []
  | f :: rest =>
      if f_ckpt f then
        match load_loop false current rest with
        | inl e => inl e
        | inr l => inr ((f_id f, []) :: l)
        end
      else
        match (if isfirst then first current (f_stmts f) else nextStmts current (f_stmts f)) with
        | inl p => inl (f_id f, p)
        | inr (cs, next) =>
            match load_loop false next rest with
            | inl e => inl e
            | inr l => inr ((f_id f, cs) :: l)
            end
        end
  end.

(** The second loop of LoadChanges: each checkpoint file is replayed on the restored (clean) database. *)
Fixpoint load_ckpts (clean : realm) (files : list mfile) (acc : list (N * list schange))
  : (N * N) + list (N * list schange) :=
  match files, acc with
  | f :: rest, (id, cs) :: acc' =>
      if f_ckpt f then
        match nextStmts clean (f_stmts f) with
        | inl p => inl (f_id f, p)
        | inr (cs', _) =>
            match load_ckpts clean rest acc' with
            | inl e => inl e
            | inr l => inr ((id, cs') :: l)
            end
        end
      else
        match load_ckpts clean rest acc' with
        | inl e => inl e
        | inr l => inr ((id, cs) :: l)
        end
  | _, _ => inr acc
  end.

(** lint.go: DevLoader.LoadChanges on a clean dev database (Snapshot succeeded). *)
Definition LoadChanges (base files : list mfile) : load_result :=
  match base_exec [] (from_last_ckpt base) with
  | inl (f, p) => LoadErr f p
  | inr current =>
      match load_loop (match base with [] => true | _ => false end) current files with
      | inl (f, p) => LoadErr f p
      | inr l =>
          match load_ckpts [] files l with
          | inl (f, p) => LoadErr f p
          | inr l' => Loaded l'
          end
      end
  end.

(** lint.go: latestChange.DetectChanges. *)
Definition DetectChanges (files : list mfile) (n : nat) : list mfile * list mfile :=
  if Nat.leb (length files) n then ([], files)
  else (firstn (length files - n) files, skipn (length files - n) files).

(** ** sqlcheck: resource spans *)
Inductive span := SpanUnknown | SpanAdded | SpanDropped | SpanTemporary.

Definition span_eqb (a b : span) : bool :=
  match a, b with
  | SpanUnknown, SpanUnknown | SpanAdded, SpanAdded
  | SpanDropped, SpanDropped | SpanTemporary, SpanTemporary => true
  | _, _ => false
  end.

(** [s |= SpanDropped] *)
Definition or_dropped (s : span) : span :=
  match s with
  | SpanUnknown => SpanDropped
  | SpanAdded => SpanTemporary
  | SpanDropped => SpanDropped
  | SpanTemporary => SpanTemporary
  end.

(** Go maps with lazily created zero entries = total functions with a default. *)
Record tspan := mkTS { ts_state : span; ts_cols : name -> span }.
Definition spans := name -> tspan.
Definition empty_tspan : tspan := mkTS SpanUnknown (fun _ => SpanUnknown).
Definition empty_spans : spans := fun _ => empty_tspan.

Definition upd {A} (m : name -> A) (k : name) (v : A) : name -> A :=
  fun k' => if name_eqb k k' then v else m k'.

(** The inner switch of loadSpans for ModifyTable (index / foreign-key spans are not read by the
    destructive analyzer and are left out). *)
Definition span_tchange (cols : name -> span) (c : tchange) : name -> span :=
  match c with
  | AddColumnC c1 => upd cols (c_name c1) SpanAdded
  | DropColumnC c1 => upd cols (c_name c1) (or_dropped (cols (c_name c1)))
  | _ => cols
  end.

Definition span_change (sp : spans) (c : change) : spans :=
  match c with
  | AddTableC T =>
      let s := sp (t_name T) in
      upd sp (t_name T)
          (mkTS SpanAdded (fold_left (fun m col => upd m (c_name col) SpanAdded) (t_cols T) (ts_cols s)))
  | DropTableC T =>
      let s := sp (t_name T) in
      upd sp (t_name T) (mkTS (or_dropped (ts_state s)) (ts_cols s))
  | ModifyTableC T cs =>
      let s := sp (t_name T) in
      upd sp (t_name T) (mkTS (ts_state s) (fold_left span_tchange cs (ts_cols s)))
  | RenameTableC _ _ => sp
  end.

(** sqlcheck.go: File.loadSpans. *)
Definition loadSpans (cl : list schange) : spans :=
  fold_left (fun sp sc => fold_left span_change (sc_changes sc) sp) cl empty_spans.

Definition TableSpan (sp : spans) (T : table) : span := ts_state (sp (t_name T)).
Definition ColumnSpan (sp : spans) (T : table) (c : column) : span := ts_cols (sp (t_name T)) (c_name c).

(** ** sqlitecheck: the rebuild-idiom pre-pass *)
(** "new_" *)
Definition new_prefix : name := [110; 101; 119; 95]%N.

Fixpoint has_prefix (s p : name) : bool :=
  match p, s with
  | [], _ => true
  | x :: p', y :: s' => N.eqb x y && has_prefix s' p'
  | _ :: _, [] => false
  end.

Definition trim_prefix (s p : name) : name :=
  if has_prefix s p then skipn (length p) s else s.

Definition isAddT (c : change) (prefix : name) : bool :=
  match c with AddTableC T => has_prefix (t_name T) prefix | _ => false end.
Definition isAddTNamed (c : change) (n : name) : bool :=
  match c with AddTableC T => name_eqb (t_name T) n | _ => false end.
Definition isDropT (c : change) (n : name) : bool :=
  match c with DropTableC T => name_eqb (t_name T) n | _ => false end.
Definition isRenameT (c : change) (from to : name) : bool :=
  match c with RenameTableC f t => name_eqb (t_name f) from && name_eqb (t_name t) to | _ => false end.

Definition set_name (T : table) (n : name) : table := mkTab n (t_cols T) (t_idxs T).

(** sqlitecheck.go: modifyUsingTemp (after fix 3711e87: add.T.Name = name only on a match;
    after fix C18-rebuild-exact-rename: isAddTNamed instead of the prefix test isAddT). *)
Definition modifyUsingTemp (c1 c2 c3 : schange) : option (table * table) :=
  match sc_changes c1 with
  | [AddTableC addT] =>
      if negb (has_prefix (t_name addT) new_prefix) then None else
      match sc_changes c2, sc_changes c3 with
      | [c2a], c3a :: c3rest =>
          let prefixed := t_name addT in
          let nm := trim_prefix (t_name addT) new_prefix in
          if negb (isDropT c2a nm) then None else
          match c2a with
          | DropTableC dropT =>
              match c3rest with
              | [] => if isRenameT c3a prefixed nm then Some (dropT, set_name addT nm) else None
              | [c3b] => if isDropT c3a prefixed && isAddTNamed c3b nm then Some (dropT, set_name addT nm) else None
              | _ => None
              end
          | _ => None
          end
      | _, _ => None
      end
  | _ => None
  end.

(** sqlitecheck.go: the AnalyzerFunc at the head of analyzers().  The Go loop `for i …; i += 3`
    is structural recursion on the remaining list; with fewer than four changes left, or when
    Changes[i+1] is not empty (fix C18-rebuild-copy-slot), the change is kept.  Driver.TableDiff cannot fail here (the names were made equal). *)
Fixpoint rewriteTemp (cl : list schange) : list schange :=
  match cl with
  | c0 :: tl =>
      match tl with
      | c1 :: c2 :: c3 :: rest =>
          match sc_changes c1 with
          | _ :: _ => c0 :: rewriteTemp tl     (* the copy slot carries schema changes: no group *)
          | [] =>
              match modifyUsingTemp c0 c2 c3 with
              | Some (prevT, currT) =>
                  mkSC (sc_pos c0) [ModifyTableC currT (tableDiff prevT currT)] :: rewriteTemp rest
              | None => c0 :: rewriteTemp tl
              end
          end
      | _ => cl
      end
  | [] => []
  end.

(** ** destructive.Analyze *)
Inductive code := DS102 | DS103.
Record diag := mkDiag { d_code : code; d_pos : N; d_names : list name }.

Definition dropped_names (sp : spans) (T : table) (cs : list tchange) : list name :=
  flat_map (fun c =>
      match c with
      | DropColumnC d =>
          if span_eqb (ColumnSpan sp T d) SpanTemporary then []
          else if c_virtual d then [] else [c_name d]
      | _ => []
      end) cs.

Definition analyze_change (sp : spans) (pos : N) (c : change) : list diag :=
  match c with
  | DropTableC T =>
      if span_eqb (TableSpan sp T) SpanTemporary then [] else [mkDiag DS102 pos [t_name T]]
  | ModifyTableC T cs =>
      match dropped_names sp T cs with
      | [] => []
      | ns => [mkDiag DS103 pos ns]
      end
  | _ => []
  end.

(** destructive.go: Analyzer.Analyze -- diagnostics, and `error != nil` iff there is one. *)
Definition Analyze (cl : list schange) : list diag :=
  let sp := loadSpans cl in
  flat_map (fun sc => flat_map (analyze_change sp (sc_pos sc)) (sc_changes sc)) cl.

(** lint_oss.go: Runner.analyze for one file: pre-pass, then the destructive analyzer. *)
Definition analyze_file (cl : list schange) : list diag := Analyze (rewriteTemp cl).

(** ** Runner.Run: report and exit status *)
Inductive lint_result :=
| LintLoadError (file pos : N)                                    (* FileError: exit status 1 *)
| LintReport (files : list (N * list diag)) (exit_failed : bool).

Definition has_diag (fr : N * list diag) : bool := match snd fr with [] => false | _ => true end.

Definition lint (dir : list mfile) (latest : nat) : lint_result :=
  let '(base, feat) := DetectChanges dir latest in
  match LoadChanges base feat with
  | LoadErr f p => LintLoadError f p
  | Loaded files =>
      let reports := map (fun fc => (fst fc, analyze_file (snd fc))) files in
      LintReport reports (existsb has_diag reports)
  end.
