(** Proofs about M-LINT, part 7 (round 5): a confirmed rebuild group inside a longer analysed list. *)
From Coq Require Import List NArith Bool Arith Lia.
From Atlas Require Import Base.Bytes Lint.LintModel Lint.LintSpec Lint.LintProofs Lint.LintFileProofs Lint.LintSoundProofs.
Import ListNotations.

(** ** Composition: a confirmed rebuild group inside a longer list *)
Lemma rewriteTemp_cons_none c0 tl :
  (forall T, In (AddTableC T) (sc_changes c0) -> has_prefix (t_name T) new_prefix = false) ->
  rewriteTemp (c0 :: tl) = c0 :: rewriteTemp tl.
Proof.
  intros H. simpl. destruct tl as [|c1 [|c2 [|c3 rest]]]; try reflexivity.
  rewrite (modifyUsingTemp_none c0 c2 c3 H). destruct (sc_changes c1); reflexivity.
Qed.

Lemma rewriteTemp_app_noprefix pre : forall X,
  no_new_prefix pre -> rewriteTemp (pre ++ X) = pre ++ rewriteTemp X.
Proof.
  induction pre as [|c0 pre IH]; intros X H; [reflexivity|].
  simpl app. rewrite rewriteTemp_cons_none.
  - f_equal. apply IH. intros T HT. apply H. unfold all_changes in *. simpl. apply in_or_app. right. assumption.
  - intros T HT. apply H. unfold all_changes. simpl. apply in_or_app. left. assumption.
Qed.

Lemma rebuild_group_in_file pre c0 c1 c2 c3 rest prevT currT :
  no_new_prefix pre ->
  sc_changes c1 = [] ->
  modifyUsingTemp c0 c2 c3 = Some (prevT, currT) ->
  let cl := pre ++ c0 :: c1 :: c2 :: c3 :: rest in
  rewriteTemp cl = pre ++ mkSC (sc_pos c0) [ModifyTableC currT (tableDiff prevT currT)] :: rewriteTemp rest /\
  (forall d, In d (t_cols prevT) -> find_col (t_cols currT) (c_name d) = None -> c_virtual d = false ->
             column_state (rewriteTemp cl) (t_name currT) (c_name d) <> SpanTemporary ->
             exists ns, In (mkDiag DS103 (sc_pos c0) ns) (analyze_file cl) /\ In (c_name d) ns) /\
  (forall p T, (exists sc, In sc pre /\ sc_pos sc = p /\ In (DropTableC T) (sc_changes sc)) ->
             table_state (rewriteTemp cl) (t_name T) <> SpanTemporary ->
             In (mkDiag DS102 p [t_name T]) (analyze_file cl)).
Proof.
  intros Hpre H1 H cl.
  assert (R : rewriteTemp cl = pre ++ mkSC (sc_pos c0) [ModifyTableC currT (tableDiff prevT currT)] :: rewriteTemp rest).
  { unfold cl. rewrite (rewriteTemp_app_noprefix pre _ Hpre).
    rewrite (proj1 (rebuild_group c0 c1 c2 c3 rest prevT currT H1 H)). reflexivity. }
  split; [assumption|]. split.
  - intros d Hd Hf V Hst. unfold analyze_file. apply Analyze_DS103.
    exists (mkSC (sc_pos c0) [ModifyTableC currT (tableDiff prevT currT)]), currT, (tableDiff prevT currT), d.
    split; [rewrite R; apply in_or_app; right; left; reflexivity|]. split; [reflexivity|].
    split; [left; reflexivity|]. split; [apply in_tableDiff_dropcol; auto|]. auto.
  - intros p T [sc [A [B C]]] Hst. unfold analyze_file. apply Analyze_DS102.
    exists sc, T. split; [rewrite R; apply in_or_app; left; assumption|]. auto.
Qed.
