(** Proofs about the `atlas:nolint` part of M-LINT (LintNolintModel.v). *)
From Coq Require Import List NArith Bool Arith Lia.
From Atlas Require Import Base.Bytes Lint.LintModel Lint.LintNolintModel.
Import ListNotations.

(** ** contains / silences *)
Lemma contains_In rules x : contains rules x = true <-> In x rules.
Proof.
  unfold contains. rewrite existsb_exists. split.
  - intros [y [Hy He]]. apply bytes_eqb_eq in He. subst. exact Hy.
  - intros H. exists x. split; [exact H | apply bytes_eqb_refl].
Qed.

Lemma is_bare_iff (l : list bytes) : is_bare l = true <-> l = [[]].
Proof.
  destruct l as [|[|c w] [|y l]]; simpl; split; intros H; try discriminate; try reflexivity.
Qed.

Lemma silences_iff rules c :
  silences rules c = true <->
  rules = [[]] \/ In (code_str c) rules \/ In az_name rules.
Proof.
  unfold silences. rewrite !orb_true_iff, is_bare_iff, !contains_In. tauto.
Qed.

(** ** strings.Split(d, " ") *)
Fixpoint join_sp (ws : list bytes) : bytes :=
  match ws with
  | [] => []
  | [w] => w
  | w :: ws' => w ++ 32%N :: join_sp ws'
  end.

Lemma split_sp_nonempty d : split_sp d <> [].
Proof.
  destruct d as [|c d]; simpl; [discriminate|].
  destruct (is_blank c); [discriminate|]. destruct (split_sp d); discriminate.
Qed.

Lemma split_sp_join d : join_sp (split_sp d) = d.
Proof.
  induction d as [|c d IH]; [reflexivity|]. simpl.
  destruct (is_blank c) eqn:Hb.
  - apply N.eqb_eq in Hb. subst c.
    destruct (split_sp d) as [|w ws] eqn:Hs; [exfalso; eapply split_sp_nonempty; eauto|].
    simpl. f_equal. exact IH.
  - destruct (split_sp d) as [|w ws] eqn:Hs; [exfalso; eapply split_sp_nonempty; eauto|].
    simpl in *. destruct ws; simpl in *; rewrite <- IH; reflexivity.
Qed.

Lemma split_sp_no_blank d w : In w (split_sp d) -> ~ In 32%N w.
Proof.
  revert w. induction d as [|c d IH]; simpl; intros w H.
  - destruct H as [<-|[]]. intros [].
  - destruct (is_blank c) eqn:Hb.
    + destruct H as [<-|H]; [intros []|]. apply IH, H.
    + destruct (split_sp d) as [|w0 ws] eqn:Hs; [exfalso; eapply split_sp_nonempty; eauto|].
      destruct H as [<-|H].
      * intros [Hc|Hin]; [subst c; discriminate|]. eapply IH; [left; reflexivity|exact Hin].
      * apply IH. right. exact H.
Qed.

Lemma split_sp_bare d : split_sp d = [[]] <-> d = [].
Proof.
  split; [|intros ->; reflexivity].
  intros H. rewrite <- (split_sp_join d), H. reflexivity.
Qed.

(** Split of a string without blanks is the string itself: the code / class names are single words. *)
Lemma split_sp_word w : ~ In 32%N w -> split_sp w = [w].
Proof.
  induction w as [|c w IH]; [reflexivity|]. simpl. intros H.
  destruct (is_blank c) eqn:Hb; [apply N.eqb_eq in Hb; subst; exfalso; apply H; left; reflexivity|].
  rewrite IH; [reflexivity|]. intros Hin. apply H. right. exact Hin.
Qed.

(** Split is compositional over a blank, and it inverts the joining of blank-free words by single
    blanks: the names written after `atlas:nolint`, one blank apart, are exactly the rule elements. *)
Lemma split_sp_app a b0 : split_sp (a ++ 32%N :: b0) = split_sp a ++ split_sp b0.
Proof.
  induction a as [|c a IH]; [reflexivity|]. simpl.
  destruct (is_blank c); [rewrite IH; reflexivity|].
  rewrite IH. destruct (split_sp a) as [|w ws] eqn:Hs; [exfalso; eapply split_sp_nonempty; eauto|].
  reflexivity.
Qed.

Lemma split_sp_join_words ws :
  ws <> [] -> (forall w, In w ws -> ~ In 32%N w) -> split_sp (join_sp ws) = ws.
Proof.
  induction ws as [|w ws IH]; [intros H; contradiction|]. intros _ Hw.
  destruct ws as [|w2 ws].
  - simpl. apply split_sp_word. apply Hw. left. reflexivity.
  - change (join_sp (w :: w2 :: ws)) with (w ++ 32%N :: join_sp (w2 :: ws)).
    rewrite split_sp_app, split_sp_word by (apply Hw; left; reflexivity).
    rewrite IH; [reflexivity|discriminate|]. intros x Hx. apply Hw. right. exact Hx.
Qed.

(** What an empty element means.  It stands for a blank at the start or the end of the argument or
    for two blanks in a row; it is never equal to a code or a class name, so it silences nothing by
    itself -- but it is an element: a list that holds it next to anything else is not the bare form. *)
Lemma code_str_nonempty c : code_str c <> [].
Proof. destruct c; discriminate. Qed.

Lemma silences_empty_element rules c :
  rules <> [] ->
  silences ([] :: rules) c = contains rules (code_str c) || contains rules az_name.
Proof.
  intros H. unfold silences. destruct rules as [|r rs]; [contradiction|].
  simpl. destruct c; reflexivity.
Qed.

Lemma silences_empty_element_last rules c :
  rules <> [] ->
  silences (rules ++ [[]]) c = true <-> In (code_str c) rules \/ In az_name rules.
Proof.
  intros H. rewrite silences_iff. split.
  - intros [Hb|[Hc|Ha]].
    + destruct rules as [|r [|r2 rs]]; try contradiction; discriminate.
    + apply in_app_or in Hc. destruct Hc as [Hc|[Hc|[]]]; [left; exact Hc|].
      exfalso. eapply code_str_nonempty. symmetry. exact Hc.
    + apply in_app_or in Ha. destruct Ha as [Ha|[Ha|[]]]; [right; exact Ha|discriminate].
  - intros [Hc|Ha]; [right; left|right; right]; apply in_or_app; left; assumption.
Qed.

(** ** From directives to rules *)
Lemma flat_split_bare ds : flat_map split_sp ds = [[]] <-> ds = [[]].
Proof.
  split; [|intros ->; reflexivity].
  destruct ds as [|d ds]; simpl; [discriminate|]. intros H.
  destruct (split_sp d) as [|w ws] eqn:Hs; [exfalso; eapply split_sp_nonempty; eauto|].
  simpl in H. injection H as Hw Hrest. subst w.
  apply app_eq_nil in Hrest. destruct Hrest as [Hws Hfl]. subst ws.
  apply split_sp_bare in Hs. subst d.
  destruct ds as [|d2 ds]; [reflexivity|]. simpl in Hfl.
  apply app_eq_nil in Hfl. destruct Hfl as [Hs2 _]. exfalso. eapply split_sp_nonempty; eauto.
Qed.

(** The rule list of a statement is built from the directives [ds] that apply to it (file ones, then
    its own).  It silences code c iff [ds] is exactly one directive with an empty argument, or some
    directive has the code of c, or the class name "destructive", as one of its blank-separated words. *)
Lemma silences_directives ds c :
  silences (flat_map split_sp ds) c = true <->
  ds = [[]] \/ exists d, In d ds /\ (In (code_str c) (split_sp d) \/ In az_name (split_sp d)).
Proof.
  rewrite silences_iff, flat_split_bare, !in_flat_map. split.
  - intros [H|[[d [Hd Hw]]|[d [Hd Hw]]]]; [left; exact H| |]; right; exists d; tauto.
  - intros [H|[d [Hd [Hw|Hw]]]]; [left; exact H| |]; [right; left|right; right]; exists d; tauto.
Qed.

(** ** The argument of a directive *)
Lemma take_while_app p (a : bytes) c rest :
  forallb p a = true -> p c = false -> take_while p (a ++ c :: rest) = a.
Proof.
  induction a as [|x a IH]; simpl; intros Ha Hc; [rewrite Hc; reflexivity|].
  apply andb_true_iff in Ha. destruct Ha as [Hx Ha]. rewrite Hx, IH; auto.
Qed.

Lemma drop_while_app p (a : bytes) c rest :
  forallb p a = true -> p c = false -> drop_while p (a ++ c :: rest) = c :: rest.
Proof.
  induction a as [|x a IH]; simpl; intros Ha Hc; [rewrite Hc; reflexivity|].
  apply andb_true_iff in Ha. destruct Ha as [Hx Ha]. rewrite Hx, IH; auto.
Qed.

(** A name followed by anything but a blank (a tab, a newline, …): the argument is empty, whatever
    comes after -- which lint_oss.go reads as the bare directive. *)
Lemma dir_tail_no_blank nm c rest :
  nm <> [] -> forallb wordc nm = true -> wordc c = false -> is_blank c = false ->
  dir_tail (nm ++ c :: rest) = Some (nm, []).
Proof.
  intros Hne Hw Hc Hb. unfold dir_tail.
  rewrite take_while_app, drop_while_app by assumption.
  destruct nm; [contradiction|]. rewrite Hb. reflexivity.
Qed.

(** A name followed by blanks: the argument is the printable run after the blanks. *)
Lemma dir_tail_blank nm rest :
  nm <> [] -> forallb wordc nm = true ->
  dir_tail (nm ++ 32%N :: rest) = Some (nm, take_while printable (drop_while is_blank rest)).
Proof.
  intros Hne Hw. unfold dir_tail.
  rewrite take_while_app, drop_while_app by (assumption || reflexivity).
  destruct nm; [contradiction|]. reflexivity.
Qed.

(** ** The report of a file *)
Lemma analyze_nl_ignored nf cl : file_ignored nf = true -> analyze_nl nf cl = None.
Proof. unfold analyze_nl. intros ->. reflexivity. Qed.

Lemma analyze_nl_exact nf cl kept err :
  analyze_nl nf cl = Some (kept, err) ->
  (forall d, In d kept <->
             In d (analyze_file cl) /\ silences (rules_at nf cl (d_pos d)) (d_code d) = false)
  /\ (err = true <-> kept <> []).
Proof.
  unfold analyze_nl. destruct (file_ignored nf); [discriminate|].
  intros H. injection H as Hk He. subst kept err. split.
  - intros d. unfold reporterFor. rewrite filter_In, negb_true_iff. tauto.
  - destruct (reporterFor nf cl (analyze_file cl)); split; intros H; try discriminate; try reflexivity.
    exfalso. apply H. reflexivity.
Qed.

(** additive files stay clean with any directive *)
Lemma analyze_nl_sound nf cl :
  analyze_file cl = [] -> analyze_nl nf cl = None \/ analyze_nl nf cl = Some ([], false).
Proof.
  unfold analyze_nl. intros H. destruct (file_ignored nf); [left; reflexivity|].
  right. rewrite H. reflexivity.
Qed.

Lemma filter_all_id {A} (p : A -> bool) l : (forall x, In x l -> p x = true) -> filter p l = l.
Proof.
  induction l as [|x l IH]; simpl; intros H; [reflexivity|].
  rewrite (H x (or_introl eq_refl)), IH; [reflexivity|]. intros y Hy. apply H. right. exact Hy.
Qed.

(** directives that name other checks only change nothing *)
Lemma analyze_nl_transparent nf cl :
  file_ignored nf = false ->
  (forall sc, In sc cl -> silences (pos2rules nf (sc_pos sc)) DS102 = false
                          /\ silences (pos2rules nf (sc_pos sc)) DS103 = false) ->
  analyze_nl nf cl = Some (analyze_file cl, match analyze_file cl with [] => false | _ => true end).
Proof.
  intros Hi H. unfold analyze_nl. rewrite Hi.
  assert (Hk : reporterFor nf cl (analyze_file cl) = analyze_file cl).
  { unfold reporterFor. apply filter_all_id. intros d _.
    apply negb_true_iff. unfold rules_at.
    destruct (existsb (fun sc => N.eqb (sc_pos sc) (d_pos d)) cl) eqn:He.
    - apply existsb_exists in He. destruct He as [sc [Hin Hp]]. apply N.eqb_eq in Hp.
      rewrite <- Hp. destruct (H sc Hin) as [H2 H3]. destruct (d_code d); assumption.
    - destruct (d_code d); reflexivity. }
  rewrite Hk. reflexivity.
Qed.

(** no comments at all: the round-1/2 model *)
Lemma analyze_nl_no_comments cl :
  analyze_nl no_comments cl = Some (analyze_file cl, match analyze_file cl with [] => false | _ => true end).
Proof.
  apply analyze_nl_transparent; [reflexivity|]. intros sc _. split; reflexivity.
Qed.
