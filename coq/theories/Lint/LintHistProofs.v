(** Proofs about M-LINT, part 6 (round 5): the span states of the SQLite-derived change lists as end states of
    add/drop histories (vocabulary of LintGenSpec), and the temporary-object half of soundness for tables AND columns. *)
From Coq Require Import List NArith Bool Arith Lia.
From Atlas Require Import Base.Bytes Lint.LintModel Lint.LintSpec Lint.LintProofs Lint.LintFileProofs
  Lint.LintGenModel Lint.LintGenSpec Lint.LintGenProofs.
Import ListNotations.

(** histories of a table name / a column in a single-schema change list *)
Definition otev (n : name) (c : change) : list bool :=
  match c with
  | AddTableC T => if name_eqb (t_name T) n then [true] else []
  | DropTableC T => if name_eqb (t_name T) n then [false] else []
  | _ => []
  end.
Definition ocev_t (c : name) (tc : tchange) : list bool :=
  match tc with
  | AddColumnC c1 => if name_eqb (c_name c1) c then [true] else []
  | DropColumnC c1 => if name_eqb (c_name c1) c then [false] else []
  | _ => []
  end.
Definition ocev (t c : name) (ch : change) : list bool :=
  match ch with
  | AddTableC T =>
      if name_eqb (t_name T) t && existsb (fun col => name_eqb (c_name col) c) (t_cols T) then [true] else []
  | ModifyTableC T cs => if name_eqb (t_name T) t then flat_map (ocev_t c) cs else []
  | _ => []
  end.
Definition tab_hist (cl : list schange) (n : name) : list bool := flat_map (otev n) (all_changes cl).
Definition col_hist (cl : list schange) (t c : name) : list bool := flat_map (ocev t c) (all_changes cl).

Lemma tstep_hist n s c : tstep n s c = fold_left hstep (otev n c) s.
Proof. destruct c as [T|T|T cs|f u]; simpl; try reflexivity; destruct (name_eqb (t_name T) n); reflexivity. Qed.

Lemma fold_tstep_hist n chs : forall s, fold_left (tstep n) chs s = fold_left hstep (flat_map (otev n) chs) s.
Proof.
  induction chs as [|c chs IH]; intros s; simpl; [reflexivity|].
  rewrite fold_left_app, <- tstep_hist. apply IH.
Qed.

Lemma cstep_t_hist c s tc : cstep_t c s tc = fold_left hstep (ocev_t c tc) s.
Proof. destruct tc as [c1|c1|? ?|?|?|? ?]; simpl; try reflexivity; destruct (name_eqb (c_name c1) c); reflexivity. Qed.

Lemma fold_cstep_t_hist c cs : forall s, fold_left (cstep_t c) cs s = fold_left hstep (flat_map (ocev_t c) cs) s.
Proof.
  induction cs as [|x cs IH]; intros s; simpl; [reflexivity|].
  rewrite fold_left_app, <- cstep_t_hist. apply IH.
Qed.

Lemma cstep_hist t c s ch : cstep t c s ch = fold_left hstep (ocev t c ch) s.
Proof.
  destruct ch as [T|T|T cs|f u]; simpl; try reflexivity.
  - destruct (name_eqb (t_name T) t); simpl; [|reflexivity]. destruct (existsb _ (t_cols T)); reflexivity.
  - destruct (name_eqb (t_name T) t); [apply fold_cstep_t_hist|reflexivity].
Qed.

Lemma fold_cstep_hist t c chs : forall s, fold_left (cstep t c) chs s = fold_left hstep (flat_map (ocev t c) chs) s.
Proof.
  induction chs as [|x chs IH]; intros s; simpl; [reflexivity|].
  rewrite fold_left_app, <- cstep_hist. apply IH.
Qed.

Lemma states_are_histories cl :
  (forall n, table_state cl n = state_of (tab_hist cl n)) /\
  (forall t c, column_state cl t c = state_of (col_hist cl t c)).
Proof.
  split; intros; [apply fold_tstep_hist|apply fold_cstep_hist].
Qed.

(** An object whose history in the analysed list says "created here, dropped after its last creation" is never
    named: tables by no DS102, columns by no DS103 of their table -- for ANY analysed list (so also after the pre-pass). *)
Lemma sound_temp_objects cl :
  (forall n, temp_history (tab_hist cl n) -> forall p, ~ In (mkDiag DS102 p [n]) (Analyze cl)) /\
  (forall t c, temp_history (col_hist cl t c) ->
     forall T cs, t_name T = t -> ~ In c (dropped_names (loadSpans cl) T cs)).
Proof.
  destruct (states_are_histories cl) as [HT HC]. split.
  - intros n Ht p Hd. apply Analyze_DS102 in Hd as [sc [T [_ [_ [_ [Hn Hs]]]]]].
    inversion Hn as [Hn']. apply Hs. rewrite <- Hn', HT. apply temp_history_state. assumption.
  - intros t c Hc T cs Et Hin. apply in_dropped_names in Hin as [d [_ [Hn [_ Hs]]]].
    apply Hs. unfold ColumnSpan. rewrite loadSpans_cols, Et, Hn, HC. apply temp_history_state. assumption.
Qed.

(** the converse reading: a reported table / column does not have such a history *)
Lemma reported_not_temp cl p n :
  (exists ns, In (mkDiag DS103 p ns) (Analyze cl) /\ In n ns) ->
  exists T, ~ temp_history (col_hist cl (t_name T) n).
Proof.
  intros H. apply Analyze_DS103 in H as [sc [T [cs [d [_ [_ [_ [_ [Hn [_ Hs]]]]]]]]]].
  exists T. intros Ht. apply Hs. rewrite Hn. rewrite (proj2 (states_are_histories cl)).
  apply temp_history_state. assumption.
Qed.

(** ** Bridge from statements to histories, tables: what one statement contributes *)
Lemma hist_step_true n r r1 :
  In true (flat_map (otev n) (realmDiff r r1)) <-> ~ has_table r n /\ has_table r1 n.
Proof.
  rewrite in_flat_map. split.
  - intros [c [Hc Hn]]. destruct c as [T|T|T cs|f u]; simpl in Hn; try contradiction.
    + destruct (name_eqb (t_name T) n) eqn:E; simpl in Hn; [|contradiction].
      apply name_eqb_eq in E. apply in_realmDiff_add in Hc as [H1 H2]. subst n. split.
      * intros X. apply X. assumption.
      * apply find_table_in. assumption.
    + destruct (name_eqb (t_name T) n); simpl in Hn; [destruct Hn as [Hn|[]]; discriminate|contradiction].
  - intros [H1 H2]. unfold has_table in H1, H2.
    destruct (find_table r1 n) as [T|] eqn:F; [|congruence].
    apply find_table_some in F as [F1 F2]. exists (AddTableC T). split.
    + apply in_realmDiff_add. split; [assumption|]. rewrite F2.
      destruct (find_table r n); [exfalso; apply H1; discriminate|reflexivity].
    + simpl. rewrite F2, name_eqb_refl. left; reflexivity.
Qed.

Lemma hist_step_false n r r1 :
  In false (flat_map (otev n) (realmDiff r r1)) <-> has_table r n /\ ~ has_table r1 n.
Proof.
  rewrite in_flat_map. split.
  - intros [c [Hc Hn]]. destruct c as [T|T|T cs|f u]; simpl in Hn; try contradiction.
    + destruct (name_eqb (t_name T) n); simpl in Hn; [destruct Hn as [Hn|[]]; discriminate|contradiction].
    + destruct (name_eqb (t_name T) n) eqn:E; simpl in Hn; [|contradiction].
      apply name_eqb_eq in E. apply in_realmDiff_drop in Hc as [H1 H2]. subst n. split.
      * apply find_table_in. assumption.
      * intros X. apply X. assumption.
  - intros [H1 H2]. unfold has_table in H1, H2.
    destruct (find_table r n) as [T|] eqn:F; [|congruence].
    apply find_table_some in F as [F1 F2]. exists (DropTableC T). split.
    + apply in_realmDiff_drop. split; [assumption|]. rewrite F2.
      destruct (find_table r1 n); [exfalso; apply H2; discriminate|reflexivity].
    + simpl. rewrite F2, name_eqb_refl. left; reflexivity.
Qed.

Lemma fold_all_false h : forall s, ~ In true h -> In false h -> fold_left hstep h s = or_dropped s.
Proof.
  induction h as [|b h IH]; intros s Ht Hf; [contradiction|].
  destruct b; [exfalso; apply Ht; left; reflexivity|]. simpl.
  destruct h as [|b' h'].
  - reflexivity.
  - rewrite IH.
    + destruct s; reflexivity.
    + intros X. apply Ht. right. assumption.
    + destruct b'; [exfalso; apply Ht; right; left; reflexivity|left; reflexivity].
Qed.

Lemma fold_all_true h : forall s, ~ In false h -> In true h -> fold_left hstep h s = SpanAdded.
Proof.
  induction h as [|b h IH]; intros s Hf Ht; [contradiction|].
  destruct b; [|exfalso; apply Hf; left; reflexivity]. simpl.
  destruct h as [|b' h'].
  - reflexivity.
  - apply IH.
    + intros X. apply Hf. right. assumption.
    + destruct b'; [left; reflexivity|exfalso; apply Hf; right; left; reflexivity].
Qed.

Lemma fold_no_events h : forall s, ~ In true h -> ~ In false h -> fold_left hstep h s = s.
Proof.
  intros s Ht Hf. destruct h as [|b h]; [reflexivity|].
  destruct b; [exfalso; apply Ht; left; reflexivity|exfalso; apply Hf; left; reflexivity].
Qed.

(** the span state after one statement, from the presence of the name before and after it *)
Lemma step_state n r r1 s :
  fold_left hstep (flat_map (otev n) (realmDiff r r1)) s =
  match has_table_dec r n, has_table_dec r1 n with
  | left _, left _ => s
  | left _, right _ => or_dropped s
  | right _, left _ => SpanAdded
  | right _, right _ => s
  end.
Proof.
  pose proof (hist_step_true n r r1) as PT. pose proof (hist_step_false n r r1) as PF.
  destruct (has_table_dec r n) as [A|A], (has_table_dec r1 n) as [B|B].
  - apply fold_no_events; [rewrite PT|rewrite PF]; tauto.
  - apply fold_all_false; [rewrite PT|rewrite PF]; tauto.
  - apply fold_all_true; [rewrite PF|rewrite PT]; tauto.
  - apply fold_no_events; [rewrite PT|rewrite PF]; tauto.
Qed.

(** invariant of a run: a name that was absent at the start of the file is Added while present,
    Unknown or Temporary while absent *)
Definition temp_inv (r : realm) (n : name) (s : span) : Prop :=
  (has_table r n -> s = SpanAdded) /\ (~ has_table r n -> s = SpanUnknown \/ s = SpanTemporary).

Lemma run_temp_inv n stmts : forall r rs s,
  run r stmts rs -> temp_inv r n s ->
  temp_inv (last rs r) n (fold_left hstep (tab_hist (changes_of r stmts rs) n) s).
Proof.
  induction stmts as [|[p st] stmts IH]; intros r rs s Hrun Hinv.
  - destruct rs; [|contradiction]. simpl. assumption.
  - destruct rs as [|r1 rs]; [contradiction|]. destruct Hrun as [He Hrun].
    unfold tab_hist. simpl changes_of. change (all_changes (mkSC p (realmDiff r r1) :: changes_of r1 stmts rs)) with (realmDiff r r1 ++ all_changes (changes_of r1 stmts rs)).
    rewrite flat_map_app, fold_left_app. rewrite last_cons.
    apply (IH r1 rs _ Hrun). rewrite step_state. destruct Hinv as [I1 I2].
    destruct (has_table_dec r n) as [A|A], (has_table_dec r1 n) as [B|B]; split; intros X; try contradiction; auto.
    + rewrite (I1 A). right; reflexivity.
Qed.

(** a table name that exists neither before the file nor after it -- created and dropped inside the file, any number
    of times -- is never named by a DS102 (files on which the rebuild pre-pass does not fire) *)
Lemma sound_temp_table_file r0 stmts rs n :
  run r0 stmts rs ->
  rewriteTemp (changes_of r0 stmts rs) = changes_of r0 stmts rs ->
  ~ has_table r0 n -> ~ has_table (last rs r0) n ->
  forall p, ~ In (mkDiag DS102 p [n]) (analyze_file (changes_of r0 stmts rs)).
Proof.
  intros Hrun Hpre H0 Hl p Hd. unfold analyze_file in Hd. rewrite Hpre in Hd.
  set (cl := changes_of r0 stmts rs) in *.
  assert (Inv : temp_inv (last rs r0) n (state_of (tab_hist cl n))).
  { apply run_temp_inv; [assumption|]. split; [intros X; contradiction|intros _; left; reflexivity]. }
  destruct Inv as [_ I2]. specialize (I2 Hl).
  apply Analyze_DS102 in Hd as [sc [T [Hsc [_ [Hin [Hn Hs]]]]]]. inversion Hn as [Hn'].
  rewrite (proj1 (states_are_histories cl)) in Hs. rewrite <- Hn' in Hs. destruct I2 as [U|Tm]; [|contradiction].
  pose proof (state_of_spec (tab_hist cl n)) as S. rewrite U in S.
  assert (F : In false (tab_hist cl n)).
  { unfold tab_hist. apply in_flat_map. exists (DropTableC T). split; [apply in_all_changes; eauto|].
    simpl. rewrite <- Hn', name_eqb_refl. left; reflexivity. }
  rewrite S in F. contradiction.
Qed.

(** ** Bridge from statements to histories, columns of a table that stays *)
Lemma in_ocev_t_true c cs : In true (flat_map (ocev_t c) cs) <-> exists c1, In (AddColumnC c1) cs /\ c_name c1 = c.
Proof.
  rewrite in_flat_map. split.
  - intros [tc [H1 H2]]. destruct tc as [c1|c1|? ?|?|?|? ?]; simpl in H2; try contradiction.
    + destruct (name_eqb (c_name c1) c) eqn:E; simpl in H2; [|contradiction]. apply name_eqb_eq in E. eauto.
    + destruct (name_eqb (c_name c1) c); simpl in H2; [destruct H2 as [H2|[]]; discriminate|contradiction].
  - intros [c1 [H1 H2]]. exists (AddColumnC c1). split; [assumption|]. simpl. rewrite H2, name_eqb_refl. left; reflexivity.
Qed.

Lemma in_ocev_t_false c cs : In false (flat_map (ocev_t c) cs) <-> exists c1, In (DropColumnC c1) cs /\ c_name c1 = c.
Proof.
  rewrite in_flat_map. split.
  - intros [tc [H1 H2]]. destruct tc as [c1|c1|? ?|?|?|? ?]; simpl in H2; try contradiction.
    + destruct (name_eqb (c_name c1) c); simpl in H2; [destruct H2 as [H2|[]]; discriminate|contradiction].
    + destruct (name_eqb (c_name c1) c) eqn:E; simpl in H2; [|contradiction]. apply name_eqb_eq in E. eauto.
  - intros [c1 [H1 H2]]. exists (DropColumnC c1). split; [assumption|]. simpl. rewrite H2, name_eqb_refl. left; reflexivity.
Qed.

Lemma has_col_of r t T c : find_table r t = Some T -> (has_col r t c <-> find_col (t_cols T) c <> None).
Proof.
  intros F. unfold has_col. split.
  - intros [T' [H1 H2]]. rewrite F in H1. inversion H1; subst. assumption.
  - intros H. exists T. auto.
Qed.

Lemma col_step_true t c r r1 :
  wf_realm r -> has_table r t -> has_table r1 t ->
  (In true (flat_map (ocev t c) (realmDiff r r1)) <-> ~ has_col r t c /\ has_col r1 t c).
Proof.
  intros W Ht Ht1. rewrite in_flat_map. split.
  - intros [ch [Hc Hn]]. destruct ch as [T|T|T2 cs|f u]; simpl in Hn; try contradiction.
    + destruct (name_eqb (t_name T) t) eqn:E; simpl in Hn; [|contradiction]. apply name_eqb_eq in E.
      apply in_realmDiff_add in Hc as [_ Hc]. exfalso. apply Ht. rewrite <- E. assumption.
    + destruct (name_eqb (t_name T2) t) eqn:E; [|contradiction]. apply name_eqb_eq in E.
      apply in_ocev_t_true in Hn as [c1 [Hin Hc1]].
      apply in_realmDiff_mod in Hc as [T1 [A [B [C D]]]]. subst cs.
      apply in_tableDiff_addcol in Hin as [I1 I2].
      pose proof (find_table_some _ _ _ B) as [_ N2]. rewrite E in N2.
      assert (F1 : find_table r t = Some T1) by (rewrite N2; apply find_table_nodup; assumption).
      rewrite <- N2 in B. split.
      * rewrite (has_col_of _ _ _ c F1). rewrite Hc1 in I2. intros X. apply X. assumption.
      * rewrite (has_col_of _ _ _ c B). intros X. apply (find_col_none _ _ X c1 I1). assumption.
  - intros [H1 H2]. unfold has_table in Ht.
    destruct (find_table r t) as [T1|] eqn:F1; [|congruence].
    destruct H2 as [T2 [F2 G2]]. destruct (find_col (t_cols T2) c) as [c1|] eqn:FC; [|congruence].
    apply find_col_some in FC as [I1 N1].
    assert (FC1 : find_col (t_cols T1) c = None).
    { destruct (find_col (t_cols T1) c) eqn:X; [|reflexivity]. exfalso. apply H1. exists T1. split; [assumption|]. rewrite X. discriminate. }
    pose proof (find_table_some _ _ _ F1) as [A1 N]. pose proof (find_table_some _ _ _ F2) as [_ N2].
    assert (Hadd : In (AddColumnC c1) (tableDiff T1 T2)) by (apply in_tableDiff_addcol; rewrite N1; auto).
    exists (ModifyTableC T2 (tableDiff T1 T2)). split.
    + apply in_realmDiff_mod. exists T1. rewrite N. repeat split; auto. intros X. rewrite X in Hadd. contradiction.
    + simpl. rewrite N2, name_eqb_refl. apply in_ocev_t_true. eauto.
Qed.

Lemma col_step_false t c r r1 :
  wf_realm r -> has_table r t -> has_table r1 t ->
  (In false (flat_map (ocev t c) (realmDiff r r1)) <-> has_col r t c /\ ~ has_col r1 t c).
Proof.
  intros W Ht Ht1. rewrite in_flat_map. split.
  - intros [ch [Hc Hn]]. destruct ch as [T|T|T2 cs|f u]; simpl in Hn; try contradiction.
    + destruct (name_eqb (t_name T) t && existsb (fun col => name_eqb (c_name col) c) (t_cols T))%bool; simpl in Hn;
        [destruct Hn as [Hn|[]]; discriminate|contradiction].
    + destruct (name_eqb (t_name T2) t) eqn:E; [|contradiction]. apply name_eqb_eq in E.
      apply in_ocev_t_false in Hn as [c1 [Hin Hc1]].
      apply in_realmDiff_mod in Hc as [T1 [A [B [C D]]]]. subst cs.
      apply in_tableDiff_dropcol in Hin as [I1 I2].
      pose proof (find_table_some _ _ _ B) as [_ N2]. rewrite E in N2.
      assert (F1 : find_table r t = Some T1) by (rewrite N2; apply find_table_nodup; assumption).
      rewrite <- N2 in B. split.
      * rewrite (has_col_of _ _ _ c F1). intros X. apply (find_col_none _ _ X c1 I1). assumption.
      * rewrite (has_col_of _ _ _ c B). rewrite Hc1 in I2. intros X. apply X. assumption.
  - intros [H1 H2]. unfold has_table in Ht1.
    destruct (find_table r1 t) as [T2|] eqn:F2; [|congruence].
    destruct H1 as [T1 [F1 G1]]. destruct (find_col (t_cols T1) c) as [c1|] eqn:FC; [|congruence].
    apply find_col_some in FC as [I1 N1].
    assert (FC2 : find_col (t_cols T2) c = None).
    { destruct (find_col (t_cols T2) c) eqn:X; [|reflexivity]. exfalso. apply H2. exists T2. split; [assumption|]. rewrite X. discriminate. }
    pose proof (find_table_some _ _ _ F1) as [A1 N]. pose proof (find_table_some _ _ _ F2) as [_ N2].
    assert (Hdrop : In (DropColumnC c1) (tableDiff T1 T2)) by (apply in_tableDiff_dropcol; rewrite N1; auto).
    exists (ModifyTableC T2 (tableDiff T1 T2)). split.
    + apply in_realmDiff_mod. exists T1. rewrite N. repeat split; auto. intros X. rewrite X in Hdrop. contradiction.
    + simpl. rewrite N2, name_eqb_refl. apply in_ocev_t_false. eauto.
Qed.

Lemma col_step_state t c r r1 s :
  wf_realm r -> has_table r t -> has_table r1 t ->
  fold_left hstep (flat_map (ocev t c) (realmDiff r r1)) s =
  match has_col_dec r t c, has_col_dec r1 t c with
  | left _, left _ => s
  | left _, right _ => or_dropped s
  | right _, left _ => SpanAdded
  | right _, right _ => s
  end.
Proof.
  intros W H1 H2.
  pose proof (col_step_true t c r r1 W H1 H2) as PT. pose proof (col_step_false t c r r1 W H1 H2) as PF.
  destruct (has_col_dec r t c) as [A|A], (has_col_dec r1 t c) as [B|B].
  - apply fold_no_events; [rewrite PT|rewrite PF]; tauto.
  - apply fold_all_false; [rewrite PT|rewrite PF]; tauto.
  - apply fold_all_true; [rewrite PF|rewrite PT]; tauto.
  - apply fold_no_events; [rewrite PT|rewrite PF]; tauto.
Qed.

Definition col_inv (r : realm) (t c : name) (s : span) : Prop :=
  (has_col r t c -> s = SpanAdded) /\ (~ has_col r t c -> s = SpanUnknown \/ s = SpanTemporary).

Lemma run_col_inv t c stmts : forall r rs s,
  wf_realm r -> run r stmts rs -> has_table r t -> Forall (fun x => has_table x t) rs ->
  col_inv r t c s ->
  col_inv (last rs r) t c (fold_left hstep (col_hist (changes_of r stmts rs) t c) s).
Proof.
  induction stmts as [|[p st] stmts IH]; intros r rs s W Hrun Ht Hall Hinv.
  - destruct rs; [|contradiction]. simpl. assumption.
  - destruct rs as [|r1 rs]; [contradiction|]. destruct Hrun as [He Hrun].
    inversion Hall as [|? ? Ht1 Hall']; subst.
    unfold col_hist. simpl changes_of.
    change (all_changes (mkSC p (realmDiff r r1) :: changes_of r1 stmts rs)) with (realmDiff r r1 ++ all_changes (changes_of r1 stmts rs)).
    rewrite flat_map_app, fold_left_app. rewrite last_cons.
    apply (IH r1 rs _ (exec_wf _ _ _ W He) Hrun Ht1 Hall'). rewrite (col_step_state t c r r1 s W Ht Ht1).
    destruct Hinv as [I1 I2].
    destruct (has_col_dec r t c) as [A|A], (has_col_dec r1 t c) as [B|B]; split; intros X; try contradiction; auto.
    rewrite (I1 A). right; reflexivity.
Qed.

(** a column that its table has neither before the file nor after it, the table being there throughout, is left out of
    every DS103 the file's ModifyTable changes of that table get (pre-pass not firing) *)
Lemma sound_temp_column_file r0 stmts rs t c :
  wf_realm r0 -> run r0 stmts rs ->
  rewriteTemp (changes_of r0 stmts rs) = changes_of r0 stmts rs ->
  has_table r0 t -> Forall (fun x => has_table x t) rs ->
  ~ has_col r0 t c -> ~ has_col (last rs r0) t c ->
  forall sc T cs, In sc (rewriteTemp (changes_of r0 stmts rs)) -> In (ModifyTableC T cs) (sc_changes sc) -> t_name T = t ->
  ~ In c (dropped_names (loadSpans (rewriteTemp (changes_of r0 stmts rs))) T cs).
Proof.
  intros W Hrun Hpre Ht Hall H0 Hl sc T cs. rewrite Hpre. set (cl := changes_of r0 stmts rs). intros Hsc Hm Et Hin.
  assert (Inv : col_inv (last rs r0) t c (state_of (col_hist cl t c))).
  { apply run_col_inv; try assumption. split; [intros X; contradiction|intros _; left; reflexivity]. }
  destruct Inv as [_ I2]. specialize (I2 Hl).
  apply in_dropped_names in Hin as [d [Hd [Hn [_ Hs]]]].
  unfold ColumnSpan in Hs. rewrite loadSpans_cols, Et, Hn in Hs.
  rewrite (proj2 (states_are_histories cl)) in Hs. destruct I2 as [U|Tm]; [|contradiction].
  pose proof (state_of_spec (col_hist cl t c)) as S. rewrite U in S.
  assert (F : In false (col_hist cl t c)).
  { unfold col_hist. apply in_flat_map. exists (ModifyTableC T cs). split; [apply in_all_changes; eauto|].
    simpl. rewrite Et, name_eqb_refl. apply in_ocev_t_false. eauto. }
  rewrite S in F. contradiction.
Qed.
