(** M-LINT, `atlas:nolint` directives (round 3).  No proofs in this file.

    Go code followed (names kept):
      sql/migrate/dir.go     reDirective (caret, a greedy run of [ -~] as group 1, "atlas:", one or more \w as group 2,
                             then zero or more times: one or more blanks and a greedy run of [ -~] as group 3), directive,
                             LocalFile.Directive (the header comment lines are an input: LocalFile.comments)
      sql/migrate/lex.go     Stmt.Directive (the comment group of a statement is an input: Scanner.comment)
      cmd/atlas/internal/migratelint/lint_oss.go
                             nolintRules, skipRules.reporterFor, Runner.analyze (ignored / skipped),
                             Runner.Run (exit status)
    restricted, as LintModel, to the rebuild pre-pass and the destructive analyzer. *)
From Coq Require Import List NArith Bool Arith.
From Atlas Require Import Base.Bytes Lint.LintModel.
Import ListNotations.

(** ** reDirective *)
Definition printable (c : N) : bool := N.leb 32 c && N.leb c 126.            (* [ -~] *)
Definition wordc (c : N) : bool :=                                             (* \w *)
  (N.leb 48 c && N.leb c 57) || (N.leb 65 c && N.leb c 90) || (N.leb 97 c && N.leb c 122) || N.eqb c 95.
Definition is_blank (c : N) : bool := N.eqb c 32.

Fixpoint take_while (p : N -> bool) (s : bytes) : bytes :=
  match s with c :: s' => if p c then c :: take_while p s' else [] | [] => [] end.
Fixpoint drop_while (p : N -> bool) (s : bytes) : bytes :=
  match s with c :: s' => if p c then drop_while p s' else s | [] => [] end.

(** "atlas:" *)
Definition atlas_colon : bytes := [97; 116; 108; 97; 115; 58]%N.
(** "nolint" *)
Definition nolint_name : bytes := [110; 111; 108; 105; 110; 116]%N.

(** What follows "atlas:" (groups 2 and 3 of reDirective).  The name is the longest run of word characters
    (one at least).  The argument group matches only when a blank follows the name: the blanks are all taken,
    then the longest run of printable characters (blanks included) -- a tab, a newline or
    any other byte outside [ -~] ends it, and no further iteration can start there.  When no blank
    follows the name the group does not take part in the match: FindStringSubmatch gives "". *)
Definition dir_tail (rest : bytes) : option (bytes * bytes) :=
  match take_while wordc rest with
  | [] => None
  | nm =>
      let r2 := drop_while wordc rest in
      Some (nm, match r2 with
                | c :: _ => if is_blank c then take_while printable (drop_while is_blank r2) else []
                | [] => []
                end)
  end.

(** Group 1 of reDirective is greedy, so the match uses the LAST place of the leading
    printable run where "atlas:" and a word character follow.  Result: (group 1, name, argument). *)
Fixpoint scan_dir (s pre_rev : bytes) : option (bytes * bytes * bytes) :=
  let here :=
    if has_prefix s atlas_colon then
      match dir_tail (skipn 6 s) with
      | Some (nm, a) => Some (rev pre_rev, nm, a)
      | None => None
      end
    else None in
  match s with
  | [] => None
  | c :: s' =>
      if printable c then
        match scan_dir s' (c :: pre_rev) with Some r => Some r | None => here end
      else here
  end.

(** dir.go: directive(content, name, prefix...) -- [prefix = None] is the call without a prefix. *)
Definition directive (content nm : bytes) (prefix : option bytes) : option bytes :=
  match scan_dir content [] with
  | Some (m1, n, a) =>
      if bytes_eqb n nm && match prefix with None => true | Some p => bytes_eqb p m1 end
      then Some a else None
  | None => None
  end.

Definition trim_suffix (s suf : bytes) : bytes :=
  if has_prefix (rev s) (rev suf) then rev (skipn (length suf) (rev s)) else s.

Definition opt_list {A} (o : option A) : list A := match o with Some a => [a] | None => [] end.

(** lex.go: Stmt.Directive(name) for one comment of the group. *)
Definition comment_directive (nm c : bytes) : list bytes :=
  if has_prefix c [47; 42]%N && negb (existsb (N.eqb 10) c) then                 (* "/*", no "\n" *)
    opt_list (directive (trim_suffix c [42; 47]%N) nm (Some [47; 42]%N))
  else
    flat_map (fun p => opt_list (directive c nm (Some p)))
             [[35]; [45; 45]; [45; 45; 32]]%N.                                  (* "#", "--", "-- " *)

Definition Stmt_Directive (comments : list bytes) (nm : bytes) : list bytes :=
  flat_map (comment_directive nm) comments.

(** dir.go: LocalFile.Directive(name) on the header comment lines (no prefix is required). *)
Definition LocalFile_Directive (comments : list bytes) (nm : bytes) : list bytes :=
  flat_map (fun c => opt_list (directive c nm None)) comments.

(** ** strings.Split(d, " ") *)
Fixpoint split_sp (d : bytes) : list bytes :=
  match d with
  | [] => [[]]
  | c :: d' =>
      if is_blank c then [] :: split_sp d'
      else match split_sp d' with
           | w :: ws => (c :: w) :: ws
           | [] => [[c]]
           end
  end.

(** ** lint_oss.go: nolintRules *)
Definition code_str (c : code) : bytes :=
  match c with
  | DS102 => [68; 83; 49; 48; 50]%N
  | DS103 => [68; 83; 49; 48; 51]%N
  end.
(** destructive.Analyzer.Name() = "destructive" *)
Definition az_name : bytes := [100; 101; 115; 116; 114; 117; 99; 116; 105; 118; 101]%N.

(** The comments of one file: header comment lines and, per statement position, its comment group. *)
Record nlfile := mkNL { nl_hdr : list bytes; nl_stmts : list (N * list bytes) }.
Definition no_comments : nlfile := mkNL [] [].

Fixpoint stmt_comments (l : list (N * list bytes)) (pos : N) : list bytes :=
  match l with
  | (p, cs) :: l' => if N.eqb p pos then cs else stmt_comments l' pos
  | [] => []
  end.

(** `s.ignored = len(ds) == 1 && ds[0] == ""` *)
Definition is_bare (l : list bytes) : bool :=
  match l with [[]] => true | _ => false end.

Definition file_ignored (nf : nlfile) : bool := is_bare (LocalFile_Directive (nl_hdr nf) nolint_name).

(** pos2rules[pos] for the position of a statement of f.Changes: the file directives (split) first,
    then the directives of the statement (split). *)
Definition pos2rules (nf : nlfile) (pos : N) : list bytes :=
  flat_map split_sp (LocalFile_Directive (nl_hdr nf) nolint_name)
  ++ flat_map split_sp (Stmt_Directive (stmt_comments (nl_stmts nf) pos) nolint_name).

(** ** skipRules.reporterFor: the `case` of the switch (the diagnostic is dropped). *)
Definition contains (rules : list bytes) (x : bytes) : bool := existsb (bytes_eqb x) rules.

Definition silences (rules : list bytes) (c : code) : bool :=
  is_bare rules || contains rules (code_str c) || contains rules az_name.

(** pos2rules is a Go map: a position that is not a statement of f.Changes has no rules. *)
Definition rules_at (nf : nlfile) (cl : list schange) (pos : N) : list bytes :=
  if existsb (fun sc => N.eqb (sc_pos sc) pos) cl then pos2rules nf pos else [].

Definition reporterFor (nf : nlfile) (cl : list schange) (ds : list diag) : list diag :=
  filter (fun d => negb (silences (rules_at nf cl (d_pos d)) (d_code d))) ds.

(** ** Runner.analyze for one file.  [None]: the file is ignored (no FileReport at all).
    Otherwise the diagnostics written to the report and whether FileReport.Error is set:
    destructive.Analyze returns its error iff it has a diagnostic, and the error is dropped when the
    (single) report was skipped, i.e. when no diagnostic is left. *)
Definition analyze_nl (nf : nlfile) (cl : list schange) : option (list diag * bool) :=
  if file_ignored nf then None
  else
    let kept := reporterFor nf cl (analyze_file cl) in
    Some (kept, match kept with [] => false | _ => true end).

(** ** Runner.Run with directives: [nls] gives the comments of a file id (none when absent). *)
Fixpoint nl_of (nls : list (N * nlfile)) (id : N) : nlfile :=
  match nls with
  | (i, nf) :: l => if N.eqb i id then nf else nl_of l id
  | [] => no_comments
  end.

Definition lint_nl (dir : list mfile) (nls : list (N * nlfile)) (latest : nat) : lint_result :=
  let '(base, feat) := DetectChanges dir latest in
  match LoadChanges base feat with
  | LoadErr f p => LintLoadError f p
  | Loaded files =>
      let reports :=
        flat_map (fun fc =>
          match analyze_nl (nl_of nls (fst fc)) (snd fc) with
          | None => []
          | Some (ds, _) => [(fst fc, ds)]
          end) files in
      LintReport reports (existsb has_diag reports)
  end.
