(** M-LINT-ENV -- where the analysed window of `atlas migrate lint` comes from when the project file
    (`atlas.hcl`, `--env x`) and explicit command-line flags both speak.  No proofs in this file.

    Go code followed (names kept):
      cmd/atlas/internal/cmdapi/cmdapi.go   maySetFlag (a flag the user gave -- pflag.Flag.Changed -- is never
                                            overwritten; an empty project value is skipped)
      cmd/atlas/internal/cmdapi/migrate.go  setMigrateEnvFlags, case "lint": flagLatest <- strconv.Itoa(env.Lint.Latest)
                                            (never empty: an absent `latest` writes "0" = the flag's default),
                                            flagGitBase <- env.Lint.Git.Base
      cmd/atlas/internal/cmdapi/cmdapi_oss.go  migrateLintRun: the switch that picks the ChangeDetector
                                            ("--latest or --git-base is required" / "mutually exclusive" /
                                            LatestChanges / GitChangeDetector), AnalyzerFor(dev, env.Lint.Remain())
                                            -> destructive.New (LintGenModel.New_error)
    The git detector itself is outside the model ([EnvGit]). *)
From Coq Require Import List NArith Bool Arith.
From Atlas Require Import Base.Bytes Lint.LintModel Lint.LintGenModel.
Import ListNotations.

(** the `lint { ... }` block of the selected env *)
Record env_cfg := mkEnvCfg {
  ec_latest : N;                (* env.Lint.Latest, 0 when absent *)
  ec_git_base : name;           (* env.Lint.Git.Base, "" when absent *)
  ec_children : list gblock     (* env.Lint.Remain(): the analyzer blocks *)
}.

(** command line: [Some v] = the flag was given (Changed) *)
Record lint_flags := mkFlags { fl_latest : option N; fl_git_base : option name }.

(** cmdapi.go: maySetFlag, for a flag that exists: the value it holds afterwards.
    [dflt] = the flag's default, [envEmpty] = (envVal == ""). *)
Definition maySetFlag {A} (flag : option A) (dflt : A) (envEmpty : bool) (envVal : A) : A :=
  match flag with
  | Some v => v
  | None => if envEmpty then dflt else envVal
  end.

Definition is_empty (b : name) : bool := match b with [] => true | _ => false end.

(** setMigrateEnvFlags, case "lint" *)
Definition eff_latest (fl : lint_flags) (cfg : env_cfg) : N :=
  maySetFlag (fl_latest fl) 0%N false (ec_latest cfg).
Definition eff_git_base (fl : lint_flags) (cfg : env_cfg) : name :=
  maySetFlag (fl_git_base fl) [] (is_empty (ec_git_base cfg)) (ec_git_base cfg).

Inductive env_result :=
| EnvRequired                 (* "--latest or --git-base is required" *)
| EnvExclusive                (* "--latest and --git-base are mutually exclusive" *)
| EnvGit (base : name)        (* NewGitChangeDetector: not modelled further *)
| EnvLint (r : lint_result).

(** `destructive { error = false }`: the diagnostics stay, the file error and the failing exit go *)
Definition apply_error (error : bool) (r : lint_result) : lint_result :=
  match r with
  | LintLoadError f p => LintLoadError f p
  | LintReport files failed => LintReport files (failed && error)
  end.

(** migrateLintRun *)
Definition lint_env (dir : list mfile) (fl : lint_flags) (cfg : env_cfg) : env_result :=
  let n := eff_latest fl cfg in
  let b := eff_git_base fl cfg in
  if N.eqb n 0 && is_empty b then EnvRequired
  else if negb (N.eqb n 0) && negb (is_empty b) then EnvExclusive
  else if negb (N.eqb n 0) then EnvLint (apply_error (New_error (ec_children cfg)) (lint dir (N.to_nat n)))
  else EnvGit b.
