(** Witnesses: the full C18 statements are false of the faithful model (and of the real CLI). *)
From Coq Require Import List NArith Bool Arith.
From Atlas Require Import Base.Bytes Lint.LintModel Lint.LintSpec Lint.LintProofs Lint.LintFileProofs.
Import ListNotations.

Definition n_t : name := [116]%N.                       (* "t" *)
Definition n_t2 : name := [116; 50]%N.                  (* "t2" *)
Definition n_new_t : name := new_prefix ++ n_t.         (* "new_t" *)
Definition n_victim : name := [118; 105; 99]%N.         (* "vic" *)
Definition n_tmp : name := [116; 109; 112]%N.           (* "tmp" *)
Definition c_id := mkCol [105; 100]%N false 1.          (* id *)
Definition c_a := mkCol [97]%N false 2.                 (* a *)
Definition c_b := mkCol [98]%N false 2.                 (* b *)

(** the catalogue before the file: t(id,a,b), vic(id) *)
Definition w_r0 : realm := [mkTab n_t [c_id; c_a; c_b] []; mkTab n_victim [c_id] []].

(** (1) DROP TABLE t; CREATE TABLE t (id); DROP TABLE t *)
Definition w_readd : list pstmt :=
  [(0, DropTable n_t); (14, CreateTable n_t [c_id]); (40, DropTable n_t)]%N.
(** (2) CREATE TABLE new_t (id,a,b); DROP TABLE vic; DROP TABLE t; ALTER TABLE new_t RENAME TO t *)
Definition w_hidden : list pstmt :=
  [(0, CreateTable n_new_t [c_id; c_a; c_b]); (60, DropTable n_victim); (80, DropTable n_t); (95, RenameTable n_new_t n_t)]%N.
(** (3) CREATE TABLE new_t (id,a,b); INSERT INTO new_t SELECT FROM t; DROP TABLE t; ALTER TABLE new_t RENAME TO t2 *)
Definition w_prefix : list pstmt :=
  [(0, CreateTable n_new_t [c_id; c_a; c_b]); (60, InsertSelect n_new_t n_t); (100, DropTable n_t); (115, RenameTable n_new_t n_t2)]%N.
(** (4) ALTER TABLE t DROP COLUMN b; ALTER TABLE t ADD COLUMN b; ALTER TABLE t DROP COLUMN b *)
Definition w_readd_col : list pstmt :=
  [(0, DropColumn n_t (c_name c_b)); (30, AddColumn n_t c_b); (60, DropColumn n_t (c_name c_b))]%N.
(** (5) CREATE TABLE tmp (id); DROP TABLE tmp; CREATE TABLE tmp (id,a) *)
Definition w_recreate : list pstmt :=
  [(0, CreateTable n_tmp [c_id]); (25, DropTable n_tmp); (40, CreateTable n_tmp [c_id; c_a])]%N.

Definition states_of (r0 : realm) (stmts : list pstmt) : list realm :=
  (fix go r l := match l with
                 | [] => []
                 | (_, s) :: l' => match exec r s with Some r' => r' :: go r' l' | None => [] end
                 end) r0 stmts.

(** The completeness claim for one disappearing table name, and its failure. *)
Definition table_missed (r0 : realm) (stmts : list pstmt) (n : name) : Prop :=
  let rs := states_of r0 stmts in
  wf_realm r0 /\ run r0 stmts rs /\ nextStmts r0 stmts = inr (changes_of r0 stmts rs, last rs r0) /\
  has_table r0 n /\ ~ has_table (last rs r0) n /\
  analyze_file (changes_of r0 stmts rs) = [].

Ltac wf_tac := unfold wf_realm; simpl; repeat constructor; simpl; intuition discriminate.

Lemma readd_missed : table_missed w_r0 w_readd n_t.
Proof.
  unfold table_missed. split; [wf_tac|]. split; [vm_compute; auto|]. split; [reflexivity|].
  split; [vm_compute; discriminate|]. split; [vm_compute; intros H; apply H; reflexivity|]. reflexivity.
Qed.

Definition column_missed (r0 : realm) (stmts : list pstmt) (t c : name) : Prop :=
  let rs := states_of r0 stmts in
  wf_realm r0 /\ run r0 stmts rs /\ has_real_col r0 t c /\ has_table (last rs r0) t /\ ~ has_col (last rs r0) t c /\
  analyze_file (changes_of r0 stmts rs) = [].

Lemma readd_col_missed : column_missed w_r0 w_readd_col n_t (c_name c_b).
Proof.
  unfold column_missed. split; [wf_tac|]. split; [vm_compute; auto|].
  split; [exists (mkTab n_t [c_id; c_a; c_b] []), c_b; vm_compute; auto|].
  split; [vm_compute; discriminate|].
  split; [|reflexivity].
  intros [T [H1 H2]]. vm_compute in H1. inversion H1; subst. apply H2. reflexivity.
Qed.

(** The soundness claim and its failure: nothing existed before the file (r0 = []), yet DS102. *)
Definition false_positive (stmts : list pstmt) : Prop :=
  let rs := states_of [] stmts in
  run [] stmts rs /\ (forall n, ~ has_table [] n) /\
  exists p n, In (mkDiag DS102 p [n]) (analyze_file (changes_of [] stmts rs)).

Lemma recreate_flagged : false_positive w_recreate.
Proof.
  unfold false_positive. split; [vm_compute; auto|]. split; [intros n H; apply H; reflexivity|].
  exists 25%N, n_tmp. vm_compute. left; reflexivity.
Qed.

(** After the fixes C18-rebuild-copy-slot / C18-rebuild-exact-rename the two former witnesses are reported. *)
Lemma hidden_now_flagged :
  analyze_file (changes_of w_r0 w_hidden (states_of w_r0 w_hidden))
  = [mkDiag DS102 60 [n_victim]; mkDiag DS102 80 [n_t]].
Proof. vm_compute. reflexivity. Qed.

Lemma prefix_now_flagged :
  analyze_file (changes_of w_r0 w_prefix (states_of w_r0 w_prefix)) = [mkDiag DS102 100 [n_t]].
Proof. vm_compute. reflexivity. Qed.

(** DROP COLUMN b; ADD COLUMN b (the "change the type by hand" pattern): the drop is reported. *)
Definition w_drop_add_col : list pstmt :=
  [(0, DropColumn n_t (c_name c_b)); (30, AddColumn n_t (mkCol (c_name c_b) false 3))]%N.
Lemma drop_add_col_flagged :
  analyze_file (changes_of w_r0 w_drop_add_col (states_of w_r0 w_drop_add_col)) = [mkDiag DS103 0 [c_name c_b]].
Proof. vm_compute. reflexivity. Qed.
