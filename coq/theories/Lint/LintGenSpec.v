(** Declarative vocabulary for the engine-free C18 theorems (no proofs): the add/drop HISTORY of a
    schema / table / column name in an arbitrary change list, and the span state such a history ends in. *)
From Coq Require Import List NArith Bool Arith.
From Atlas Require Import Base.Bytes Lint.LintModel Lint.LintGenModel.
Import ListNotations.

(** a history: [true] = an Add event, [false] = a Drop event, in file order *)
Definition hstep (s : span) (b : bool) : span := if b then SpanAdded else or_dropped s.
Definition state_of (h : list bool) : span := fold_left hstep h SpanUnknown.

(** "created in the file and dropped after its last creation" *)
Definition temp_history (h : list bool) : Prop :=
  exists h1 h2, h = h1 ++ true :: h2 /\ h2 <> [] /\ forallb negb h2 = true.
(** "only dropped (at least once), never created" *)
Definition dropped_history (h : list bool) : Prop := h <> [] /\ forallb negb h = true.

Definition sev (n : name) (c : gchange) : list bool :=
  match c with
  | GAddSchema s => if name_eqb (gs_name s) n then [true] else []
  | GDropSchema s => if name_eqb (gs_name s) n then [false] else []
  | _ => []
  end.

(** table [T] is [s].[t] *)
Definition tab_is (T : gtable) (s t : name) : bool :=
  match gt_schema T with
  | Some s' => name_eqb s' s && name_eqb (gt_name T) t
  | None => false
  end.

Definition tev (s t : name) (c : gchange) : list bool :=
  match c with
  | GAddTable T => if tab_is T s t then [true] else []
  | GDropTable T => if tab_is T s t then [false] else []
  | _ => []
  end.

Definition cev_t (c : name) (tc : gtchange) : list bool :=
  match tc with
  | GAddColumn c1 => if name_eqb (gc_name c1) c then [true] else []
  | GDropColumn c1 => if name_eqb (gc_name c1) c then [false] else []
  | _ => []
  end.

Definition cev (s t c : name) (ch : gchange) : list bool :=
  match ch with
  | GAddTable T =>
      if tab_is T s t && existsb (fun col => name_eqb (gc_name col) c) (gt_cols T) then [true] else []
  | GModifyTable T cs => if tab_is T s t then flat_map (cev_t c) cs else []
  | _ => []
  end.

Definition schema_hist (cl : list gschange) (n : name) : list bool := flat_map (sev n) (all_gchanges cl).
Definition table_hist (cl : list gschange) (s t : name) : list bool := flat_map (tev s t) (all_gchanges cl).
Definition column_hist (cl : list gschange) (s t c : name) : list bool := flat_map (cev s t c) (all_gchanges cl).

(** the columns a ModifyTable of [s].[T] is reported for, in terms of histories *)
Definition reported_cols (cl : list gschange) (s : name) (T : gtable) (cs : list gtchange) : list name :=
  flat_map (fun c =>
      match c with
      | GDropColumn d =>
          if span_eqb (state_of (column_hist cl s (gt_name T) (gc_name d))) SpanTemporary then []
          else if is_virtual d then [] else [gc_name d]
      | _ => []
      end) cs.

(** the change list holds no Drop change at all *)
Definition is_drop (c : gchange) : bool :=
  match c with
  | GDropSchema _ | GDropTable _ => true
  | GModifyTable _ cs => existsb is_dropcol cs
  | _ => false
  end.

(** the change list holds no RenameTable / RenameColumn change (the histories above are per NAME; a rename moves a
    life-span to another name, see C18_generic_rename_carries_span) *)
Definition is_rename_t (tc : gtchange) : bool := match tc with GRenameColumn _ _ => true | _ => false end.
Definition is_rename (c : gchange) : bool :=
  match c with
  | GRenameTable _ _ => true
  | GModifyTable _ cs => existsb is_rename_t cs
  | _ => false
  end.
Definition rename_free (cl : list gschange) : Prop :=
  forallb (fun c => negb (is_rename c)) (all_gchanges cl) = true.
