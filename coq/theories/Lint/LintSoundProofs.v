(** Proofs about M-LINT, part 3: soundness (additive files, in-file temporary tables) and the
    rebuild group of the sqlitecheck pre-pass. *)
From Coq Require Import List NArith Bool Arith Lia.
From Atlas Require Import Base.Bytes Lint.LintModel Lint.LintSpec Lint.LintProofs Lint.LintFileProofs.
Import ListNotations.

(** ** The pre-pass needs a DropTable: without one it is the identity *)
Definition no_drop_table (cl : list schange) : Prop :=
  forall T, ~ In (DropTableC T) (all_changes cl).

Lemma modifyUsingTemp_needs_drop c0 c2 c3 :
  (forall T, ~ In (DropTableC T) (sc_changes c2)) -> modifyUsingTemp c0 c2 c3 = None.
Proof.
  intros H. unfold modifyUsingTemp.
  destruct (sc_changes c0) as [|a [|? ?]]; try reflexivity; destruct a; try reflexivity.
  destruct (negb (has_prefix (t_name t) new_prefix)); [reflexivity|].
  destruct (sc_changes c2) as [|c2a [|? ?]]; try reflexivity.
  destruct (sc_changes c3) as [|c3a c3rest]; [reflexivity|].
  destruct c2a as [T|T|T cs|f u]; simpl; try reflexivity.
  exfalso. apply (H T). left; reflexivity.
Qed.

Lemma rewriteTemp_id_nodrop cl : no_drop_table cl -> rewriteTemp cl = cl.
Proof.
  induction cl as [|c0 tl IH]; intros H; [reflexivity|].
  assert (Htl : no_drop_table tl).
  { intros T HT. apply (H T). unfold all_changes in *. simpl. apply in_or_app. right. assumption. }
  simpl. destruct tl as [|c1 [|c2 [|c3 rest]]]; try reflexivity.
  rewrite modifyUsingTemp_needs_drop.
  - rewrite (IH Htl). destruct (sc_changes c1); reflexivity.
  - intros T HT. apply (H T). unfold all_changes. simpl.
    apply in_or_app. right. apply in_or_app. right. apply in_or_app. left. assumption.
Qed.

(** ** Files that only add objects get no destructive diagnostic *)
Lemma sound_additive r0 stmts rs :
  wf_realm r0 -> run r0 stmts rs ->
  (forall j p b a n, step_at r0 stmts rs j p b a -> has_table b n -> has_table a n) ->
  (forall j p b a t c, step_at r0 stmts rs j p b a -> has_col b t c -> has_col a t c) ->
  analyze_file (changes_of r0 stmts rs) = [].
Proof.
  intros W H Ht Hc.
  assert (ND : no_drop_table (changes_of r0 stmts rs)).
  { intros T HT. apply in_all_changes in HT as [sc [Hsc Hin]].
    destruct (in_changes_step stmts r0 rs sc H Hsc) as [j [b [a [St E]]]].
    rewrite E in Hin. apply in_realmDiff_drop in Hin as [I1 I2].
    assert (Hb : has_table b (t_name T)) by (apply find_table_in; assumption).
    apply (Ht _ _ _ _ _ St) in Hb. apply Hb. assumption. }
  unfold analyze_file. rewrite (rewriteTemp_id_nodrop _ ND).
  destruct (Analyze (changes_of r0 stmts rs)) as [|d ds] eqn:EA; [reflexivity|].
  exfalso. assert (Hd : In d (Analyze (changes_of r0 stmts rs))) by (rewrite EA; left; reflexivity).
  apply Analyze_in in Hd as [sc [c [Hsc [Hc' Hd]]]].
  destruct (in_changes_step stmts r0 rs sc H Hsc) as [j [b [a [St E]]]].
  destruct c as [T|T|T cs|f u]; simpl in Hd; try contradiction.
  - apply (ND T). apply in_all_changes. exists sc. auto.
  - destruct (dropped_names (loadSpans (changes_of r0 stmts rs)) T cs) as [|x xs] eqn:ED; [contradiction|].
    assert (Hx : In x (dropped_names (loadSpans (changes_of r0 stmts rs)) T cs)) by (rewrite ED; left; reflexivity).
    apply in_dropped_names in Hx as [dcol [Hdc _]].
    rewrite E in Hc'. apply in_realmDiff_mod in Hc' as [T1 [I1 [F1 [Ecs _]]]].
    rewrite Ecs in Hdc. apply in_tableDiff_dropcol in Hdc as [D1 D2].
    destruct (run_wf stmts r0 rs W H j _ b a St) as [Wb Wa].
    assert (Hb : has_col b (t_name T1) (c_name dcol)).
    { exists T1. split; [apply find_table_nodup; assumption|].
      intros X. apply (find_col_none _ _ X dcol D1). reflexivity. }
    apply (Hc _ _ _ _ _ _ St) in Hb. destruct Hb as [T2 [G1 G2]].
    rewrite F1 in G1. inversion G1; subst. apply G2. assumption.
Qed.

(** ** A table name created once in the analysed list, before any drop of it, is never reported *)
Lemma fold_tstep_added_temp chs n : forall s,
  (forall T, In (AddTableC T) chs -> t_name T <> n) ->
  (s = SpanAdded \/ s = SpanTemporary) ->
  (exists T, In (DropTableC T) chs /\ t_name T = n) ->
  fold_left (tstep n) chs s = SpanTemporary.
Proof.
  induction chs as [|c chs IH]; intros s Hno Hs [T [HT En]]; [contradiction|].
  simpl.
  assert (Hno' : forall T, In (AddTableC T) chs -> t_name T <> n) by (intros T' H'; apply Hno; right; assumption).
  assert (Hs' : tstep n s c = SpanAdded \/ tstep n s c = SpanTemporary).
  { destruct c as [T'|T'|T' cs|f u]; simpl; try assumption.
    - destruct (name_eqb (t_name T') n); [left; reflexivity|assumption].
    - destruct (name_eqb (t_name T') n); [|assumption]. destruct Hs; subst; simpl; auto. }
  destruct HT as [HT|HT].
  - subst c. simpl. rewrite En, name_eqb_refl.
    assert (X : or_dropped s = SpanTemporary) by (destruct Hs; subst; reflexivity).
    rewrite X. clear IH. revert Hno'. clear. induction chs as [|c chs IH]; intros Hno; [reflexivity|].
    simpl. destruct c as [T'|T'|T' cs|f u]; simpl; try (apply IH; intros T0 H0; apply Hno; right; assumption).
    + destruct (name_eqb (t_name T') n) eqn:E.
      * apply name_eqb_eq in E. exfalso. apply (Hno T'); [left; reflexivity|assumption].
      * apply IH. intros T0 H0; apply Hno; right; assumption.
    + destruct (name_eqb (t_name T') n); simpl; apply IH; intros T0 H0; apply Hno; right; assumption.
  - apply IH; try assumption. exists T. auto.
Qed.

Lemma fold_tstep_untouched chs n : forall s,
  (forall T, In (AddTableC T) chs -> t_name T <> n) ->
  (forall T, In (DropTableC T) chs -> t_name T <> n) ->
  fold_left (tstep n) chs s = s.
Proof.
  induction chs as [|c chs IH]; intros s H1 H2; [reflexivity|]. simpl.
  rewrite IH; [|intros T H; apply H1; right; assumption|intros T H; apply H2; right; assumption].
  destruct c as [T|T|T cs|f u]; simpl; try reflexivity.
  - destruct (name_eqb (t_name T) n) eqn:E; [|reflexivity]. apply name_eqb_eq in E.
    exfalso. apply (H1 T); [left; reflexivity|assumption].
  - destruct (name_eqb (t_name T) n) eqn:E; [|reflexivity]. apply name_eqb_eq in E.
    exfalso. apply (H2 T); [left; reflexivity|assumption].
Qed.

Lemma sound_temp_table cl n l1 T l2 :
  all_changes cl = l1 ++ AddTableC T :: l2 -> t_name T = n ->
  (forall T', In (AddTableC T') l1 -> t_name T' <> n) ->
  (forall T', In (AddTableC T') l2 -> t_name T' <> n) ->
  (forall T', In (DropTableC T') l1 -> t_name T' <> n) ->
  forall p ns, In (mkDiag DS102 p ns) (Analyze cl) -> ns <> [n].
Proof.
  intros E En A1 A2 D1 p ns Hd Hns. subst ns.
  apply Analyze_DS102 in Hd as [sc [T0 [Hsc [Hp [Hin [Hn Hst]]]]]].
  inversion Hn as [Hn']. apply Hst. rewrite <- Hn'.
  unfold table_state. rewrite E. rewrite fold_left_app. simpl.
  rewrite (fold_tstep_untouched l1 n SpanUnknown A1 D1). rewrite En, name_eqb_refl.
  apply fold_tstep_added_temp; [assumption|left; reflexivity|].
  assert (Hall : In (DropTableC T0) (all_changes cl)) by (apply in_all_changes; eauto).
  rewrite E in Hall. apply in_app_or in Hall as [Hall|[Hall|Hall]].
  - exfalso. apply (D1 T0 Hall). symmetry. assumption.
  - discriminate.
  - exists T0. split; [assumption|symmetry; assumption].
Qed.

(** ** The rebuild group *)
Lemma modifyUsingTemp_some c0 c2 c3 prevT currT :
  modifyUsingTemp c0 c2 c3 = Some (prevT, currT) ->
  exists addT, sc_changes c0 = [AddTableC addT] /\ has_prefix (t_name addT) new_prefix = true /\
               sc_changes c2 = [DropTableC prevT] /\ t_name prevT = trim_prefix (t_name addT) new_prefix /\
               currT = set_name addT (t_name prevT) /\
               ((exists f t, sc_changes c3 = [RenameTableC f t] /\ t_name f = t_name addT /\ t_name t = t_name prevT) \/
                (exists X Y, sc_changes c3 = [DropTableC X; AddTableC Y] /\ t_name X = t_name addT /\
                             t_name Y = t_name prevT)).
Proof.
  unfold modifyUsingTemp. intros H.
  destruct (sc_changes c0) as [|a [|? ?]]; try discriminate; destruct a as [addT| | |]; try discriminate.
  destruct (has_prefix (t_name addT) new_prefix) eqn:P; simpl in H; [|discriminate].
  destruct (sc_changes c2) as [|c2a [|? ?]]; try discriminate.
  destruct (sc_changes c3) as [|c3a c3rest]; [discriminate|].
  destruct c2a as [T|dropT|T cs|f u]; simpl in H; try discriminate.
  destruct (name_eqb (t_name dropT) (trim_prefix (t_name addT) new_prefix)) eqn:E; simpl in H; [|discriminate].
  apply name_eqb_eq in E.
  destruct c3rest as [|c3b [|? ?]]; try discriminate.
  - destruct c3a as [| | |f t]; simpl in H; try discriminate.
    destruct (name_eqb (t_name f) (t_name addT)) eqn:E1; simpl in H; [|discriminate].
    destruct (name_eqb (t_name t) (trim_prefix (t_name addT) new_prefix)) eqn:E2; simpl in H; [|discriminate].
    inversion H; subst. apply name_eqb_eq in E1, E2. exists addT. repeat split; auto.
    + rewrite E; reflexivity.
    + left. exists f, t. repeat split; auto. congruence.
  - destruct c3a as [|X| |]; simpl in H; try discriminate.
    destruct (name_eqb (t_name X) (t_name addT)) eqn:E1; simpl in H; [|discriminate].
    destruct c3b as [Y| | |]; simpl in H; try discriminate.
    destruct (name_eqb (t_name Y) (trim_prefix (t_name addT) new_prefix)) eqn:E2; simpl in H; [|discriminate].
    inversion H; subst. apply name_eqb_eq in E1, E2. exists addT. repeat split; auto.
    + rewrite E; reflexivity.
    + right. exists X, Y. repeat split; auto. congruence.
Qed.

(** A confirmed group is folded into one ModifyTable at the position of its first statement; every
    non-virtual column of the dropped table that the new table lacks is reported there with DS103
    (unless the history of that column name in the analysed list makes it temporary). *)
Lemma rebuild_group c0 c1 c2 c3 rest prevT currT :
  sc_changes c1 = [] ->
  modifyUsingTemp c0 c2 c3 = Some (prevT, currT) ->
  let cl := c0 :: c1 :: c2 :: c3 :: rest in
  rewriteTemp cl = mkSC (sc_pos c0) [ModifyTableC currT (tableDiff prevT currT)] :: rewriteTemp rest /\
  forall d, In d (t_cols prevT) -> find_col (t_cols currT) (c_name d) = None -> c_virtual d = false ->
            column_state (rewriteTemp cl) (t_name currT) (c_name d) <> SpanTemporary ->
            exists ns, In (mkDiag DS103 (sc_pos c0) ns) (analyze_file cl) /\ In (c_name d) ns.
Proof.
  intros H1 H cl.
  assert (R : rewriteTemp cl = mkSC (sc_pos c0) [ModifyTableC currT (tableDiff prevT currT)] :: rewriteTemp rest).
  { unfold cl. simpl. rewrite H1, H. reflexivity. }
  split; [assumption|].
  intros d Hd Hf V Hst. unfold analyze_file. apply Analyze_DS103.
  exists (mkSC (sc_pos c0) [ModifyTableC currT (tableDiff prevT currT)]), currT, (tableDiff prevT currT), d.
  split; [rewrite R; left; reflexivity|]. split; [reflexivity|].
  split; [left; reflexivity|]. split; [apply in_tableDiff_dropcol; auto|]. auto.
Qed.

(** A statement in the copy slot that changes the schema prevents the fold: it stays in the analysed list. *)
Lemma copy_slot_kept c0 c1 c2 c3 rest :
  sc_changes c1 <> [] -> rewriteTemp (c0 :: c1 :: c2 :: c3 :: rest) = c0 :: rewriteTemp (c1 :: c2 :: c3 :: rest).
Proof. intros H. simpl. destruct (sc_changes c1); [contradiction|reflexivity]. Qed.
