(** M-BUILD (round 3) -- how the SERVER reads what the Builder wrote: the dialects' lexical
    rule for quoted identifiers, Go's [strconv.Quote] (the [%q] verb the PostgreSQL planner
    uses in [typeIdent] / [schemaPrefix]) on ASCII input, and the one correct spelling of a
    name as a quoted identifier.  No proofs here.

    Specification vocabulary (MySQL manual 9.2 "Schema Object Names", PostgreSQL manual
    4.1.1 "Identifiers and Key Words"): a quoted identifier opens with the quote character,
    a quote character inside is written twice, it closes at the first quote character that is
    not followed by another one; a backslash is an ordinary character.  A qualified name is a
    sequence of quoted identifiers separated by dots.

    Go code followed: strconv.Quote (strconv/quote.go: appendQuotedWith / appendEscapedRune,
    ASCII arm only -- bytes >= 0x80 are written as \xHH, which is what Go does for bytes that
    are not valid UTF-8; valid multi-byte runes are outside this model). *)
From Coq Require Import List NArith Bool.
From Atlas Require Import Base.Bytes Qual.Builder.
Import ListNotations.
Open Scope N_scope.

(** * Reading a quoted identifier: [s] is the text AFTER the opening quote.
    Result: the name and the text after the closing quote; [None] = unterminated. *)
Fixpoint read_ident (qc : N) (s : bytes) : option (bytes * bytes) :=
  match s with
  | [] => None
  | c :: r =>
      if N.eqb c qc then
        match r with
        | c2 :: r2 =>
            if N.eqb c2 qc
            then match read_ident qc r2 with Some (n, rest) => Some (qc :: n, rest) | None => None end
            else Some ([], r)
        | [] => Some ([], [])
        end
      else match read_ident qc r with Some (n, rest) => Some (c :: n, rest) | None => None end
  end.

(** * Reading a chain  qo name qc ( . qo name qc )*  at the start of [s].
    [fuel] bounds the number of components ([length s] is always enough). *)
Fixpoint lex_chain_fuel (fuel : nat) (qo qc : N) (s : bytes) : option (list bytes * bytes) :=
  match fuel with
  | O => None
  | S k =>
      match s with
      | c :: r =>
          if N.eqb c qo then
            match read_ident qc r with
            | Some (n, rest) =>
                match rest with
                | d :: c2 :: _ =>
                    if N.eqb d DOT && N.eqb c2 qo then
                      match lex_chain_fuel k qo qc (tl rest) with
                      | Some (l, rest') => Some (n :: l, rest')
                      | None => None
                      end
                    else Some ([n], rest)
                | _ => Some ([n], rest)
                end
            | None => None
            end
          else None
      | [] => None
      end
  end.
Definition lex_chain (qo qc : N) (s : bytes) : option (list bytes * bytes) :=
  lex_chain_fuel (S (length s)) qo qc s.

(** * The two spellings of a name between quotes.  The correct one -- quote characters inside
    the name doubled -- is [render_ident] / [render_chain] of Qual/Builder.v (what
    [Builder.Ident] writes since fix C16-ident-double-quote-char).  The RAW one is what it wrote
    before the fix: *)
Definition raw_ident (o c : N) (n : bytes) : bytes := o :: n ++ [c].
Fixpoint raw_chain (o c : N) (l : list bytes) : bytes :=
  match l with
  | [] => []
  | [n] => raw_ident o c n
  | n :: rest => raw_ident o c n ++ DOT :: raw_chain o c rest
  end.

(** the text after a chain does not continue it *)
Definition chain_ends (qo qc : N) (post : bytes) : Prop :=
  match post with
  | [] => True
  | c :: r => c <> qc /\ match r with c2 :: _ => ~ (c = DOT /\ c2 = qo) | [] => True end
  end.

(** a name free of the closing quote character *)
Definition quote_free (qc : N) (n : bytes) : Prop := ~ In qc n.

(** * strconv.Quote on ASCII input *)
Definition BSL : N := 92.  Definition DQ : N := 34.
Definition hexdig (n : N) : N := if n <? 10 then 48 + n else 87 + n.
Definition quoteGo_byte (c : N) : bytes :=
  if c =? DQ then [BSL; DQ] else
  if c =? BSL then [BSL; BSL] else
  if c =? 7 then [BSL; 97] else
  if c =? 8 then [BSL; 98] else
  if c =? 12 then [BSL; 102] else
  if c =? 10 then [BSL; 110] else
  if c =? 13 then [BSL; 114] else
  if c =? 9 then [BSL; 116] else
  if c =? 11 then [BSL; 118] else
  if (c <? 32) || (127 <=? c) then [BSL; 120; hexdig (c / 16); hexdig (c mod 16)]
  else [c].
Definition strconvQuote (s : bytes) : bytes := DQ :: flat_map quoteGo_byte s ++ [DQ].

(** the bytes strconv.Quote copies unchanged: printable ASCII but the double quote and the
    backslash *)
Definition plain_byte (c : N) : bool :=
  (32 <=? c) && (c <? 127) && negb (c =? DQ) && negb (c =? BSL).
Definition plain (s : bytes) : Prop := forallb plain_byte s = true.
