(** M-BUILD (round 3) -- executable model of the schema-scoped branch of
    [migrate.Planner.plan] (sql/migrate/migrate.go; what PlanSchema / `migrate diff` run for a
    schema-bound dev URL), at the level [sqlx.CheckChangesScope] looks at: which tables are
    dropped / modified / added and which schema OBJECT each of them points to.  No proofs here.

    Go code followed:
      sql/migrate/migrate.go      : Planner.plan (default arm of the schema-scope switch)
      sql/internal/sqlx/diff.go   : Diff.schemaDiff (objects, then "Drop or modify tables", then
                                    "Add tables"), findTable (by name)
      sql/mysql|postgres/migrate_oss.go : state.plan -- CheckChangesScope first, when a qualifier
                                    is requested

    Representation:
    * a replayed / desired schema is the [Name] of its schema object and its tables; every
      table (and every enum type of its columns) POINTS to that object, as after a real
      inspection / evaluation.  Since fix C16-planner-replay-rename [Planner.plan] renames the
      replayed schema object ITSELF ([s1 := current.Schemas[0]; s1.Name = s2.Name]): the
      replayed tables point to it and carry the desired name.  (Before the fix it renamed a
      copy, [s1 := *current.Schemas[0]], and the replayed tables kept the dev database's name:
      [plan_from dev], see ReplayProofs.v [Planner_plan_before_fix].)
    * [modified t1 t2] = [tableDiff] returned a non-empty change list (external function).
    * the object changes of [SchemaObjectDiff] (enum types) are [COther]: CheckChangesScope's
      [default: continue] arm; [objs] lists, per object change, the schema name it carries. *)
From Coq Require Import List NArith Bool.
From Atlas Require Import Base.Bytes Qual.Builder Qual.Scope.
Import ListNotations.
Open Scope N_scope.

Record rtab := mkRT { rt_name : bytes; rt_enum : bool (* has a column of an enum type *) }.

(* diff.go: findTable *)
Fixpoint find_tab (n : bytes) (l : list rtab) : option rtab :=
  match l with
  | [] => None
  | t :: r => if bytes_eqb (rt_name t) n then Some t else find_tab n r
  end.

(* the *schema.Table as CheckChangesScope reads it: t.Schema.Name and the enum columns *)
Definition tab_st (owner : bytes) (t : rtab) : stable :=
  mkST (Some owner) (if rt_enum t then [TEnum (Some owner); TPlain] else [TPlain]).

Section Diff.
  Variable modified : rtab -> rtab -> bool.

  (* diff.go: schemaDiff, the table part *)
  Definition drop_or_modify (from_owner to_owner : bytes) (to : list rtab) (t1 : rtab) : list change :=
    match find_tab (rt_name t1) to with
    | None => [CDropTable (tab_st from_owner t1)]
    | Some t2 => if modified t1 t2 then [CModifyTable (tab_st to_owner t2)] else []
    end.
  Definition add_new (to_owner : bytes) (from : list rtab) (t2 : rtab) : list change :=
    match find_tab (rt_name t2) from with
    | None => [CAddTable (tab_st to_owner t2)]
    | Some _ => []
    end.
  Definition schema_diff (from_owner to_owner : bytes) (objs : list bytes) (from to : list rtab) : list change :=
    map (fun o => COther [o]) objs
    ++ flat_map (drop_or_modify from_owner to_owner to) from
    ++ flat_map (add_new to_owner from) to.

  Inductive plan_res :=
  | PNoPlan                       (* ErrNoPlan *)
  | PPlanned
  | PRejected (r : scope_res).    (* the error of CheckChangesScope *)

  (* the schema-scoped planning step when the replayed tables point to a schema object
     named [owner] *)
  Definition plan_from (owner : bytes) (q : option bytes) (mode : N) (user : bytes)
             (objs : list bytes) (cur des : list rtab) : plan_res :=
    let cs := schema_diff owner user objs cur des in
    match cs with
    | [] => PNoPlan
    | _ =>
        match q with
        | None => PPlanned
        | Some _ => match CheckChangesScope q mode cs with SOk => PPlanned | r => PRejected r end
        end
    end.

  (* migrate.go: Planner.plan, schema scope; [dev] / [user] = the names the replayed and the
     desired schema object carry when plan is entered.  The replayed object is renamed in
     place, so whatever [dev] was, its tables now name [user]. *)
  Definition Planner_plan (q : option bytes) (mode : N) (dev user : bytes)
             (objs : list bytes) (cur des : list rtab) : plan_res :=
    plan_from user q mode user objs cur des.
End Diff.

Definition is_drop (c : change) : bool := match c with CDropTable _ => true | _ => false end.
Definition is_addmod (c : change) : bool :=
  match c with CAddTable _ | CModifyTable _ => true | _ => false end.
