(** M-BUILD (round 5) -- executable model of the schema-scoped branch of
    [migrate.Planner.checkpoint] (sql/migrate/migrate.go; CheckpointSchema / `migrate checkpoint`
    for a schema-bound dev URL) and of [PlanWithExclude], at the level of Qual/Replay.v.  No proofs.

    Go code followed:
      sql/migrate/migrate.go : Planner.checkpoint, default arm:
          s1 := current.Schemas[0]; s2 := schema.New(s1.Name).AddAttrs(s1.Attrs...)
          changes = SchemaDiff(s2, s1); len(changes) == 0 -> the empty plan; PlanChanges(changes, planOpts)
        -- the replayed schema [dev] is diffed against an EMPTY schema of the SAME name: every
        replayed table / enum type is an addition and points to the schema object named [dev].
      sql/migrate/migrate.go : Planner.current, PlanWithExclude: the patterns are handed to the
        inspection of the replayed state (schema.InspectOptions.Exclude); the replayed tables the
        patterns match are not part of [current]. *)
From Coq Require Import List NArith Bool.
From Atlas Require Import Base.Bytes Qual.Builder Qual.Scope Qual.Replay.
Import ListNotations.
Open Scope N_scope.

(* PNoPlan stands for the empty checkpoint plan [&Plan{Name: name}] *)
Definition Planner_checkpoint (modified : rtab -> rtab -> bool) (q : option bytes) (mode : N) (dev : bytes)
           (objs : list bytes) (cur : list rtab) : plan_res :=
  plan_from modified dev q mode dev objs [] cur.

(* PlanWithExclude: the replayed tables whose name the patterns match ([excluded], the glob
   matcher is external) are not inspected *)
Definition exclude_tabs (excluded : bytes -> bool) (cur : list rtab) : list rtab :=
  filter (fun t => negb (excluded (rt_name t))) cur.
Definition Planner_plan_exclude (modified : rtab -> rtab -> bool) (excluded : bytes -> bool)
           (q : option bytes) (mode : N) (dev user : bytes) (objs : list bytes) (cur des : list rtab) : plan_res :=
  Planner_plan modified q mode dev user objs (exclude_tabs excluded cur) des.
