(** Round 3: what the Builder writes for a qualified name reads back, under the dialect's
    own lexical rule, as exactly the chain of names -- the qualifier is ONE quoted
    identifier -- for EVERY name (code with fix C16-ident-double-quote-char: Builder.Ident
    doubles the quote character); the raw spelling of the code before the fix did so exactly
    for names free of the closing quote character; and the PostgreSQL planner's second
    spelling ([%q] in typeIdent / schemaPrefix) names the same identifier exactly for names
    strconv.Quote copies unchanged. *)
From Coq Require Import List NArith Bool Arith Lia.
From Atlas Require Import Base.Bytes Qual.Builder Qual.BuilderProofs Qual.Lexq.
Import ListNotations.
Open Scope N_scope.

Definition not_starts (c : N) (s : bytes) : Prop := match s with x :: _ => x <> c | [] => True end.

Lemma read_ident_raw qc n : forall rest,
  quote_free qc n -> not_starts qc rest -> read_ident qc (n ++ qc :: rest) = Some (n, rest).
Proof.
  induction n as [|c n IH]; intros rest Hf Hr.
  - simpl. rewrite N.eqb_refl. destruct rest as [|c2 r2]; [reflexivity|].
    simpl in Hr. apply N.eqb_neq in Hr. rewrite Hr. reflexivity.
  - assert (Hc : c <> qc) by (intros E; apply Hf; left; exact E).
    assert (Hn : quote_free qc n) by (intros I; apply Hf; right; exact I).
    cbn [app read_ident]. apply N.eqb_neq in Hc. rewrite Hc. rewrite (IH rest Hn Hr). reflexivity.
Qed.

Lemma read_ident_escaped qc n : forall rest,
  not_starts qc rest -> read_ident qc (escape_ident qc n ++ qc :: rest) = Some (n, rest).
Proof.
  induction n as [|c n IH]; intros rest Hr.
  - simpl. rewrite N.eqb_refl. destruct rest as [|c2 r2]; [reflexivity|].
    simpl in Hr. apply N.eqb_neq in Hr. rewrite Hr. reflexivity.
  - cbn [escape_ident]. destruct (N.eqb c qc) eqn:E.
    + apply N.eqb_eq in E. subst c. cbn [app read_ident]. rewrite N.eqb_refl.
      rewrite (IH rest Hr). reflexivity.
    + cbn [app read_ident]. rewrite E. rewrite (IH rest Hr). reflexivity.
Qed.

(* a generic chain reader lemma: each component is written by [w] and read back by read_ident *)
Section Chain.
  Variables (qo qc : N).
  Variable w : bytes -> bytes.    (* the text between the quotes *)
  Variable good : bytes -> Prop.  (* names for which it reads back *)
  Hypothesis Hdot : qc <> DOT.
  Hypothesis Hw : forall n rest, good n -> not_starts qc rest ->
                    read_ident qc (w n ++ qc :: rest) = Some (n, rest).

  Fixpoint wchain (l : list bytes) : bytes :=
    match l with
    | [] => []
    | [n] => qo :: w n ++ [qc]
    | n :: rest => (qo :: w n ++ [qc]) ++ DOT :: wchain rest
    end.

  Lemma wchain_starts n l : exists t, wchain (n :: l) = qo :: t.
  Proof. destruct l; simpl; eexists; reflexivity. Qed.

  Lemma lex_wchain l : forall fuel post,
    l <> [] -> Forall good l -> chain_ends qo qc post -> (length l <= fuel)%nat ->
    lex_chain_fuel fuel qo qc (wchain l ++ post) = Some (l, post).
  Proof.
    induction l as [|n l IH]; intros fuel post Hne HF Hp Hfu; [congruence|].
    destruct fuel as [|k]; [simpl in Hfu; lia|].
    inversion HF as [|? ? Hn HF']; subst.
    destruct l as [|n2 l].
    - (* last component *)
      cbn [wchain]. cbn [app lex_chain_fuel]. rewrite N.eqb_refl.
      rewrite <- app_assoc. cbn [app].
      assert (Hs : not_starts qc post).
      { destruct post as [|c r]; simpl; [exact I|]. simpl in Hp. tauto. }
      rewrite (Hw n post Hn Hs).
      destruct post as [|d [|c2 r]]; try reflexivity.
      simpl in Hp. destruct Hp as [_ Hp].
      destruct (N.eqb d DOT) eqn:E1; [|reflexivity].
      destruct (N.eqb c2 qo) eqn:E2; [|reflexivity].
      apply N.eqb_eq in E1, E2. exfalso. apply Hp. split; assumption.
    - (* a dot and the rest of the chain follow *)
      change (wchain (n :: n2 :: l)) with ((qo :: w n ++ [qc]) ++ DOT :: wchain (n2 :: l)).
      destruct (wchain_starts n2 l) as [t Et].
      cbn [app lex_chain_fuel]. rewrite N.eqb_refl.
      rewrite <- !app_assoc. cbn [app].
      assert (Hs : not_starts qc (DOT :: wchain (n2 :: l) ++ post)).
      { simpl. intros E. apply Hdot. symmetry. exact E. }
      rewrite (Hw n _ Hn Hs).
      rewrite Et. cbn [app]. rewrite !N.eqb_refl. cbn [andb tl].
      change (qo :: t ++ post) with ((qo :: t) ++ post). rewrite <- Et.
      rewrite (IH k post); try assumption; [reflexivity|discriminate|].
      simpl in Hfu. simpl. lia.
  Qed.
End Chain.

Lemma wchain_raw qo qc l : wchain qo qc (fun n => n) l = raw_chain qo qc l.
Proof.
  induction l as [|n l IH]; [reflexivity|].
  destruct l as [|n2 l]; [reflexivity|].
  change (wchain qo qc (fun n => n) (n :: n2 :: l))
    with ((qo :: n ++ [qc]) ++ DOT :: wchain qo qc (fun n => n) (n2 :: l)).
  rewrite IH. reflexivity.
Qed.

Lemma wchain_render qo qc l : wchain qo qc (escape_ident qc) l = render_chain qo qc l.
Proof.
  induction l as [|n l IH]; [reflexivity|].
  destruct l as [|n2 l]; [reflexivity|].
  change (wchain qo qc (escape_ident qc) (n :: n2 :: l))
    with ((qo :: escape_ident qc n ++ [qc]) ++ DOT :: wchain qo qc (escape_ident qc) (n2 :: l)).
  rewrite IH. reflexivity.
Qed.

Lemma wchain_length qo qc w l : (length l <= length (wchain qo qc w l))%nat.
Proof.
  induction l as [|n l IH]; [simpl; lia|].
  destruct l as [|n2 l]; [simpl; lia|].
  change (wchain qo qc w (n :: n2 :: l)) with ((qo :: w n ++ [qc]) ++ DOT :: wchain qo qc w (n2 :: l)).
  rewrite app_length. simpl length at 2. simpl length at 1. simpl in IH. simpl. lia.
Qed.

(** what Builder.Ident writes reads back for EVERY name *)
Theorem render_chain_reads_back qo qc l post :
  qc <> DOT -> l <> [] -> chain_ends qo qc post ->
  lex_chain qo qc (render_chain qo qc l ++ post) = Some (l, post).
Proof.
  intros Hd Hne Hp. unfold lex_chain. rewrite <- wchain_render.
  apply (lex_wchain qo qc (escape_ident qc) (fun _ => True) Hd); try assumption.
  - intros n rest _ Hr. apply read_ident_escaped; assumption.
  - apply Forall_forall. intros; exact I.
  - rewrite app_length. pose proof (wchain_length qo qc (escape_ident qc) l). lia.
Qed.

(** the raw spelling (the code before the fix) reads back for quote-free names *)
Theorem raw_chain_reads_back qo qc l post :
  qc <> DOT -> l <> [] -> Forall (quote_free qc) l -> chain_ends qo qc post ->
  lex_chain qo qc (raw_chain qo qc l ++ post) = Some (l, post).
Proof.
  intros Hd Hne HF Hp. unfold lex_chain. rewrite <- wchain_raw.
  apply (lex_wchain qo qc (fun n => n) (quote_free qc) Hd); try assumption.
  - intros n rest Hn Hr. apply read_ident_raw; assumption.
  - rewrite app_length. pose proof (wchain_length qo qc (fun n => n) l). lia.
Qed.

(** on quote-free names the two spellings coincide *)
Lemma escape_quote_free qc n : quote_free qc n -> escape_ident qc n = n.
Proof.
  induction n as [|c n IH]; intros Hf; [reflexivity|].
  cbn [escape_ident].
  assert (Hc : c <> qc) by (intros E; apply Hf; left; exact E).
  apply N.eqb_neq in Hc. rewrite Hc. f_equal. apply IH. intros I. apply Hf. right. exact I.
Qed.

Lemma render_ident_quote_free o c n : quote_free c n -> render_ident o c n = raw_ident o c n.
Proof. intros H. unfold render_ident, raw_ident. rewrite (escape_quote_free c n H). reflexivity. Qed.

(** * One qualifying call, end to end: [mayQualify] under qualifier [q] writes a text that
    the server reads as exactly [q :: top :: children]. *)
Theorem mayQualify_reads_back b s top children q :
  bschema b = Some q -> nonempty q -> nonempty top -> Forall nonempty children ->
  qc b <> DOT -> qc b <> SP ->
  exists pre, out (mayQualify b s top children) = out b ++ pre /\
    lex_chain (qo b) (qc b) pre = Some (q :: top :: children, [SP]).
Proof.
  intros Hb Hq Ht Hc Hd Hsp.
  destruct (mayQualify_spec b s top children Ht Hc) as (_ & _ & _ & _ & _ & _ & Ho).
  exists (render_chain (qo b) (qc b) (chain_of (bschema b) s top children) ++ [SP]).
  split; [exact Ho|].
  rewrite Hb. unfold chain_of, qual_prefix. rewrite is_nil_false by exact Hq. cbn [app].
  apply render_chain_reads_back; try assumption; [discriminate|].
  simpl. split; [intros E; apply Hsp; symmetry; exact E|exact I].
Qed.

(** * The raw spelling is NOT one identifier when the name holds the quote character *)
Definition w_q : bytes := [97; 34; 98].      (* a, double quote, b *)
Definition w_t : bytes := [116].             (* t *)
Lemma raw_quote_refuted :
  lex_chain 34 34 (raw_chain 34 34 [w_q; w_t] ++ [SP]) <> Some ([w_q; w_t], [SP]) /\
  lex_chain 34 34 (render_chain 34 34 [w_q; w_t] ++ [SP]) = Some ([w_q; w_t], [SP]).
Proof. split; [vm_compute; discriminate|vm_compute; reflexivity]. Qed.

(** * strconv.Quote copies plain names unchanged *)
Lemma quoteGo_plain_byte c : plain_byte c = true -> quoteGo_byte c = [c].
Proof.
  unfold plain_byte, quoteGo_byte. rewrite !andb_true_iff, !negb_true_iff.
  intros [[[H1 H2] H3] H4]. rewrite H3, H4.
  apply N.leb_le in H1. apply N.ltb_lt in H2.
  assert (E7 : c =? 7 = false) by (apply N.eqb_neq; lia).
  assert (E8 : c =? 8 = false) by (apply N.eqb_neq; lia).
  assert (E12 : c =? 12 = false) by (apply N.eqb_neq; lia).
  assert (E10 : c =? 10 = false) by (apply N.eqb_neq; lia).
  assert (E13 : c =? 13 = false) by (apply N.eqb_neq; lia).
  assert (E9 : c =? 9 = false) by (apply N.eqb_neq; lia).
  assert (E11 : c =? 11 = false) by (apply N.eqb_neq; lia).
  rewrite E7, E8, E12, E10, E13, E9, E11.
  assert (L : c <? 32 = false) by (apply N.ltb_ge; lia).
  assert (G : 127 <=? c = false) by (apply N.leb_gt; lia).
  rewrite L, G. reflexivity.
Qed.

Lemma strconvQuote_plain_raw s : plain s -> strconvQuote s = raw_ident DQ DQ s.
Proof.
  intros H. unfold strconvQuote, raw_ident. f_equal. f_equal.
  induction s as [|c s IH]; [reflexivity|].
  unfold plain in H. simpl in H. apply andb_true_iff in H as [Hc Hs].
  simpl. rewrite (quoteGo_plain_byte c Hc). simpl. f_equal. apply IH. exact Hs.
Qed.

Lemma plain_quote_free s : plain s -> quote_free DQ s.
Proof.
  intros H I. unfold plain in H. rewrite forallb_forall in H. specialize (H _ I).
  unfold plain_byte in H. rewrite !andb_true_iff, !negb_true_iff in H.
  destruct H as [[_ H] _]. unfold DQ in H. simpl in H. discriminate.
Qed.

Lemma strconvQuote_plain s : plain s -> strconvQuote s = render_ident DQ DQ s.
Proof.
  intros H. rewrite (strconvQuote_plain_raw s H).
  symmetry. apply render_ident_quote_free. apply plain_quote_free. exact H.
Qed.

(** typeIdent / schemaPrefix write the same identifier as Builder.Table for plain names *)
Theorem pg_same_namespace q ns name :
  q <> [] -> plain q -> plain name ->
  typeIdent strconvQuote (Some q) ns name = render_chain DQ DQ [q; name] /\
  schemaPrefix strconvQuote (Some q) ns = render_ident DQ DQ q ++ [DOT] /\
  lex_chain DQ DQ (typeIdent strconvQuote (Some q) ns name ++ [SP]) = Some ([q; name], [SP]).
Proof.
  intros Hq Pq Pn.
  assert (E : typeIdent strconvQuote (Some q) ns name = render_chain DQ DQ [q; name]).
  { unfold typeIdent. rewrite is_nil_false by exact Hq.
    rewrite (strconvQuote_plain q Pq), (strconvQuote_plain name Pn).
    reflexivity. }
  split; [exact E|]. split.
  - unfold schemaPrefix. rewrite is_nil_false by exact Hq. rewrite (strconvQuote_plain q Pq). reflexivity.
  - rewrite E. apply render_chain_reads_back.
    + unfold DQ, DOT. discriminate.
    + discriminate.
    + simpl. split; [unfold DQ, SP; discriminate|exact I].
Qed.

(** ... and a DIFFERENT one for a qualifier with a backslash (legal, quote-free): *)
Definition w_bs : bytes := [97; 92; 98].     (* a, backslash, b *)
Lemma pg_two_namespaces :
  quote_free DQ w_bs /\
  lex_chain DQ DQ (render_chain DQ DQ [w_bs; w_t] ++ [SP]) = Some ([w_bs; w_t], [SP]) /\
  lex_chain DQ DQ (typeIdent strconvQuote (Some w_bs) None w_t ++ [SP]) = Some ([[97; 92; 92; 98]; w_t], [SP]).
Proof.
  split; [|split]; try (vm_compute; reflexivity).
  intros I. vm_compute in I. repeat destruct I as [I|I]; try discriminate; exact I.
Qed.

(** * Exactness: the raw spelling of ONE identifier reads back iff the name is quote-free *)
Lemma read_ident_len qc : forall k s n rest, (length s <= k)%nat ->
  read_ident qc s = Some (n, rest) ->
  (length n + 1 + length rest <= length s)%nat /\
  ((length n + 1 + length rest = length s)%nat -> quote_free qc n).
Proof.
  induction k as [|k IH]; intros s n rest Hk H.
  - destruct s; [discriminate|simpl in Hk; lia].
  - destruct s as [|c r]; [discriminate|]. cbn [read_ident] in H.
    destruct (N.eqb c qc) eqn:E.
    + destruct r as [|c2 r2].
      * inversion H; subst. simpl. split; [lia|]. intros _ I. exact I.
      * destruct (N.eqb c2 qc) eqn:E2.
        -- destruct (read_ident qc r2) as [[n' rest']|] eqn:R; [|discriminate].
           inversion H; subst.
           assert (Hk' : (length r2 <= k)%nat) by (simpl in Hk; lia).
           destruct (IH r2 n' rest Hk' R) as [L _]. simpl. split; [lia|]. intros Eq. lia.
        -- inversion H; subst. simpl. split; [lia|]. intros _ I. exact I.
    + destruct (read_ident qc r) as [[n' rest']|] eqn:R; [|discriminate].
      inversion H; subst.
      assert (Hk' : (length r <= k)%nat) by (simpl in Hk; lia).
      destruct (IH r n' rest Hk' R) as [L Q]. simpl. split; [lia|].
      intros Eq I. destruct I as [I|I].
      * subst c. rewrite N.eqb_refl in E. discriminate.
      * apply Q; [lia|exact I].
Qed.

Theorem read_ident_raw_iff qc n rest : not_starts qc rest ->
  (read_ident qc (n ++ qc :: rest) = Some (n, rest) <-> quote_free qc n).
Proof.
  intros Hr. split.
  - intros H. destruct (read_ident_len qc (length (n ++ qc :: rest)) _ _ _ (le_n _) H) as [_ Q].
    apply Q. rewrite app_length. simpl. lia.
  - intros Hf. apply read_ident_raw; assumption.
Qed.
