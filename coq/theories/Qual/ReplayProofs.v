(** Round 3: the schema-scoped [Planner.plan] never rejects a single-schema evolution (code with
    fix C16-planner-replay-rename: the replayed schema object itself is renamed).  Kept for the
    record: the code before the fix ([Planner_plan_before_fix]: a shallow copy was renamed) did,
    exactly when the replayed and the desired schema objects carried different names, a table
    was dropped (the DropTable carries the replayed table, which pointed to the un-renamed
    replayed schema object) and a table was added or modified. *)
From Coq Require Import List NArith Bool Lia.
From Atlas Require Import Base.Bytes Qual.Builder Qual.BuilderProofs Qual.Scope Qual.ScopeProofs Qual.Replay.
Import ListNotations.
Open Scope N_scope.

(* what every change of [schema_diff a b ...] looks like *)
Definition shape (a b : bytes) (c : change) : Prop :=
  match c with
  | CDropTable t => st_schema t = Some a
  | CAddTable t | CModifyTable t => st_schema t = Some b
  | COther _ => True
  | _ => False
  end.

Lemma schema_diff_shape modified a b objs from to : Forall (shape a b) (schema_diff modified a b objs from to).
Proof.
  unfold schema_diff. rewrite !Forall_app. repeat split.
  - apply Forall_forall. intros c H. apply in_map_iff in H. destruct H as (o & <- & _). exact I.
  - apply Forall_forall. intros c H. apply in_flat_map in H. destruct H as (t1 & _ & H).
    unfold drop_or_modify in H. destruct (find_tab (rt_name t1) to) as [t2|].
    + destruct (modified t1 t2); [|contradiction]. destruct H as [<-|[]]. reflexivity.
    + destruct H as [<-|[]]. reflexivity.
  - apply Forall_forall. intros c H. apply in_flat_map in H. destruct H as (t2 & _ & H).
    unfold add_new in H. destruct (find_tab (rt_name t2) from); [contradiction|].
    destruct H as [<-|[]]. reflexivity.
Qed.

Lemma shape_allowed a b q mode cs : Forall (shape a b) cs -> forallb (change_allowed q mode) cs = true.
Proof.
  induction 1 as [|c cs Hc _ IH]; [reflexivity|]. simpl. rewrite IH, andb_true_r.
  destruct c as [[n|]| | |t|t|t|from to|ms]; simpl in Hc; try contradiction; reflexivity.
Qed.

Lemma opt_name_Some a y : In y (opt_name (Some a)) <-> (y = a /\ a <> []).
Proof.
  unfold opt_name. destruct a as [|c a]; simpl; split.
  - intros [].
  - intros [_ H]. congruence.
  - intros [<-|[]]. split; [reflexivity|discriminate].
  - intros [-> _]. left. reflexivity.
Qed.

(* the names the code has collected after a change list of that shape *)
Lemma names_after_shape a b cs : Forall (shape a b) cs -> forall names y,
  In y (names_after cs names) <->
  (In y names \/ (y = a /\ a <> [] /\ existsb is_drop cs = true)
              \/ (y = b /\ b <> [] /\ existsb is_addmod cs = true)).
Proof.
  induction 1 as [|c cs Hc _ IH]; intros names y.
  - simpl. split; [tauto|]. intros [H|[(_ & _ & H)|(_ & _ & H)]]; [exact H|discriminate|discriminate].
  - destruct c as [[n|]| | |t|t|t|from to|ms]; simpl in Hc; try contradiction.
    + (* AddTable *) cbn [names_after existsb is_drop is_addmod orb]. rewrite IH, table_arm_In, Hc, opt_name_Some. tauto.
    + (* ModifyTable *) cbn [names_after existsb is_drop is_addmod orb]. rewrite IH, table_arm_In, Hc, opt_name_Some. tauto.
    + (* DropTable *) cbn [names_after existsb is_drop is_addmod orb]. rewrite IH, table_arm_In, Hc, opt_name_Some. tauto.
    + (* COther *) cbn [names_after existsb is_drop is_addmod orb]. apply IH.
Qed.

Lemma NoDup_le1 (l : list bytes) : NoDup l -> ((length l <= 1)%nat <-> forall x y, In x l -> In y l -> x = y).
Proof.
  intros N. split.
  - intros L x y Hx Hy. destruct l as [|u [|v l]]; simpl in *; try lia; intuition congruence.
  - intros E. destruct l as [|u [|v l]]; simpl; try lia.
    exfalso. inversion N as [|? ? Nu _]; subst. apply Nu. left.
    apply E; simpl; auto.
Qed.

Theorem replay_scope_iff a b cs q mode :
  Forall (shape a b) cs -> a <> [] -> b <> [] ->
  (CheckChangesScope q mode cs = SOk <->
   (a = b \/ existsb is_drop cs = false \/ existsb is_addmod cs = false)).
Proof.
  intros S Ha Hb. rewrite check_accepts_iff.
  pose proof (names_after_NoDup cs [] (NoDup_nil _)) as N.
  rewrite (NoDup_le1 _ N). split.
  - intros [_ E].
    destruct (existsb is_drop cs) eqn:D; [|tauto].
    destruct (existsb is_addmod cs) eqn:A; [|tauto].
    left. apply E; apply (names_after_shape a b cs S); rewrite ?D, ?A; tauto.
  - intros H. split; [apply (shape_allowed a b); exact S|].
    intros x y Hx Hy.
    apply (names_after_shape a b cs S) in Hx. apply (names_after_shape a b cs S) in Hy.
    destruct Hx as [[]|[(-> & _ & Dx)|(-> & _ & Ax)]]; destruct Hy as [[]|[(-> & _ & Dy)|(-> & _ & Ay)]];
      try reflexivity; destruct H as [H|[H|H]]; congruence.
Qed.

(** rejection is always "found 2 schemas" *)
Lemma scope_loop_not_ok_shape a b cs q mode :
  Forall (shape a b) cs -> CheckChangesScope q mode cs <> SOk ->
  exists n, CheckChangesScope q mode cs = EMulti n.
Proof.
  intros S. unfold CheckChangesScope. generalize (@nil bytes) as names.
  induction S as [|c cs Hc _ IH]; intros names H.
  - simpl in *. destruct (1 <? N.of_nat (length names)); [eexists; reflexivity|congruence].
  - destruct c as [[n|]| | |t|t|t|from to|ms]; simpl in Hc; try contradiction; simpl in *; apply IH; exact H.
Qed.

Section Planner.
  Variable modified : rtab -> rtab -> bool.

  (** the code: never rejected *)
  Theorem planner_never_rejects q mode dev user objs cur des :
    user <> [] ->
    forall r, Planner_plan modified (Some q) mode dev user objs cur des <> PRejected r.
  Proof.
    intros Hu r. unfold Planner_plan, plan_from.
    pose proof (schema_diff_shape modified user user objs cur des) as S.
    pose proof (replay_scope_iff user user _ (Some q) mode S Hu Hu) as K.
    destruct (schema_diff modified user user objs cur des) as [|c cs'] eqn:E; [discriminate|].
    rewrite <- E in *. destruct K as [_ K]. rewrite K by (left; reflexivity). discriminate.
  Qed.

  (** exactly: no plan when the diff is empty, a plan otherwise -- independent of the name the
      dev database's schema carries *)
  Theorem planner_plans_iff q mode dev user objs cur des :
    user <> [] ->
    Planner_plan modified (Some q) mode dev user objs cur des =
      match schema_diff modified user user objs cur des with [] => PNoPlan | _ => PPlanned end.
  Proof.
    intros Hu. unfold Planner_plan, plan_from.
    pose proof (schema_diff_shape modified user user objs cur des) as S.
    pose proof (replay_scope_iff user user _ (Some q) mode S Hu Hu) as K.
    destruct (schema_diff modified user user objs cur des) as [|c cs'] eqn:E; [reflexivity|].
    rewrite <- E in *. destruct K as [_ K]. rewrite K by (left; reflexivity). reflexivity.
  Qed.

  Theorem planner_dev_name_irrelevant q mode dev dev' user objs cur des :
    Planner_plan modified q mode dev user objs cur des = Planner_plan modified q mode dev' user objs cur des.
  Proof. reflexivity. Qed.

  (** the code BEFORE fix C16-planner-replay-rename *)
  Definition Planner_plan_before_fix (q : option bytes) (mode : N) (dev user : bytes)
             (objs : list bytes) (cur des : list rtab) : plan_res :=
    plan_from modified dev q mode user objs cur des.

  Theorem before_fix_rejects_iff q mode dev user objs cur des :
    dev <> [] -> user <> [] ->
    let cs := schema_diff modified dev user objs cur des in
    ((exists r, Planner_plan_before_fix (Some q) mode dev user objs cur des = PRejected r) <->
     (dev <> user /\ existsb is_drop cs = true /\ existsb is_addmod cs = true)).
  Proof.
    intros Hd Hu cs. unfold Planner_plan_before_fix, plan_from. fold cs.
    pose proof (schema_diff_shape modified dev user objs cur des) as S. fold cs in S.
    pose proof (replay_scope_iff dev user cs (Some q) mode S Hd Hu) as K.
    destruct cs as [|c cs'] eqn:E.
    - split; [intros [r H]; discriminate|]. intros (_ & H & _). discriminate.
    - rewrite <- E in *. clear E.
      destruct (CheckChangesScope (Some q) mode cs) eqn:R.
      + split; [intros [r H]; discriminate|]. intros (N & D & A).
        destruct K as [K _]. specialize (K eq_refl). destruct K as [K|[K|K]]; congruence.
      + split; [intros _|eexists; reflexivity].
        destruct (bytes_eq_dec dev user) as [e|n]; [exfalso; assert (X : EModifyNotAllowed = SOk) by (apply K; tauto); discriminate|].
        destruct (existsb is_drop cs) eqn:D; [|exfalso; assert (X : EModifyNotAllowed = SOk) by (apply K; tauto); discriminate].
        destruct (existsb is_addmod cs) eqn:A; [|exfalso; assert (X : EModifyNotAllowed = SOk) by (apply K; tauto); discriminate].
        tauto.
      + split; [intros _|eexists; reflexivity].
        destruct (bytes_eq_dec dev user) as [e|n]; [exfalso; assert (X : EModifyOther = SOk) by (apply K; tauto); discriminate|].
        destruct (existsb is_drop cs) eqn:D; [|exfalso; assert (X : EModifyOther = SOk) by (apply K; tauto); discriminate].
        destruct (existsb is_addmod cs) eqn:A; [|exfalso; assert (X : EModifyOther = SOk) by (apply K; tauto); discriminate].
        tauto.
      + split; [intros _|eexists; reflexivity].
        destruct (bytes_eq_dec dev user) as [e|n]; [exfalso; assert (X : ESchemaChange = SOk) by (apply K; tauto); discriminate|].
        destruct (existsb is_drop cs) eqn:D; [|exfalso; assert (X : ESchemaChange = SOk) by (apply K; tauto); discriminate].
        destruct (existsb is_addmod cs) eqn:A; [|exfalso; assert (X : ESchemaChange = SOk) by (apply K; tauto); discriminate].
        tauto.
      + split; [intros _|eexists; reflexivity].
        destruct (bytes_eq_dec dev user) as [e|n0]; [exfalso; assert (X : EMulti n = SOk) by (apply K; tauto); discriminate|].
        destruct (existsb is_drop cs) eqn:D; [|exfalso; assert (X : EMulti n = SOk) by (apply K; tauto); discriminate].
        destruct (existsb is_addmod cs) eqn:A; [|exfalso; assert (X : EMulti n = SOk) by (apply K; tauto); discriminate].
        tauto.
      + split; [intros _|eexists; reflexivity].
        destruct (bytes_eq_dec dev user) as [e|n]; [exfalso; assert (X : SPanic = SOk) by (apply K; tauto); discriminate|].
        destruct (existsb is_drop cs) eqn:D; [|exfalso; assert (X : SPanic = SOk) by (apply K; tauto); discriminate].
        destruct (existsb is_addmod cs) eqn:A; [|exfalso; assert (X : SPanic = SOk) by (apply K; tauto); discriminate].
        tauto.
  Qed.
End Planner.

(** * The witness: history [CREATE t1; CREATE t2], next state {t2, t3} *)
Definition n_dev : bytes := [100; 101; 118].     (* dev *)
Definition n_app : bytes := [97; 112; 112].      (* app *)
Definition t1 := mkRT [116; 49] false.
Definition t2 := mkRT [116; 50] false.
Definition t3 := mkRT [116; 51] false.
Definition never (_ _ : rtab) := false.
Lemma replay_witness :
  Planner_plan never (Some []) 0 n_dev n_app [] [t1; t2] [t2; t3] = PPlanned /\
  Planner_plan_before_fix never (Some []) 0 n_dev n_app [] [t1; t2] [t2; t3] = PRejected (EMulti 2) /\
  Planner_plan_before_fix never (Some []) 0 n_app n_app [] [t1; t2] [t2; t3] = PPlanned.
Proof. repeat split; vm_compute; reflexivity. Qed.
