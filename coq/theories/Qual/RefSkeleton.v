(** M-BUILD (3/3) -- reference skeletons of the MySQL and PostgreSQL planners: for every
    planned statement (Cmd and each reverse statement) WHICH table / type / sequence /
    index references it writes, in order, and THROUGH WHICH qualifying call.  A hand
    abstraction (its agreement with the code is checked by the tie, stage [skel]); no proofs.

    Go code followed:
      sql/mysql/migrate_oss.go    : state.{addTable, dropTable, modifyTable, alterTable,
                                    renameTable, fks}, skipAutoChanges
      sql/postgres/migrate_oss.go : state.{addTable, dropTable, modifyTable, alterTable, alterColumn,
                                    alterType (createDropSeq),
                                    renameTable, addComments, tableComment, columnComment,
                                    indexComment, dropIndexes, addIndexes, alterEnum, fks,
                                    createDropEnum, enumIdent}, topLevel (RenameObject),
                                    skipAutoChanges, dropConst
      sql/postgres/driver_oss.go  : state.{addObject, dropObject, modifyObject}

    Modelled fragment (the tie generates exactly this):
      top level : AddTable, DropTable, RenameTable; PG: AddObject / DropObject / ModifyObject
                  (values appended) / RenameObject of enum types
                  (code with the C16 repairs: enumIdent in RenameObject, schemaPrefix for every DROP INDEX)
      ModifyTable sub-changes : AddColumn, DropColumn, ModifyColumn (type incl. enum and
                  int -> serial with its sequence statements, null, default, comment), RenameColumn,
                  AddIndex, DropIndex, ModifyIndex, RenameIndex, AddForeignKey, DropForeignKey,
                  ModifyForeignKey, AddCheck, DropCheck, ModifyCheck, Add/Drop/ModifyPrimaryKey,
                  AddAttr / ModifyAttr of a table comment
    Not modelled: keywords, plain identifiers (columns, constraint names, new names), literals
    (round 5: the sequence reference inside nextval('...') is [RLit]; serial -> other type
    changes, inspected SequenceName are modelled); generated columns; identity attributes write no reference; statement ORDER between changes
    (DetachCycles / SortChanges are M-SORT): statements are compared as a multiset. *)
From Coq Require Import List NArith Bool.
From Atlas Require Import Base.Bytes Qual.Builder.
Import ListNotations.
Open Scope N_scope.

(** * References *)
Inductive ref :=
| RTable (t : obj)                               (* Builder.Table *)
| RTableRes (t : obj) (r : bytes)                (* Builder.TableResource *)
| RSchemaRes (s : option bytes) (n : bytes)      (* Builder.SchemaResource *)
| RType (ns : option bytes) (n : bytes)          (* state.typeIdent *)
| RPrefixed (ns : option bytes) (n : bytes)      (* state.schemaPrefix(ns) + Ident(n) / %q *)
| RPrefixedCol (ns : option bytes) (t c : bytes) (* state.schemaPrefix(ns) + %q.%q (OWNED BY) *)
| RBare (n : bytes)                              (* Builder.Ident of an EXISTING object: no qualifying call
                                                    (no statement form uses it: RefSkeletonProofs) *)
| RNew (n : bytes)                               (* Builder.Ident of a NEW name (ALTER TYPE ... RENAME TO n):
                                                    a definition, bare by SQL syntax, not a reference *)
| RRaw (n : bytes)                               (* round 5: a type name written RAW -- FormatType's text through
                                                    Builder.P: no quoting, no qualifying call.  No statement form
                                                    writes it since fix C16-serial-enum-type-ident (before it:
                                                    alterType, "sequence was dropped" arm, serial -> enum; see
                                                    RefSkeletonProofs alter_type_refs_before_fix) *)
| RLit (ns : option bytes) (n : bytes).          (* round 5: state.schemaPrefix(ns) + %q INSIDE a string literal:
                                                    alterType, SET DEFAULT nextval('<prefix>"<seq>"') *)

(* the identifier chain a reference is written as under qualifier [q] *)
Definition ref_chain (q : option bytes) (r : ref) : list bytes :=
  match r with
  | RTable t => chain_of q (o_schema t) (o_name t) []
  | RTableRes t c => chain_of q (o_schema t) (o_name t) [c]
  | RSchemaRes s n => chain_of q s n []
  | RType ns n => qual_prefix q ns ++ [n]
  | RPrefixed ns n => qual_prefix q ns ++ [n]
  | RPrefixedCol ns t c => qual_prefix q ns ++ [t; c]
  | RBare n => [n]
  | RNew n => [n]
  | RRaw n => [n]
  | RLit ns n => qual_prefix q ns ++ [n]
  end.
(* written inside a string literal (the harness reads these out of the literals of the statement) *)
Definition in_literal (r : ref) : bool := match r with RLit _ _ => true | _ => false end.
(* written as a quoted identifier chain (what the tokenizer observes as a chain) *)
Definition quoted_chain (r : ref) : bool := match r with RLit _ _ | RRaw _ => false | _ => true end.

Record stmt := mkStmt { s_rev : bool; s_head : bytes; s_refs : list ref }.

(** * Descriptors of the planner input (what the references depend on) *)
Record col := mkCol { c_name : bytes; c_enum : option (option bytes * bytes); c_comment : bool }.
Record idx := mkIdx { i_name : bytes; i_cols : list bytes; i_uconst : bool; i_comment : bool }.
Record fk := mkFk { f_cols : list bytes; f_ref : obj }.
Record tab := mkTab {
  t_obj : obj; t_cols : list col; t_idx : list idx; t_fks : list fk; t_comment : bool
}.

Inductive sub :=
| AddColumn (c : col) | DropColumn (c : col) | RenameColumn
| AddIndex (i : idx) | DropIndex (i : idx) | RenameIndex (from to : bytes)
| AddForeignKey (f : fk) | DropForeignKey (f : fk)
| AddCheck (named : bool) | DropCheck | ModifyCheck
| ModifyColumn (to_name : bytes) (from_enum to_enum : option (option bytes * bytes))
               (from_ser to_ser : option bytes) (ty other comment : bool)
    (* ty = ChangeType, other = ChangeNull / ChangeDefault / ChangeAttr (identity), comment = ChangeComment;
       from_ser / to_ser (round 5): the old / new type is a postgres.SerialType, [Some n]: n = its
       SequenceName ([] when not set: a type written by hand; an INSPECTED serial column carries
       the name of the sequence that owns its default, e.g. posts_id_seq) *)
| ModifyIndex (from to : idx) (parts comment : bool)
| ModifyForeignKey (from to : fk)
| AddPrimaryKey | DropPrimaryKey | ModifyPrimaryKey
| TableComment (added : bool).                    (* AddAttr (added) / ModifyAttr of schema.Comment *)

Inductive change :=
| AddTable (t : tab) | DropTable (t : tab) | RenameTable (from to : obj)
| ModifyTable (t : tab) (subs : list sub)
| AddObject (ns : option bytes) (n : bytes) | DropObject (ns : option bytes) (n : bytes)
| ModifyObject (ns : option bytes) (n : bytes) (added : nat)
| RenameObject (ns_from : option bytes) (from : bytes) (ns_to : option bytes) (to : bytes).

(* statement heads (first two keywords), as bytes *)
Definition h_create_table : bytes := [67;82;69;65;84;69;32;84;65;66;76;69].
Definition h_drop_table : bytes := [68;82;79;80;32;84;65;66;76;69].
Definition h_alter_table : bytes := [65;76;84;69;82;32;84;65;66;76;69].
Definition h_rename_table : bytes := [82;69;78;65;77;69;32;84;65;66;76;69].
Definition h_create_index : bytes := [67;82;69;65;84;69;32;73;78;68;69;88].
Definition h_drop_index : bytes := [68;82;79;80;32;73;78;68;69;88].
Definition h_alter_index : bytes := [65;76;84;69;82;32;73;78;68;69;88].
Definition h_comment_on : bytes := [67;79;77;77;69;78;84;32;79;78].
Definition h_create_type : bytes := [67;82;69;65;84;69;32;84;89;80;69].
Definition h_drop_type : bytes := [68;82;79;80;32;84;89;80;69].
Definition h_alter_type : bytes := [65;76;84;69;82;32;84;89;80;69].
Definition h_create_sequence : bytes := [67;82;69;65;84;69;32;83;69;81;85;69;78;67;69].
Definition h_drop_sequence : bytes := [68;82;79;80;32;83;69;81;85;69;78;67;69].

Definition mem (x : bytes) (l : list bytes) : bool := existsb (bytes_eqb x) l.

(* references of a column definition: PG formatType -> enumIdent; MySQL enums are inline *)
Definition col_refs (pg : bool) (c : col) : list ref :=
  if pg then match c_enum c with Some (ns, n) => [RType ns n] | None => [] end else [].
(* fks: REFERENCES Table(fk.RefTable) *)
Definition fk_refs (f : fk) : list ref := [RTable (f_ref f)].

(* a planned change: Cmd statement + its reverse statements *)
Definition cmd (h : bytes) (rs : list ref) : stmt := mkStmt false h rs.
Definition rev_of (s : stmt) : stmt := mkStmt true (s_head s) (s_refs s).

(** * postgres: addIndexes / dropIndexes / comments *)
(* addIndexes: CREATE INDEX name ON Table(t); reverse DROP INDEX schemaPrefix(t.Schema) name *)
Definition pg_drop_index_ref (t : obj) (i : idx) : ref := RPrefixed (o_schema t) (i_name i).
Definition pg_add_index (t : obj) (i : idx) : list stmt :=
  [cmd h_create_index [RTable t]; mkStmt true h_drop_index [pg_drop_index_ref t i]].
Definition pg_drop_index (t : obj) (i : idx) : list stmt :=
  [cmd h_drop_index [pg_drop_index_ref t i]; mkStmt true h_create_index [RTable t]].
Definition both (h : bytes) (rs : list ref) : list stmt := [cmd h rs; mkStmt true h rs].
Definition pg_table_comment (t : obj) : list stmt := both h_comment_on [RTable t].
Definition pg_column_comment (t : obj) (c : col) : list stmt := both h_comment_on [RTableRes t (c_name c)].
Definition pg_index_comment (t : obj) (i : idx) : list stmt := both h_comment_on [RSchemaRes (o_schema t) (i_name i)].

(** * addTable *)
Definition create_table_refs (pg : bool) (t : tab) : list ref :=
  RTable (t_obj t) :: flat_map (col_refs pg) (t_cols t) ++ flat_map fk_refs (t_fks t).

(* the statements addTable appends, as Cmd statements *)
Definition add_table_cmds (pg : bool) (t : tab) : list stmt :=
  cmd h_create_table (create_table_refs pg t) ::
  (if pg then
     flat_map (fun i => if i_uconst i then [] else [cmd h_create_index [RTable (t_obj t)]]) (t_idx t)
     ++ (if t_comment t then [cmd h_comment_on [RTable (t_obj t)]] else [])
     ++ flat_map (fun c => if c_comment c then [cmd h_comment_on [RTableRes (t_obj t) (c_name c)]] else []) (t_cols t)
     ++ flat_map (fun i => if i_comment i then [cmd h_comment_on [RSchemaRes (o_schema (t_obj t)) (i_name i)]] else []) (t_idx t)
   else []).

Definition add_table (pg : bool) (t : tab) : list stmt :=
  cmd h_create_table (create_table_refs pg t) :: mkStmt true h_drop_table [RTable (t_obj t)] ::
  (if pg then
     flat_map (fun i => if i_uconst i then [] else pg_add_index (t_obj t) i) (t_idx t)
     ++ (if t_comment t then pg_table_comment (t_obj t) else [])
     ++ flat_map (fun c => if c_comment c then pg_column_comment (t_obj t) c else []) (t_cols t)
     ++ flat_map (fun i => if i_comment i then pg_index_comment (t_obj t) i else []) (t_idx t)
   else []).

(** * dropTable: Cmd DROP TABLE; reverse = the Cmds of addTable *)
Definition drop_table (pg : bool) (t : tab) : list stmt :=
  cmd h_drop_table [RTable (t_obj t)] ::
  (if pg then map rev_of (add_table_cmds pg t)
   else [mkStmt true h_create_table (create_table_refs pg t)]).

(** * renameTable *)
Definition rename_table (pg : bool) (from to : obj) : list stmt :=
  let h := if pg then h_alter_table else h_rename_table in
  [cmd h [RTable from; RTable to]; mkStmt true h [RTable to; RTable from]].

(** * modifyTable *)
Definition dropped_cols (subs : list sub) : list bytes :=
  flat_map (fun s => match s with DropColumn c => [c_name c] | _ => [] end) subs.

(* skipAutoChanges.  MySQL: a DropIndex is skipped when ALL its parts' columns are dropped;
   PG: when ANY is, and a DropForeignKey when any of its columns is. *)
Definition skip_auto (pg : bool) (subs : list sub) : list sub :=
  let dc := dropped_cols subs in
  filter (fun s =>
    match s with
    | DropIndex i =>
        if pg then negb (existsb (fun c => mem c dc) (i_cols i))
        else existsb (fun c => negb (mem c dc)) (i_cols i)
    | DropForeignKey f => if pg then negb (existsb (fun c => mem c dc) (f_cols f)) else true
    | _ => true
    end) subs.

Definition us : bytes := [95].                      (* "_" *)
Definition seq_suffix : bytes := [95;115;101;113].  (* "_seq" *)
Definition seq_name (t c : bytes) : bytes := t ++ us ++ c ++ seq_suffix.
(* sql/postgres/inspect_oss.go SerialType.sequence(t, c):
   if s.SequenceName != "" { return s.SequenceName }; return <table>_<column>_seq *)
Definition SerialType_sequence (sn t c : bytes) : bytes :=
  match sn with [] => seq_name t c | _ => sn end.

(* alterType (sql/postgres/migrate_oss.go), references of the ALTER COLUMN clause(s) of a type change
   of column [c] of table [o] towards (enum [te], serial [ts]) from serial [fs]:
     fromHas && !toHas : DROP DEFAULT [, ALTER COLUMN c TYPE enumIdent(To) | FormatType(To)]
                                                          (enumIdent since fix C16-serial-enum-type-ident)
     !fromHas && toHas : SET DEFAULT nextval('<schemaPrefix(t.Schema)>%q')        -- in a literal
     fromHas && toHas  : TYPE <integer type>                                       -- none
     default           : TYPE enumIdent(To) | FormatType(To) *)
Definition alter_type_refs (o : obj) (c : bytes) (te : option (option bytes * bytes))
                           (fs ts : option bytes) : list ref :=
  match fs, ts with
  | Some _, None => match te with Some (ns, n) => [RType ns n] | None => [] end
  | None, Some sn => [RLit (o_schema o) (SerialType_sequence sn (o_name o) c)]
  | Some _, Some _ => []
  | None, None => match te with Some (ns, n) => [RType ns n] | None => [] end
  end.

(* references an ALTER TABLE clause writes, and those of its reverse clause *)
Definition alter_fwd (pg : bool) (o : obj) (s : sub) : list ref :=
  match s with
  | AddColumn c => col_refs pg c
  | AddForeignKey f => fk_refs f
  | ModifyColumn c _ te fs ts ty _ _ => if pg && ty then alter_type_refs o c te fs ts else []
  | _ => []
  end.
Definition alter_bwd (pg : bool) (o : obj) (s : sub) : list ref :=
  match s with
  | DropColumn c => col_refs pg c
  | DropForeignKey f => fk_refs f
  | ModifyColumn c fe _ fs ts ty _ _ =>       (* reverse ModifyColumn{From: To, To: From} *)
      if pg && ty then alter_type_refs o c fe ts fs else []
  | _ => []
  end.
(* an unnamed CHECK; mysql: an added table attribute (the AddAttr arm of alterTable clears [reversible],
   fix C17-mysql-table-attr-reverse; in postgres a table comment never reaches alterTable) *)
Definition irreversible (s : sub) : bool :=
  match s with AddCheck false => true | TableComment true => true | _ => false end.

(* postgres alterTable: sort.SliceStable, constraint drops first *)
Definition dropConst (s : sub) : bool :=
  match s with DropIndex _ | DropForeignKey _ | DropCheck | DropPrimaryKey => true | _ => false end.
Definition pg_sorted (l : list sub) : list sub := filter dropConst l ++ filter (fun s => negb (dropConst s)) l.

Definition alter_stmts (pg : bool) (o : obj) (head : ref) (l : list sub) : list stmt :=
  match l with
  | [] => []
  | _ =>
      cmd h_alter_table (head :: flat_map (alter_fwd pg o) l) ::
      (if existsb irreversible l then []
       else [mkStmt true h_alter_table (head :: flat_map (alter_bwd pg o) (rev l))])
  end.

(* mysql modifyTable: two ALTER TABLE SchemaResource(t.Schema, name) statements: first the drops
   a ModifyForeignKey / ModifyIndex is split into, then everything else *)
Definition mysql_group0 (s : sub) : list sub :=
  match s with
  | ModifyForeignKey from _ => [DropForeignKey from; DropIndex (mkIdx [] [] false false)]
      (* + DropIndex{Name: From.Symbol} (Change.Is(ChangeRefTable|ChangeRefColumn)) *)
  | ModifyIndex from _ _ _ => [DropIndex from]
  | _ => []
  end.
Definition mysql_group1 (s : sub) : sub :=
  match s with
  | ModifyForeignKey _ to => AddForeignKey to
  | ModifyIndex _ to _ _ => AddIndex to
  | s => s
  end.
Definition mysql_modify_table (t : tab) (subs : list sub) : list stmt :=
  let head := RSchemaRes (o_schema (t_obj t)) (o_name (t_obj t)) in
  let l := skip_auto false subs in
  alter_stmts false (t_obj t) head (flat_map mysql_group0 l) ++ alter_stmts false (t_obj t) head (map mysql_group1 l).

(* postgres modifyTable: what each sub-change appends to the [alter] list *)
Definition pg_alter_items (s : sub) : list sub :=
  match s with
  | AddColumn _ | DropColumn _ | AddForeignKey _ | DropForeignKey _ | AddCheck _ | DropCheck
  | ModifyCheck | AddPrimaryKey | DropPrimaryKey => [s]
  | AddIndex i | DropIndex i => if i_uconst i then [s] else []
  | ModifyPrimaryKey => [DropPrimaryKey; AddPrimaryKey]
  | ModifyIndex from to parts _ =>
      if parts then (if i_uconst from then [DropIndex from] else []) ++ (if i_uconst to then [AddIndex to] else [])
      else []
  | ModifyForeignKey from to => [DropForeignKey from; AddForeignKey to]
  | ModifyColumn _ _ _ _ _ ty other _ => if ty || other then [s] else []
  | _ => []
  end.


(* alterType, createDropSeq(st): seq = schemaPrefix(t.Schema) + %q of st.sequence(t, c.To);
     create = CREATE SEQUENCE IF NOT EXISTS <seq> OWNED BY <prefix>%q.%q (t.Name, c.To.Name)
     drop   = DROP SEQUENCE IF EXISTS <seq>
   "sequence was added"   (int -> serial): changeGroup.before += {Cmd: create, Reverse: drop}
   "sequence was dropped" (serial -> int): changeGroup.after  += {Cmd: drop, Reverse: create}
   (the reverse ALTER TABLE is built with a throw-away changeGroup: its before / after are lost) *)
Definition seq_create_refs (o : obj) (sn c : bytes) : list ref :=
  [RPrefixed (o_schema o) (SerialType_sequence sn (o_name o) c); RPrefixedCol (o_schema o) (o_name o) c].
Definition seq_drop_refs (o : obj) (sn c : bytes) : list ref :=
  [RPrefixed (o_schema o) (SerialType_sequence sn (o_name o) c)].
Definition pg_sequence_before (o : obj) (s : sub) : list stmt :=
  match s with
  | ModifyColumn c _ _ None (Some sn) true _ _ =>
      [cmd h_create_sequence (seq_create_refs o sn c); mkStmt true h_drop_sequence (seq_drop_refs o sn c)]
  | _ => []
  end.
Definition pg_sequence_after (o : obj) (s : sub) : list stmt :=
  match s with
  | ModifyColumn c _ _ (Some sn) None true _ _ =>
      [cmd h_drop_sequence (seq_drop_refs o sn c); mkStmt true h_create_sequence (seq_create_refs o sn c)]
  | _ => []
  end.

Definition pg_modify_table (t : tab) (subs : list sub) : list stmt :=
  let o := t_obj t in
  let l := skip_auto true subs in
  let alter := pg_sorted (flat_map pg_alter_items l) in
  flat_map (fun s =>
      match s with
      | DropIndex i => if i_uconst i then [] else pg_drop_index o i
      | ModifyIndex from _ true _ => if i_uconst from then [] else pg_drop_index o from
      | _ => []
      end) l
  ++ flat_map (pg_sequence_before o) alter
  ++ alter_stmts true o (RTable o) alter
  ++ flat_map (pg_sequence_after o) alter
  ++ flat_map (fun s =>
      match s with
      | AddIndex i => if i_uconst i then [] else pg_add_index o i
      | ModifyIndex _ to true _ => if i_uconst to then [] else pg_add_index o to
      | _ => []
      end) l
  ++ flat_map (fun s =>
       match s with
       | TableComment _ => pg_table_comment o
       | AddIndex i => if i_comment i then pg_index_comment o i else []
       | ModifyIndex _ to _ true => pg_index_comment o to
       | AddColumn c => if c_comment c then pg_column_comment o c else []
       | ModifyColumn c _ _ _ _ _ _ true => both h_comment_on [RTableRes o c]
       | RenameColumn => both h_alter_table [RTable o]
       | RenameIndex from to =>
           [cmd h_alter_index [RSchemaRes (o_schema o) from]; mkStmt true h_alter_index [RSchemaRes (o_schema o) to]]
       | _ => []
       end) l.

(** * enum objects (postgres) *)
Fixpoint repeat_stmt (n : nat) (s : stmt) : list stmt :=
  match n with O => [] | S k => s :: repeat_stmt k s end.

Definition plan_change (pg : bool) (c : change) : list stmt :=
  match c with
  | AddTable t => add_table pg t
  | DropTable t => drop_table pg t
  | RenameTable from to => rename_table pg from to
  | ModifyTable t subs => if pg then pg_modify_table t subs else mysql_modify_table t subs
  | AddObject ns n => [cmd h_create_type [RType ns n]; mkStmt true h_drop_type [RType ns n]]
  | DropObject ns n => [cmd h_drop_type [RType ns n]; mkStmt true h_create_type [RType ns n]]
  | ModifyObject ns n added => repeat_stmt added (cmd h_alter_type [RType ns n])
  | RenameObject nsf from nst to =>   (* ALTER TYPE enumIdent(e1) RENAME TO Ident(e2.T) *)
      [cmd h_alter_type [RType nsf from; RNew to]; mkStmt true h_alter_type [RType nst to; RNew from]]
  end.

Definition plan_skel (pg : bool) (cs : list change) : list stmt := flat_map (plan_change pg) cs.

(* the observable: per statement, its direction, head and reference chains under [q] *)
Definition stmt_chains (q : option bytes) (s : stmt) : bool * bytes * list (list bytes) :=
  (s_rev s, s_head s, map (ref_chain q) (s_refs s)).
Definition plan_chains (pg : bool) (q : option bytes) (cs : list change) :=
  map (stmt_chains q) (plan_skel pg cs).

(* round 5, the observable of stages [skel] / [insp]: the chains written as identifiers and the
   chains written inside string literals (nextval('...')) are observed separately *)
Definition stmt_obs (q : option bytes) (s : stmt) : bool * bytes * list (list bytes) * list (list bytes) :=
  (s_rev s, s_head s,
   map (ref_chain q) (filter quoted_chain (s_refs s)),
   map (ref_chain q) (filter in_literal (s_refs s))).
Definition plan_obs (pg : bool) (q : option bytes) (cs : list change) :=
  map (stmt_obs q) (plan_skel pg cs).
