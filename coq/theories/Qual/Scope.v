(** M-BUILD (2/3) -- executable model of [sqlx.CheckChangesScope]
    (sql/internal/sqlx/plan.go, as fixed by f5aa118 and by the C16 repairs: the enum arm
    is guarded by [t.Schema != nil && t.Schema.Name != ""], RenameTable records the schemas
    of both ends) and of [migrate.PlanMode.Is] (sql/migrate/migrate.go).
    No proofs here.

    Representation:
    * a [*schema.Schema] read through [.Name] only is an [option bytes] ([None] = nil).
    * a table is its schema and, per column, whether the column type is an
      [*schema.EnumType] and then the enum's schema.
    * every change kind that falls into the [default: continue] arm
      (AddObject/DropObject/ModifyObject/RenameObject, views, functions, ...) is [COther ns] where [ns]
      lists the schema names that change mentions (CheckChangesScope never looks at them;
      the specification in Props_C16 does).
    * [names] (a Go map used as a set) is a duplicate-free list; only its size is read.
    * the error is an enum; [EMulti n] carries the [%d] of the last error text. *)
From Coq Require Import List NArith Bool.
From Atlas Require Import Base.Bytes Qual.Builder.
Import ListNotations.
Open Scope N_scope.

Inductive coltype :=
| TEnum (eschema : option bytes)
| TPlain.

Record stable := mkST { st_schema : option bytes; st_cols : list coltype }.

Inductive change :=
| CModifySchema (s : option bytes)         (* c.S ; None = nil pointer *)
| CAddSchema | CDropSchema
| CAddTable (t : stable) | CModifyTable (t : stable) | CDropTable (t : stable)
| CRenameTable (from to : option bytes)   (* c.From.Schema, c.To.Schema *)
| COther (mentions : list bytes).

Inductive scope_res :=
| SOk
| EModifyNotAllowed          (* "%T is not allowed when migration plan is scoped to one schema" (ModifySchema) *)
| EModifyOther               (* "modify schema %s is not allowed when migration plan is scoped to schema %s" *)
| ESchemaChange              (* "%T is not allowed ..." (AddSchema / DropSchema) *)
| EMulti (n : N)             (* "found %d schemas when migration plan is scoped to one" *)
| SPanic.                    (* nil-pointer dereference *)

(* migrate.go: PlanMode.Is *)
Definition mode_is (m m1 : N) : bool := N.eqb m m1 || negb (N.eqb (N.land m m1) 0).
Definition PlanModeInPlace : N := 1.

Definition mem (x : bytes) (l : list bytes) : bool := existsb (bytes_eqb x) l.
(* names[x] = struct{}{} *)
Definition add_name (x : bytes) (l : list bytes) : list bytes := if mem x l then l else l ++ [x].

(* the enum arm: for _, c := range t.Columns { ... names[t.Schema.Name] = ... } *)
Fixpoint enum_arm (tschema : option bytes) (cols : list coltype) (names : list bytes) : list bytes :=
  match cols with
  | [] => names
  | TEnum (Some e) :: rest =>
      match tschema with
      | Some tn => if is_nil e || is_nil tn then enum_arm tschema rest names
                   else enum_arm tschema rest (add_name tn names)
      | None => enum_arm tschema rest names
      end
  | _ :: rest => enum_arm tschema rest names
  end.

(* if t.Schema != nil && t.Schema.Name != "" { names[t.Schema.Name] = struct{}{} } *)
Definition schema_arm (s : option bytes) (names : list bytes) : list bytes :=
  match s with
  | Some n => if is_nil n then names else add_name n names
  | None => names
  end.

Definition table_arm (t : stable) (names : list bytes) : list bytes :=
  enum_arm (st_schema t) (st_cols t) (schema_arm (st_schema t) names).

(* plan.go: CheckChangesScope; [q] = opts.SchemaQualifier, [mode] = opts.Mode *)
Fixpoint scope_loop (q : option bytes) (mode : N) (cs : list change) (names : list bytes) : scope_res :=
  match cs with
  | [] => if (1 <? N.of_nat (length names)) then EMulti (N.of_nat (length names)) else SOk
  | c :: rest =>
      match c with
      | CModifySchema s =>
          let scope := match q with Some x => x | None => [] end in   (* V(opts.SchemaQualifier) *)
          if negb (mode_is mode PlanModeInPlace) then EModifyNotAllowed
          else match s with
               | None => SPanic                                        (* c.S.Name *)
               | Some n =>
                   if negb (is_nil scope) && negb (bytes_eqb scope n) then EModifyOther
                   else scope_loop q mode rest (add_name n names)
               end
      | CAddSchema | CDropSchema => ESchemaChange
      | CAddTable t | CModifyTable t | CDropTable t => scope_loop q mode rest (table_arm t names)
      | CRenameTable from to => scope_loop q mode rest (schema_arm to (schema_arm from names))
      | COther _ => scope_loop q mode rest names
      end
  end.

Definition CheckChangesScope (q : option bytes) (mode : N) (cs : list change) : scope_res :=
  scope_loop q mode cs [].
