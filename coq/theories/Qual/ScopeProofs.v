(** Proofs about the model of [sqlx.CheckChangesScope] (code with the C16 repairs): the
    exact acceptance condition of the code, the specification of the property (every schema
    name a change set mentions), that the code never rejects what the property accepts,
    where it still accepts too much (witnesses) and where both agree. *)
From Coq Require Import List NArith Bool Lia Permutation.
From Atlas Require Import Base.Bytes Qual.Builder Qual.BuilderProofs Qual.Scope.
Import ListNotations.
Open Scope N_scope.

(** * Specification: the schema names a change set mentions *)
Definition col_mentions (c : coltype) : list bytes :=
  match c with TEnum e => opt_name e | TPlain => [] end.

Definition table_mentions (t : stable) : list bytes :=
  opt_name (st_schema t) ++ flat_map col_mentions (st_cols t).

Definition mentions (c : change) : list bytes :=
  match c with
  | CModifySchema s => opt_name s
  | CAddTable t | CModifyTable t | CDropTable t => table_mentions t
  | CRenameTable from to => opt_name from ++ opt_name to
  | COther ms => filter (fun m => negb (is_nil m)) ms
  | CAddSchema | CDropSchema => []
  end.

Definition all_mentions (cs : list change) : list bytes := flat_map mentions cs.

Definition distinct (l : list bytes) : nat := length (nodup bytes_eq_dec l).

(* ModifySchema is allowed only for in-place plans, and only on the scoped schema *)
Definition modify_allowed (q : option bytes) (mode : N) (n : bytes) : bool :=
  mode_is mode PlanModeInPlace &&
  (let scope := match q with Some x => x | None => [] end in
   is_nil scope || bytes_eqb scope n).

Definition change_allowed (q : option bytes) (mode : N) (c : change) : bool :=
  match c with
  | CAddSchema | CDropSchema => false
  | CModifySchema (Some n) => modify_allowed q mode n
  | CModifySchema None => false
  | _ => true
  end.

(** the property: accepted iff every change is allowed and at most one schema is named *)
Definition spec_accepts (q : option bytes) (mode : N) (cs : list change) : Prop :=
  forallb (change_allowed q mode) cs = true /\ (distinct (all_mentions cs) <= 1)%nat.

(** * What the code computes *)
Fixpoint names_after (cs : list change) (names : list bytes) : list bytes :=
  match cs with
  | [] => names
  | CModifySchema (Some n) :: rest => names_after rest (add_name n names)
  | (CAddTable t | CModifyTable t | CDropTable t) :: rest => names_after rest (table_arm t names)
  | CRenameTable from to :: rest => names_after rest (schema_arm to (schema_arm from names))
  | _ :: rest => names_after rest names
  end.

Lemma modify_allowed_loop q mode n rest names :
  scope_loop q mode (CModifySchema (Some n) :: rest) names =
  if modify_allowed q mode n then scope_loop q mode rest (add_name n names)
  else if negb (mode_is mode PlanModeInPlace) then EModifyNotAllowed else EModifyOther.
Proof.
  simpl. unfold modify_allowed.
  destruct (mode_is mode PlanModeInPlace); simpl; [|reflexivity].
  destruct (is_nil (match q with Some x => x | None => [] end)); simpl; [reflexivity|].
  destruct (bytes_eqb _ n); reflexivity.
Qed.

Lemma loop_ok q mode cs : forall names,
  scope_loop q mode cs names = SOk <->
  (forallb (change_allowed q mode) cs = true /\ (length (names_after cs names) <= 1)%nat).
Proof.
  induction cs as [|c cs IH]; intros names.
  - simpl. destruct (1 <? N.of_nat (length names)) eqn:E.
    + apply N.ltb_lt in E. split; [discriminate|]. intros [_ H]. lia.
    + apply N.ltb_ge in E. split; [|reflexivity]. intros _. split; [reflexivity|lia].
  - destruct c as [s| | |t|t|t|from to|ms].
    + destruct s as [n|].
      * rewrite modify_allowed_loop. cbn [forallb change_allowed names_after].
        destruct (modify_allowed q mode n); simpl.
        -- apply IH.
        -- split; [destruct (negb _); discriminate|intros [H _]; discriminate].
      * cbn [forallb change_allowed]. simpl. split.
        -- destruct (negb _); discriminate.
        -- intros [H _]. discriminate.
    + simpl. split; [discriminate|intros [H _]; discriminate].
    + simpl. split; [discriminate|intros [H _]; discriminate].
    + simpl. apply IH.
    + simpl. apply IH.
    + simpl. apply IH.
    + simpl. apply IH.
    + simpl. apply IH.
Qed.

(** the code's exact acceptance condition (no hypothesis) *)
Theorem check_accepts_iff q mode cs :
  CheckChangesScope q mode cs = SOk <->
  (forallb (change_allowed q mode) cs = true /\ (length (names_after cs []) <= 1)%nat).
Proof. apply loop_ok. Qed.

(** no panic when every ModifySchema carries a schema *)
Definition no_nil_schema (cs : list change) : Prop :=
  Forall (fun c => c <> CModifySchema None) cs.

Lemma loop_no_panic q mode cs : no_nil_schema cs -> forall names, scope_loop q mode cs names <> SPanic.
Proof.
  induction 1 as [|c cs Hc _ IH]; intros names.
  - simpl. destruct (_ <? _); discriminate.
  - destruct c as [s| | |t|t|t|from to|ms]; try (simpl; apply IH); try (simpl; discriminate).
    destruct s as [n|]; [|congruence].
    rewrite modify_allowed_loop. destruct (modify_allowed _ _ _); [apply IH|].
    destruct (negb _); discriminate.
Qed.

(** * Sets as duplicate-free lists *)
Lemma mem_In x l : mem x l = true <-> In x l.
Proof.
  unfold mem. rewrite existsb_exists. split.
  - intros (y & Hy & E). apply bytes_eqb_eq in E. subst. exact Hy.
  - intros H. exists x. split; [exact H|apply bytes_eqb_refl].
Qed.

Lemma add_name_In x l y : In y (add_name x l) <-> y = x \/ In y l.
Proof.
  unfold add_name. destruct (mem x l) eqn:E.
  - apply mem_In in E. split; [auto|]. intros [->|H]; auto.
  - rewrite in_app_iff. simpl. split; [intros [H|[H|[]]]; auto|intros [H|H]; auto].
Qed.

Lemma add_name_NoDup x l : NoDup l -> NoDup (add_name x l).
Proof.
  intros H. unfold add_name. destruct (mem x l) eqn:E; [exact H|].
  assert (~ In x l) by (intros C; apply mem_In in C; congruence).
  eapply Permutation_NoDup; [apply Permutation_cons_append|]. constructor; assumption.
Qed.

Lemma set_length (a b : list bytes) :
  NoDup a -> NoDup b -> (forall x, In x a <-> In x b) -> length a = length b.
Proof. intros Ha Hb H. apply Permutation_length. apply NoDup_Permutation; assumption. Qed.

Lemma distinct_set l a : NoDup a -> (forall x, In x a <-> In x l) -> length a = distinct l.
Proof.
  intros Ha H. unfold distinct. apply set_length; [exact Ha|apply NoDup_nodup|].
  intros x. rewrite nodup_In. apply H.
Qed.

Lemma distinct_subset l a : NoDup a -> (forall x, In x a -> In x l) -> (length a <= distinct l)%nat.
Proof.
  intros Ha H. unfold distinct. apply NoDup_incl_length; [exact Ha|].
  intros x Hx. apply nodup_In. apply H. exact Hx.
Qed.

(** * The arms *)
Lemma schema_arm_In s names y : In y (schema_arm s names) <-> In y names \/ In y (opt_name s).
Proof.
  unfold schema_arm, opt_name. destruct s as [n|]; simpl; [|tauto].
  destruct n as [|c n]; simpl; [tauto|]. rewrite add_name_In. intuition congruence.
Qed.

Lemma schema_arm_NoDup s names : NoDup names -> NoDup (schema_arm s names).
Proof.
  intros H. unfold schema_arm. destruct s as [n|]; [|exact H].
  destruct (is_nil n); [exact H|apply add_name_NoDup; exact H].
Qed.

(* the enum arm only ever (re-)adds the named schema of the table *)
Lemma enum_arm_In ts cols : forall names y,
  In y (enum_arm ts cols names) -> In y names \/ In y (opt_name ts).
Proof.
  induction cols as [|c cols IH]; intros names y H; simpl in H; [auto|].
  destruct c as [[e|]|]; try (apply IH; exact H).
  destruct ts as [tn|]; [|apply IH; exact H].
  destruct (is_nil e || is_nil tn) eqn:E; [apply IH; exact H|].
  apply IH in H. destruct H as [H|H]; [|auto].
  apply add_name_In in H. destruct H as [->|H]; [|auto].
  right. apply orb_false_iff in E as [_ E]. unfold opt_name. rewrite E. left. reflexivity.
Qed.

Lemma enum_arm_incl ts cols : forall names y, In y names -> In y (enum_arm ts cols names).
Proof.
  induction cols as [|c cols IH]; intros names y H; simpl; [exact H|].
  destruct c as [[e|]|]; try (apply IH; exact H).
  destruct ts as [tn|]; [|apply IH; exact H].
  destruct (is_nil e || is_nil tn); apply IH; [exact H|]. apply add_name_In. auto.
Qed.

Lemma enum_arm_NoDup ts cols : forall names, NoDup names -> NoDup (enum_arm ts cols names).
Proof.
  induction cols as [|c cols IH]; intros names H; simpl; [exact H|].
  destruct c as [[e|]|]; try (apply IH; exact H).
  destruct ts as [tn|]; [|apply IH; exact H].
  destruct (is_nil e || is_nil tn); apply IH; [exact H|apply add_name_NoDup; exact H].
Qed.

(* after the repair the enum arm is dead code: the table's schema is already recorded *)
Lemma table_arm_In t names y : In y (table_arm t names) <-> In y names \/ In y (opt_name (st_schema t)).
Proof.
  unfold table_arm. split.
  - intros H. apply enum_arm_In in H. rewrite schema_arm_In in H. tauto.
  - intros H. apply enum_arm_incl. apply schema_arm_In. exact H.
Qed.

Lemma table_arm_NoDup t names : NoDup names -> NoDup (table_arm t names).
Proof. intros H. unfold table_arm. apply enum_arm_NoDup, schema_arm_NoDup, H. Qed.

Lemma names_after_NoDup cs : forall names, NoDup names -> NoDup (names_after cs names).
Proof.
  induction cs as [|c cs IH]; intros names H; simpl; [exact H|].
  destruct c as [[n|]| | |t|t|t|from to|ms]; try (apply IH; exact H).
  - apply IH. apply add_name_NoDup. exact H.
  - apply IH. apply table_arm_NoDup. exact H.
  - apply IH. apply table_arm_NoDup. exact H.
  - apply IH. apply table_arm_NoDup. exact H.
  - apply IH. apply schema_arm_NoDup, schema_arm_NoDup, H.
Qed.

(** * The code never counts a name the change set does not mention *)
(* every ModifySchema carries a named schema ([names[c.S.Name]] records "" otherwise) *)
Definition named_modify (c : change) : Prop :=
  match c with CModifySchema None => False | CModifySchema (Some n) => n <> [] | _ => True end.

Lemma table_mentions_own t y : In y (opt_name (st_schema t)) -> In y (table_mentions t).
Proof. intros H. unfold table_mentions. apply in_or_app. auto. Qed.

Lemma names_after_sub cs : Forall named_modify cs -> forall names y,
  In y (names_after cs names) -> In y names \/ In y (all_mentions cs).
Proof.
  induction 1 as [|c cs Hc _ IH]; intros names y H; simpl in H; [auto|].
  unfold all_mentions in *. simpl. rewrite in_app_iff.
  destruct c as [[n|]| | |t|t|t|from to|ms]; simpl in Hc; try contradiction;
    apply IH in H; try tauto.
  - destruct H as [H|H]; [|tauto]. apply add_name_In in H. destruct H as [->|H]; [|tauto].
    right. left. simpl. destruct n; [congruence|]. left. reflexivity.
  - destruct H as [H|H]; [|tauto]. apply table_arm_In in H. destruct H as [H|H]; [tauto|].
    right. left. apply table_mentions_own, H.
  - destruct H as [H|H]; [|tauto]. apply table_arm_In in H. destruct H as [H|H]; [tauto|].
    right. left. apply table_mentions_own, H.
  - destruct H as [H|H]; [|tauto]. apply table_arm_In in H. destruct H as [H|H]; [tauto|].
    right. left. apply table_mentions_own, H.
  - destruct H as [H|H]; [|tauto]. rewrite !schema_arm_In in H. simpl. rewrite in_app_iff. tauto.
Qed.

(** whatever the property accepts the code accepts: no spurious rejection *)
Theorem scope_sound q mode cs : Forall named_modify cs ->
  spec_accepts q mode cs -> CheckChangesScope q mode cs = SOk.
Proof.
  intros N [A D]. apply check_accepts_iff. split; [exact A|].
  assert (K : (length (names_after cs []) <= distinct (all_mentions cs))%nat).
  { apply distinct_subset.
    - apply names_after_NoDup. constructor.
    - intros x Hx. apply (names_after_sub cs N) in Hx. destruct Hx as [[]|Hx]. exact Hx. }
  lia.
Qed.

(** * Where the code and the property agree *)
(* every enum column that names a schema names the schema of its table *)
Definition enums_local_t (t : stable) : Prop :=
  forall e, In (TEnum (Some e)) (st_cols t) -> e <> [] -> st_schema t = Some e.

Definition local_change (c : change) : Prop :=
  match c with
  | CAddTable t | CModifyTable t | CDropTable t => enums_local_t t
  | COther ms => filter (fun m => negb (is_nil m)) ms = []
  | CModifySchema None => False
  | CModifySchema (Some n) => n <> []
  | _ => True
  end.

Lemma local_named c : local_change c -> named_modify c.
Proof. destruct c as [[n|]| | |t|t|t|from to|ms]; simpl; auto. Qed.

Lemma table_mentions_local t y : enums_local_t t -> In y (table_mentions t) -> In y (opt_name (st_schema t)).
Proof.
  intros L H. unfold table_mentions in H. apply in_app_or in H. destruct H as [H|H]; [exact H|].
  apply in_flat_map in H. destruct H as (c & Hc & Hy).
  destruct c as [[e|]|]; simpl in Hy; try contradiction.
  destruct e as [|c0 e]; simpl in Hy; [contradiction|]. destruct Hy as [<-|[]].
  rewrite (L (c0 :: e) Hc) by discriminate. simpl. left. reflexivity.
Qed.

Lemma names_after_sup cs : Forall local_change cs -> forall names y,
  In y names \/ In y (all_mentions cs) -> In y (names_after cs names).
Proof.
  induction 1 as [|c cs Hc _ IH]; intros names y H; simpl; [unfold all_mentions in H; simpl in H; tauto|].
  unfold all_mentions in *. simpl in H. rewrite in_app_iff in H.
  destruct c as [[n|]| | |t|t|t|from to|ms]; simpl in Hc, H; try contradiction; apply IH.
  - rewrite add_name_In. destruct n as [|c n]; [congruence|]. simpl in H. intuition congruence.
  - tauto.
  - tauto.
  - rewrite table_arm_In. destruct H as [H|[H|H]]; auto. left. right. apply table_mentions_local; assumption.
  - rewrite table_arm_In. destruct H as [H|[H|H]]; auto. left. right. apply table_mentions_local; assumption.
  - rewrite table_arm_In. destruct H as [H|[H|H]]; auto. left. right. apply table_mentions_local; assumption.
  - rewrite !schema_arm_In. rewrite in_app_iff in H. tauto.
  - rewrite Hc in H. simpl in H. tauto.
Qed.

(** on change sets without the two remaining deviations the code decides exactly the property *)
Theorem scope_except q mode cs : Forall local_change cs ->
  (CheckChangesScope q mode cs = SOk <-> spec_accepts q mode cs).
Proof.
  intros L. rewrite check_accepts_iff. unfold spec_accepts.
  assert (N : Forall named_modify cs) by (eapply Forall_impl; [apply local_named|exact L]).
  assert (E : length (names_after cs []) = distinct (all_mentions cs)).
  { apply distinct_set.
    - apply names_after_NoDup. constructor.
    - intros x. split.
      + intros H. apply (names_after_sub cs N) in H. destruct H as [[]|H]. exact H.
      + intros H. apply (names_after_sup cs L). auto. }
  rewrite E. tauto.
Qed.

Lemma local_no_nil cs : Forall local_change cs -> no_nil_schema cs.
Proof.
  intros H. unfold no_nil_schema. eapply Forall_impl; [|exact H].
  intros c Hc E. subst. exact Hc.
Qed.

(** * Where they still differ: witnesses *)
Definition s1 : bytes := [115; 49].   (* "s1" *)
Definition s2 : bytes := [115; 50].   (* "s2" *)

(* a table of s1 with an enum column of s2: two schemas named, accepted (pinned by
   sql/postgres TestPlanChanges/50) *)
Definition w_enum : list change := [CAddTable (mkST (Some s1) [TEnum (Some s2)])].
(* a table of s1 and an object change (AddObject{enum of s2}, ...): accepted (same test:
   its enum object lives in a schema literally called "ignored") *)
Definition w_other : list change := [CAddTable (mkST (Some s1) []); COther [s2]].
(* repaired: a rename across schemas is rejected; a table whose schema has an empty name with
   an enum of s1 next to a table of s1 is accepted *)
Definition w_rename : list change := [CRenameTable (Some s1) (Some s2)].
Definition w_empty : list change :=
  [CAddTable (mkST (Some []) [TEnum (Some s1)]); CAddTable (mkST (Some s1) [])].

Lemma w_enum_facts : CheckChangesScope (Some []) 2 w_enum = SOk /\ distinct (all_mentions w_enum) = 2%nat.
Proof. split; vm_compute; reflexivity. Qed.
Lemma w_other_facts : CheckChangesScope (Some []) 2 w_other = SOk /\ distinct (all_mentions w_other) = 2%nat.
Proof. split; vm_compute; reflexivity. Qed.
Lemma w_repaired_facts :
  CheckChangesScope (Some []) 2 w_rename = EMulti 2 /\ CheckChangesScope (Some []) 2 w_empty = SOk.
Proof. split; vm_compute; reflexivity. Qed.

Definition accepts_too_much : Prop :=
  exists q mode cs, no_nil_schema cs /\ CheckChangesScope q mode cs = SOk /\ ~ spec_accepts q mode cs.

Theorem scope_refuted : accepts_too_much.
Proof.
  exists (Some []), 2, w_enum. destruct w_enum_facts as [A B]. split; [|split; [exact A|]].
  - repeat constructor; discriminate.
  - intros [_ H]. rewrite B in H. lia.
Qed.
