(** Proofs about the reference skeletons: every reference of every statement form goes
    through a qualifying call, hence is written without a
    schema component under qualifier [""] and with exactly [q] under qualifier [q]. *)
From Coq Require Import List NArith Bool.
From Atlas Require Import Base.Bytes Qual.Builder Qual.RefSkeleton.
Import ListNotations.
Open Scope N_scope.

(* a reference to an existing object, as opposed to the new name of a RENAME TO *)
Definition reference (r : ref) : Prop := match r with RNew _ => False | _ => True end.
(* not written through bare Ident, nor raw *)
Definition qualifying (r : ref) : Prop := match r with RBare _ | RRaw _ => False | _ => True end.

(* the names of a reference, without any schema component *)
Definition ref_names (r : ref) : list bytes :=
  match r with
  | RTable t => [o_name t]
  | RTableRes t c => [o_name t; c]
  | RSchemaRes _ n => [n]
  | RType _ n => [n]
  | RPrefixed _ n => [n]
  | RPrefixedCol _ t c => [t; c]
  | RBare n => [n]
  | RNew n => [n]
  | RRaw n => [n]
  | RLit _ n => [n]
  end.
Definition ref_own (r : ref) : option bytes :=
  match r with
  | RTable t | RTableRes t _ => o_schema t
  | RSchemaRes s _ => s
  | RType ns _ | RPrefixed ns _ | RPrefixedCol ns _ _ | RLit ns _ => ns
  | RBare _ | RNew _ | RRaw _ => None
  end.

Lemma ref_chain_cases r : qualifying r -> reference r ->
  ref_chain (Some []) r = ref_names r /\
  (forall q, q <> [] -> ref_chain (Some q) r = q :: ref_names r) /\
  ref_chain None r = opt_name (ref_own r) ++ ref_names r.
Proof.
  intros H R. destruct r; try contradiction; repeat split; try reflexivity;
    intros q Hq; unfold ref_chain, chain_of, qual_prefix; destruct q; try congruence; reflexivity.
Qed.

Definition stmt_ok (s : stmt) : Prop := Forall qualifying (s_refs s).
Definition stmts_ok (l : list stmt) : Prop := Forall stmt_ok l.

Lemma stmts_ok_app a b : stmts_ok a -> stmts_ok b -> stmts_ok (a ++ b).
Proof. intros; apply Forall_app; split; assumption. Qed.

Lemma stmts_ok_flat_map {A} (f : A -> list stmt) l : (forall x, stmts_ok (f x)) -> stmts_ok (flat_map f l).
Proof. intros H. induction l as [|x l IH]; simpl; [constructor|]. apply stmts_ok_app; auto. Qed.

Lemma refs_flat_map {A} (f : A -> list ref) l : (forall x, Forall qualifying (f x)) -> Forall qualifying (flat_map f l).
Proof. intros H. induction l as [|x l IH]; simpl; [constructor|]. apply Forall_app; split; auto. Qed.

Lemma col_refs_ok pg c : Forall qualifying (col_refs pg c).
Proof. unfold col_refs. destruct pg; [|constructor]. destruct (c_enum c) as [[ns n]|]; repeat constructor. Qed.

Lemma fk_refs_ok f : Forall qualifying (fk_refs f).
Proof. repeat constructor. Qed.

Lemma create_table_refs_ok pg t : Forall qualifying (create_table_refs pg t).
Proof.
  unfold create_table_refs. constructor; [exact I|]. apply Forall_app; split.
  - apply refs_flat_map, col_refs_ok.
  - apply refs_flat_map, fk_refs_ok.
Qed.

Ltac ok1 := unfold stmt_ok; simpl; repeat constructor.

Lemma pg_add_index_ok t i : stmts_ok (pg_add_index t i).
Proof. repeat constructor. Qed.
Lemma pg_drop_index_ok t i : stmts_ok (pg_drop_index t i).
Proof. repeat constructor. Qed.

Lemma add_table_ok pg t : stmts_ok (add_table pg t).
Proof.
  unfold add_table. constructor; [apply create_table_refs_ok|]. constructor; [ok1|].
  destruct pg; [|constructor].
  repeat apply stmts_ok_app.
  - apply stmts_ok_flat_map. intros i. destruct (i_uconst i); [constructor|apply pg_add_index_ok].
  - destruct (t_comment t); [ok1|constructor].
  - apply stmts_ok_flat_map. intros c. destruct (c_comment c); [ok1|constructor].
  - apply stmts_ok_flat_map. intros i. destruct (i_comment i); [ok1|constructor].
Qed.

Lemma add_table_cmds_ok pg t : stmts_ok (add_table_cmds pg t).
Proof.
  unfold add_table_cmds. constructor; [apply create_table_refs_ok|].
  destruct pg; [|constructor].
  repeat apply stmts_ok_app.
  - apply stmts_ok_flat_map. intros i. destruct (i_uconst i); [constructor|ok1].
  - destruct (t_comment t); [ok1|constructor].
  - apply stmts_ok_flat_map. intros c. destruct (c_comment c); [ok1|constructor].
  - apply stmts_ok_flat_map. intros i. destruct (i_comment i); [ok1|constructor].
Qed.

Lemma map_rev_of_ok l : stmts_ok l -> stmts_ok (map rev_of l).
Proof. intros H. induction H; simpl; constructor; auto. Qed.

Lemma drop_table_ok pg t : stmts_ok (drop_table pg t).
Proof.
  unfold drop_table. constructor; [ok1|]. destruct pg.
  - apply map_rev_of_ok, add_table_cmds_ok.
  - constructor; [apply create_table_refs_ok|constructor].
Qed.

Lemma enum_ref_ok (e : option (option bytes * bytes)) :
  Forall qualifying (match e with Some (ns, n) => [RType ns n] | None => [] end).
Proof. destruct e as [[ns n]|]; repeat constructor. Qed.

Lemma alter_type_refs_ok o c te fs ts : Forall qualifying (alter_type_refs o c te fs ts).
Proof.
  unfold alter_type_refs. destruct fs as [f|], ts as [t|].
  - constructor.
  - apply enum_ref_ok.
  - repeat constructor.
  - apply enum_ref_ok.
Qed.

Lemma alter_fwd_ok pg o s : Forall qualifying (alter_fwd pg o s).
Proof.
  destruct s; simpl; try constructor; try apply col_refs_ok; try (repeat constructor; fail).
  destruct (pg && ty); [apply alter_type_refs_ok|constructor].
Qed.
Lemma alter_bwd_ok pg o s : Forall qualifying (alter_bwd pg o s).
Proof.
  destruct s; simpl; try constructor; try apply col_refs_ok; try (repeat constructor; fail).
  destruct (pg && ty); [apply alter_type_refs_ok|constructor].
Qed.

Lemma alter_stmts_ok pg o head l : qualifying head -> stmts_ok (alter_stmts pg o head l).
Proof.
  intros H. unfold alter_stmts. destruct l as [|x l]; [constructor|].
  constructor.
  - unfold stmt_ok. cbn [s_refs cmd]. constructor; [exact H|apply refs_flat_map, alter_fwd_ok].
  - destruct (existsb irreversible (x :: l)); [constructor|].
    constructor; [|constructor]. unfold stmt_ok. cbn [s_refs]. constructor; [exact H|apply refs_flat_map, alter_bwd_ok].
Qed.

Lemma pg_modify_table_ok t subs : stmts_ok (pg_modify_table t subs).
Proof.
  unfold pg_modify_table. repeat apply stmts_ok_app.
  - apply stmts_ok_flat_map. intros s. destruct s; try constructor.
    + destruct (i_uconst i); [constructor|apply pg_drop_index_ok].
    + destruct parts; [|constructor]. destruct (i_uconst from); [constructor|apply pg_drop_index_ok].
  - apply stmts_ok_flat_map. intros s. destruct s; try constructor.
    simpl. destruct from_ser, to_ser, ty; repeat constructor.
  - apply alter_stmts_ok. exact I.
  - apply stmts_ok_flat_map. intros s. destruct s; try constructor.
    simpl. destruct from_ser, to_ser, ty; repeat constructor.
  - apply stmts_ok_flat_map. intros s. destruct s; try constructor.
    + destruct (i_uconst i); [constructor|apply pg_add_index_ok].
    + destruct parts; [|constructor]. destruct (i_uconst to); [constructor|apply pg_add_index_ok].
  - apply stmts_ok_flat_map. intros s. destruct s; try constructor; try ok1.
    + destruct (c_comment c); [ok1|constructor].
    + destruct (i_comment i); [ok1|constructor].
    + destruct comment; [ok1|constructor].
    + destruct comment; [ok1|constructor].
Qed.

Lemma mysql_modify_table_ok t subs : stmts_ok (mysql_modify_table t subs).
Proof. unfold mysql_modify_table. apply stmts_ok_app; apply alter_stmts_ok; exact I. Qed.

Lemma repeat_stmt_ok n s : stmt_ok s -> stmts_ok (repeat_stmt n s).
Proof. intros H. induction n; simpl; constructor; auto. Qed.

Lemma plan_change_ok pg c : stmts_ok (plan_change pg c).
Proof.
  destruct c; simpl.
  - apply add_table_ok.
  - apply drop_table_ok.
  - unfold rename_table. repeat constructor.
  - destruct pg; [apply pg_modify_table_ok|apply mysql_modify_table_ok].
  - repeat constructor.
  - repeat constructor.
  - apply repeat_stmt_ok. ok1.
  - repeat constructor.
Qed.

(** no statement form writes a reference through bare Ident *)
Theorem skeleton_refs_qualifying pg cs : stmts_ok (plan_skel pg cs).
Proof.
  unfold plan_skel. induction cs as [|c cs IH]; simpl; [constructor|].
  apply stmts_ok_app; [apply plan_change_ok|exact IH].
Qed.

Theorem skeleton_chains pg cs :
  forall s r, In s (plan_skel pg cs) -> In r (s_refs s) -> reference r ->
  ref_chain (Some []) r = ref_names r /\
  (forall q, q <> [] -> ref_chain (Some q) r = q :: ref_names r) /\
  ref_chain None r = opt_name (ref_own r) ++ ref_names r.
Proof.
  intros s r Hs Hr R. apply ref_chain_cases; [|exact R].
  pose proof (skeleton_refs_qualifying pg cs) as K.
  unfold stmts_ok in K. rewrite Forall_forall in K. specialize (K s Hs).
  unfold stmt_ok in K. rewrite Forall_forall in K. exact (K r Hr).
Qed.


(** round 5, fix C16-serial-enum-type-ident: alterType's "sequence was dropped" arm writes an enum type
    through enumIdent, like the default arm.  BEFORE the fix it wrote FormatType's text -- the raw
    name, neither quoted nor qualified ([RRaw], kept in [ref] for this record only). *)
Definition alter_type_refs_before_fix (o : obj) (c : bytes) (te : option (option bytes * bytes))
                                      (fs ts : option bytes) : list ref :=
  match fs, ts with
  | Some _, None => match te with Some (_, n) => [RRaw n] | None => [] end
  | _, _ => alter_type_refs o c te fs ts
  end.

Lemma serial_to_enum_refs o c ns n sn q :
  alter_type_refs o c (Some (ns, n)) (Some sn) None = [RType ns n] /\
  (q <> [] -> map (ref_chain (Some q)) (alter_type_refs o c (Some (ns, n)) (Some sn) None) = [[q; n]]) /\
  map (ref_chain (Some [])) (alter_type_refs o c (Some (ns, n)) (Some sn) None) = [[n]].
Proof.
  repeat split. intros Hq. simpl. unfold qual_prefix. destruct q; [congruence|reflexivity].
Qed.

Lemma serial_to_enum_refs_before_fix o c ns n sn q :
  alter_type_refs_before_fix o c (Some (ns, n)) (Some sn) None = [RRaw n] /\
  map (ref_chain (Some q)) (alter_type_refs_before_fix o c (Some (ns, n)) (Some sn) None) = [[n]] /\
  ~ qualifying (RRaw n).
Proof. repeat split. intros H. exact H. Qed.

Lemma raw_only_there o c te fs ts n :
  In (RRaw n) (alter_type_refs_before_fix o c te fs ts) -> fs <> None /\ ts = None /\ exists ns, te = Some (ns, n).
Proof.
  unfold alter_type_refs_before_fix, alter_type_refs. destruct fs as [f|], ts as [t|]; simpl;
    try (destruct te as [[ns m]|]; simpl); intros H;
    repeat match goal with H : _ \/ _ |- _ => destruct H as [H|H] end; try contradiction; try discriminate.
  inversion H; subst. split; [discriminate|]. split; [reflexivity|]. exists ns. reflexivity.
Qed.
