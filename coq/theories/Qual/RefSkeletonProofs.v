(** Proofs about the reference skeletons: every reference of every statement form goes
    through a qualifying call, hence is written without a
    schema component under qualifier [""] and with exactly [q] under qualifier [q]. *)
From Coq Require Import List NArith Bool.
From Atlas Require Import Base.Bytes Qual.Builder Qual.RefSkeleton.
Import ListNotations.
Open Scope N_scope.

(* a reference to an existing object, as opposed to the new name of a RENAME TO *)
Definition reference (r : ref) : Prop := match r with RNew _ => False | _ => True end.
(* not written through bare Ident, nor raw *)
Definition qualifying (r : ref) : Prop := match r with RBare _ | RRaw _ => False | _ => True end.

(* round 5: the one statement form that writes a type reference RAW is a column type change between
   a serial type and an enum type (alterType, arm "sequence was dropped": FormatType(To); its reverse for
   enum -> serial).  [sub_ok]: not that form. *)
Definition sub_ok (s : sub) : Prop :=
  match s with
  | ModifyColumn _ fe te fs ts _ _ _ =>
      (fs <> None -> ts = None -> te = None) /\ (ts <> None -> fs = None -> fe = None)
  | _ => True
  end.
Definition change_ok (c : change) : Prop :=
  match c with ModifyTable _ subs => Forall sub_ok subs | _ => True end.

(* the names of a reference, without any schema component *)
Definition ref_names (r : ref) : list bytes :=
  match r with
  | RTable t => [o_name t]
  | RTableRes t c => [o_name t; c]
  | RSchemaRes _ n => [n]
  | RType _ n => [n]
  | RPrefixed _ n => [n]
  | RPrefixedCol _ t c => [t; c]
  | RBare n => [n]
  | RNew n => [n]
  | RRaw n => [n]
  | RLit _ n => [n]
  end.
Definition ref_own (r : ref) : option bytes :=
  match r with
  | RTable t | RTableRes t _ => o_schema t
  | RSchemaRes s _ => s
  | RType ns _ | RPrefixed ns _ | RPrefixedCol ns _ _ | RLit ns _ => ns
  | RBare _ | RNew _ | RRaw _ => None
  end.

Lemma ref_chain_cases r : qualifying r -> reference r ->
  ref_chain (Some []) r = ref_names r /\
  (forall q, q <> [] -> ref_chain (Some q) r = q :: ref_names r) /\
  ref_chain None r = opt_name (ref_own r) ++ ref_names r.
Proof.
  intros H R. destruct r; try contradiction; repeat split; try reflexivity;
    intros q Hq; unfold ref_chain, chain_of, qual_prefix; destruct q; try congruence; reflexivity.
Qed.

Definition stmt_ok (s : stmt) : Prop := Forall qualifying (s_refs s).
Definition stmts_ok (l : list stmt) : Prop := Forall stmt_ok l.

Lemma stmts_ok_app a b : stmts_ok a -> stmts_ok b -> stmts_ok (a ++ b).
Proof. intros; apply Forall_app; split; assumption. Qed.

Lemma stmts_ok_flat_map {A} (f : A -> list stmt) l : (forall x, stmts_ok (f x)) -> stmts_ok (flat_map f l).
Proof. intros H. induction l as [|x l IH]; simpl; [constructor|]. apply stmts_ok_app; auto. Qed.

Lemma refs_flat_map {A} (f : A -> list ref) l : (forall x, Forall qualifying (f x)) -> Forall qualifying (flat_map f l).
Proof. intros H. induction l as [|x l IH]; simpl; [constructor|]. apply Forall_app; split; auto. Qed.

Lemma col_refs_ok pg c : Forall qualifying (col_refs pg c).
Proof. unfold col_refs. destruct pg; [|constructor]. destruct (c_enum c) as [[ns n]|]; repeat constructor. Qed.

Lemma fk_refs_ok f : Forall qualifying (fk_refs f).
Proof. repeat constructor. Qed.

Lemma create_table_refs_ok pg t : Forall qualifying (create_table_refs pg t).
Proof.
  unfold create_table_refs. constructor; [exact I|]. apply Forall_app; split.
  - apply refs_flat_map, col_refs_ok.
  - apply refs_flat_map, fk_refs_ok.
Qed.

Ltac ok1 := unfold stmt_ok; simpl; repeat constructor.

Lemma pg_add_index_ok t i : stmts_ok (pg_add_index t i).
Proof. repeat constructor. Qed.
Lemma pg_drop_index_ok t i : stmts_ok (pg_drop_index t i).
Proof. repeat constructor. Qed.

Lemma add_table_ok pg t : stmts_ok (add_table pg t).
Proof.
  unfold add_table. constructor; [apply create_table_refs_ok|]. constructor; [ok1|].
  destruct pg; [|constructor].
  repeat apply stmts_ok_app.
  - apply stmts_ok_flat_map. intros i. destruct (i_uconst i); [constructor|apply pg_add_index_ok].
  - destruct (t_comment t); [ok1|constructor].
  - apply stmts_ok_flat_map. intros c. destruct (c_comment c); [ok1|constructor].
  - apply stmts_ok_flat_map. intros i. destruct (i_comment i); [ok1|constructor].
Qed.

Lemma add_table_cmds_ok pg t : stmts_ok (add_table_cmds pg t).
Proof.
  unfold add_table_cmds. constructor; [apply create_table_refs_ok|].
  destruct pg; [|constructor].
  repeat apply stmts_ok_app.
  - apply stmts_ok_flat_map. intros i. destruct (i_uconst i); [constructor|ok1].
  - destruct (t_comment t); [ok1|constructor].
  - apply stmts_ok_flat_map. intros c. destruct (c_comment c); [ok1|constructor].
  - apply stmts_ok_flat_map. intros i. destruct (i_comment i); [ok1|constructor].
Qed.

Lemma map_rev_of_ok l : stmts_ok l -> stmts_ok (map rev_of l).
Proof. intros H. induction H; simpl; constructor; auto. Qed.

Lemma drop_table_ok pg t : stmts_ok (drop_table pg t).
Proof.
  unfold drop_table. constructor; [ok1|]. destruct pg.
  - apply map_rev_of_ok, add_table_cmds_ok.
  - constructor; [apply create_table_refs_ok|constructor].
Qed.

Lemma enum_ref_ok (e : option (option bytes * bytes)) :
  Forall qualifying (match e with Some (ns, n) => [RType ns n] | None => [] end).
Proof. destruct e as [[ns n]|]; repeat constructor. Qed.

Lemma alter_type_refs_ok o c te fs ts :
  (fs <> None -> ts = None -> te = None) -> Forall qualifying (alter_type_refs o c te fs ts).
Proof.
  intros H. unfold alter_type_refs. destruct fs as [f|], ts as [t|]; try constructor; try exact I; try constructor.
  - rewrite (H ltac:(discriminate) eq_refl). constructor.
  - apply enum_ref_ok.
Qed.

Lemma alter_fwd_ok pg o s : sub_ok s -> Forall qualifying (alter_fwd pg o s).
Proof.
  intros K. destruct s; simpl; try constructor; try apply col_refs_ok; try (repeat constructor; fail).
  destruct (pg && ty); [apply alter_type_refs_ok; exact (proj1 K)|constructor].
Qed.
Lemma alter_bwd_ok pg o s : sub_ok s -> Forall qualifying (alter_bwd pg o s).
Proof.
  intros K. destruct s; simpl; try constructor; try apply col_refs_ok; try (repeat constructor; fail).
  destruct (pg && ty); [apply alter_type_refs_ok; exact (proj2 K)|constructor].
Qed.

Lemma refs_flat_map_in {A} (f : A -> list ref) (P : A -> Prop) l :
  Forall P l -> (forall x, P x -> Forall qualifying (f x)) -> Forall qualifying (flat_map f l).
Proof.
  intros HP H. induction HP as [|x l Hx Hl IH]; simpl; [constructor|]. apply Forall_app; split; auto.
Qed.

Lemma alter_stmts_ok pg o head l : qualifying head -> Forall sub_ok l -> stmts_ok (alter_stmts pg o head l).
Proof.
  intros H HL. unfold alter_stmts. destruct l as [|x l]; [constructor|].
  constructor.
  - unfold stmt_ok. cbn [s_refs cmd]. constructor; [exact H|].
    apply (refs_flat_map_in _ sub_ok); [exact HL|apply alter_fwd_ok].
  - destruct (existsb irreversible (x :: l)); [constructor|].
    constructor; [|constructor]. unfold stmt_ok. cbn [s_refs]. constructor; [exact H|].
    apply (refs_flat_map_in _ sub_ok); [apply Forall_rev; exact HL|apply alter_bwd_ok].
Qed.

(* the derived sub-change lists keep [sub_ok]: a ModifyColumn is passed on as it is, every other
   generated item is not a ModifyColumn *)
Lemma skip_auto_sub_ok pg subs : Forall sub_ok subs -> Forall sub_ok (skip_auto pg subs).
Proof.
  intros H. unfold skip_auto. rewrite Forall_forall in *. intros x Hx. apply filter_In in Hx. apply H, Hx.
Qed.
Lemma pg_alter_items_sub_ok s : sub_ok s -> Forall sub_ok (pg_alter_items s).
Proof.
  intros H. destruct s; cbn [pg_alter_items];
    repeat match goal with |- context [if ?b then _ else _] => destruct b end;
    cbn [app]; repeat first [apply Forall_nil | apply Forall_cons]; try exact H; exact I.
Qed.
Lemma flat_map_sub_ok (f : sub -> list sub) l :
  (forall s, sub_ok s -> Forall sub_ok (f s)) -> Forall sub_ok l -> Forall sub_ok (flat_map f l).
Proof.
  intros Hf H. induction H as [|x l Hx Hl IH]; simpl; [constructor|]. apply Forall_app; split; auto.
Qed.
Lemma pg_sorted_sub_ok l : Forall sub_ok l -> Forall sub_ok (pg_sorted l).
Proof.
  intros H. unfold pg_sorted. apply Forall_app; split; rewrite Forall_forall in *; intros x Hx;
    apply filter_In in Hx; apply H, Hx.
Qed.
Lemma mysql_group0_sub_ok s : sub_ok s -> Forall sub_ok (mysql_group0 s).
Proof.
  intros H. destruct s; cbn [mysql_group0]; repeat first [apply Forall_nil | apply Forall_cons]; exact I.
Qed.
Lemma mysql_group1_sub_ok s : sub_ok s -> sub_ok (mysql_group1 s).
Proof. intros H. destruct s; simpl; try exact I; exact H. Qed.

Lemma pg_modify_table_ok t subs : Forall sub_ok subs -> stmts_ok (pg_modify_table t subs).
Proof.
  intros HS. unfold pg_modify_table. repeat apply stmts_ok_app.
  - apply stmts_ok_flat_map. intros s. destruct s; try constructor.
    + destruct (i_uconst i); [constructor|apply pg_drop_index_ok].
    + destruct parts; [|constructor]. destruct (i_uconst from); [constructor|apply pg_drop_index_ok].
  - apply stmts_ok_flat_map. intros s. destruct s; try constructor.
    simpl. destruct from_ser, to_ser, ty; repeat constructor.
  - apply alter_stmts_ok; [exact I|].
    apply pg_sorted_sub_ok, flat_map_sub_ok; [apply pg_alter_items_sub_ok|apply skip_auto_sub_ok, HS].
  - apply stmts_ok_flat_map. intros s. destruct s; try constructor.
    simpl. destruct from_ser, to_ser, ty; repeat constructor.
  - apply stmts_ok_flat_map. intros s. destruct s; try constructor.
    + destruct (i_uconst i); [constructor|apply pg_add_index_ok].
    + destruct parts; [|constructor]. destruct (i_uconst to); [constructor|apply pg_add_index_ok].
  - apply stmts_ok_flat_map. intros s. destruct s; try constructor; try ok1.
    + destruct (c_comment c); [ok1|constructor].
    + destruct (i_comment i); [ok1|constructor].
    + destruct comment; [ok1|constructor].
    + destruct comment; [ok1|constructor].
Qed.

Lemma mysql_modify_table_ok t subs : Forall sub_ok subs -> stmts_ok (mysql_modify_table t subs).
Proof.
  intros HS. pose proof (skip_auto_sub_ok false subs HS) as HL.
  unfold mysql_modify_table. apply stmts_ok_app; apply alter_stmts_ok; try exact I.
  - apply flat_map_sub_ok; [apply mysql_group0_sub_ok|exact HL].
  - rewrite Forall_forall in *. intros x Hx. apply in_map_iff in Hx. destruct Hx as [y [<- Hy]].
    apply mysql_group1_sub_ok, HL, Hy.
Qed.

Lemma repeat_stmt_ok n s : stmt_ok s -> stmts_ok (repeat_stmt n s).
Proof. intros H. induction n; simpl; constructor; auto. Qed.

Lemma plan_change_ok pg c : change_ok c -> stmts_ok (plan_change pg c).
Proof.
  intros HC. destruct c; simpl.
  - apply add_table_ok.
  - apply drop_table_ok.
  - unfold rename_table. repeat constructor.
  - destruct pg; [apply pg_modify_table_ok|apply mysql_modify_table_ok]; exact HC.
  - repeat constructor.
  - repeat constructor.
  - apply repeat_stmt_ok. ok1.
  - repeat constructor.
Qed.

(** no statement form writes a reference through bare Ident *)
Theorem skeleton_refs_qualifying pg cs : Forall change_ok cs -> stmts_ok (plan_skel pg cs).
Proof.
  intros H. unfold plan_skel. induction H as [|c cs Hc Hcs IH]; simpl; [constructor|].
  apply stmts_ok_app; [apply plan_change_ok; exact Hc|exact IH].
Qed.

Theorem skeleton_chains pg cs : Forall change_ok cs ->
  forall s r, In s (plan_skel pg cs) -> In r (s_refs s) -> reference r ->
  ref_chain (Some []) r = ref_names r /\
  (forall q, q <> [] -> ref_chain (Some q) r = q :: ref_names r) /\
  ref_chain None r = opt_name (ref_own r) ++ ref_names r.
Proof.
  intros HC s r Hs Hr R. apply ref_chain_cases; [|exact R].
  pose proof (skeleton_refs_qualifying pg cs HC) as K.
  unfold stmts_ok in K. rewrite Forall_forall in K. specialize (K s Hs).
  unfold stmt_ok in K. rewrite Forall_forall in K. exact (K r Hr).
Qed.


(** round 5: the full statement (every change set) is FALSE of the skeleton, as of the code: a column type
    change serial -> enum writes the enum type RAW (FormatType's text, neither quoted nor qualified). *)
Definition w_raw_t : tab := mkTab (mkObj (Some [109]) [116]) [] [] [] false.
Definition w_raw : list change :=
  [ModifyTable w_raw_t [ModifyColumn [99] None (Some (Some [109], [101])) (Some []) None true false false]].
Lemma skeleton_raw_witness :
  exists s, In s (plan_skel true w_raw) /\ In (RRaw [101]) (s_refs s) /\
            ref_chain (Some [113]) (RRaw [101]) = [[101]] /\ ~ Forall change_ok w_raw.
Proof.
  eexists. split; [|split; [|split]].
  - vm_compute. left. reflexivity.
  - vm_compute. right. left. reflexivity.
  - reflexivity.
  - intros H. inversion H as [|c cs Hc _]; subst. simpl in Hc. inversion Hc as [|x l Hx _]; subst.
    destruct Hx as [Hx _]. specialize (Hx ltac:(discriminate) eq_refl). discriminate.
Qed.
