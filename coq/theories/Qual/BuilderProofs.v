(** Proofs about M-BUILD (sqlx.Builder model): what a qualifying call writes, that later
    calls never touch it, and that a requested qualifier makes the output independent of
    the objects' own schemas. *)
From Coq Require Import List NArith ZArith Bool Lia.
From Atlas Require Import Base.Bytes Qual.Builder.
Import ListNotations.
Open Scope N_scope.

Definition nonempty (s : bytes) : Prop := s <> [].

(** * Buffer primitives in terms of [out] *)
Lemma out_WriteByte b c : out (WriteByte b c) = out b ++ [c].
Proof. reflexivity. Qed.

Lemma out_WriteString b s : out (WriteString b s) = out b ++ s.
Proof. unfold out, WriteString; simpl. rewrite rev_app_distr, rev_involutive. reflexivity. Qed.

Lemma is_nil_false s : s <> [] -> is_nil s = false.
Proof. destruct s; [congruence|reflexivity]. Qed.

Lemma Ident_rbuf b s : s <> [] -> rbuf (Ident b s) = SP :: qc b :: rev (escape_ident (qc b) s) ++ qo b :: rbuf b.
Proof. destruct s; [congruence|]. intros _. reflexivity. Qed.

Lemma out_Ident b s : s <> [] -> out (Ident b s) = out b ++ render_ident (qo b) (qc b) s ++ [SP].
Proof.
  intros H. unfold out. rewrite (Ident_rbuf b s H). simpl.
  rewrite rev_app_distr, rev_involutive. simpl. unfold render_ident.
  repeat (rewrite <- app_assoc; simpl). reflexivity.
Qed.

(* fields preserved *)
Ltac cfg_tac := intros; repeat (match goal with |- context [match ?x with _ => _ end] => destruct x end; simpl; auto).

Lemma Ident_cfg b s : qo (Ident b s) = qo b /\ qc (Ident b s) = qc b /\ bschema (Ident b s) = bschema b
  /\ indent (Ident b s) = indent b /\ level (Ident b s) = level b /\ panicked (Ident b s) = panicked b.
Proof. destruct s; simpl; auto 10. Qed.

Lemma rewrite_cfg b c : qo (rewriteLastByte b c) = qo b /\ qc (rewriteLastByte b c) = qc b
  /\ bschema (rewriteLastByte b c) = bschema b.
Proof. unfold rewriteLastByte. destruct (rbuf b); simpl; auto. Qed.

(* rewriting the last byte right after a non-empty Ident *)
Lemma rewrite_after_Ident b s c : s <> [] ->
  rbuf (rewriteLastByte (Ident b s) c) = c :: qc b :: rev (escape_ident (qc b) s) ++ qo b :: rbuf b.
Proof. intros H. unfold rewriteLastByte. rewrite (Ident_rbuf b s H). reflexivity. Qed.

(** * What [mayQualify] writes *)
Definition rrender_ident (o c : N) (n : bytes) : bytes := c :: rev n ++ [o].

Lemma children_fold b o c children r :
  Forall nonempty children -> qo b = o -> qc b = c -> rbuf b = SP :: r ->
  let b' := fold_left (fun b ident => Ident (rewriteLastByte b DOT) ident) children b in
  qo b' = o /\ qc b' = c /\ bschema b' = bschema b /\ indent b' = indent b /\ level b' = level b
  /\ panicked b' = panicked b
  /\ exists r', rbuf b' = SP :: r' /\
       rev r' = rev r ++ concat (map (fun n => DOT :: render_ident o c n) children).
Proof.
  revert b r. induction children as [|n rest IH]; intros b r HF Ho Hc Hr; simpl.
  - repeat split; auto. exists r. split; auto. rewrite app_nil_r. reflexivity.
  - inversion HF as [|? ? Hn HF']; subst.
    set (b1 := Ident (rewriteLastByte b DOT) n).
    assert (Hrb : rbuf (rewriteLastByte b DOT) = DOT :: r).
    { unfold rewriteLastByte. rewrite Hr. reflexivity. }
    assert (Hcfg : qo (rewriteLastByte b DOT) = qo b /\ qc (rewriteLastByte b DOT) = qc b).
    { unfold rewriteLastByte. rewrite Hr. simpl. auto. }
    destruct Hcfg as [Hq1 Hq2].
    assert (Hb1 : rbuf b1 = SP :: qc b :: rev (escape_ident (qc b) n) ++ qo b :: DOT :: r).
    { unfold b1. rewrite Ident_rbuf by exact Hn. rewrite Hq1, Hq2, Hrb. reflexivity. }
    destruct (Ident_cfg (rewriteLastByte b DOT) n) as (E1 & E2 & E3 & E4 & E5 & E6).
    assert (F : bschema (rewriteLastByte b DOT) = bschema b /\ indent (rewriteLastByte b DOT) = indent b
                /\ level (rewriteLastByte b DOT) = level b /\ panicked (rewriteLastByte b DOT) = panicked b).
    { unfold rewriteLastByte. rewrite Hr. simpl. auto. }
    destruct F as (F1 & F2 & F3 & F4).
    specialize (IH b1 (qc b :: rev (escape_ident (qc b) n) ++ qo b :: DOT :: r) HF').
    fold b1 in E1, E2, E3, E4, E5, E6.
    destruct IH as (I1 & I2 & I3 & I4 & I5 & I6 & r' & I7 & I8).
    + rewrite E1. congruence.
    + rewrite E2. congruence.
    + exact Hb1.
    + repeat split; try congruence.
      exists r'. split; [exact I7|]. rewrite I8. simpl.
      rewrite rev_app_distr. simpl. rewrite rev_involutive. unfold render_ident.
      repeat (rewrite <- app_assoc; simpl). reflexivity.
Qed.

Lemma render_chain_cons o c n rest :
  render_chain o c (n :: rest) = render_ident o c n ++ concat (map (fun m => DOT :: render_ident o c m) rest).
Proof.
  revert n. induction rest as [|m rest IH]; intros n.
  - simpl. rewrite app_nil_r. reflexivity.
  - change (render_chain o c (n :: m :: rest)) with (render_ident o c n ++ DOT :: render_chain o c (m :: rest)).
    rewrite IH. reflexivity.
Qed.

(* after the optional schema component, [Ident top] then the children *)
Lemma top_children b top children :
  nonempty top -> Forall nonempty children ->
  let b' := fold_left (fun b ident => Ident (rewriteLastByte b DOT) ident) children (Ident b top) in
  qo b' = qo b /\ qc b' = qc b /\ bschema b' = bschema b /\ indent b' = indent b /\ level b' = level b
  /\ panicked b' = panicked b
  /\ out b' = out b ++ render_chain (qo b) (qc b) (top :: children) ++ [SP].
Proof.
  intros Ht HF.
  destruct (Ident_cfg b top) as (E1 & E2 & E3 & E4 & E5 & E6).
  pose proof (children_fold (Ident b top) (qo b) (qc b) children (qc b :: rev (escape_ident (qc b) top) ++ qo b :: rbuf b) HF E1 E2
                (Ident_rbuf b top Ht)) as H.
  simpl in H. destruct H as (I1 & I2 & I3 & I4 & I5 & I6 & r' & I7 & I8).
  repeat split; try congruence.
  unfold out. rewrite render_chain_cons, I7. cbn [rev]. rewrite I8. cbn [rev].
  rewrite rev_app_distr. cbn [rev]. rewrite rev_involutive. unfold render_ident.
  repeat (rewrite <- app_assoc; cbn [app]). reflexivity.
Qed.

Lemma render_chain_app1 o c q l : l <> [] ->
  render_chain o c (q :: l) = render_ident o c q ++ DOT :: render_chain o c l.
Proof. destruct l; [congruence|reflexivity]. Qed.

(* the schema component: Ident q; rewriteLastByte '.' *)
Lemma qualifier_step b q : nonempty q ->
  let b1 := rewriteLastByte (Ident b q) DOT in
  qo b1 = qo b /\ qc b1 = qc b /\ bschema b1 = bschema b /\ indent b1 = indent b /\ level b1 = level b
  /\ panicked b1 = panicked b
  /\ out b1 = out b ++ render_ident (qo b) (qc b) q ++ [DOT].
Proof.
  intros Hq. simpl.
  pose proof (rewrite_after_Ident b q DOT Hq) as Hr.
  destruct (Ident_cfg b q) as (E1 & E2 & E3 & E4 & E5 & E6).
  unfold rewriteLastByte in *. rewrite (Ident_rbuf b q Hq) in *. simpl in *.
  repeat split; auto.
  unfold out. simpl. rewrite rev_app_distr. simpl. rewrite rev_involutive.
  unfold render_ident. repeat (rewrite <- app_assoc; simpl). reflexivity.
Qed.

Lemma mayQualify_spec b s top children :
  nonempty top -> Forall nonempty children ->
  let b' := mayQualify b s top children in
  qo b' = qo b /\ qc b' = qc b /\ bschema b' = bschema b /\ indent b' = indent b /\ level b' = level b
  /\ panicked b' = panicked b
  /\ out b' = out b ++ render_chain (qo b) (qc b) (chain_of (bschema b) s top children) ++ [SP].
Proof.
  intros Ht HF. unfold mayQualify, chain_of, qual_prefix.
  assert (Q : forall q, nonempty q ->
    let b' := fold_left (fun b ident => Ident (rewriteLastByte b DOT) ident) children
                (Ident (rewriteLastByte (Ident b q) DOT) top) in
    qo b' = qo b /\ qc b' = qc b /\ bschema b' = bschema b /\ indent b' = indent b /\ level b' = level b
    /\ panicked b' = panicked b
    /\ out b' = out b ++ render_chain (qo b) (qc b) ([q] ++ top :: children) ++ [SP]).
  { intros q Hq.
    destruct (qualifier_step b q Hq) as (A1 & A2 & A3 & A4 & A5 & A6 & A7).
    destruct (top_children (rewriteLastByte (Ident b q) DOT) top children Ht HF)
      as (B1 & B2 & B3 & B4 & B5 & B6 & B7).
    cbv zeta. repeat split; try congruence.
    rewrite B7, A7, A1, A2.
    change ([q] ++ top :: children) with (q :: top :: children).
    rewrite (render_chain_app1 _ _ q (top :: children)) by discriminate.
    repeat (rewrite <- app_assoc; cbn [app]). reflexivity. }
  pose proof (top_children b top children Ht HF) as T.
  destruct (bschema b) as [q|] eqn:Eb.
  - destruct q as [|x q]; simpl is_nil; cbv iota.
    + exact T.
    + apply Q. discriminate.
  - destruct s as [n|].
    + destruct n as [|x n]; simpl is_nil; cbv iota.
      * exact T.
      * apply Q. discriminate.
    + exact T.
Qed.

(** * Later calls never touch anything but the last byte *)
Definition extends (r0 r1 : bytes) : Prop :=
  exists pre, r1 = pre ++ tl r0 /\ (r0 <> [] -> pre <> []).

Lemma extends_refl r : extends r r.
Proof.
  destruct r as [|x r].
  - exists []. split; [reflexivity|congruence].
  - exists [x]. split; [reflexivity|discriminate].
Qed.

Lemma extends_trans r0 r1 r2 : extends r0 r1 -> extends r1 r2 -> extends r0 r2.
Proof.
  intros (p1 & E1 & N1) (p2 & E2 & N2).
  destruct r0 as [|x r0].
  - exists r2. split; [simpl; rewrite app_nil_r; reflexivity|congruence].
  - destruct p1 as [|y p1]; [exfalso; apply N1; [discriminate|reflexivity]|].
    subst r1. simpl in E2. exists (p2 ++ p1). split.
    + rewrite E2. simpl. rewrite app_assoc. reflexivity.
    + intros _. destruct p2; [exfalso; apply N2; [discriminate|reflexivity]|discriminate].
Qed.

Lemma extends_cons r c : extends r (c :: r).
Proof.
  destruct r as [|x r].
  - exists [c]. split; [reflexivity|congruence].
  - exists [c; x]. split; [reflexivity|discriminate].
Qed.

Lemma extends_app r s : extends r (s ++ r).
Proof.
  induction s as [|c s IH]; simpl.
  - apply extends_refl.
  - eapply extends_trans; [exact IH|apply extends_cons].
Qed.

Lemma extends_rewrite r c : extends r (match r with [] => [] | _ :: t => c :: t end).
Proof.
  destruct r as [|x r].
  - apply extends_refl.
  - exists [c]. split; [reflexivity|discriminate].
Qed.

Lemma extends_length r0 r1 : extends r0 r1 -> (length r0 <= length r1)%nat.
Proof.
  intros (p & E & Hn). subst. rewrite app_length. destruct r0 as [|x r0]; simpl; [lia|].
  destruct p; [exfalso; apply Hn; [discriminate|reflexivity]|]. simpl. lia.
Qed.

Definition ext (b0 b1 : builder) : Prop := extends (rbuf b0) (rbuf b1).
Lemma ext_length b0 b1 : ext b0 b1 -> (length (rbuf b0) <= length (rbuf b1))%nat.
Proof. apply extends_length. Qed.

Lemma ext_refl b : ext b b. Proof. apply extends_refl. Qed.
Lemma ext_trans a b c : ext a b -> ext b c -> ext a c. Proof. apply extends_trans. Qed.
Lemma ext_WriteByte b c : ext b (WriteByte b c). Proof. apply extends_cons. Qed.
Lemma ext_WriteString b s : ext b (WriteString b s). Proof. apply (extends_app (rbuf b) (rev s)). Qed.
Lemma ext_rewrite b c : ext b (rewriteLastByte b c).
Proof.
  unfold ext, rewriteLastByte. destruct (rbuf b) as [|x r] eqn:E.
  - rewrite E. apply extends_refl.
  - simpl. exists [c]. split; [reflexivity|discriminate].
Qed.
Lemma ext_set_level b l : ext b (set_level b l). Proof. apply extends_refl. Qed.
Lemma ext_set_panic b : ext b (set_panic b). Proof. apply extends_refl. Qed.

Lemma ext_Ident b s : ext b (Ident b s).
Proof.
  destruct s as [|x s]; [apply ext_refl|]. unfold Ident.
  eapply ext_trans; [|apply ext_WriteByte].
  eapply ext_trans; [|apply ext_WriteByte].
  eapply ext_trans; [|apply ext_WriteString]. apply ext_WriteByte.
Qed.

Ltac ext_auto :=
  repeat (first [ apply ext_refl
                | eapply ext_trans; [|apply ext_WriteByte]
                | eapply ext_trans; [|apply ext_WriteString]
                ]).

Lemma ext_P1 b p : ext b (P1 b p).
Proof.
  destruct p as [|x p]; [apply ext_refl|]. unfold P1.
  match goal with |- context [if ?c then WriteByte b SP else b] => destruct c end;
    destruct (N.eqb _ SP); ext_auto.
Qed.

Lemma ext_fold {A} (f : builder -> A -> builder) :
  (forall b a, ext b (f b a)) -> forall l b, ext b (fold_left f l b).
Proof.
  intros H l. induction l as [|a l IH]; intros b; simpl; [apply ext_refl|].
  eapply ext_trans; [apply H|apply IH].
Qed.

Lemma ext_P b ps : ext b (P b ps).
Proof. apply ext_fold. apply ext_P1. Qed.

Lemma ext_mayQualify b s top children : ext b (mayQualify b s top children).
Proof.
  unfold mayQualify.
  set (b1 := match bschema b with Some _ => _ | None => _ end).
  assert (H1 : ext b b1).
  { unfold b1. destruct (bschema b) as [q|].
    - destruct (is_nil q); [apply ext_refl|]. eapply ext_trans; [apply ext_Ident|apply ext_rewrite].
    - destruct s as [n|]; [|apply ext_refl].
      destruct (is_nil n); [apply ext_refl|]. eapply ext_trans; [apply ext_Ident|apply ext_rewrite]. }
  eapply ext_trans; [exact H1|]. eapply ext_trans; [apply ext_Ident|].
  apply ext_fold. intros b0 a. eapply ext_trans; [apply ext_rewrite|apply ext_Ident].
Qed.

Lemma ext_Comma b : ext b (Comma b).
Proof.
  unfold Comma. destruct (is_nil (rbuf b)); [apply ext_refl|].
  destruct (N.eqb _ _).
  - eapply ext_trans; [apply ext_rewrite|apply ext_WriteByte].
  - apply ext_WriteString.
Qed.

Lemma ext_NL b : ext b (NL b).
Proof.
  unfold NL. destruct (is_nil (indent b)); [apply ext_refl|].
  destruct (N.eqb _ _); destruct (level b <? 0)%Z.
  - eapply ext_trans; [apply ext_rewrite|apply ext_set_panic].
  - eapply ext_trans; [apply ext_rewrite|apply ext_WriteString].
  - eapply ext_trans; [apply ext_WriteByte|apply ext_set_panic].
  - eapply ext_trans; [apply ext_WriteByte|apply ext_WriteString].
Qed.

Lemma ext_closeWith b c : ext b (closeWith b c).
Proof. unfold closeWith. destruct (negb _); [apply ext_WriteByte|apply ext_rewrite]. Qed.

Lemma ext_writeArgs args : forall b first, ext b (writeArgs b first args).
Proof.
  induction args as [|a rest IH]; intros b first; simpl; [apply ext_refl|].
  eapply ext_trans; [|apply IH].
  eapply ext_trans; [|apply ext_WriteString].
  destruct first; [apply ext_refl|apply ext_Comma].
Qed.

Lemma ext_run_op b o : ext b (run_op b o).
Proof.
  unfold run_op. destruct (panicked b); [apply ext_refl|].
  destruct o; simpl.
  - apply ext_P.
  - apply ext_Ident.
  - apply ext_mayQualify.
  - unfold RefTable. destruct (cross_ref _ _ _).
    + eapply ext_trans; [|apply ext_Ident]. eapply ext_trans; [apply ext_Ident|apply ext_rewrite].
    + apply ext_mayQualify.
  - apply ext_mayQualify.
  - apply ext_mayQualify.
  - unfold FuncCall. eapply ext_trans; [|apply ext_WriteByte].
    eapply ext_trans; [|apply ext_writeArgs].
    eapply ext_trans; [apply ext_mayQualify|apply ext_rewrite].
  - apply ext_set_level.
  - apply ext_set_level.
  - apply ext_NL.
  - apply ext_Comma.
  - apply ext_WriteByte.
  - apply ext_closeWith.
  - eapply ext_trans; [apply ext_WriteString|apply ext_WriteByte].
  - apply ext_closeWith.
  - apply ext_WriteString.
  - apply ext_WriteByte.
  - unfold ext. simpl. apply extends_refl.
Qed.

Lemma ext_run ops : forall b, ext b (run b ops).
Proof. apply ext_fold. apply ext_run_op. Qed.

(* in terms of [out]: everything but the last byte stays *)
Lemma ext_out b0 b1 x : ext b0 b1 -> forall pre, out b0 = pre ++ [x] -> exists post, out b1 = pre ++ post.
Proof.
  intros (p & E & _) pre H. unfold out in *.
  assert (R : rbuf b0 = x :: rev pre).
  { rewrite <- (rev_involutive (rbuf b0)), H, rev_app_distr. reflexivity. }
  rewrite E, R. simpl. rewrite rev_app_distr, rev_involutive. eauto.
Qed.

(** * Clone is the only call that changes the configuration *)
Fixpoint no_clone (ops : list op) : bool :=
  match ops with [] => true | OClone :: _ => false | _ :: r => no_clone r end.

Lemma P_cfg ps : forall b, qo (P b ps) = qo b /\ qc (P b ps) = qc b /\ bschema (P b ps) = bschema b.
Proof.
  induction ps as [|p ps IH]; intros b; simpl; [auto|].
  destruct (IH (P1 b p)) as (A & B & C). rewrite A, B, C.
  unfold P1. destruct p; [auto|]. destruct (_ && _); destruct (N.eqb _ SP); simpl; auto.
Qed.

Lemma mayQualify_cfg b s top children :
  qo (mayQualify b s top children) = qo b /\ qc (mayQualify b s top children) = qc b
  /\ bschema (mayQualify b s top children) = bschema b.
Proof.
  unfold mayQualify.
  set (b1 := match bschema b with Some _ => _ | None => _ end).
  assert (H1 : qo b1 = qo b /\ qc b1 = qc b /\ bschema b1 = bschema b).
  { unfold b1. destruct (bschema b) as [q|] eqn:E.
    - destruct (is_nil q); [auto|].
      destruct (rewrite_cfg (Ident b q) DOT) as (A & B & C). destruct (Ident_cfg b q) as (D & F & G & _).
      rewrite A, B, C, D, F, G. auto.
    - destruct s as [n|]; [|auto]. destruct (is_nil n); [auto|].
      destruct (rewrite_cfg (Ident b n) DOT) as (A & B & C). destruct (Ident_cfg b n) as (D & F & G & _).
      rewrite A, B, C, D, F, G. auto. }
  destruct H1 as (A1 & A2 & A3).
  destruct (Ident_cfg b1 top) as (D & F & G & _).
  assert (K : forall l b0, let b' := fold_left (fun b ident => Ident (rewriteLastByte b DOT) ident) l b0 in
            qo b' = qo b0 /\ qc b' = qc b0 /\ bschema b' = bschema b0).
  { induction l as [|a l IH]; intros b0; simpl; [auto|].
    destruct (IH (Ident (rewriteLastByte b0 DOT) a)) as (X & Y & Z). rewrite X, Y, Z.
    destruct (rewrite_cfg b0 DOT) as (A & B & C). destruct (Ident_cfg (rewriteLastByte b0 DOT) a) as (D' & F' & G' & _).
    rewrite D', F', G', A, B, C. auto. }
  destruct (K children (Ident b1 top)) as (X & Y & Z). simpl in X, Y, Z.
  rewrite X, Y, Z, D, F, G. auto.
Qed.

Lemma Comma_schema b : bschema (Comma b) = bschema b.
Proof. unfold Comma. destruct (is_nil _); [auto|]. destruct (N.eqb _ _); [|auto].
  simpl. apply (rewrite_cfg b CM). Qed.

Lemma writeArgs_schema args : forall b first, bschema (writeArgs b first args) = bschema b.
Proof.
  induction args as [|a rest IH]; intros b first; simpl; [auto|].
  rewrite IH. simpl. destruct first; [auto|apply Comma_schema].
Qed.

Lemma run_op_schema b o : o <> OClone -> bschema (run_op b o) = bschema b.
Proof.
  intros H. unfold run_op. destruct (panicked b); [auto|].
  destruct o; simpl; try congruence.
  - apply P_cfg.
  - apply Ident_cfg.
  - apply mayQualify_cfg.
  - unfold RefTable. destruct (cross_ref _ _ _); [|apply mayQualify_cfg].
    destruct (Ident_cfg (rewriteLastByte (Ident b (VName (o_schema parentT))) DOT) (o_name parentT)) as (_ & _ & G & _).
    rewrite G. destruct (rewrite_cfg (Ident b (VName (o_schema parentT))) DOT) as (_ & _ & C). rewrite C.
    apply Ident_cfg.
  - apply mayQualify_cfg.
  - apply mayQualify_cfg.
  - unfold FuncCall. simpl. rewrite writeArgs_schema.
    destruct (rewrite_cfg (Table b f) LP) as (_ & _ & C). rewrite C. apply mayQualify_cfg.
  - unfold NL. destruct (is_nil _); [auto|]. destruct (level b <? 0)%Z; simpl;
      destruct (N.eqb _ _); simpl; auto; apply (rewrite_cfg b NLc).
  - apply Comma_schema.
  - unfold closeWith. destruct (negb _); [auto|apply (rewrite_cfg b RP)].
  - unfold closeWith. destruct (negb _); [auto|apply (rewrite_cfg b SQ)].
Qed.

Lemma run_schema ops : forall b, no_clone ops = true -> bschema (run b ops) = bschema b.
Proof.
  induction ops as [|o ops IH]; intros b H; simpl; [auto|].
  assert (o <> OClone /\ no_clone ops = true) as [Ho Hn].
  { destruct o; simpl in H; try (split; [discriminate|exact H]). discriminate. }
  change (run b (o :: ops)) with (run (run_op b o) ops).
  rewrite IH by exact Hn. apply run_op_schema. exact Ho.
Qed.

(** * The chain a qualifying call emits, and that it stays *)
Definition chain_ok (l : list bytes) : Prop := Forall nonempty l.

Lemma run_app b ops1 ops2 : run b (ops1 ++ ops2) = run (run b ops1) ops2.
Proof. apply fold_left_app. Qed.

Lemma app_last_split (l : bytes) : l <> [] -> exists pre x, l = pre ++ [x].
Proof. intros H. destruct (exists_last H) as (pre & x & E). eauto. Qed.

(* what the call itself writes: the rendered chain, then one more byte at least *)
Lemma qualifying_call b o l :
  panicked b = false -> emitted_chain (bschema b) o = Some l ->
  (match o with
   | OTable t => nonempty (o_name t)
   | OTableResource t r => nonempty (o_name t) /\ nonempty r
   | OSchemaResource _ n => nonempty n
   | OFuncCall f _ => nonempty (o_name f)
   | ORefTable _ p => nonempty (o_name p)
   | _ => True
   end) ->
  exists post, post <> [] /\ out (run_op b o) = out b ++ render_chain (qo b) (qc b) l ++ post.
Proof.
  intros Hp He Hn. unfold run_op. rewrite Hp.
  destruct o; simpl in He; try discriminate; injection He as <-.
  - destruct (mayQualify_spec b (o_schema t) (o_name t) [] Hn (Forall_nil _)) as (_ & _ & _ & _ & _ & _ & H).
    exists [SP]. split; [discriminate|exact H].
  - unfold RefTable. destruct (cross_ref (bschema b) childT parentT) eqn:Ex.
    + assert (Hs : nonempty (VName (o_schema parentT))).
      { unfold cross_ref in Ex. destruct (bschema b); [|discriminate].
        destruct (is_nil (VName (o_schema parentT))) eqn:E1.
        - rewrite !andb_true_iff in Ex. destruct Ex as [[[_ _] E] _]. discriminate.
        - intros E. rewrite E in E1. discriminate. }
      destruct (qualifier_step b (VName (o_schema parentT)) Hs) as (A1 & A2 & _ & _ & _ & _ & A7).
      rewrite out_Ident by exact Hn. rewrite A7, A1, A2.
      exists [SP]. split; [discriminate|].
      simpl. unfold render_ident. repeat (rewrite <- app_assoc; simpl). reflexivity.
    + destruct (mayQualify_spec b (o_schema parentT) (o_name parentT) [] Hn (Forall_nil _)) as (_ & _ & _ & _ & _ & _ & H).
      exists [SP]. split; [discriminate|exact H].
  - destruct Hn as [Hn Hr].
    destruct (mayQualify_spec b (o_schema t) (o_name t) [r] Hn (Forall_cons _ Hr (Forall_nil _))) as (_ & _ & _ & _ & _ & _ & H).
    exists [SP]. split; [discriminate|exact H].
  - destruct (mayQualify_spec b s name [] Hn (Forall_nil _)) as (_ & _ & _ & _ & _ & _ & H).
    exists [SP]. split; [discriminate|exact H].
  - unfold FuncCall, Table.
    destruct (mayQualify_spec b (o_schema f) (o_name f) [] Hn (Forall_nil _)) as (_ & _ & _ & _ & _ & _ & H).
    set (l := chain_of (bschema b) (o_schema f) (o_name f) []) in *.
    set (bt := mayQualify b (o_schema f) (o_name f) []) in *.
    assert (E : ext bt (WriteByte (writeArgs (rewriteLastByte bt LP) true args) RP)).
    { eapply ext_trans; [apply ext_rewrite|]. eapply ext_trans; [apply ext_writeArgs|apply ext_WriteByte]. }
    destruct (ext_out _ _ SP E (out b ++ render_chain (qo b) (qc b) l)) as (post & Hpost).
    { rewrite H. rewrite app_assoc. reflexivity. }
    exists post. split.
    + intros ->. rewrite app_nil_r in Hpost.
      pose proof (ext_length _ _ E) as L. unfold out in Hpost, H.
      apply (f_equal (@length N)) in Hpost. apply (f_equal (@length N)) in H.
      rewrite rev_length in Hpost, H. rewrite !app_length in H. simpl in H. rewrite app_length in Hpost. lia.
    + rewrite Hpost. rewrite <- app_assoc. reflexivity.
Qed.

Theorem builder_chain_persists b ops1 o ops2 l :
  let b1 := run b ops1 in
  panicked b1 = false ->
  emitted_chain (bschema b1) o = Some l ->
  (match o with
   | OTable t => nonempty (o_name t)
   | OTableResource t r => nonempty (o_name t) /\ nonempty r
   | OSchemaResource _ n => nonempty n
   | OFuncCall f _ => nonempty (o_name f)
   | ORefTable _ p => nonempty (o_name p)
   | _ => True
   end) ->
  exists post, out (run b (ops1 ++ o :: ops2)) = out b1 ++ render_chain (qo b1) (qc b1) l ++ post.
Proof.
  intros b1 Hp He Hn.
  destruct (qualifying_call b1 o l Hp He Hn) as (post & Hne & Hout).
  rewrite run_app. simpl. fold b1.
  destruct (app_last_split post Hne) as (pre & x & ->).
  destruct (ext_out _ _ x (ext_run ops2 (run_op b1 o)) (out b1 ++ render_chain (qo b1) (qc b1) l ++ pre)) as (post' & H).
  { rewrite Hout. repeat rewrite <- app_assoc. reflexivity. }
  exists (pre ++ post'). unfold run in *. rewrite H. repeat rewrite <- app_assoc. reflexivity.
Qed.

(** * A requested qualifier = every object lives in that schema *)
Definition set_schema (q : bytes) (t : obj) : obj := mkObj (Some q) (o_name t).

Definition requalify (q : bytes) (o : op) : op :=
  match o with
  | OTable t => OTable (set_schema q t)
  | ORefTable c p => if cross_ref (Some q) c p then OTable p else OTable (set_schema q p)
  | OTableResource t r => OTableResource (set_schema q t) r
  | OSchemaResource _ n => OSchemaResource (Some q) n
  | OFuncCall f args => OFuncCall (set_schema q f) args
  | o => o
  end.

Ltac ws := unfold with_schema; simpl.

Lemma ws_WriteByte s b c : WriteByte (with_schema s b) c = with_schema s (WriteByte b c).
Proof. reflexivity. Qed.
Lemma ws_WriteString s b x : WriteString (with_schema s b) x = with_schema s (WriteString b x).
Proof. reflexivity. Qed.
Lemma ws_rewrite s b c : rewriteLastByte (with_schema s b) c = with_schema s (rewriteLastByte b c).
Proof. unfold rewriteLastByte. simpl. destruct (rbuf b); reflexivity. Qed.
Lemma ws_Ident s b x : Ident (with_schema s b) x = with_schema s (Ident b x).
Proof. destruct x; reflexivity. Qed.
Lemma ws_P1 s b p : P1 (with_schema s b) p = with_schema s (P1 b p).
Proof.
  destruct p as [|x p]; [reflexivity|]. unfold P1. simpl rbuf. unfold lastByte. simpl rbuf.
  destruct (_ && _); destruct (N.eqb _ SP); reflexivity.
Qed.
Lemma ws_P s ps : forall b, P (with_schema s b) ps = with_schema s (P b ps).
Proof. induction ps as [|p ps IH]; intros b; simpl; [reflexivity|]. rewrite ws_P1. apply IH. Qed.
Lemma ws_Comma s b : Comma (with_schema s b) = with_schema s (Comma b).
Proof.
  unfold Comma, lastByte. simpl rbuf. destruct (is_nil _); [reflexivity|].
  destruct (N.eqb _ _); [|reflexivity]. rewrite ws_rewrite. reflexivity.
Qed.
Lemma ws_NL s b : NL (with_schema s b) = with_schema s (NL b).
Proof.
  unfold NL, lastByte. simpl. destruct (is_nil _); [reflexivity|].
  destruct (N.eqb _ _); destruct (level b <? 0)%Z; try rewrite ws_rewrite; reflexivity.
Qed.
Lemma ws_closeWith s b c : closeWith (with_schema s b) c = with_schema s (closeWith b c).
Proof. unfold closeWith, lastByte. simpl. destruct (negb _); [reflexivity|apply ws_rewrite]. Qed.
Lemma ws_writeArgs s args : forall b first,
  writeArgs (with_schema s b) first args = with_schema s (writeArgs b first args).
Proof.
  induction args as [|a rest IH]; intros b first; simpl; [reflexivity|].
  destruct first; [|rewrite ws_Comma]; rewrite ws_WriteString; apply IH.
Qed.
Lemma ws_children s children : forall b,
  fold_left (fun b ident => Ident (rewriteLastByte b DOT) ident) children (with_schema s b)
  = with_schema s (fold_left (fun b ident => Ident (rewriteLastByte b DOT) ident) children b).
Proof.
  induction children as [|c rest IH]; intros b; simpl; [reflexivity|].
  rewrite ws_rewrite, ws_Ident. apply IH.
Qed.

Lemma ws_idem s s' b : with_schema s (with_schema s' b) = with_schema s b.
Proof. reflexivity. Qed.

(* mayQualify under qualifier q = mayQualify without qualifier of an object in schema q *)
Lemma mayQualify_requalify q b s top children :
  mayQualify (with_schema (Some q) b) s top children
  = with_schema (Some q) (mayQualify (with_schema None b) (Some q) top children).
Proof.
  unfold mayQualify. cbn [bschema with_schema].
  destruct (is_nil q).
  - rewrite !ws_Ident, !ws_children. reflexivity.
  - rewrite !ws_Ident, !ws_rewrite, !ws_Ident, !ws_children. reflexivity.
Qed.

Lemma mayQualify_None_ws q b s top children :
  mayQualify (with_schema (Some q) b) s top children = with_schema (Some q) (mayQualify (with_schema (Some q) b) s top children).
Proof.
  destruct (mayQualify_cfg (with_schema (Some q) b) s top children) as (_ & _ & C).
  destruct (mayQualify (with_schema (Some q) b) s top children) eqn:E. simpl in C. subst. reflexivity.
Qed.

Lemma run_op_requalify q b o : o <> OClone ->
  run_op (with_schema (Some q) b) o = with_schema (Some q) (run_op (with_schema None b) (requalify q o)).
Proof.
  intros Ho. unfold run_op. simpl panicked. destruct (panicked b) eqn:Hp; [reflexivity|].
  destruct o; cbn [requalify]; try congruence; try reflexivity.
  - rewrite !ws_P. reflexivity.
  - rewrite !ws_Ident. reflexivity.
  - apply mayQualify_requalify.
  - unfold RefTable. cbn [bschema with_schema].
    destruct (cross_ref (Some q) childT parentT) eqn:Ex.
    + (* the cross-schema exception: q = "", parent schema named *)
      unfold cross_ref in Ex. rewrite !andb_true_iff in Ex. destruct Ex as [[[Eq _] Ep] _].
      destruct q; [|discriminate].
      destruct (o_schema parentT) as [ps|] eqn:Eps; [|discriminate]. simpl in Ep.
      unfold Table, mayQualify. simpl bschema. rewrite Eps. simpl VName.
      destruct (is_nil ps); [discriminate|]. simpl fold_left.
      rewrite !ws_Ident, !ws_rewrite, !ws_Ident. reflexivity.
    + apply mayQualify_requalify.
  - apply mayQualify_requalify.
  - apply mayQualify_requalify.
  - unfold FuncCall, Table. rewrite mayQualify_requalify. simpl o_schema. simpl o_name.
    rewrite ws_rewrite, ws_writeArgs, ws_WriteByte. reflexivity.
  - rewrite !ws_NL. reflexivity.
  - rewrite !ws_Comma. reflexivity.
  - rewrite !ws_closeWith. reflexivity.
  - rewrite !ws_closeWith. reflexivity.
Qed.

Theorem run_requalify q ops : forall b, no_clone ops = true ->
  run (with_schema (Some q) b) ops = with_schema (Some q) (run (with_schema None b) (map (requalify q) ops)).
Proof.
  induction ops as [|o ops IH]; intros b H; [reflexivity|].
  assert (o <> OClone /\ no_clone ops = true) as [Ho Hn].
  { destruct o; simpl in H; try (split; [discriminate|exact H]). discriminate. }
  change (run (with_schema (Some q) b) (o :: ops)) with (run (run_op (with_schema (Some q) b) o) ops).
  change (run (with_schema None b) (map (requalify q) (o :: ops)))
    with (run (run_op (with_schema None b) (requalify q o)) (map (requalify q) ops)).
  rewrite run_op_requalify by exact Ho.
  set (b' := run_op (with_schema None b) (requalify q o)).
  assert (Hb : bschema b' = None).
  { unfold b'. rewrite run_op_schema; [reflexivity|]. destruct o; cbn [requalify]; try discriminate; try congruence.
    destruct (cross_ref (Some q) childT parentT); discriminate. }
  assert (Eb : with_schema None b' = b').
  { destruct b'. simpl in Hb. subst. reflexivity. }
  rewrite (IH b' Hn). rewrite Eb. reflexivity.
Qed.

(* so the output does not depend on the objects' schemas (up to the RefTable exception) *)
Definition erase (o : op) : op :=
  match o with
  | OTable t => OTable (mkObj None (o_name t))
  | ORefTable c p => ORefTable (mkObj None (o_name c)) (mkObj None (o_name p))
  | OTableResource t r => OTableResource (mkObj None (o_name t)) r
  | OSchemaResource _ n => OSchemaResource None n
  | OFuncCall f args => OFuncCall (mkObj None (o_name f)) args
  | o => o
  end.

Definition no_cross (q : bytes) (o : op) : bool :=
  match o with ORefTable c p => negb (cross_ref (Some q) c p) | _ => true end.

Lemma requalify_erase q o o' : no_cross q o = true -> no_cross q o' = true -> erase o = erase o' ->
  requalify q o = requalify q o'.
Proof.
  intros H H' E. destruct o, o'; simpl in *; try discriminate; try congruence.
  - injection E as E. unfold set_schema. rewrite E. reflexivity.
  - injection E as E1 E2. apply negb_true_iff in H, H'. rewrite H, H'. unfold set_schema. rewrite E2. reflexivity.
  - injection E as E1 E2. unfold set_schema. rewrite E1, E2. reflexivity.
  - injection E as E1 E2. unfold set_schema. rewrite E1, E2. reflexivity.
Qed.

Theorem run_schema_independent q ops ops' b :
  no_clone ops = true -> no_clone ops' = true ->
  forallb (no_cross q) ops = true -> forallb (no_cross q) ops' = true ->
  map erase ops = map erase ops' ->
  run (with_schema (Some q) b) ops = run (with_schema (Some q) b) ops'.
Proof.
  intros N N' C C' E. rewrite !run_requalify by assumption. f_equal. f_equal.
  revert ops' N' C' E N C. induction ops as [|o ops IH]; intros [|o' ops'] N' C' E N C; simpl in *; try discriminate; auto.
  injection E as E1 E2. apply andb_true_iff in C as [C1 C2]. apply andb_true_iff in C' as [C1' C2'].
  f_equal.
  - apply requalify_erase; assumption.
  - apply IH; auto.
    + destruct o'; simpl in N'; try exact N'; discriminate.
    + destruct o; simpl in N; try exact N; discriminate.
Qed.

(** * Which chain a qualifying call emits *)
Lemma builder_chain_cases (s : option bytes) (top : bytes) (children : list bytes) :
  chain_of (Some []) s top children = top :: children /\
  (forall q, q <> [] -> chain_of (Some q) s top children = q :: top :: children) /\
  chain_of None s top children = opt_name s ++ top :: children /\
  (forall bs c p, emitted_chain bs (ORefTable c p) =
     Some (if cross_ref bs c p then [VName (o_schema p); o_name p]
           else chain_of bs (o_schema p) (o_name p) [])) /\
  (forall bs c p, cross_ref bs c p = true ->
     bs = Some [] /\ VName (o_schema c) <> [] /\ VName (o_schema p) <> [] /\
     SameSchema (o_schema c) (o_schema p) = false).
Proof.
  repeat split.
  - intros q Hq. unfold chain_of, qual_prefix. rewrite is_nil_false by exact Hq. reflexivity.
  - unfold cross_ref in H. destruct bs as [q|]; [|discriminate].
    rewrite !andb_true_iff in H. destruct H as [[[H _] _] _]. destruct q; [reflexivity|discriminate].
  - unfold cross_ref in H. destruct bs as [q|]; [|discriminate].
    rewrite !andb_true_iff in H. destruct H as [[[_ H] _] _]. intros E. rewrite E in H. discriminate.
  - unfold cross_ref in H. destruct bs as [q|]; [|discriminate].
    rewrite !andb_true_iff in H. destruct H as [[[_ _] H] _]. intros E. rewrite E in H. discriminate.
  - unfold cross_ref in H. destruct bs as [q|]; [|discriminate].
    rewrite !andb_true_iff in H. destruct H as [_ H]. apply negb_true_iff in H. exact H.
Qed.

(** * PostgreSQL typeIdent / schemaPrefix *)
Lemma pg_ident_cases (quoteGo : bytes -> bytes) (ns : option bytes) (name : bytes) :
  typeIdent quoteGo (Some []) ns name = quoteGo name /\
  schemaPrefix quoteGo (Some []) ns = [] /\
  (forall q, q <> [] ->
     typeIdent quoteGo (Some q) ns name = quoteGo q ++ [DOT] ++ quoteGo name /\
     schemaPrefix quoteGo (Some q) ns = quoteGo q ++ [DOT]) /\
  typeIdent quoteGo None ns name = typeIdent quoteGo (Some (VName ns)) None name /\
  schemaPrefix quoteGo None ns = schemaPrefix quoteGo (Some (VName ns)) None.
Proof.
  repeat split.
  - unfold typeIdent. rewrite is_nil_false by assumption. reflexivity.
  - unfold schemaPrefix. rewrite is_nil_false by assumption. reflexivity.
  - destruct ns as [n|]; reflexivity.
  - destruct ns as [n|]; reflexivity.
Qed.
