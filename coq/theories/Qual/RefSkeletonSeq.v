(** Round 5 -- the sequence statements of a serial <-> integer change of an INSPECTED column
    (postgres alterType / createDropSeq), in both directions, exist in the skeleton and carry
    exactly the qualifier; the inspected SequenceName is the name used. *)
From Coq Require Import List NArith Bool.
From Atlas Require Import Base.Bytes Qual.Builder Qual.RefSkeleton Qual.RefSkeletonProofs.
Import ListNotations.
Open Scope N_scope.

Lemma in_skip_auto_mc subs c fe te fs ts ty oth cm :
  In (ModifyColumn c fe te fs ts ty oth cm) subs ->
  In (ModifyColumn c fe te fs ts ty oth cm) (skip_auto true subs).
Proof. intros H. unfold skip_auto. apply filter_In. split; [exact H|reflexivity]. Qed.

Lemma in_pg_sorted x l : In x l -> In x (pg_sorted l).
Proof.
  intros H. unfold pg_sorted. apply in_or_app. destruct (dropConst x) eqn:E.
  - left. apply filter_In. split; assumption.
  - right. apply filter_In. split; [assumption|]. rewrite E. reflexivity.
Qed.

Lemma in_alter_mc subs c fe te fs ts oth cm :
  In (ModifyColumn c fe te fs ts true oth cm) subs ->
  In (ModifyColumn c fe te fs ts true oth cm) (pg_sorted (flat_map pg_alter_items (skip_auto true subs))).
Proof.
  intros H. apply in_pg_sorted. apply in_flat_map.
  exists (ModifyColumn c fe te fs ts true oth cm). split; [apply in_skip_auto_mc; exact H|].
  simpl. left. reflexivity.
Qed.

Lemma plan_obs_single q t subs :
  plan_obs true q [ModifyTable t subs] = map (stmt_obs q) (pg_modify_table t subs).
Proof. unfold plan_obs, plan_skel. simpl. rewrite app_nil_r. reflexivity. Qed.

(* the prefix every sequence statement is written with *)
Lemma qual_prefix_cases q ns :
  qual_prefix (Some []) ns = [] /\ (q <> [] -> qual_prefix (Some q) ns = [q]) /\ qual_prefix None ns = opt_name ns.
Proof.
  repeat split. intros Hq. unfold qual_prefix. destruct q; [congruence|reflexivity].
Qed.

(** serial -> integer ("sequence was dropped"): Cmd DROP SEQUENCE IF EXISTS <p><seq>, reverse
    CREATE SEQUENCE IF NOT EXISTS <p><seq> OWNED BY <p><t>.<c> *)
Theorem sequence_dropped t subs c fe te sn oth cm q :
  In (ModifyColumn c fe te (Some sn) None true oth cm) subs ->
  let o := t_obj t in
  let seq := SerialType_sequence sn (o_name o) c in
  let p := qual_prefix q (o_schema o) in
  In (false, h_drop_sequence, [p ++ [seq]], []) (plan_obs true q [ModifyTable t subs]) /\
  In (true, h_create_sequence, [p ++ [seq]; p ++ [o_name o; c]], []) (plan_obs true q [ModifyTable t subs]).
Proof.
  intros H o seq p. rewrite plan_obs_single.
  pose proof (in_alter_mc _ _ _ _ _ _ _ _ H) as HA.
  assert (K : forall s, In s (pg_sequence_after o (ModifyColumn c fe te (Some sn) None true oth cm)) ->
                        In s (pg_modify_table t subs)).
  { intros s Hs. unfold pg_modify_table. fold o.
    apply in_or_app; right. apply in_or_app; right. apply in_or_app; right. apply in_or_app; left.
    apply in_flat_map. eexists. split; [exact HA|exact Hs]. }
  split.
  - apply in_map_iff. exists (cmd h_drop_sequence (seq_drop_refs o sn c)). split; [reflexivity|].
    apply K. simpl. left. reflexivity.
  - apply in_map_iff. exists (mkStmt true h_create_sequence (seq_create_refs o sn c)). split; [reflexivity|].
    apply K. simpl. right. left. reflexivity.
Qed.

(** integer -> serial ("sequence was added"): Cmd CREATE SEQUENCE ... OWNED BY, reverse DROP SEQUENCE,
    and the ALTER TABLE statement holds the literal nextval('<p><seq>') *)
Theorem sequence_added t subs c fe te sn oth cm q :
  In (ModifyColumn c fe te None (Some sn) true oth cm) subs ->
  let o := t_obj t in
  let seq := SerialType_sequence sn (o_name o) c in
  let p := qual_prefix q (o_schema o) in
  In (false, h_create_sequence, [p ++ [seq]; p ++ [o_name o; c]], []) (plan_obs true q [ModifyTable t subs]) /\
  In (true, h_drop_sequence, [p ++ [seq]], []) (plan_obs true q [ModifyTable t subs]) /\
  exists chains lits, In (false, h_alter_table, chains, lits) (plan_obs true q [ModifyTable t subs]) /\
                      In (p ++ [seq]) lits.
Proof.
  intros H o seq p. rewrite plan_obs_single.
  pose proof (in_alter_mc _ _ _ _ _ _ _ _ H) as HA.
  assert (K : forall s, In s (pg_sequence_before o (ModifyColumn c fe te None (Some sn) true oth cm)) ->
                        In s (pg_modify_table t subs)).
  { intros s Hs. unfold pg_modify_table. fold o.
    apply in_or_app; right. apply in_or_app; left.
    apply in_flat_map. eexists. split; [exact HA|exact Hs]. }
  split; [|split].
  - apply in_map_iff. exists (cmd h_create_sequence (seq_create_refs o sn c)). split; [reflexivity|].
    apply K. simpl. left. reflexivity.
  - apply in_map_iff. exists (mkStmt true h_drop_sequence (seq_drop_refs o sn c)). split; [reflexivity|].
    apply K. simpl. right. left. reflexivity.
  - set (alter := pg_sorted (flat_map pg_alter_items (skip_auto true subs))) in *.
    destruct alter as [|a0 al] eqn:EA; [destruct HA|].
    set (st := cmd h_alter_table (RTable o :: flat_map (alter_fwd true o) (a0 :: al))).
    exists (map (ref_chain q) (filter quoted_chain (s_refs st))),
           (map (ref_chain q) (filter in_literal (s_refs st))).
    split.
    + apply in_map_iff. exists st. split; [reflexivity|].
      unfold pg_modify_table. fold o. fold alter. rewrite EA.
      apply in_or_app; right. apply in_or_app; right. apply in_or_app; left.
      simpl. left. reflexivity.
    + apply in_map_iff. exists (RLit (o_schema o) seq). split; [reflexivity|].
      apply filter_In. split; [|reflexivity].
      unfold st. cbn [s_refs cmd]. right. apply in_flat_map.
      exists (ModifyColumn c fe te None (Some sn) true oth cm). split; [exact HA|].
      simpl. left. reflexivity.
Qed.

(** the name: an inspected SequenceName is used as it is; without one, <table>_<column>_seq *)
Lemma sequence_name sn t c :
  (sn <> [] -> SerialType_sequence sn t c = sn) /\ SerialType_sequence [] t c = seq_name t c.
Proof. split; [|reflexivity]. intros H. destruct sn; [congruence|reflexivity]. Qed.

(** * DROP TABLE: its reverse statements are the Cmd statements of ADD TABLE of the same table
      (both planners build the reverse by planning AddTable{T: drop.T} with the SAME plan options):
      forward and reverse are qualified alike, for every table -- whatever attributes it carries. *)
Lemma filter_flat_map {A B} (p : B -> bool) (f : A -> list B) l :
  filter p (flat_map f l) = flat_map (fun x => filter p (f x)) l.
Proof.
  induction l as [|x l IH]; simpl; [reflexivity|]. rewrite filter_app, IH. reflexivity.
Qed.

Definition is_cmd (s : stmt) : bool := negb (s_rev s).

Lemma add_table_cmds_filter pg t : filter is_cmd (add_table pg t) = add_table_cmds pg t.
Proof.
  unfold add_table, add_table_cmds. cbn [filter is_cmd s_rev cmd negb]. f_equal.
  destruct pg; [|reflexivity].
  rewrite !filter_app, !filter_flat_map. f_equal; [|f_equal; [|f_equal]].
  - apply flat_map_ext. intros i. destruct (i_uconst i); reflexivity.
  - destruct (t_comment t); reflexivity.
  - apply flat_map_ext. intros c. destruct (c_comment c); reflexivity.
  - apply flat_map_ext. intros i. destruct (i_comment i); reflexivity.
Qed.

Lemma filter_rev_map_rev_of l : filter s_rev (map rev_of l) = map rev_of l.
Proof. induction l as [|x l IH]; simpl; [reflexivity|]. rewrite IH. reflexivity. Qed.

Theorem drop_table_reverse pg t :
  filter s_rev (plan_skel pg [DropTable t]) = map rev_of (filter is_cmd (plan_skel pg [AddTable t])).
Proof.
  unfold plan_skel. cbn [flat_map plan_change]. rewrite !app_nil_r. rewrite add_table_cmds_filter.
  unfold drop_table. cbn [filter s_rev cmd]. destruct pg.
  - apply filter_rev_map_rev_of.
  - reflexivity.
Qed.

(* hence the same chains, under every qualifier *)
Corollary drop_table_reverse_chains pg q t :
  map (stmt_chains q) (filter s_rev (plan_skel pg [DropTable t])) =
  map (fun s => let '(_, h, cs) := stmt_chains q s in (true, h, cs)) (filter is_cmd (plan_skel pg [AddTable t])).
Proof.
  rewrite drop_table_reverse, map_map. apply map_ext. intros s. reflexivity.
Qed.
