(** Proofs about Qual/Checkpoint.v: a schema-scoped checkpoint is never rejected by
    CheckChangesScope, whatever the dev database's schema is called; it is empty exactly when the
    replayed schema is; excluding tables never makes a plan rejected. *)
From Coq Require Import List NArith Bool.
From Atlas Require Import Base.Bytes Qual.Builder Qual.Scope Qual.Replay Qual.ReplayProofs Qual.Checkpoint.
Import ListNotations.
Open Scope N_scope.

Theorem checkpoint_never_rejects modified q mode dev objs cur :
  dev <> [] -> forall r, Planner_checkpoint modified (Some q) mode dev objs cur <> PRejected r.
Proof. intros Hd r. exact (planner_never_rejects modified q mode dev dev objs [] cur Hd r). Qed.

Lemma schema_diff_from_empty modified a b objs cur :
  schema_diff modified a b objs [] cur = map (fun o => COther [o]) objs ++ map (fun t => CAddTable (tab_st b t)) cur.
Proof.
  unfold schema_diff. cbn [flat_map app].
  assert (E : flat_map (add_new b []) cur = map (fun t => CAddTable (tab_st b t)) cur).
  { induction cur as [|t cur IH]; [reflexivity|]. cbn [flat_map map]. rewrite IH. reflexivity. }
  rewrite E. reflexivity.
Qed.

Theorem checkpoint_code modified q mode dev objs cur :
  dev <> [] ->
  Planner_checkpoint modified (Some q) mode dev objs cur =
    match objs, cur with [], [] => PNoPlan | _, _ => PPlanned end.
Proof.
  intros Hd. unfold Planner_checkpoint.
  change (plan_from modified dev (Some q) mode dev objs [] cur) with (Planner_plan modified (Some q) mode dev dev objs [] cur).
  rewrite (planner_plans_iff modified q mode dev dev objs [] cur Hd), schema_diff_from_empty.
  destruct objs; destruct cur; reflexivity.
Qed.

Theorem exclude_never_rejects modified excluded q mode dev user objs cur des :
  user <> [] -> forall r, Planner_plan_exclude modified excluded (Some q) mode dev user objs cur des <> PRejected r.
Proof. intros Hu r. exact (planner_never_rejects modified q mode dev user objs _ des Hu r). Qed.
