(** Proofs about the statement-level scanner (Qual/StmtLex.v): quoting a chain of names with
    doubled quote characters ([render_chain], what Builder.Ident writes) and scanning it give
    back exactly the names -- for EVERY name, at the start of a statement and anywhere in it. *)
From Coq Require Import List NArith Bool.
From Atlas Require Import Base.Bytes Qual.Builder Qual.StmtLex.
Import ListNotations.
Open Scope N_scope.

Lemma lfeed_app pg so a b : lfeed pg so (a ++ b) = lfeed pg (lfeed pg so a) b.
Proof. unfold lfeed. apply fold_left_app. Qed.

Lemma lfeed_cons pg so c s : lfeed pg so (c :: s) = lfeed pg (lstep pg so c) s.
Proof. reflexivity. Qed.
Lemma lfeed_nil pg so : lfeed pg so [] = so.
Proof. reflexivity. Qed.

Lemma set_bad_false o : set_bad false o = o.
Proof. destruct o as [c l b]. unfold set_bad. simpl. rewrite orb_false_r. reflexivity. Qed.

Lemma feed_escape pg n : forall parts acc o,
  lfeed pg (LIdent parts acc, o) (escape_ident (ident_quote pg) n) = (LIdent parts (rev n ++ acc), o).
Proof.
  induction n as [|c n IH]; intros parts acc o; [reflexivity|].
  simpl escape_ident. destruct (N.eqb c (ident_quote pg)) eqn:E.
  - apply N.eqb_eq in E. subst c. rewrite !lfeed_cons. cbn [lstep]. rewrite N.eqb_refl.
    cbn [lstep]. rewrite N.eqb_refl.
    rewrite IH. simpl rev. rewrite <- app_assoc. reflexivity.
  - rewrite lfeed_cons. cbn [lstep]. rewrite E.
    rewrite IH. simpl rev. rewrite <- app_assoc. reflexivity.
Qed.

Lemma feed_ident pg n parts acc o :
  lfeed pg (LIdent parts acc, o) (escape_ident (ident_quote pg) n ++ [ident_quote pg]) =
  (LIdentQ parts (rev n ++ acc), o).
Proof.
  rewrite lfeed_app, feed_escape. rewrite lfeed_cons, lfeed_nil. cbn [lstep]. rewrite N.eqb_refl. reflexivity.
Qed.

Lemma dot_not_quote pg : (DOT =? ident_quote pg) = false.
Proof. destruct pg; reflexivity. Qed.

(* after a closed chain component and a dot: the rest of a rendered chain *)
Lemma feed_chain pg l : l <> [] -> forall parts o,
  lfeed pg (LDot parts, o) (render_chain (ident_quote pg) (ident_quote pg) l) =
  (LIdentQ (rev (removelast l) ++ parts) (rev (last l [])), o).
Proof.
  induction l as [|n l IH]; intros Hl parts o; [congruence|].
  destruct l as [|n2 rest].
  - cbn [render_chain]. unfold render_ident. rewrite lfeed_cons. cbn [lstep]. rewrite N.eqb_refl.
    rewrite feed_ident. simpl. rewrite app_nil_r. reflexivity.
  - change (render_chain (ident_quote pg) (ident_quote pg) (n :: n2 :: rest))
      with (render_ident (ident_quote pg) (ident_quote pg) n ++ DOT :: render_chain (ident_quote pg) (ident_quote pg) (n2 :: rest)).
    unfold render_ident. rewrite lfeed_app.
    rewrite (lfeed_cons pg (LDot parts, o)). cbn [lstep]. rewrite N.eqb_refl.
    rewrite feed_ident.
    rewrite lfeed_cons. cbn [lstep]. rewrite dot_not_quote. rewrite N.eqb_refl.
    rewrite IH by discriminate. rewrite app_nil_r, rev_involutive.
    change (removelast (n :: n2 :: rest)) with (n :: removelast (n2 :: rest)).
    change (last (n :: n2 :: rest) []) with (last (n2 :: rest) []).
    simpl rev. rewrite <- app_assoc. reflexivity.
Qed.

Lemma render_chain_head o c l : l <> [] -> exists r, render_chain o c l = o :: r.
Proof.
  destruct l as [|n [|n2 rest]]; intros H; [congruence| |]; eexists; reflexivity.
Qed.

(* the same from outside (not right after a word byte) *)
Lemma feed_chain_normal pg l o : l <> [] ->
  lfeed pg (LNormal false, o) (render_chain (ident_quote pg) (ident_quote pg) l) =
  (LIdentQ (rev (removelast l)) (rev (last l [])), o).
Proof.
  intros Hl. pose proof (feed_chain pg l Hl [] o) as K. rewrite app_nil_r in K. rewrite <- K.
  destruct (render_chain_head (ident_quote pg) (ident_quote pg) l Hl) as [r Hr]. rewrite Hr.
  rewrite !lfeed_cons. cbn [lstep]. unfold normal_step. rewrite !N.eqb_refl. rewrite set_bad_false. reflexivity.
Qed.

Lemma chain_of_state (l : list bytes) : l <> [] -> rev (rev (rev (last l [])) :: rev (removelast l)) = l.
Proof.
  intros Hl. simpl. rewrite !rev_involutive. symmetry. apply app_removelast_last. exact Hl.
Qed.

(** 1. a rendered chain alone *)
Theorem lex_stmt_chain pg l : l <> [] ->
  lex_stmt pg (render_chain (ident_quote pg) (ident_quote pg) l) = ([l], [], false).
Proof.
  intros Hl. unfold lex_stmt. rewrite feed_chain_normal by exact Hl.
  cbn [lfinish emit_chain out0 o_chains o_lits o_bad].
  rewrite chain_of_state by exact Hl. reflexivity.
Qed.

(** 2. anywhere in a statement.  Outputs only grow: *)
Definition grows (o o' : lout) : Prop :=
  exists e, o_chains o' = e ++ o_chains o.
Lemma grows_refl o : grows o o. Proof. exists []. reflexivity. Qed.
Lemma grows_trans a b c : grows a b -> grows b c -> grows a c.
Proof. intros [e1 H1] [e2 H2]. exists (e2 ++ e1). rewrite H2, H1, app_assoc. reflexivity. Qed.
Lemma grows_emit_chain o p : grows o (emit_chain o p). Proof. exists [rev p]. reflexivity. Qed.
Lemma grows_emit_lit o a : grows o (emit_lit o a). Proof. exists []. reflexivity. Qed.
Lemma grows_set_bad o b : grows o (set_bad b o). Proof. exists []. reflexivity. Qed.

Lemma normal_step_grows pg pw o c : grows o (snd (normal_step pg pw o c)).
Proof.
  unfold normal_step. destruct (c =? ident_quote pg); [apply grows_set_bad|].
  destruct (is_strq pg c); apply grows_refl.
Qed.

Lemma lstep_grows pg s o c : grows o (snd (lstep pg (s, o) c)).
Proof.
  destruct s; cbn [lstep].
  - apply normal_step_grows.
  - destruct (c =? ident_quote pg); apply grows_refl.
  - destruct (c =? ident_quote pg); [apply grows_refl|]. destruct (c =? DOT); [apply grows_refl|].
    eapply grows_trans; [|apply normal_step_grows].
    eapply grows_trans; [apply grows_emit_chain|apply grows_set_bad].
  - destruct (c =? ident_quote pg); [apply grows_refl|].
    eapply grows_trans; [apply grows_emit_chain|apply normal_step_grows].
  - destruct ((c =? 92) && negb pg); [apply grows_refl|]. destruct (c =? c0); apply grows_refl.
  - apply grows_refl.
  - destruct (c =? c0); [apply grows_refl|].
    eapply grows_trans; [apply grows_emit_lit|apply normal_step_grows].
Qed.

Lemma lfeed_grows pg s : forall so, grows (snd so) (snd (lfeed pg so s)).
Proof.
  induction s as [|c s IH]; intros [st o]; [apply grows_refl|].
  rewrite lfeed_cons.
  eapply grows_trans; [apply (lstep_grows pg st o c)|].
  destruct (lstep pg (st, o) c) as [st' o'] eqn:E. apply (IH (st', o')).
Qed.

Lemma lfinish_grows so : grows (snd so) (lfinish so).
Proof.
  destruct so as [s o]. destruct s; cbn [lfinish snd];
    try apply grows_refl; try apply grows_emit_chain; try apply grows_emit_lit;
    (eapply grows_trans; [|apply grows_set_bad]); try apply grows_emit_chain; apply grows_emit_lit.
Qed.

(* what follows the chain: the end of the statement, or a byte that neither doubles the closing
   quote nor continues the chain *)
Definition stops (pg : bool) (post : bytes) : Prop :=
  match post with [] => True | c :: _ => c <> ident_quote pg /\ c <> DOT end.

(** for EVERY text [pre] that leaves the scanner outside identifiers and literals and not right
    after a word byte (e.g. it ends with a space, a comma, a parenthesis), every chain of names
    [l] and every continuation that [stops]: the chains read from  pre ++ quoted(l) ++ post  are
    those of [pre], then EXACTLY [l], then those of the rest. *)
Theorem lex_stmt_chain_anywhere pg pre l post o1 :
  l <> [] ->
  lfeed pg (LNormal false, out0) pre = (LNormal false, o1) ->
  stops pg post ->
  exists after,
    fst (fst (lex_stmt pg (pre ++ render_chain (ident_quote pg) (ident_quote pg) l ++ post))) =
    rev (o_chains o1) ++ l :: after.
Proof.
  intros Hl Hpre Hpost. unfold lex_stmt. cbn [fst].
  rewrite lfeed_app, Hpre, lfeed_app, feed_chain_normal by exact Hl.
  set (st := (LIdentQ (rev (removelast l)) (rev (last l [])), o1)).
  assert (K : exists o2, grows (emit_chain o1 (rev (rev (last l [])) :: rev (removelast l))) o2 /\
                         lfinish (lfeed pg st post) = o2).
  { destruct post as [|c post].
    - eexists. split; [|reflexivity]. apply grows_refl.
    - destruct Hpost as [Hq Hd]. eexists. split; [|reflexivity].
      rewrite lfeed_cons.
      unfold st. cbn [lstep].
      apply N.eqb_neq in Hq. apply N.eqb_neq in Hd. rewrite Hq, Hd.
      eapply grows_trans; [|apply lfinish_grows].
      eapply grows_trans; [|apply lfeed_grows].
      eapply grows_trans; [apply grows_set_bad|]. apply normal_step_grows. }
  destruct K as [o2 [[e He] Ho2]]. rewrite Ho2, He.
  cbn [emit_chain o_chains]. rewrite chain_of_state by exact Hl.
  rewrite rev_app_distr. simpl rev. rewrite <- app_assoc. exists (rev e). reflexivity.
Qed.
