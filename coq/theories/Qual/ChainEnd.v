(** Round 3: what FOLLOWS the chain of a qualifying call, for every later call sequence.
    Every later call either appends, or rewrites the last byte into a separator (',' by
    Comma, '\n' by NL, ')' / '\'' by the closing step of Wrap / Quote, '(' by FuncCall on its
    own name); the only calls that rewrite into '.' ([mayQualify], [RefTable]) do it on an
    identifier they have just written themselves -- provided their names are non-empty (with
    an empty name [Ident] writes nothing and the '.' lands on a foreign byte: the caveat of
    C16_builder).  Hence the byte after the chain is always a separator, the chain is never
    continued, and the server reads exactly the chain (C16_one_identifier). *)
From Coq Require Import List NArith ZArith Bool Lia.
From Atlas Require Import Base.Bytes Qual.Builder Qual.BuilderProofs Qual.Lexq Qual.LexqProofs.
Import ListNotations.
Open Scope N_scope.

Definition sepA (c : N) : Prop := c = SP \/ c = CM \/ c = NLc \/ c = RP \/ c = SQ \/ c = LP.

(* the reversed buffer still holds [R] with a separator right after it *)
Definition kept (R r : bytes) : Prop := exists s a, r = s ++ a :: R /\ sepA a.

Lemma kept_app R r x : kept R r -> kept R (x ++ r).
Proof. intros (s & a & -> & Ha). exists (x ++ s), a. rewrite app_assoc. auto. Qed.

Lemma kept_cons R r c : kept R r -> kept R (c :: r).
Proof. apply (kept_app R r [c]). Qed.

Lemma kept_rw R r c' : sepA c' -> kept R r -> kept R (match r with [] => [] | _ :: t => c' :: t end).
Proof.
  intros Hc (s & a & -> & Ha). destruct s as [|c s]; simpl.
  - exists [], c'. auto.
  - exists (c' :: s), a. auto.
Qed.

Definition keptb (R : bytes) (b : builder) : Prop := kept R (rbuf b).

Lemma keptb_WriteByte R b c : keptb R b -> keptb R (WriteByte b c).
Proof. apply kept_cons. Qed.
Lemma keptb_WriteString R b s : keptb R b -> keptb R (WriteString b s).
Proof. apply (kept_app R (rbuf b) (rev s)). Qed.
Lemma keptb_rewrite R b c : sepA c -> keptb R b -> keptb R (rewriteLastByte b c).
Proof.
  intros Hc H. unfold keptb, rewriteLastByte in *. destruct (rbuf b) as [|x r] eqn:E.
  - rewrite E. exact H.
  - simpl. exact (kept_rw R (x :: r) c Hc H).
Qed.

Lemma keptb_Ident R b s : keptb R b -> keptb R (Ident b s).
Proof.
  intros H. destruct s as [|x s]; [exact H|]. unfold Ident.
  apply keptb_WriteByte, keptb_WriteByte, keptb_WriteString, keptb_WriteByte, H.
Qed.

Lemma keptb_P1 R b p : keptb R b -> keptb R (P1 b p).
Proof.
  intros H. destruct p as [|x p]; [exact H|]. unfold P1.
  match goal with |- context [if ?c then WriteByte b SP else b] => destruct c end;
    destruct (N.eqb _ SP);
    repeat first [apply keptb_WriteByte | apply keptb_WriteString]; exact H.
Qed.

Lemma keptb_P R ps : forall b, keptb R b -> keptb R (P b ps).
Proof.
  unfold P. induction ps as [|p ps IH]; intros b H; simpl; [exact H|]. apply IH, keptb_P1, H.
Qed.

Lemma keptb_Comma R b : keptb R b -> keptb R (Comma b).
Proof.
  intros H. unfold Comma. destruct (is_nil (rbuf b)); [exact H|].
  destruct (N.eqb _ _).
  - apply keptb_WriteByte, keptb_rewrite; [unfold sepA; tauto|exact H].
  - apply keptb_WriteString, H.
Qed.

Lemma keptb_set_panic R b : keptb R b -> keptb R (set_panic b).
Proof. intros H. exact H. Qed.

Lemma keptb_NL R b : keptb R b -> keptb R (NL b).
Proof.
  intros H. unfold NL. destruct (is_nil (indent b)); [exact H|].
  destruct (N.eqb _ _); destruct (level b <? 0)%Z.
  - apply keptb_set_panic, keptb_rewrite; [unfold sepA; tauto|exact H].
  - apply keptb_WriteString, keptb_rewrite; [unfold sepA; tauto|exact H].
  - apply keptb_set_panic, keptb_WriteByte, H.
  - apply keptb_WriteString, keptb_WriteByte, H.
Qed.

Lemma keptb_closeWith R b c : sepA c -> keptb R b -> keptb R (closeWith b c).
Proof.
  intros Hc H. unfold closeWith. destruct (negb _); [apply keptb_WriteByte, H|apply keptb_rewrite; assumption].
Qed.

Lemma keptb_writeArgs R args : forall b first, keptb R b -> keptb R (writeArgs b first args).
Proof.
  induction args as [|a rest IH]; intros b first H; simpl; [exact H|].
  apply IH. apply keptb_WriteString. destruct first; [exact H|apply keptb_Comma, H].
Qed.

(* an append in terms of [out] is an append in terms of [rbuf] *)
Lemma out_app_rbuf b b' y : out b' = out b ++ y -> rbuf b' = rev y ++ rbuf b.
Proof.
  unfold out. intros H. rewrite <- (rev_involutive (rbuf b')), H, rev_app_distr, rev_involutive. reflexivity.
Qed.

Lemma out_eq_rbuf b z : out b = z -> rbuf b = rev z.
Proof. unfold out. intros H. rewrite <- H, rev_involutive. reflexivity. Qed.

(** names of the qualifying calls are non-empty *)
Definition wf_op (o : op) : Prop :=
  match o with
  | OTable t => nonempty (o_name t)
  | OTableResource t r => nonempty (o_name t) /\ nonempty r
  | OSchemaResource _ n => nonempty n
  | OFuncCall f _ => nonempty (o_name f)
  | ORefTable _ p => nonempty (o_name p)
  | _ => True
  end.

Lemma keptb_qualifying R b o l :
  panicked b = false -> emitted_chain (bschema b) o = Some l -> wf_op o ->
  keptb R b -> keptb R (run_op b o).
Proof.
  intros Hp He Hw H.
  destruct (qualifying_call b o l Hp He) as (post & _ & Ho).
  { destruct o; simpl in Hw |- *; auto. }
  unfold keptb. rewrite (out_app_rbuf _ _ _ Ho). apply kept_app. exact H.
Qed.

Lemma keptb_run_op R b o : wf_op o -> keptb R b -> keptb R (run_op b o).
Proof.
  intros Hw H.
  destruct (panicked b) eqn:Hp; [unfold run_op; rewrite Hp; exact H|].
  destruct (emitted_chain (bschema b) o) as [l|] eqn:He.
  - exact (keptb_qualifying R b o l Hp He Hw H).
  - unfold run_op. rewrite Hp. destruct o; simpl in He; try discriminate.
    + apply keptb_P, H.
    + apply keptb_Ident, H.
    + exact H.
    + exact H.
    + apply keptb_NL, H.
    + apply keptb_Comma, H.
    + apply keptb_WriteByte, H.
    + apply keptb_closeWith; [unfold sepA; tauto|exact H].
    + apply keptb_WriteByte, keptb_WriteString, H.
    + apply keptb_closeWith; [unfold sepA; tauto|exact H].
    + apply keptb_WriteString, H.
    + apply keptb_WriteByte, H.
    + exact H.
Qed.

Lemma keptb_run R ops : forall b, Forall wf_op ops -> keptb R b -> keptb R (run b ops).
Proof.
  unfold run. induction ops as [|o ops IH]; intros b Hw H; simpl; [exact H|].
  inversion Hw; subst. apply IH; [assumption|]. apply keptb_run_op; assumption.
Qed.

(* right after the qualifying call itself *)
Lemma keptb_after_call b o l :
  panicked b = false -> emitted_chain (bschema b) o = Some l -> wf_op o ->
  keptb (rev (out b ++ render_chain (qo b) (qc b) l)) (run_op b o).
Proof.
  intros Hp He Hw.
  assert (M : forall s top children, nonempty top -> Forall nonempty children ->
            keptb (rev (out b ++ render_chain (qo b) (qc b) (chain_of (bschema b) s top children)))
                  (mayQualify b s top children)).
  { intros s top children Ht Hc.
    destruct (mayQualify_spec b s top children Ht Hc) as (_ & _ & _ & _ & _ & _ & Ho).
    unfold keptb. rewrite app_assoc in Ho. rewrite (out_eq_rbuf _ _ Ho).
    exists [], SP. split; [|unfold sepA; tauto].
    rewrite rev_app_distr. reflexivity. }
  unfold run_op. rewrite Hp.
  destruct o; simpl in He; try discriminate; injection He as <-; simpl in Hw.
  - apply M; [exact Hw|constructor].
  - unfold RefTable. destruct (cross_ref (bschema b) childT parentT) eqn:Ex.
    + assert (Hs : nonempty (VName (o_schema parentT))).
      { unfold cross_ref in Ex. destruct (bschema b); [|discriminate].
        destruct (is_nil (VName (o_schema parentT))) eqn:E1.
        - rewrite !andb_true_iff in Ex. destruct Ex as [[[_ _] E] _]. discriminate.
        - intros E. rewrite E in E1. discriminate. }
      destruct (qualifier_step b (VName (o_schema parentT)) Hs) as (A1 & A2 & _ & _ & _ & _ & A7).
      unfold keptb.
      assert (Ho : out (Ident (rewriteLastByte (Ident b (VName (o_schema parentT))) DOT) (o_name parentT)) =
                   (out b ++ render_chain (qo b) (qc b) [VName (o_schema parentT); o_name parentT]) ++ [SP]).
      { rewrite out_Ident by exact Hw. rewrite A7, A1, A2.
        simpl. unfold render_ident. repeat (rewrite <- app_assoc; simpl). reflexivity. }
      exists [], SP. split; [|unfold sepA; tauto].
      rewrite (out_eq_rbuf _ _ Ho). rewrite rev_app_distr. reflexivity.
    + apply M; [exact Hw|constructor].
  - destruct Hw as [Ht Hr]. apply M; [exact Ht|constructor; [exact Hr|constructor]].
  - apply M; [exact Hw|constructor].
  - unfold FuncCall, Table.
    pose proof (M (o_schema f) (o_name f) [] Hw (Forall_nil _)) as K.
    apply keptb_WriteByte, keptb_writeArgs.
    (* the '(' replaces the separator the call has just written itself *)
    unfold keptb in *. destruct K as (s & a & E & Ha).
    destruct (mayQualify_spec b (o_schema f) (o_name f) [] Hw (Forall_nil _)) as (_ & _ & _ & _ & _ & _ & Ho).
    rewrite app_assoc in Ho. pose proof (out_eq_rbuf _ _ Ho) as Hr.
    rewrite rev_app_distr in Hr. simpl in Hr.
    unfold rewriteLastByte. rewrite Hr. simpl.
    exists [], LP. split; [reflexivity|unfold sepA; tauto].
Qed.

Lemma sepA_not_dot a : sepA a -> a <> DOT.
Proof. unfold sepA, SP, CM, NLc, RP, SQ, LP, DOT. intros [H|[H|[H|[H|[H|H]]]]]; subst; discriminate. Qed.

(** * The chain of a qualifying call reads back, whatever is called later *)
Theorem builder_reads_back b ops1 o ops2 l :
  let b1 := run b ops1 in
  panicked b1 = false ->
  emitted_chain (bschema b1) o = Some l ->
  wf_op o -> Forall wf_op ops2 ->
  ~ sepA (qc b1) -> qc b1 <> DOT ->
  exists post,
    out (run b (ops1 ++ o :: ops2)) = out b1 ++ render_chain (qo b1) (qc b1) l ++ post /\
    lex_chain (qo b1) (qc b1) (render_chain (qo b1) (qc b1) l ++ post) = Some (l, post).
Proof.
  intros b1 Hp He Hw Hws Hq Hd.
  pose proof (keptb_after_call b1 o l Hp He Hw) as K0.
  pose proof (keptb_run _ ops2 (run_op b1 o) Hws K0) as K.
  destruct K as (s & a & E & Ha).
  exists (a :: rev s). split.
  - rewrite run_app. simpl. fold b1. unfold out at 1. unfold run in *. rewrite E.
    rewrite rev_app_distr. simpl. rewrite rev_involutive. repeat rewrite <- app_assoc. reflexivity.
  - apply render_chain_reads_back; try assumption.
    + (* the emitted chain is never empty *)
      destruct o; simpl in He; try discriminate; injection He as <-;
        try (unfold chain_of; intros E0; apply app_eq_nil in E0; destruct E0; discriminate).
      destruct (cross_ref _ _ _); [discriminate|].
      unfold chain_of; intros E0; apply app_eq_nil in E0; destruct E0; discriminate.
    + simpl. split.
      * intros E0. apply Hq. rewrite <- E0. exact Ha.
      * destruct (rev s); [exact I|]. intros [E0 _]. exact (sepA_not_dot a Ha E0).
Qed.
