(** M-BUILD (1/3) -- executable model of [sqlx.Builder] and of the PostgreSQL
    planner's [typeIdent] / [schemaPrefix].  No proofs here.

    Go code followed (names kept):
      sql/internal/sqlx/sqlx.go     : Builder.{P, Ident, Table, View, RefTable, TableColumn,
                                      Func, Proc, FuncCall, ProcCall, TableResource,
                                      ViewResource, SchemaResource, mayQualify, IndentIn,
                                      IndentOut, NL, Comma, MapComma, Quote, MapIndent, Wrap,
                                      WrapIndent, Clone, String, lastByte, rewriteLastByte}
      sql/internal/sqlx/plan.go     : SameSchema
      sql/postgres/migrate_oss.go   : state.typeIdent, state.schemaPrefix

    Representation (said once, here):
    * bytes = [list N]; the buffer is kept REVERSED ([rbuf], last written byte first) so that
      [lastByte]/[rewriteLastByte] look at the head.  [out b = rev (rbuf b)].
    * a [*schema.Schema] that is only read through [.Name] is an [option bytes]:
      [None] = nil pointer, [Some n] = schema with [Name = n].
    * [*schema.Table], [*schema.View], [*schema.Func], [*schema.Proc] are all written through
      [mayQualify(x.Schema, x.Name)]: one record [obj].  Column / Index resources are
      their [.Name].  (TableResource / ViewResource panic on another dynamic type: the typed
      model has no such value.)
    * methods that take a callback ([Wrap], [WrapIndent], [MapComma], [MapIndent], [Quote])
      are the derived combinators at the end of the file over the primitive steps
      [OWrapOpen / OWrapClose / OQuoteOpen / OQuoteClose / OComma / ONL / OIndentIn / OIndentOut];
      a call sequence is a flat [list op].  The *Err variants run the same steps.
      [Int64 v] is [P [decimal v]].
    * [NL] with a negative level: [strings.Repeat] panics -> sticky [panicked] flag,
      later steps are no-ops.
    * [Clone] is the step [OClone] that continues on the clone: Go's Clone copies the
      quotes and the buffer and DROPS [Schema], [Indent] and [level].
    * [String] = [strings.TrimSpace]: modelled for ASCII white space only
      (the tie generates ASCII). *)
From Coq Require Import List NArith ZArith Bool.
From Atlas Require Import Base.Bytes.
Import ListNotations.
Open Scope N_scope.

(** * Data *)
Record obj := mkObj { o_schema : option bytes; o_name : bytes }.

Record builder := mkB {
  rbuf     : bytes;          (* bytes.Buffer, reversed *)
  qo       : N;              (* QuoteOpening *)
  qc       : N;              (* QuoteClosing *)
  bschema  : option bytes;   (* Schema *string *)
  indent   : bytes;          (* Indent *)
  level    : Z;              (* level *)
  panicked : bool
}.

Definition out (b : builder) : bytes := rev (rbuf b).

Definition set_rbuf (b : builder) (r : bytes) : builder :=
  mkB r (qo b) (qc b) (bschema b) (indent b) (level b) (panicked b).
Definition set_level (b : builder) (l : Z) : builder :=
  mkB (rbuf b) (qo b) (qc b) (bschema b) (indent b) l (panicked b).
Definition set_panic (b : builder) : builder :=
  mkB (rbuf b) (qo b) (qc b) (bschema b) (indent b) (level b) true.
Definition with_schema (q : option bytes) (b : builder) : builder :=
  mkB (rbuf b) (qo b) (qc b) q (indent b) (level b) (panicked b).

Definition SP : N := 32.   Definition LP : N := 40.   Definition RP : N := 41.
Definition NLc : N := 10.  Definition CM : N := 44.   Definition DOT : N := 46.
Definition SQ : N := 39.

Definition is_nil (s : bytes) : bool := match s with [] => true | _ => false end.

(** * bytes.Buffer primitives *)
Definition WriteByte (b : builder) (c : N) : builder := set_rbuf b (c :: rbuf b).
Definition WriteString (b : builder) (s : bytes) : builder := set_rbuf b (rev s ++ rbuf b).
(* sqlx.go: lastByte -- 0 on an empty buffer *)
Definition lastByte (b : builder) : N := match rbuf b with [] => 0 | c :: _ => c end.
(* sqlx.go: rewriteLastByte -- no-op on an empty buffer *)
Definition rewriteLastByte (b : builder) (c : N) : builder :=
  match rbuf b with [] => b | _ :: r => set_rbuf b (c :: r) end.

(** * sqlx.go: P *)
Definition P1 (b : builder) (p : bytes) : builder :=
  match p with
  | [] => b
  | _ =>
      let b1 := if negb (is_nil (rbuf b))
                   && negb (N.eqb (lastByte b) SP || N.eqb (lastByte b) LP || N.eqb (lastByte b) NLc)
                then WriteByte b SP else b in
      let b2 := WriteString b1 p in
      if N.eqb (last p 0) SP then b2 else WriteByte b2 SP
  end.
Definition P (b : builder) (phrases : list bytes) : builder := fold_left P1 phrases b.

(** * sqlx.go: Ident
    (since fix C16-ident-double-quote-char: strings.ReplaceAll(s, QuoteClosing, QuoteClosing x 2)) *)
Fixpoint escape_ident (qc : N) (n : bytes) : bytes :=
  match n with
  | [] => []
  | c :: r => if N.eqb c qc then qc :: qc :: escape_ident qc r else c :: escape_ident qc r
  end.
Definition Ident (b : builder) (s : bytes) : builder :=
  match s with
  | [] => b
  | _ => WriteByte (WriteByte (WriteString (WriteByte b (qo b)) (escape_ident (qc b) s)) (qc b)) SP
  end.

(** * sqlx.go: mayQualify *)
Definition mayQualify (b : builder) (s : option bytes) (top : bytes) (children : list bytes) : builder :=
  let b1 :=
    match bschema b with
    | Some q => if is_nil q then b else rewriteLastByte (Ident b q) DOT
    | None =>
        match s with
        | Some n => if is_nil n then b else rewriteLastByte (Ident b n) DOT
        | None => b
        end
    end in
  fold_left (fun b ident => Ident (rewriteLastByte b DOT) ident) children (Ident b1 top).

(* sqlx.go: Table / View / Func / Proc *)
Definition Table (b : builder) (t : obj) : builder := mayQualify b (o_schema t) (o_name t) [].
(* sqlx.go: TableColumn / TableResource / ViewResource *)
Definition TableResource (b : builder) (t : obj) (r : bytes) : builder :=
  mayQualify b (o_schema t) (o_name t) [r].
(* sqlx.go: SchemaResource *)
Definition SchemaResource (b : builder) (s : option bytes) (name : bytes) : builder :=
  mayQualify b s name [].

(* plan.go: SameSchema *)
Definition SameSchema (s1 s2 : option bytes) : bool :=
  match s1, s2 with
  | Some a, Some b => bytes_eqb a b
  | None, None => true
  | _, _ => false
  end.
(* sqlx.go: V(x.Schema).Name *)
Definition VName (s : option bytes) : bytes := match s with Some n => n | None => [] end.

(* the condition of the first branch of RefTable *)
Definition cross_ref (q : option bytes) (childT parentT : obj) : bool :=
  match q with
  | Some s => is_nil s && negb (is_nil (VName (o_schema childT)))
              && negb (is_nil (VName (o_schema parentT)))
              && negb (SameSchema (o_schema childT) (o_schema parentT))
  | None => false
  end.

(** * sqlx.go: RefTable *)
Definition RefTable (b : builder) (childT parentT : obj) : builder :=
  if cross_ref (bschema b) childT parentT
  then Ident (rewriteLastByte (Ident b (VName (o_schema parentT))) DOT) (o_name parentT)
  else Table b parentT.

(** * sqlx.go: Comma / NL / Indent *)
Definition Comma (b : builder) : builder :=
  if is_nil (rbuf b) then b
  else if N.eqb (lastByte b) SP then WriteByte (rewriteLastByte b CM) SP
  else WriteString b [CM; SP].

Fixpoint repeat_bytes (s : bytes) (n : nat) : bytes :=
  match n with O => [] | S k => s ++ repeat_bytes s k end.

Definition NL (b : builder) : builder :=
  if is_nil (indent b) then b
  else
    let b1 := if N.eqb (lastByte b) SP then rewriteLastByte b NLc else WriteByte b NLc in
    if (level b <? 0)%Z then set_panic b1
    else WriteString b1 (repeat_bytes (indent b) (Z.to_nat (level b))).

Definition IndentIn (b : builder) : builder := set_level b (level b + 1)%Z.
Definition IndentOut (b : builder) : builder := set_level b (level b - 1)%Z.

(* closing step of Wrap (c = ')') and Quote (c = '\'') *)
Definition closeWith (b : builder) (c : N) : builder :=
  if negb (N.eqb (lastByte b) SP) then WriteByte b c else rewriteLastByte b c.

(** * sqlx.go: FuncCall / ProcCall *)
Fixpoint writeArgs (b : builder) (first : bool) (args : list bytes) : builder :=
  match args with
  | [] => b
  | a :: rest => writeArgs (WriteString (if first then b else Comma b) a) false rest
  end.
Definition FuncCall (b : builder) (f : obj) (args : list bytes) : builder :=
  WriteByte (writeArgs (rewriteLastByte (Table b f) LP) true args) RP.

(** * sqlx.go: Clone *)
Definition Clone (b : builder) : builder := mkB (rbuf b) (qo b) (qc b) None [] 0%Z (panicked b).

(** * sqlx.go: String (strings.TrimSpace, ASCII) *)
Definition is_space (c : N) : bool :=
  N.eqb c 32 || N.eqb c 9 || N.eqb c 10 || N.eqb c 11 || N.eqb c 12 || N.eqb c 13.
Fixpoint trim_left (s : bytes) : bytes :=
  match s with c :: r => if is_space c then trim_left r else s | [] => [] end.
Definition String (b : builder) : bytes := rev (trim_left (rev (trim_left (out b)))).

(** * Call sequences *)
Inductive op :=
| OP (phrases : list bytes)
| OIdent (s : bytes)
| OTable (t : obj)                               (* Table / View / Func / Proc *)
| ORefTable (childT parentT : obj)
| OTableResource (t : obj) (r : bytes)           (* TableColumn / TableResource / ViewResource *)
| OSchemaResource (s : option bytes) (name : bytes)
| OFuncCall (f : obj) (args : list bytes)        (* FuncCall / ProcCall *)
| OIndentIn | OIndentOut | ONL | OComma
| OWrapOpen | OWrapClose
| OQuoteOpen (prefix : bytes) | OQuoteClose
| OWriteString (s : bytes)
| OWriteByte (c : N)
| OClone.

Definition run_op (b : builder) (o : op) : builder :=
  if panicked b then b else
  match o with
  | OP ps => P b ps
  | OIdent s => Ident b s
  | OTable t => Table b t
  | ORefTable c p => RefTable b c p
  | OTableResource t r => TableResource b t r
  | OSchemaResource s n => SchemaResource b s n
  | OFuncCall f args => FuncCall b f args
  | OIndentIn => IndentIn b
  | OIndentOut => IndentOut b
  | ONL => NL b
  | OComma => Comma b
  | OWrapOpen => WriteByte b LP
  | OWrapClose => closeWith b RP
  | OQuoteOpen p => WriteByte (WriteString b p) SQ
  | OQuoteClose => closeWith b SQ
  | OWriteString s => WriteString b s
  | OWriteByte c => WriteByte b c
  | OClone => Clone b
  end.

Definition run (b : builder) (ops : list op) : builder := fold_left run_op ops b.

(** * The callback methods as derived call sequences *)
(* sqlx.go: Wrap *)
Definition Wrap (body : list op) : list op := OWrapOpen :: body ++ [OWrapClose].
(* sqlx.go: WrapIndent *)
Definition WrapIndent (body : list op) : list op :=
  Wrap (OIndentIn :: body ++ [OIndentOut; ONL]).
(* sqlx.go: Quote *)
Definition Quote (prefix : bytes) (body : list op) : list op :=
  OQuoteOpen prefix :: body ++ [OQuoteClose].
(* sqlx.go: MapComma -- [bodies] = what f writes for i = 0, 1, ... *)
Fixpoint MapComma_from (first : bool) (bodies : list (list op)) : list op :=
  match bodies with
  | [] => []
  | f :: rest => (if first then [] else [OComma]) ++ f ++ MapComma_from false rest
  end.
Definition MapComma (bodies : list (list op)) : list op := MapComma_from true bodies.
(* sqlx.go: MapIndent *)
Definition MapIndent (bodies : list (list op)) : list op :=
  MapComma (map (fun f => ONL :: f) bodies).

Definition new_builder (qopen qclose : N) (q : option bytes) (ind : bytes) : builder :=
  mkB [] qopen qclose q ind 0%Z false.

(** * Specification vocabulary (no Go counterpart): identifier chains
    What a qualifying call is expected to write: the chain of names, and its text. *)
Definition render_ident (o c : N) (n : bytes) : bytes := o :: escape_ident c n ++ [c].
Fixpoint render_chain (o c : N) (l : list bytes) : bytes :=
  match l with
  | [] => []
  | [n] => render_ident o c n
  | n :: rest => render_ident o c n ++ DOT :: render_chain o c rest
  end.

(* the schema component mayQualify decides on *)
Definition qual_prefix (bs s : option bytes) : list bytes :=
  match bs with
  | Some q => if is_nil q then [] else [q]
  | None => match s with Some n => if is_nil n then [] else [n] | None => [] end
  end.
Definition chain_of (bs s : option bytes) (top : bytes) (children : list bytes) : list bytes :=
  qual_prefix bs s ++ top :: children.

(* the chain a qualifying call emits under builder qualifier [bs] *)
Definition emitted_chain (bs : option bytes) (o : op) : option (list bytes) :=
  match o with
  | OTable t => Some (chain_of bs (o_schema t) (o_name t) [])
  | OTableResource t r => Some (chain_of bs (o_schema t) (o_name t) [r])
  | OSchemaResource s n => Some (chain_of bs s n [])
  | OFuncCall f _ => Some (chain_of bs (o_schema f) (o_name f) [])
  | ORefTable c p =>
      Some (if cross_ref bs c p then [VName (o_schema p); o_name p]
            else chain_of bs (o_schema p) (o_name p) [])
  | _ => None
  end.

Definition opt_name (s : option bytes) : list bytes :=
  match s with Some n => if is_nil n then [] else [n] | None => [] end.


(** * postgres/migrate_oss.go: typeIdent, schemaPrefix
    [quoteGo] is Go's [strconv.Quote] (the [%q] verb), an external function. *)
Section PG.
  Variable quoteGo : bytes -> bytes.

  Definition typeIdent (q : option bytes) (ns : option bytes) (name : bytes) : bytes :=
    match q with
    | Some s => if is_nil s then quoteGo name else quoteGo s ++ [DOT] ++ quoteGo name
    | None =>
        match ns with
        | Some n => if is_nil n then quoteGo name else quoteGo n ++ [DOT] ++ quoteGo name
        | None => quoteGo name
        end
    end.

  Definition schemaPrefix (q : option bytes) (ns : option bytes) : bytes :=
    match q with
    | Some s => if is_nil s then [] else quoteGo s ++ [DOT]
    | None =>
        match ns with
        | Some n => if is_nil n then [] else quoteGo n ++ [DOT]
        | None => []
        end
    end.
End PG.
