(** M-BUILD (round 5) -- the STATEMENT-level lexical grammar the oracle reads planned statements
    with (harness/cmd/qual/lexq.go: lexChains): a quote-aware scanner over bytes that returns the
    identifier chains ( qi name qi ( . qi name qi )* ) outside string literals, the string
    literals, and whether the statement is lexically malformed (unterminated quote, identifier
    glued to a word).  A one-byte-at-a-time machine (structural, no fuel).  No proofs here.

    Dialects (MySQL manual 9.1.1 / 9.2, PostgreSQL manual 4.1.1 / 4.1.2):
      MySQL : identifiers between backticks (backtick doubled); strings between single or double quotes
              (the quote doubled, backslash escapes)
      PG    : identifiers between double quotes (doubled inside); strings between single quotes
              (doubled inside, no backslash escapes) *)
From Coq Require Import List NArith Bool.
From Atlas Require Import Base.Bytes Qual.Builder.
Import ListNotations.
Open Scope N_scope.

Definition isWordByte (c : N) : bool :=
  ((65 <=? c) && (c <=? 90)) || ((97 <=? c) && (c <=? 122)) || (c =? 95) ||
  ((48 <=? c) && (c <=? 57)) || (c =? 36) || (128 <=? c).

Definition ident_quote (pg : bool) : N := if pg then 34 else 96.
Definition is_strq (pg : bool) (c : N) : bool := (c =? 39) || (negb pg && (c =? 34)).

(* scanner states; [parts] and [acc] are REVERSED *)
Inductive lstate :=
| LNormal (pw : bool)                              (* outside; pw: the previous byte is a word byte *)
| LIdent (parts : list bytes) (acc : bytes)        (* inside a quoted identifier *)
| LIdentQ (parts : list bytes) (acc : bytes)       (* ... a quote character seen: doubled, or the end *)
| LDot (parts : list bytes)                        (* chain closed and a '.' seen *)
| LLit (c : N) (acc : bytes)                       (* inside a string literal opened by c *)
| LLitEsc (c : N) (acc : bytes)                    (* ... after a backslash (MySQL) *)
| LLitQ (c : N) (acc : bytes).                     (* ... the quote seen: doubled, or the end *)

Record lout := mkOut { o_chains : list (list bytes); o_lits : list bytes; o_bad : bool }.  (* reversed *)
Definition out0 : lout := mkOut [] [] false.
Definition emit_chain (o : lout) (parts : list bytes) : lout := mkOut (rev parts :: o_chains o) (o_lits o) (o_bad o).
Definition emit_lit (o : lout) (acc : bytes) : lout := mkOut (o_chains o) (rev acc :: o_lits o) (o_bad o).
Definition set_bad (b : bool) (o : lout) : lout := mkOut (o_chains o) (o_lits o) (o_bad o || b).

(* a byte met outside identifiers and literals *)
Definition normal_step (pg : bool) (pw : bool) (o : lout) (c : N) : lstate * lout :=
  if c =? ident_quote pg then (LIdent [] [], set_bad pw o)           (* glued to the word before it *)
  else if is_strq pg c then (LLit c [], o)
  else (LNormal (isWordByte c), o).

Definition lstep (pg : bool) (so : lstate * lout) (c : N) : lstate * lout :=
  let '(s, o) := so in
  let qi := ident_quote pg in
  match s with
  | LNormal pw => normal_step pg pw o c
  | LIdent parts acc => if c =? qi then (LIdentQ parts acc, o) else (LIdent parts (c :: acc), o)
  | LIdentQ parts acc =>
      if c =? qi then (LIdent parts (qi :: acc), o)                   (* doubled quote *)
      else if c =? DOT then (LDot (rev acc :: parts), o)
      else normal_step pg false (set_bad (isWordByte c) (emit_chain o (rev acc :: parts))) c
  | LDot parts =>
      if c =? qi then (LIdent parts [], o)                            (* the chain continues *)
      else normal_step pg false (emit_chain o parts) c                (* '.' was an ordinary byte *)
  | LLit q acc =>
      if (c =? 92) && negb pg then (LLitEsc q acc, o)
      else if c =? q then (LLitQ q acc, o)
      else (LLit q (c :: acc), o)
  | LLitEsc q acc => (LLit q (c :: acc), o)
  | LLitQ q acc =>
      if c =? q then (LLit q (q :: acc), o)                           (* doubled quote *)
      else normal_step pg false (emit_lit o acc) c
  end.

(* end of input *)
Definition lfinish (so : lstate * lout) : lout :=
  let '(s, o) := so in
  match s with
  | LNormal _ => o
  | LIdent parts acc => set_bad true (emit_chain o (rev acc :: parts))     (* unterminated identifier *)
  | LIdentQ parts acc => emit_chain o (rev acc :: parts)
  | LDot parts => emit_chain o parts
  | LLit q acc => set_bad true (emit_lit o acc)                            (* unterminated literal *)
  | LLitEsc q acc => set_bad true (emit_lit o (92 :: acc))
  | LLitQ q acc => emit_lit o acc
  end.

Definition lfeed (pg : bool) (so : lstate * lout) (s : bytes) : lstate * lout := fold_left (lstep pg) s so.

(* the observable: chains in order, literals in order, malformed *)
Definition lex_stmt (pg : bool) (s : bytes) : list (list bytes) * list bytes * bool :=
  let o := lfinish (lfeed pg (LNormal false, out0) s) in
  (rev (o_chains o), rev (o_lits o), o_bad o).
