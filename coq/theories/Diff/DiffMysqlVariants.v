(** M-SCHEMA (C02, round 3): the MySQL DiffDriver of sql/mysql/diff_oss.go for *any* server the
    differ may be connected to.  mysql.Open (driver_oss.go) reads @@version and
    @@lower_case_table_names; the differ then depends on the server through

      - V.SupportsCheck (TableAttrDiff fails when the desired table has a CHECK),
      - V.SupportsIndexExpr (IsGeneratedIndexName knows functional_index),
      - the tables of V.CharsetToCollate / V.CollateToCharset (sql/mysql/internal/mysqlversion:
        the embedded table of the flavour, extended by mayExtend from INFORMATION_SCHEMA), with
        which defaultCharset / defaultCollate complete the attributes of the *desired* column
        before columnCharsetChanged / columnCollateChanged compare them.

    [mysql_variant] holds exactly these four inputs; [mysql_driver] of DiffDialects.v is the
    instance for mysql.DefaultDiff on columns that carry charset and collation together
    ([mysql_driver_v_default], DiffMysqlVariantsProofs.v).  Not modelled:
    lower_case_table_names <> 0 (FindTable), V.SupportsDisplayWidth (integer types with a
    display width do not occur in the catalogue).  A differ has no other state: the model is a
    function of (variant, from, to), which is what the history stage of the harness checks of
    the Go differs.  No proofs in this file. *)
From Coq Require Import List NArith Bool Arith.
From Atlas Require Import Base.Bytes Diff.Schema Diff.DiffModel Diff.DiffSqlite Diff.DiffDialects.
Import ListNotations.

Record mysql_variant := mkMyVariant {
  mv_check : bool;                 (* V.SupportsCheck() *)
  mv_index_expr : bool;            (* V.SupportsIndexExpr() *)
  mv_ch2co : list (str * str);     (* charset -> default collation *)
  mv_co2ch : list (str * str)      (* collation -> charset *)
}.

(** map lookup *)
Fixpoint assoc (k : str) (l : list (str * str)) : option str :=
  match l with
  | [] => None
  | (a, b) :: l' => if str_eqb a k then Some b else assoc k l'
  end.

(** [defaultCharset] then [defaultCollate] on the attributes of the desired column: the
    (charset, collation) the two comparisons see ("" = attribute absent).  The two completions
    exclude each other: a lone collation gets its charset if the table knows it, a lone charset
    its default collation. *)
Definition fill_pair (v : mysql_variant) (p : str * str) : str * str :=
  let '(cs, co) := p in
  match cs, co with
  | [], _ :: _ => (match assoc co (mv_co2ch v) with Some x => x | None => [] end, co)
  | _ :: _, [] => (cs, match assoc cs (mv_ch2co v) with Some x => x | None => [] end)
  | _, _ => (cs, co)
  end.
Definition mysql_fill (v : mysql_variant) (T : str) : str * str := fill_pair v (fld 1 T, fld 2 T).

(** [columnCharsetChanged] (k = 1) / [columnCollateChanged] (k = 2) *)
Definition mysql_cs_changed_v (v : mysql_variant) (k : nat) (from to : column) : bool :=
  let fromC := fld k (c_T from) in
  let toC := if Nat.eqb k 1 then fst (mysql_fill v (c_T to)) else snd (mysql_fill v (c_T to)) in
  let topC := fld (k + 2) (c_T from) in
  let fromHas := negb (str_eqb fromC []) in
  let toHas := negb (str_eqb toC []) in
  let topHas := negb (str_eqb topC []) in
  (fromHas && negb toHas && topHas && negb (str_eqb fromC topC))
  || (negb fromHas && toHas && topHas && negb (str_eqb toC topC))
  || (fromHas && toHas && negb (str_eqb fromC toC)).

(** [diff.ColumnChange] *)
Definition mysql_column_change_v (v : mysql_variant) (_ : table) (from to : column) : option N :=
  match mysql_type_changed from to with
  | None => None
  | Some tc =>
      Some (N.lor (N.lor (N.lor (N.lor (N.lor (N.lor
              (comment_change (c_comment from) (c_comment to))
              (bit (negb (Bool.eqb (c_null from) (c_null to))) ChangeNull))
              (bit tc ChangeType))
              (bit (mysql_default_changed from to) ChangeDefault))
              (bit (mysql_generated_changed from to) ChangeGenerated))
              (bit (mysql_cs_changed_v v 1 from to) ChangeCharset))
              (bit (mysql_cs_changed_v v 2 from to) ChangeCollate))
  end.

(** [diff.IsGeneratedIndexName]: the two functional_index cases need SupportsIndexExpr *)
Definition mysql_gen_by_column (idx : index) : bool :=
  match i_parts idx with
  | p :: _ =>
      match p_col p with
      | Some name =>
          if str_eqb (i_name idx) name then true
          else match has_prefix (name ++ [ch_us]) (i_name idx) with
               | Some rest => parse_int_gt 1 rest
               | None => false
               end
      | None => false
      end
  | [] => false
  end.

Definition mysql_is_generated_index_name_v (v : mysql_variant) (t : table) (idx : index) : bool :=
  if mv_index_expr v then mysql_is_generated_index_name t idx else mysql_gen_by_column idx.

(** [diff.TableAttrDiff]: "version %q does not support CHECK constraints" *)
Definition mysql_table_attr_diff_v (v : mysql_variant) (from to : table) : option (list change) :=
  if negb (mv_check v) && negb (Nat.eqb (length (t_checks to)) 0) then None
  else mysql_table_attr_diff from to.

Definition mysql_driver_v (v : mysql_variant) : DiffDriver :=
  mkDriver (mysql_column_change_v v)
           mysql_index_attr_changed
           mysql_index_part_attr_changed
           (mysql_is_generated_index_name_v v)
           None
           mysql_reference_changed
           (fun _ _ => false)
           (mysql_table_attr_diff_v v)
           (fun from to => Some (from, to))
           false.

Definition mysql_schema_diff_v (v : mysql_variant) (skip : tag -> bool) := SchemaDiff (mysql_driver_v v) skip.
Definition mysql_table_diff_v (v : mysql_variant) (skip : tag -> bool) := TableDiff (mysql_driver_v v) skip.
