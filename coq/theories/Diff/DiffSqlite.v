(** M-SCHEMA (C02): the SQLite DiffDriver (sql/sqlite/diff.go, and
    normalizeIdxName of sql/sqlite/migrate.go), function by function.
    No proofs in this file. *)
From Coq Require Import List NArith Bool Arith.
From Atlas Require Import Base.Bytes Diff.Schema Diff.DiffModel.
Import ListNotations.

Definition UDT_CLASS : N := 1.

(** attribute identifiers printed for AddAttr/DropAttr *)
Definition ATTR_WITHOUT_ROWID : N := 1.
Definition ATTR_STRICT : N := 2.

(** [diff.typeChanged]: None = error (missing type information) *)
Definition sqlite_type_changed (from to : column) : option bool :=
  if N.eqb (c_class from) 0 || N.eqb (c_class to) 0 then None
  else if N.eqb (c_class from) UDT_CLASS then
    Some (negb (N.eqb (c_class to) UDT_CLASS) || negb (str_eqb (c_T from) (c_T to)))
  else Some (negb (N.eqb (c_class from) (c_class to))).

(** [sqlx.DefaultValue] *)
Definition default_value (c : column) : option str :=
  match c_default c with
  | None => None
  | Some (DLit v) => Some v
  | Some (DRaw x) => Some x
  end.

(** [diff.defaultChanged].  Two unquoted defaults are compared up to their outer parentheses (fix "sqlite
    differ compares two unquoted column defaults up to their outer parentheses": SQLite reports DEFAULT (x)
    as x); [sqlite_default_changed_old] is the code before it (x1 != x2 after Unquote), kept for the theorem
    about the old code in Props_C01.v *)
Definition sqlite_default_changed (from to : column) : bool :=
  match default_value from, default_value to with
  | None, None => false         (* ok1 == ok2, d1 == d2 == "" *)
  | Some _, None | None, Some _ => true
  | Some d1, Some d2 =>
      if str_eqb d1 d2 then false
      else match unquote d1, unquote d2 with
           | Some x1, Some x2 =>
               if str_eqb x1 x2 then false
               else negb (str_eqb x1 d1) || negb (str_eqb x2 d2) || negb (str_eqb (may_wrap d1) (may_wrap d2))
           | _, _ => true
           end
  end.
Definition sqlite_default_changed_old (from to : column) : bool :=
  match default_value from, default_value to with
  | None, None => false
  | Some _, None | None, Some _ => true
  | Some d1, Some d2 =>
      if str_eqb d1 d2 then false
      else match unquote d1, unquote d2 with
           | Some x1, Some x2 => negb (str_eqb x1 x2)
           | _, _ => true
           end
  end.

(** strings.ToUpper on ASCII *)
Definition to_upper (s : str) : str :=
  map (fun c => if N.leb 97 c && N.leb c 122 then (c - 32)%N else c) s.

Definition VIRTUAL : str := [86;73;82;84;85;65;76]%N.

(** [storedOrVirtual] (sql/sqlite/sqlspec.go) *)
Definition stored_or_virtual (s : str) : str :=
  match to_upper s with [] => VIRTUAL | u => u end.

(** [diff.generatedChanged] *)
Definition sqlite_generated_changed (from to : column) : bool :=
  match c_gen from, c_gen to with
  | None, None => false
  | Some _, None | None, Some _ => true
  | Some (x1, t1), Some (x2, t2) =>
      negb (str_eqb (may_wrap x1) (may_wrap x2))
      || negb (str_eqb (stored_or_virtual t1) (stored_or_virtual t2))
  end.

(** [diff.ColumnChange] *)
Definition sqlite_column_change (_ : table) (from to : column) : option N :=
  match sqlite_type_changed from to with
  | None => None
  | Some tc =>
      Some (N.lor (N.lor (N.lor (bit (negb (Bool.eqb (c_null from) (c_null to))) ChangeNull)
                                (bit tc ChangeType))
                         (bit (sqlite_default_changed from to) ChangeDefault))
                  (bit (sqlite_generated_changed from to) ChangeGenerated))
  end.

Definition SQLITE_AUTOINDEX : str :=
  [115;113;108;105;116;101;95;97;117;116;111;105;110;100;101;120]%N. (* "sqlite_autoindex" *)

(** [diff.IsGeneratedIndexName] *)
Definition sqlite_is_generated_index_name (t : table) (idx : index) : bool :=
  match has_prefix (SQLITE_AUTOINDEX ++ [ch_us] ++ t_name t ++ [ch_us]) (i_name idx) with
  | None => false
  | Some rest => parse_int_pos rest
  end.

(** [normalizeIdxName] (sql/sqlite/migrate.go): None = error *)
Fixpoint part_col_names (l : list part) : option (list str) :=
  match l with
  | [] => Some []
  | p :: l' => match p_col p with
               | None => None
               | Some n => match part_col_names l' with Some r => Some (n :: r) | None => None end
               end
  end.

Definition ORIGIN_P : str := [112]%N.

Definition normalize_idx_name (idx : index) (t : table) : option index :=
  match has_prefix SQLITE_AUTOINDEX (i_name idx) with
  | None => Some idx
  | Some _ =>
      if ostr_eqb (i_origin idx) (Some ORIGIN_P) then Some idx
      else match part_col_names (i_parts idx) with
           | None => None
           | Some names => Some (set_i_name idx (join_us (t_name t :: names)))
           end
  end.

(** [diff.FindGeneratedIndex]: normalizes a copy of the index that carries its name, parts and
    attributes ([&schema.Index{Name: idx.Name, Parts: idx.Parts, Attrs: idx.Attrs}]) *)
Definition sqlite_find_generated_index (t : table) (idx : index) : option (nat * index) :=
  match normalize_idx_name (mkIndex (i_name idx) false (i_parts idx) (i_pred idx) (i_comment idx) (i_origin idx)) t with
  | None => None
  | Some nr => find_idx (i_name nr) (t_idx t)
  end.

(** [diff.IndexAttrChanged] *)
Definition sqlite_index_attr_changed (from to : index) : bool :=
  let has o := match o with Some _ => true | None => false end in
  let v o := match o with Some x => x | None => ([] : str) end in
  negb (Bool.eqb (has (i_pred from)) (has (i_pred to)))
  || (negb (str_eqb (v (i_pred from)) (v (i_pred to)))
      && negb (str_eqb (v (i_pred from)) (may_wrap (v (i_pred to))))).

Definition NO_ACTION : str := [78;79;32;65;67;84;73;79;78]%N.

(** [diff.ReferenceChanged] *)
Definition sqlite_reference_changed (from to : str) : bool :=
  let f := match from with [] => NO_ACTION | _ => from end in
  let t := match to with [] => NO_ACTION | _ => to end in
  negb (str_eqb f t).

(** [sameFK]; the two table names are fk.Table.Name of either side *)
Definition same_fk (n1 n2 : str) (fk1 fk2 : fkey) : bool :=
  if negb (str_eqb n1 n2) || negb (str_eqb (f_reftable fk1) (f_reftable fk2))
     || negb (Nat.eqb (length (f_cols fk1)) (length (f_cols fk2)))
     || negb (Nat.eqb (length (f_refcols fk1)) (length (f_refcols fk2))) then false
  else negb (names_differ (f_cols fk1) (f_cols fk2)) && negb (names_differ (f_refcols fk1) (f_refcols fk2)).

(** [diff.Normalize], foreign keys: the inner loop over to.ForeignKeys with the
    [used] flags; fk1 is paired with the first unused match (then [break]); returns fk1
    (symbol possibly rewritten) and the flags *)
Fixpoint normalize_fk_inner (n1 n2 : str) (fk1 : fkey) (tofks : list fkey) (used : list bool)
  : fkey * list bool :=
  match tofks, used with
  | fk2 :: tofks', u :: used' =>
      if u then let '(r, us) := normalize_fk_inner n1 n2 fk1 tofks' used' in (r, u :: us)
      else if (str_eqb (f_symbol fk2) (f_symbol fk1) && negb (is_uint (f_symbol fk1)))
              || same_fk n1 n2 fk1 fk2
      then (set_f_symbol fk1 (f_symbol fk2), true :: used')
      else let '(r, us) := normalize_fk_inner n1 n2 fk1 tofks' used' in (r, u :: us)
  | _, _ => (fk1, used)
  end.

Fixpoint normalize_fks (n1 n2 : str) (fromfks tofks : list fkey) (used : list bool) : list fkey :=
  match fromfks with
  | [] => []
  | fk1 :: l => let '(fk1', used') := normalize_fk_inner n1 n2 fk1 tofks used in
                fk1' :: normalize_fks n1 n2 l tofks used'
  end.

Fixpoint normalize_idxs (t : table) (l : list index) : option (list index) :=
  match l with
  | [] => Some []
  | i :: l' => match normalize_idx_name i t with
               | None => None
               | Some i' => match normalize_idxs t l' with Some r => Some (i' :: r) | None => None end
               end
  end.

(** [diff.Normalize] *)
Definition sqlite_normalize (from to : table) : option (table * table) :=
  let from' := set_t_fks from
    (normalize_fks (t_name from) (t_name to) (t_fks from) (t_fks to) (map (fun _ => false) (t_fks to))) in
  match normalize_idxs to (t_idx to) with
  | None => None
  | Some idxs => Some (from', set_t_idx to idxs)
  end.

(** [diff.TableAttrDiff] (normalized mode) *)
Definition sqlite_table_attr_diff (from to : table) : option (list change) :=
  let attr (a : N) (f t : bool) : list change :=
    if f && negb t then [DropAttr a] else if negb f && t then [AddAttr a] else [] in
  Some (attr ATTR_WITHOUT_ROWID (t_without_rowid from) (t_without_rowid to)
        ++ attr ATTR_STRICT (t_strict from) (t_strict to)
        ++ checks_diff (check_compare None) (t_checks from) (t_checks to)).

Definition sqlite_driver : DiffDriver :=
  mkDriver sqlite_column_change
           sqlite_index_attr_changed
           (fun _ _ _ => false)                 (* IndexPartAttrChanged *)
           sqlite_is_generated_index_name
           (Some sqlite_find_generated_index)
           sqlite_reference_changed
           (fun _ _ => false)                   (* ForeignKeyAttrChanged *)
           sqlite_table_attr_diff
           sqlite_normalize
           false.                               (* sql/sqlite/driver_oss.go: diff.SupportChange(RenameConstraint) = false *)

Definition no_skip (_ : tag) : bool := false.

Definition sqlite_schema_diff (skip : tag -> bool) := SchemaDiff sqlite_driver skip.
Definition sqlite_table_diff (skip : tag -> bool) := TableDiff sqlite_driver skip.
