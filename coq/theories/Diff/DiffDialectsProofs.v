(** The laws the generic theorems need ([refl_laws], [sim_laws]), proved for the
    MySQL and PostgreSQL driver instances of DiffDialects.v. *)
From Coq Require Import List NArith Bool Arith Lia Permutation.
From Atlas Require Import Base.Bytes Diff.Schema Diff.DiffModel Diff.DiffSqlite Diff.DiffDialects
  Diff.DiffProofs Diff.DiffSqliteProofs.
Import ListNotations.

Lemma ostr_eqb_refl o : ostr_eqb o o = true.
Proof. destruct o; simpl; [apply str_eqb_refl|reflexivity]. Qed.

Lemma check_compare_true_refl c : check_compare (Some (fun _ _ => true)) c c = true.
Proof. unfold check_compare. simpl. rewrite str_eqb_refl. reflexivity. Qed.

Lemma default_same_none c : default_value c = None -> c_default c = None.
Proof. unfold default_value. destruct (c_default c) as [[v|x]|]; intros H; try discriminate; reflexivity. Qed.

(** ** MySQL *)
Lemma mysql_refl_laws : refl_laws mysql_driver.
Proof.
  constructor; simpl.
  - intros i. unfold mysql_index_attr_changed. rewrite str_eqb_refl. reflexivity.
  - intros i k. unfold mysql_index_part_attr_changed. rewrite ostr_eqb_refl. reflexivity.
  - intros a. unfold mysql_reference_changed. rewrite str_eqb_refl. reflexivity.
  - reflexivity.
Qed.

Lemma mysql_cs_changed_refl k c : mysql_cs_changed k c c = false.
Proof.
  unfold mysql_cs_changed. rewrite str_eqb_refl.
  destruct (negb (str_eqb (fld k (c_T c)) [])), (negb (str_eqb (fld (k + 2) (c_T c)) [])); reflexivity.
Qed.

Lemma mysql_default_changed_refl c : mysql_default_changed c c = false.
Proof. unfold mysql_default_changed. destruct (default_value c); [rewrite str_eqb_refl|]; reflexivity. Qed.

Lemma mysql_generated_changed_refl c : mysql_generated_changed c c = false.
Proof. unfold mysql_generated_changed. destruct (c_gen c) as [[x ty]|]; [rewrite !str_eqb_refl|]; reflexivity. Qed.

Lemma mysql_column_change_refl t c :
  c_class c <> 0%N -> mysql_supported_class (c_class c) = true -> mysql_column_change t c c = Some 0%N.
Proof.
  intros H S. unfold mysql_column_change, mysql_type_changed.
  apply N.eqb_neq in H. rewrite H. simpl. rewrite N.eqb_refl. simpl. rewrite S, str_eqb_refl. simpl.
  rewrite comment_change_refl, eqb_reflx, mysql_default_changed_refl, mysql_generated_changed_refl,
    !mysql_cs_changed_refl. reflexivity.
Qed.

(** what the MySQL instance needs of a table on top of [wf_table] *)
Definition mysql_dwf (t : table) : Prop :=
  (forall c, In c (t_cols t) -> c_class c <> 0%N /\ mysql_supported_class (c_class c) = true) /\
  named_unique (t_checks t).

Lemma mysql_sim_laws : sim_laws mysql_driver mysql_dwf.
Proof.
  constructor; simpl.
  - intros t c [H _] Hc. destruct (H c Hc). apply mysql_column_change_refl; assumption.
  - intros t t' [_ NU] [_ [_ [_ [_ [_ [_ [_ Pk]]]]]]].
    unfold mysql_table_attr_diff.
    rewrite (checks_diff_sim (check_compare (Some (fun _ _ => true))) (t_checks t) (t_checks t')).
    + reflexivity.
    + apply check_compare_true_refl.
    + eapply named_unique_perm; eauto.
    + intros x Hx. eapply Permutation_in; eauto.
    + intros x Hx. eapply Permutation_in; [apply Permutation_sym|]; eauto.
  - reflexivity.
Qed.

(** ** PostgreSQL *)
Lemma pg_refl_laws_ns ns : refl_laws (pg_driver_ns ns).
Proof.
  constructor; simpl.
  - intros i. unfold pg_index_attr_changed. rewrite !str_eqb_refl. simpl.
    unfold sqlite_index_attr_changed. rewrite eqb_reflx, str_eqb_refl. reflexivity.
  - reflexivity.
  - intros a. unfold sqlite_reference_changed. rewrite str_eqb_refl. reflexivity.
  - reflexivity.
Qed.

(** the type classes typeChanged knows *)
Definition pg_known_class (k : N) : bool :=
  pg_format_class k || N.eqb k PG_UDT || N.eqb k PG_COMPOSITE || N.eqb k PG_DOMAIN || N.eqb k PG_ENUM
  || N.eqb k PG_CURRENCY || N.eqb k PG_XML || N.eqb k PG_ARRAY.

Lemma pg_refl_laws : refl_laws pg_driver.
Proof. exact (pg_refl_laws_ns []). Qed.

Lemma pg_type_changed_refl ns c :
  c_class c <> 0%N -> pg_known_class (c_class c) = true -> pg_type_changed_ns ns c c = Some false.
Proof.
  intros H K. unfold pg_type_changed_ns. apply N.eqb_neq in H. rewrite H. simpl. rewrite N.eqb_refl. simpl.
  rewrite str_eqb_refl. simpl. unfold pg_known_class in K.
  destruct (pg_format_class (c_class c)); [reflexivity|].
  destruct (N.eqb (c_class c) PG_UDT); [reflexivity|].
  destruct (N.eqb (c_class c) PG_COMPOSITE); [reflexivity|].
  destruct (N.eqb (c_class c) PG_DOMAIN); [reflexivity|].
  destruct (N.eqb (c_class c) PG_ENUM); [reflexivity|].
  destruct (N.eqb (c_class c) PG_CURRENCY); [reflexivity|].
  destruct (N.eqb (c_class c) PG_XML); [reflexivity|].
  simpl in *. rewrite K. rewrite andb_false_r. reflexivity.
Qed.

Lemma pg_column_change_refl ns t c :
  c_class c <> 0%N -> pg_known_class (c_class c) = true -> pg_column_change_ns ns t c c = Some 0%N.
Proof.
  intros H K. unfold pg_column_change_ns. rewrite (pg_type_changed_refl ns c H K).
  assert (G : pg_generated_changed c c = Some false).
  { unfold pg_generated_changed. destruct (c_gen c) as [[x ty]|]; [rewrite str_eqb_refl|]; reflexivity. }
  rewrite G.
  assert (D : pg_default_changed c c = false).
  { unfold pg_default_changed. destruct (default_value c); [rewrite str_eqb_refl|]; reflexivity. }
  assert (I : pg_identity_changed c c = false).
  { unfold pg_identity_changed. destruct (pg_identity c) as [[[g s] i]|]; [rewrite !str_eqb_refl|]; reflexivity. }
  rewrite D, I, comment_change_refl, eqb_reflx. reflexivity.
Qed.

Definition pg_dwf (t : table) : Prop :=
  (forall c, In c (t_cols t) -> c_class c <> 0%N /\ pg_known_class (c_class c) = true) /\
  named_unique (t_checks t).

Lemma pg_sim_laws_ns ns : sim_laws (pg_driver_ns ns) pg_dwf.
Proof.
  constructor; simpl.
  - intros t c [H _] Hc. destruct (H c Hc). apply pg_column_change_refl; assumption.
  - intros t t' [_ NU] [_ [_ [_ [_ [_ [_ [_ Pk]]]]]]].
    unfold pg_table_attr_diff.
    rewrite (checks_diff_sim (check_compare (Some (fun _ _ => true))) (t_checks t) (t_checks t')).
    + reflexivity.
    + apply check_compare_true_refl.
    + eapply named_unique_perm; eauto.
    + intros x Hx. eapply Permutation_in; eauto.
    + intros x Hx. eapply Permutation_in; [apply Permutation_sym|]; eauto.
  - reflexivity.
Qed.

Lemma pg_sim_laws : sim_laws pg_driver pg_dwf.
Proof. exact (pg_sim_laws_ns []). Qed.

(** ** exact ChangeKind bits of the MySQL / PostgreSQL ColumnChange *)

(** MySQL: for two typed columns of supported classes the result is exactly the union of
    the seven attribute bits, each decided by its own comparison. *)
Lemma mysql_column_bits t c c' :
  c_class c <> 0%N -> c_class c' <> 0%N ->
  mysql_supported_class (c_class c) = true ->
  mysql_column_change t c c' =
  Some (N.lor (N.lor (N.lor (N.lor (N.lor (N.lor
          (comment_change (c_comment c) (c_comment c'))
          (bit (negb (Bool.eqb (c_null c) (c_null c'))) ChangeNull))
          (bit (negb (N.eqb (c_class c) (c_class c')) || negb (str_eqb (fld 0 (c_T c)) (fld 0 (c_T c')))) ChangeType))
          (bit (mysql_default_changed c c') ChangeDefault))
          (bit (mysql_generated_changed c c') ChangeGenerated))
          (bit (mysql_cs_changed 1 c c') ChangeCharset))
          (bit (mysql_cs_changed 2 c c') ChangeCollate)).
Proof.
  intros H H' S. unfold mysql_column_change, mysql_type_changed.
  apply N.eqb_neq in H, H'. rewrite H, H'. simpl.
  destruct (N.eqb (c_class c) (c_class c')) eqn:E; simpl; [rewrite S|]; reflexivity.
Qed.

Definition with_default' (c : column) (d : option dflt) : column :=
  mkColumn (c_name c) (c_class c) (c_T c) (c_null c) d (c_gen c) (c_comment c).

(** a bool column whose default goes from 1 to the expression (1 = 2): reported (since fix
    C02-mysql-bool-default-unknown-value; before, nothing was) *)
Definition w_bool_col : column :=
  mkColumn [102]%N MY_BOOL [98;111;111;108]%N false (Some (DLit [49]%N)) None None.
Definition w_bool_col' : column := with_default' w_bool_col (Some (DRaw [40;49;32;61;32;50;41]%N)).

Lemma w_bool_reported t : mysql_column_change t w_bool_col w_bool_col' = Some ChangeDefault.
Proof. vm_compute. reflexivity. Qed.

(** a value boolValue does not know: every textual difference is reported *)
Lemma mysql_bool_default_unknown c c' d1 d2 :
  c_class c = MY_BOOL -> default_value c = Some d1 -> default_value c' = Some d2 ->
  bool_value d1 = None \/ bool_value d2 = None ->
  mysql_default_changed c c' = negb (str_eqb d1 d2).
Proof.
  intros K D1 D2 U. unfold mysql_default_changed. rewrite D1, D2, K.
  destruct (str_eqb d1 d2); [reflexivity|]. simpl.
  destruct U as [U|U]; rewrite U; [|destruct (bool_value d1)]; reflexivity.
Qed.

(** what does hold for bool defaults: two known truth values are compared as such *)
Lemma mysql_bool_default_known c c' d1 d2 a b :
  c_class c = MY_BOOL -> default_value c = Some d1 -> default_value c' = Some d2 ->
  bool_value d1 = Some a -> bool_value d2 = Some b ->
  mysql_default_changed c c' = negb (Bool.eqb a b).
Proof.
  intros K D1 D2 B1 B2. unfold mysql_default_changed. rewrite D1, D2, K.
  destruct (str_eqb d1 d2) eqn:E.
  - apply str_eqb_eq in E. subst d2. rewrite B1 in B2. inversion B2; subst. rewrite eqb_reflx. reflexivity.
  - simpl. rewrite B1, B2. reflexivity.
Qed.

(** ... and for every other class that is handled by value, a textual difference of two
    string literals that unquote differently is reported *)
Lemma mysql_string_default_changed c c' d1 d2 :
  c_class c = MY_STRING -> default_value c = Some d1 -> default_value c' = Some d2 ->
  mysql_default_changed c c' = negb (str_eqb d1 d2) && negb (equals_string_values d1 d2).
Proof.
  intros K D1 D2. unfold mysql_default_changed. rewrite D1, D2, K.
  destruct (str_eqb d1 d2); reflexivity.
Qed.

(** PostgreSQL bits *)
Lemma pg_column_bits ns t c c' tc gc :
  pg_type_changed_ns ns c c' = Some tc -> pg_generated_changed c c' = Some gc ->
  pg_column_change_ns ns t c c' =
  Some (N.lor (N.lor (N.lor (N.lor (N.lor
          (comment_change (c_comment c) (c_comment c'))
          (bit (negb (Bool.eqb (c_null c) (c_null c'))) ChangeNull))
          (bit tc ChangeType))
          (bit (pg_default_changed c c') ChangeDefault))
          (bit (pg_identity_changed c c') ChangeAttr))
          (bit gc ChangeGenerated)).
Proof. intros T G. unfold pg_column_change_ns. rewrite T, G. reflexivity. Qed.

(** the type bit: within a class other than user-defined types and arrays it is set exactly
    when the type identity differs; across classes always *)
Lemma pg_type_changed_exact ns c c' :
  c_class c <> 0%N -> c_class c' <> 0%N -> pg_known_class (c_class c) = true ->
  c_class c <> PG_UDT -> c_class c <> PG_ARRAY ->
  pg_type_changed_ns ns c c' =
  Some (negb (N.eqb (c_class c) (c_class c')) || negb (str_eqb (fld 0 (c_T c)) (fld 0 (c_T c')))).
Proof.
  intros H H' K U A. unfold pg_type_changed_ns. apply N.eqb_neq in H, H', U, A. rewrite H, H'. simpl.
  destruct (N.eqb (c_class c) (c_class c')); simpl; [|reflexivity].
  unfold pg_known_class in K. rewrite U, A in K.
  destruct (pg_format_class (c_class c)); [reflexivity|]. rewrite U.
  destruct (N.eqb (c_class c) PG_COMPOSITE); [reflexivity|].
  destruct (N.eqb (c_class c) PG_DOMAIN); [reflexivity|].
  destruct (N.eqb (c_class c) PG_ENUM); [reflexivity|].
  destruct (N.eqb (c_class c) PG_CURRENCY); [reflexivity|].
  destruct (N.eqb (c_class c) PG_XML); [reflexivity|].
  simpl in K. discriminate.
Qed.

(** citext -> ltree: reported, with and without a schema scope (since fix
    C02-postgres-udt-type-without-scope; before, nothing was without a scope) *)
Definition w_udt_col (T : str) : column := mkColumn [99]%N PG_UDT T false None None None.
Lemma w_udt_reported t :
  pg_column_change t (w_udt_col [99;105;116;101;120;116]%N) (w_udt_col [108;116;114;101;101]%N) = Some ChangeType.
Proof. vm_compute. reflexivity. Qed.

(** with a schema scope a change of the user-defined type is reported exactly when the names
    differ after the scope's qualifier is cut off; without a scope exactly when the names differ *)
Lemma pg_udt_type_changed_ns ns c c' :
  ns <> [] -> c_class c = PG_UDT -> c_class c' = PG_UDT ->
  pg_type_changed_ns ns c c' =
  Some (negb (str_eqb (trim_schema ns (fld 0 (c_T c'))) (trim_schema ns (fld 0 (c_T c))))).
Proof.
  intros N K K'. unfold pg_type_changed_ns. rewrite K, K'. simpl.
  assert (E : str_eqb ns [] = false) by (apply str_eqb_neq; exact N). rewrite E. simpl.
  destruct (str_eqb (fld 0 (c_T c)) (fld 0 (c_T c'))) eqn:D; simpl.
  - apply str_eqb_eq in D. rewrite D, str_eqb_refl. reflexivity.
  - reflexivity.
Qed.

Lemma pg_udt_type_changed_noscope c c' :
  c_class c = PG_UDT -> c_class c' = PG_UDT ->
  pg_type_changed_ns [] c c' = Some (negb (str_eqb (fld 0 (c_T c)) (fld 0 (c_T c')))).
Proof.
  intros K K'. unfold pg_type_changed_ns. rewrite K, K'. simpl. rewrite andb_true_r. reflexivity.
Qed.

(** ** numeric defaults (round 4) *)

(** two literals strconv.ParseInt accepts are compared exactly, whatever the float projections say *)
Lemma equal_int_values_exact x1 x2 f1 t1 f2 t2 v1 v2 :
  parse_int64 (to_lower (trim quote_space x1)) = Some v1 ->
  parse_int64 (to_lower (trim quote_space x2)) = Some v2 ->
  equal_int_values x1 x2 f1 t1 f2 t2 =
  str_eqb (to_lower (trim quote_space x1)) (to_lower (trim quote_space x2))
  || (Bool.eqb (fst v1) (fst v2) && N.eqb (snd v1) (snd v2)).
Proof.
  intros P1 P2. unfold equal_int_values, int_of_default. rewrite P1, P2.
  destruct (str_eqb _ _); [reflexivity|]. destruct v1, v2. reflexivity.
Qed.

(** floats / decimals: equal texts, or two float64 values that are equal *)
Lemma equal_float_values_spec x1 x2 f1 f2 :
  f1 <> [] -> f2 <> [] ->
  equal_float_values x1 x2 f1 f2 =
  str_eqb (to_lower (trim quote_space x1)) (to_lower (trim quote_space x2)) || str_eqb f1 f2.
Proof.
  intros N1 N2. unfold equal_float_values. destruct (str_eqb _ _); [reflexivity|].
  destruct f1; [contradiction|]. destruct f2; [contradiction|]. reflexivity.
Qed.

(** bigint unsigned: 18446744073709551615 and 18446744073709551614 are out of ParseInt's range; both
    are read as the float 1.8446744073709552e+19 and int64 of it (projections as the Go runtime gives them) *)
Definition w_u64_a : str := [49;56;52;52;54;55;52;52;48;55;51;55;48;57;53;53;49;54;49;53]%N.
Definition w_u64_b : str := [49;56;52;52;54;55;52;52;48;55;51;55;48;57;53;53;49;54;49;52]%N.
Definition w_u64_f : str := [49;46;56;52;52;54;55;52;52;48;55;51;55;48;57;53;53;50;101;43;49;57]%N.
Definition w_u64_t : str := [45;57;50;50;51;51;55;50;48;51;54;56;53;52;55;55;53;56;48;56]%N.
Lemma w_u64_equal : equal_int_values w_u64_a w_u64_b w_u64_f w_u64_t w_u64_f w_u64_t = true.
Proof. vm_compute. reflexivity. Qed.

(** decimal(60,25): 1.0000000000000001 and 1.0 are both the float64 1 *)
Definition w_dec_col (d : str) : column :=
  mkColumn [100]%N MY_DECIMAL ([100;101;99;105;109;97;108;40;54;48;44;50;53;41]%N ++ [US;US;US;US;US] ++ [49]%N ++ [US] ++ [49]%N) true (Some (DLit d)) None None.
Definition w_dec_a : str := [49;46;48;48;48;48;48;48;48;48;48;48;48;48;48;48;48;49]%N.
Definition w_dec_b : str := [49;46;48]%N.
Lemma w_dec_unreported t : mysql_column_change t (w_dec_col w_dec_a) (w_dec_col w_dec_b) = Some 0%N.
Proof. vm_compute. reflexivity. Qed.
