(** M-SCHEMA (C02): the schema graph the differ reads, and the string helpers
    of sql/internal/sqlx that the differ calls (MayWrap, ExprLastIndex,
    IsQuoted, Unquote, IsUint).  Self-contained; no proofs in this file.

    Restrictions of the model domain (the harness generator stays inside):
    - an attribute list holds at most one attribute of each Go type, so
      [sqlx.Has] (first attribute of a type) is an [option] field;
    - index-part expressions and defaults are [*schema.RawExpr]/[*schema.Literal];
    - names are ASCII;
    - [strconv.Unquote] on a double-quoted string is modelled for the fragment
      without backslash escapes (inner text has no backslash, no double quote, no
      newline -> the inner text; otherwise an error). *)
From Coq Require Import List NArith Bool Arith.
From Atlas Require Import Base.Bytes.
Import ListNotations.

Definition str := bytes.
Definition str_eqb (a b : str) : bool := bytes_eqb a b.

Definition ostr_eqb (a b : option str) : bool :=
  match a, b with
  | None, None => true
  | Some x, Some y => str_eqb x y
  | _, _ => false
  end.

Fixpoint strs_eqb (a b : list str) : bool :=
  match a, b with
  | [], [] => true
  | x :: a', y :: b' => str_eqb x y && strs_eqb a' b'
  | _, _ => false
  end.

(** ** schema graph *)
Inductive dflt := DLit (v : str) | DRaw (x : str).

Record column := mkColumn {
  c_name    : str;
  c_class   : N;      (* reflect.TypeOf(Type.Type): 0 = nil, 1 = *sqlite.UserDefinedType, >1 other Go types *)
  c_T       : str;    (* the T string of the type *)
  c_null    : bool;
  c_default : option dflt;
  c_gen     : option (str * str);  (* schema.GeneratedExpr{Expr, Type} *)
  c_comment : option str
}.

Record part := mkPart {
  p_seq  : N;
  p_desc : bool;
  p_col  : option str;    (* IndexPart.C (name of the column) *)
  p_expr : option str     (* IndexPart.X (RawExpr) .X *)
}.

Record index := mkIndex {
  i_name    : str;
  i_unique  : bool;
  i_parts   : list part;
  i_pred    : option str;   (* sqlite.IndexPredicate.P *)
  i_comment : option str;   (* schema.Comment.Text *)
  i_origin  : option str    (* sqlite.IndexOrigin.O *)
}.

Record fkey := mkFk {
  f_symbol   : str;
  f_cols     : list str;
  f_reftable : str;
  f_refcols  : list str;
  f_onupdate : str;
  f_ondelete : str
}.

Record check := mkCheck { k_name : str; k_expr : str }.

Record table := mkTable {
  t_name          : str;
  t_without_rowid : bool;
  t_strict        : bool;
  t_cols          : list column;
  t_pk            : option index;
  t_idx           : list index;
  t_fks           : list fkey;
  t_checks        : list check
}.

Record schema := mkSchema { s_name : str; s_tables : list table }.

Definition set_t_name (t : table) (n : str) : table :=
  mkTable n (t_without_rowid t) (t_strict t) (t_cols t) (t_pk t) (t_idx t) (t_fks t) (t_checks t).
Definition set_t_fks (t : table) (l : list fkey) : table :=
  mkTable (t_name t) (t_without_rowid t) (t_strict t) (t_cols t) (t_pk t) (t_idx t) l (t_checks t).
Definition set_t_idx (t : table) (l : list index) : table :=
  mkTable (t_name t) (t_without_rowid t) (t_strict t) (t_cols t) (t_pk t) l (t_fks t) (t_checks t).
Definition set_i_name (i : index) (n : str) : index :=
  mkIndex n (i_unique i) (i_parts i) (i_pred i) (i_comment i) (i_origin i).
Definition set_f_symbol (f : fkey) (s : str) : fkey :=
  mkFk s (f_cols f) (f_reftable f) (f_refcols f) (f_onupdate f) (f_ondelete f).

(** [Table.Column], [Table.Index], [Table.ForeignKey], [Schema.Table]: first match by name. *)
Definition find_col (n : str) (l : list column) : option column :=
  find (fun c => str_eqb (c_name c) n) l.
Definition find_fk (s : str) (l : list fkey) : option fkey :=
  find (fun f => str_eqb (f_symbol f) s) l.
Definition find_table (n : str) (l : list table) : option table :=
  find (fun t => str_eqb (t_name t) n) l.
(** position and value of the first index called [n] (the position stands for the pointer) *)
Fixpoint find_idx_from (k : nat) (n : str) (l : list index) : option (nat * index) :=
  match l with
  | [] => None
  | i :: l' => if str_eqb (i_name i) n then Some (k, i) else find_idx_from (S k) n l'
  end.
Definition find_idx (n : str) (l : list index) : option (nat * index) := find_idx_from 0 n l.

(** ** sqlx string helpers *)
Definition ch_lparen : N := 40.
Definition ch_rparen : N := 41.
Definition ch_comma  : N := 44.
Definition ch_bslash : N := 92.
Definition ch_squote : N := 39.
Definition ch_dquote : N := 34.
Definition ch_btick  : N := 96.
Definition ch_nl     : N := 10.
Definition ch_us     : N := 95.

Definition is_quote_ch (c : N) : bool :=
  N.eqb c ch_squote || N.eqb c ch_dquote || N.eqb c ch_btick.

(** [sqlx.ExprLastIndex]: [None] is Go's -1.  One structural pass; the inner
    "string or identifier" loop is the modes [QIn]/[QEsc]. *)
Inductive qmode := QNone | QIn (q : N) | QEsc (q : N).

Definition eli_post (i l r : nat) (rest : list N) : option (option nat) :=
  (* Some res = return res ; None = continue the loop *)
  if Nat.eqb l r && (match rest with [] => true | c :: _ => N.eqb c ch_comma end)
  then Some (Some i)
  else if Nat.ltb l r then Some None else None.

Fixpoint eli (s : list N) (i l r : nat) (m : qmode) : option nat :=
  match s with
  | [] => None
  | c :: s' =>
    match m with
    | QEsc q => eli s' (S i) l r (QIn q)
    | QIn q =>
        if N.eqb c ch_bslash then eli s' (S i) l r (QEsc q)
        else if N.eqb c q then
          match eli_post i l r s' with
          | Some res => res
          | None => eli s' (S i) l r QNone
          end
        else eli s' (S i) l r (QIn q)
    | QNone =>
        if is_quote_ch c then eli s' (S i) l r (QIn c)
        else
          let l' := if N.eqb c ch_lparen then S l else l in
          let r' := if N.eqb c ch_rparen then S r else r in
          match eli_post i l' r' s' with
          | Some res => res
          | None => eli s' (S i) l' r' QNone
          end
    end
  end.

Definition expr_last_index (s : str) : option nat := eli s 0 0 0 QNone.

(** [balanced]: ExprLastIndex(expr) == len(expr)-1 (so the empty string is balanced). *)
Definition balanced (s : str) : bool :=
  match expr_last_index s with
  | None => Nat.eqb (length s) 0
  | Some i => Nat.eqb (S i) (length s)
  end.

Definition may_wrap (s : str) : str :=
  match s with
  | a :: rest =>
      match rev rest with
      | z :: mid_rev =>
          if N.eqb a ch_lparen && N.eqb z ch_rparen && balanced (rev mid_rev) then s
          else ch_lparen :: s ++ [ch_rparen]
      | [] => ch_lparen :: s ++ [ch_rparen]
      end
  | [] => [ch_lparen; ch_rparen]
  end.

(** [sqlx.IsQuoted(s, q)] for one quote byte.  [isq_scan] is the loop
    [for i := 1; i < last-1; i++] run on [s[i..last]]. *)
Fixpoint isq_scan (q : N) (l : list N) : bool :=
  match l with
  | c :: ((n :: ((_ :: _) as l'')) as l') =>
      if N.eqb c ch_bslash || (N.eqb c q && N.eqb n q) then isq_scan q l''
      else if N.eqb c q then false
      else isq_scan q l'
  | _ => true
  end.

Definition is_quoted (s : str) (q : N) : bool :=
  match s with
  | a :: ((_ :: _) as t) => N.eqb a q && N.eqb (last t 0%N) q && isq_scan q t
  | _ => false
  end.

(** strings.ReplaceAll(x, "''", "'") *)
Fixpoint replace_qq (l : list N) : list N :=
  match l with
  | a :: ((b :: l'') as l') =>
      if N.eqb a ch_squote && N.eqb b ch_squote then ch_squote :: replace_qq l''
      else a :: replace_qq l'
  | _ => l
  end.

Definition inner (s : str) : str := removelast (tl s).

(** strconv.Unquote on a double-quoted string, escape-free fragment (see header). *)
Definition strconv_unquote_dq (s : str) : option str :=
  let x := inner s in
  if existsb (fun c => N.eqb c ch_bslash || N.eqb c ch_dquote || N.eqb c ch_nl) x then None
  else Some x.

(** [sqlx.Unquote]: [None] = error. *)
Definition unquote (s : str) : option str :=
  if is_quoted s ch_dquote then strconv_unquote_dq s
  else if is_quoted s ch_squote then Some (replace_qq (inner s))
  else Some s.

Definition is_digit (c : N) : bool := N.leb 48 c && N.leb c 57.
(** [sqlx.IsUint] (ASCII) *)
Definition is_uint (s : str) : bool := forallb is_digit s.

Fixpoint has_prefix (p s : str) : option str :=   (* Some rest = strings.TrimPrefix when HasPrefix *)
  match p, s with
  | [], _ => Some s
  | a :: p', b :: s' => if N.eqb a b then has_prefix p' s' else None
  | _ :: _, [] => None
  end.

(** [strconv.ParseInt(s, 10, 64)] restricted to what the callers ask: is the
    result a valid int64 that is > 0 ? *)
Fixpoint digits_val (acc : N) (s : str) : option N :=
  match s with
  | [] => Some acc
  | c :: s' => if is_digit c then digits_val (acc * 10 + (c - 48)) s' else None
  end.
Definition parse_int_pos (s : str) : bool :=
  let body := match s with
              | c :: s' => if N.eqb c 43 (* + *) then Some s' else if N.eqb c 45 (* - *) then None else Some s
              | [] => None
              end in
  match body with
  | Some (c :: b') =>
      match digits_val 0 (c :: b') with
      | Some v => N.ltb 0 v && N.leb v 9223372036854775807
      | None => false
      end
  | _ => false
  end.

Fixpoint join_us (l : list str) : str :=
  match l with
  | [] => []
  | [x] => x
  | x :: l' => x ++ ch_us :: join_us l'
  end.

(** ChangeKind bits (sql/schema/migrate.go) *)
Definition ChangeAttr : N := 1.
Definition ChangeCharset : N := 2.
Definition ChangeCollate : N := 4.
Definition ChangeComment : N := 8.
Definition ChangeNull : N := 16.
Definition ChangeType : N := 32.
Definition ChangeDefault : N := 64.
Definition ChangeGenerated : N := 128.
Definition ChangeUnique : N := 256.
Definition ChangeParts : N := 512.
Definition ChangeColumn : N := 1024.
Definition ChangeRefColumn : N := 2048.
Definition ChangeRefTable : N := 4096.
Definition ChangeUpdateAction : N := 8192.
Definition ChangeDeleteAction : N := 16384.

Definition bit (b : bool) (k : N) : N := if b then k else 0%N.
