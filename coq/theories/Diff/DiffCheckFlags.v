(** M-SCHEMA (C02), round 5: CHECK constraints with their dialect flag -- MySQL [NOT] ENFORCED
    (mysql.Enforced; sql/mysql/diff_oss.go: enforced(), a check is enforced unless stated
    otherwise) and PostgreSQL NO INHERIT (postgres.NoInherit) -- which the extra comparison of
    TableAttrDiff hands to sqlx.CheckDiffMode:
        mysql:    enforced(c1.Attrs) == enforced(c2.Attrs)
        postgres: sqlx.Has(c1.Attrs, &NoInherit{}) == sqlx.Has(c2.Attrs, &NoInherit{})
    [Diff/Schema.v: check] has no flag, so flagged checks are a record of their own and
    [checks_diff_x] repeats sqlx.ChecksDiff (DiffModel.v: checks_diff) over them.  A table with
    flagged checks is a [table_xk]: the [table_x] of DiffTableAttrs.v whose inner table lists no
    checks, plus the flagged ones.  No proofs in this file. *)
From Coq Require Import List NArith Bool Arith.
From Atlas Require Import Base.Bytes Diff.Schema Diff.DiffModel Diff.DiffSqlite Diff.DiffDialects
  Diff.DiffMysqlVariants Diff.DiffRealm Diff.DiffTableAttrs.
Import ListNotations.

Record check_x := mkCheckX {
  kx_name : str;
  kx_expr : str;
  kx_flag : bool     (* mysql: enforced(attrs); postgres: NO INHERIT present *)
}.

(** the compare function CheckDiffMode builds in normalized mode from the driver's extra one *)
Definition check_compare_x (c1 c2 : check_x) : bool :=
  if negb (Bool.eqb (kx_flag c1) (kx_flag c2)) then false
  else str_eqb (kx_expr c1) (kx_expr c2) || str_eqb (may_wrap (kx_expr c1)) (may_wrap (kx_expr c2)).

(** [compareTo] of ChecksDiff *)
Definition check_compare_to_x (c1 c2 : check_x) : bool :=
  if negb (str_eqb (kx_name c1) []) && negb (str_eqb (kx_name c2) [])
  then str_eqb (kx_name c1) (kx_name c2)
  else check_compare_x c1 c2.

(** [sqlx.ChecksDiff] *)
Definition checks_diff_x (fromC toC : list check_x) : list change :=
  flat_map (fun c1 =>
    match find (check_compare_to_x c1) toC with
    | None => [DropCheck (kx_name c1) (kx_expr c1)]
    | Some c2 => if negb (check_compare_x c1 c2)
                 then [ModifyCheck (kx_name c1) (kx_expr c1) (kx_name c2) (kx_expr c2)] else []
    end) fromC
  ++
  flat_map (fun c1 =>
    if existsb (check_compare_to_x c1) fromC then [] else [AddCheck (kx_name c1) (kx_expr c1)]) toC.

Record table_xk := mkTableXK { xk_table : table_x; xk_checks : list check_x }.

(** mysql: the check part of [TableAttrDiff]: an error on a server without CHECK support when
    the desired table has one; the DropCheck of a generated json_valid check is suppressed while
    its column exists *)
Definition mysql_checks_x (v : mysql_variant) (from to : table_xk) : option (list change) :=
  if negb (mv_check v) && negb (Nat.eqb (length (xk_checks to)) 0) then None
  else Some (filter (fun c =>
          match c with
          | DropCheck n e =>
              match has_prefix JSON_VALID e with
              | Some _ => match find_col n (t_cols (tx_table (xk_table to))) with Some _ => false | None => true end
              | None => true
              end
          | _ => true
          end) (checks_diff_x (xk_checks from) (xk_checks to))).

Definition pg_checks_x (from to : table_xk) : option (list change) :=
  Some (checks_diff_x (xk_checks from) (xk_checks to)).

Section TableXK.
Variable D : DiffDriver.
Variable TA : option str -> option str -> table_x -> table_x -> option (list change).
Variable KD : table_xk -> table_xk -> option (list change).
Variable skip : tag -> bool.

(** [Diff.tableDiff]: TableAttrDiff = attribute changes ++ check changes, then the rest *)
Definition table_diff_xk (pcs pco : option str) (from to : table_xk) : option (list change) :=
  match TA pcs pco (xk_table from) (xk_table to), KD from to,
        table_diff D skip (tx_table (xk_table from)) (tx_table (xk_table to)) with
  | Some a, Some k, Some r => Some (a ++ k ++ r)
  | _, _, _ => None
  end.

Definition TableDiffXK (pcs pco : option str) (from to : table_xk) : option (list change) :=
  if negb (str_eqb (tx_name (xk_table from)) (tx_name (xk_table to))) then None
  else table_diff_xk pcs pco from to.
End TableXK.

Definition mysql_table_diff_xk (v : mysql_variant) :=
  TableDiffXK (mysql_driver_v v) mysql_table_attrs_x (mysql_checks_x v).
Definition pg_table_diff_xk (ns : str) :=
  TableDiffXK (pg_driver_ns ns) pg_table_attrs_x pg_checks_x.
